#!/bin/bash
# tools/verify_seed.sh <dir with patch.diff demo.py meta.json> <PID> <name>
# Confirms a seeded change (suite same pass/fail set; demo 0 without / 1 with), runs the property's quick check against
# it from an isolated worktree of /verif (/root/wt/seedcheck), and records the outcome in /verif/seeded/<name>/.
set -u
SRC="$1"; PID="$2"; NAME="$3"
V=/verif; SC=${SEEDCHECK:-/root/wt/seedcheck}; WT=/tmp/vs_$NAME
PY=/venv/bin/python
SUITE="-m pytest -q -p no:cacheprovider --timeout=900 --continue-on-collection-errors"
if [ ! -d $SC ]; then git -C $V worktree add -q $SC -b wt-$(basename $SC); fi
if [ ! -d $SC/lean/.lake ] && [ -d $V/lean/.lake ]; then cp -r $V/lean/.lake $SC/lean/.lake; fi
git -C $SC merge --abort >/dev/null 2>&1; git -C $SC reset -q --hard main; git -C $SC clean -qfd -e lean/.lake
(cd $SC && ./setup.sh >/dev/null 2>&1)
git -C /repo worktree add -q $WT HEAD || exit 2
BASE=/tmp/baseline_failset_$(git -C /repo rev-parse --short HEAD).txt
# one writer at a time (several slots may start together); write to a temporary name and rename
( flock 9; if [ ! -s $BASE ]; then (cd $WT && PYTHONPATH=$WT/src $PY $SUITE 2>&1 | grep -E "^(FAILED|ERROR)" | sed 's/ - .*//' | sort > $BASE.tmp.$$) && mv $BASE.tmp.$$ $BASE; fi ) 9>/tmp/baseline_failset.lock
DEMO0=$(cd $WT && PYTHONPATH=$WT/src timeout 600 $PY $SRC/demo.py >/tmp/vs_demo0_$NAME.txt 2>&1; echo $?)
if ! git -C $WT apply $SRC/patch.diff; then echo "PATCH DOES NOT APPLY"; git -C /repo worktree remove --force $WT; exit 2; fi
(cd $WT && PYTHONPATH=$WT/src $PY $SUITE 2>&1 | grep -E "^(FAILED|ERROR)" | sed 's/ - .*//' | sort > /tmp/vs_fail_$NAME.txt)
if diff -q $BASE /tmp/vs_fail_$NAME.txt >/dev/null; then SUITE_SAME=true; else SUITE_SAME=false; fi
DEMO1=$(cd $WT && PYTHONPATH=$WT/src timeout 600 $PY $SRC/demo.py >/tmp/vs_demo1_$NAME.txt 2>&1; echo $?)
(cd $SC && DATEUTIL_REPO=$WT timeout 3000 ./check $PID --tier quick > /tmp/vs_check_$NAME.txt 2>&1); RC=$?
VLINE=$(grep -m1 "^VIOLATION" /tmp/vs_check_$NAME.txt)
REPLAYF=$(echo "$VLINE" | sed -n 's/.*replay=\([^ ]*\).*/\1/p')
WHAT=""
if [ -n "$REPLAYF" ] && [ -f $SC/$REPLAYF ]; then WHAT=$(python3 -c "
import json,sys
d=json.load(open('$SC/$REPLAYF'))
v=d.get('violation') or {}
print((v.get('what') or ('; '.join(d.get('broken_obligations',[])[:2]) + ' | ' + str((d.get('correspondence_mismatches') or [{}])[0])[:300]))[:500])
"); fi
# restore the seedcheck worktree's generated files
(cd $SC && git checkout -q -- lean/DateutilVerif/Generated 2>/dev/null)
git -C /repo worktree remove --force $WT
mkdir -p $V/seeded/$NAME
[ "$(readlink -f $SRC)" = "$(readlink -f $V/seeded/$NAME)" ] || cp $SRC/patch.diff $SRC/demo.py $V/seeded/$NAME/
python3 - "$SRC/meta.json" "$V/seeded/$NAME/meta.json" "$PID" "$SUITE_SAME" "$DEMO0" "$DEMO1" "$RC" "$VLINE" "$WHAT" <<'PYEOF'
import json, sys
src, dst, pid, same, d0, d1, rc, vline, what = sys.argv[1:10]
try: m = json.load(open(src))
except Exception: m = {}
import os
prev = None
if os.path.exists(dst):
    try: prev = json.load(open(dst))
    except Exception: prev = None
out = {"property": pid, "summary": m.get("summary"), "needs": m.get("needs"),
       "confirmed": {"suite_same_pass_fail_set_as_baseline": same == "true", "demo_exit_unmodified": int(d0), "demo_exit_modified": int(d1)},
       "what_i_ran": ["scratch worktree of /repo HEAD + git apply patch.diff", "baseline suite command with PYTHONPATH=<scratch>/src: failing-test-id set compared with the unmodified tree",
                      "demo.py against both trees", "DATEUTIL_REPO=<scratch> ./check %s --tier quick from an isolated worktree of /verif" % pid],
       "check": {"exit": int(rc), "violation_line": vline, "first_failure": what,
                 "caught": int(rc) == 1, "with_failing_input": int(rc) == 1 and "no-failing-input-found" not in vline}}
# keep the history: a seed missed (or caught only as no-failing-input-found) by an earlier version of the check stays recorded
hist = (prev or {}).get("earlier_runs", [])
if prev and prev.get("check") and (prev["check"].get("caught") != out["check"]["caught"] or prev["check"].get("with_failing_input") != out["check"]["with_failing_input"]):
    hist = hist + [{"caught": prev["check"].get("caught"), "with_failing_input": prev["check"].get("with_failing_input"), "violation_line": prev["check"].get("violation_line")}]
if hist:
    out["earlier_runs"] = hist
if (prev or {}).get("patch_rebased") or m.get("patch_rebased"):
    out["patch_rebased"] = (prev or {}).get("patch_rebased") or m.get("patch_rebased")
json.dump(out, open(dst, "w"), indent=1)
print(json.dumps(out["confirmed"]), json.dumps(out["check"])[:600])
PYEOF
