#!/bin/bash
# tools/merge_branch.sh <name>: merge wt-<name> into the current branch; regenerate the assembled files; refuse to
# commit while any conflict (or conflict marker) is left.
cd "$(dirname "$0")/.."
b="wt-$1"
git merge "$b" -m "Merge branch '$b'" 2>&1 | tail -1
if ! tools/resolve_generated.sh | tail -2; then echo "NOT COMMITTED: resolve by hand, then git add -A && git commit"; exit 1; fi
git add -A
if git grep -l -E '^(<<<<<<<|>>>>>>>) ' -- . ':!reviews' ':!tools' >/dev/null 2>&1; then echo "NOT COMMITTED: conflict markers left"; exit 1; fi
git commit -qm "Merge branch '$b'" && echo "merged $b"
