#!/usr/bin/env python3
"""tools/verify_many.py <slots> <src-root> NAME[:PID] ...
Run tools/verify_seed.sh for several seeded changes in parallel, one isolated /verif worktree
(/root/wt/seedcheck<k>) per slot.  NAME = e.g. C08F (property = first three characters unless given)."""
import subprocess, sys, threading, queue, os

def main():
    slots = int(sys.argv[1]); root = sys.argv[2]; names = sys.argv[3:]
    q = queue.Queue()
    for n in names:
        name, _, pid = n.partition(":")
        q.put((name, pid or name[:3]))
    lock = threading.Lock()
    def worker(k):
        env = dict(os.environ, SEEDCHECK="/root/wt/seedcheck%d" % (k + int(os.environ.get("SLOT_BASE", "0"))))
        while True:
            try: name, pid = q.get_nowait()
            except queue.Empty: return
            src = os.path.join(root, name)
            p = subprocess.run(["/verif/tools/verify_seed.sh", src, pid, name], env=env, capture_output=True, text=True)
            with lock:
                print("== %s (%s) rc=%s\n%s" % (name, pid, p.returncode, (p.stdout + p.stderr)[-900:]), flush=True)
    ts = [threading.Thread(target=worker, args=(k,)) for k in range(slots)]
    for t in ts: t.start()
    for t in ts: t.join()

if __name__ == "__main__":
    main()
