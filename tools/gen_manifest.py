#!/usr/bin/env python3
"""Assemble MANIFEST.json from manifest.d/Cxx.json fragments (one per claimed property)
and regenerate lean/Driver.lean's handler list and lean/DateutilVerif.lean's import list.
Run from /verif after adding a property."""
import json, os, glob, re
V = os.path.dirname(os.path.dirname(os.path.abspath(__file__)))
props = [json.loads(l) for l in open(os.path.join(V, "properties.jsonl"))]
frags = {}
for f in sorted(glob.glob(os.path.join(V, "manifest.d", "C*.json"))):
    d = json.load(open(f)); frags[d["property_id"]] = d
na = json.load(open(os.path.join(V, "manifest.d", "not_applicable.json")))
checks = []
for p in props:
    pid = p["id"]
    if pid in frags:
        d = frags[pid]
        checks.append({
            "property_id": pid,
            "quick_cmd": "./check %s --tier quick" % pid,
            "thorough_cmd": "./check %s --tier thorough" % pid,
            "evidence_file": "evidence/%s.json" % pid,
            "replay_cmd_template": "./check %s --replay {path}" % pid,
            "engine": "lean4-proof+correspondence",
            "level_claimed": {"category": "proof", "text": d["level_text"], "design_ref": d.get("design_ref", "DESIGN.md §4 %s" % pid)},
            "level_note": d["level_note"],
            "technique": d["technique"],
        })
man = {
    "version": 1,
    "setup_cmd": "./setup.sh",
    "hooks": {
        "guard": "DATEUTIL_VERIF",
        "enable": "no source hooks are needed: checks import /repo/src directly (PYTHONPATH) and schedule threads through sys.settrace and instance-level lock substitution",
        "baseline_off_cmd": "cd /repo && /venv/bin/python -m pytest -ra -q -p no:cacheprovider --timeout=900 --continue-on-collection-errors",
        "source_commits": [],
        "add_only": True,
    },
    "engines": [{
        "name": "lean4-proof+correspondence", "path": "lean/ + harness/",
        "serves_properties": [c["property_id"] for c in checks],
        "kind_free_text": "Lean 4 theorems about a model (translated from source for integer kernels and tables, hand-written otherwise) + per-run correspondence check model<->implementation through a compiled Lean driver + direct oracle sweep of the implementation against the Lean spec",
    }],
    "checks": checks,
    "notes": "See DESIGN.md. Every check: regenerate Generated/*.lean from /repo, lake build, #print axioms audit, correspondence, oracle sweep; VIOLATION / KNOWN-FINDING protocol per DESIGN §2.6; known_findings.json is committed and never written at run time.",
    "not_applicable": [e for e in na if e["property_id"] not in frags],
}
json.dump(man, open(os.path.join(V, "MANIFEST.json"), "w"), indent=1)
# Driver handler list + library root imports
ops = sorted(os.path.basename(f)[:-5] for f in glob.glob(os.path.join(V, "lean", "DateutilVerif", "Ops", "*.lean")))
drv = open(os.path.join(V, "lean", "Driver.lean")).read()
imports = "".join("import DateutilVerif.Ops.%s\n" % o for o in ops)
handlers = "def handlers : List (String → List String → Option String) :=\n  [%s]\n" % ", ".join("Ops.%s.handle" % o for o in ops)
drv = re.sub(r"(?:import DateutilVerif\.Ops\.\w+\n)+", imports, drv, count=1)
drv = re.sub(r"def handlers : .*?\n  \[.*?\]\n", handlers, drv, count=1, flags=re.S)
open(os.path.join(V, "lean", "Driver.lean"), "w").write(drv)
mods = []
for root, _, files in os.walk(os.path.join(V, "lean", "DateutilVerif")):
    for fn in sorted(files):
        if fn.endswith(".lean"):
            rel = os.path.relpath(os.path.join(root, fn), os.path.join(V, "lean"))[:-5].replace("/", ".")
            mods.append(rel)
open(os.path.join(V, "lean", "DateutilVerif.lean"), "w").write("".join("import %s\n" % m for m in sorted(mods)))
# known_findings.json from fragments (development-time assembly; never written by a check)
kf = {"_comment": "Committed, never written at run time. 'known' entries name a call site, a decidable input class (matcher in harness/props/<prop>.py KNOWN[id]) and one witness; a failure of the property outside every listed class is a VIOLATION. 'fixed' entries suppress nothing.",
      "fixed": [], "findings": []}
for f in sorted(glob.glob(os.path.join(V, "known_findings.d", "*.json"))):
    d = json.load(open(f))
    kf["fixed"] += d.get("fixed", [])
    kf["findings"] += d.get("findings", [])
json.dump(kf, open(os.path.join(V, "known_findings.json"), "w"), indent=1)
print("MANIFEST: %d checks, %d not_applicable; driver ops: %s; %d modules" % (len(checks), len(man["not_applicable"]), ops, len(mods)))
