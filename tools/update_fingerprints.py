#!/usr/bin/env python3
"""Development-time: record the AST fingerprints of every anchored source file of /repo's HEAD tree
in harness/fingerprints.json (a check only READS that file; a differing fingerprint widens its generators)."""
import json, os, sys
V = os.path.dirname(os.path.dirname(os.path.abspath(__file__)))
sys.path.insert(0, os.path.join(V, "harness"))
import vlib
files = set()
for l in open(os.path.join(V, "properties.jsonl")):
    files.update(json.loads(l)["anchors"]["files"])
fps = {f: vlib.ast_fingerprint(os.path.join(vlib.REPO, f)) for f in sorted(files)}
json.dump(fps, open(os.path.join(V, "harness", "fingerprints.json"), "w"), indent=1)
print(json.dumps(fps, indent=1))
