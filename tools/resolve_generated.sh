#!/bin/bash
# after `git merge` conflicts in generated files: take ours, regenerate, stage
cd "$(dirname "$0")/.."
for f in MANIFEST.json known_findings.json lean/Driver.lean lean/DateutilVerif.lean; do
  git checkout --ours -- "$f" 2>/dev/null
done
python3 tools/gen_manifest.py
git add MANIFEST.json known_findings.json lean/Driver.lean lean/DateutilVerif.lean
