#!/bin/bash
# after `git merge` conflicts in generated files: take ours, regenerate, stage
cd "$(dirname "$0")/.."
for f in MANIFEST.json known_findings.json lean/Driver.lean lean/DateutilVerif.lean; do
  git checkout --ours -- "$f" 2>/dev/null
done
# evidence files are rewritten by every run: take the incoming version on conflict
for f in $(git diff --name-only --diff-filter=U -- evidence 2>/dev/null); do git checkout --theirs -- "$f" 2>/dev/null && git add "$f"; done
python3 tools/gen_manifest.py
git add MANIFEST.json known_findings.json lean/Driver.lean lean/DateutilVerif.lean
# anything still unmerged is a real conflict: say so loudly (do not commit over it)
LEFT=$(git diff --name-only --diff-filter=U)
MARK=$(git grep -l -E '^(<<<<<<<|>>>>>>>) ' -- . ':!reviews' ':!tools/resolve_generated.sh' 2>/dev/null)
if [ -n "$LEFT$MARK" ]; then echo "UNRESOLVED CONFLICTS: $LEFT $MARK"; exit 1; fi
