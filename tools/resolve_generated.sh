#!/bin/bash
# after `git merge` conflicts in generated files: take ours, regenerate, stage
cd "$(dirname "$0")/.."
for f in MANIFEST.json known_findings.json lean/Driver.lean lean/DateutilVerif.lean; do
  git checkout --ours -- "$f" 2>/dev/null
done
# evidence files are rewritten by every run: take the incoming version on conflict
for f in $(git diff --name-only --diff-filter=U -- evidence 2>/dev/null); do git checkout --theirs -- "$f" 2>/dev/null && git add "$f"; done
# the list of repaired defects is appended to by every branch: take the union (ours first, then their new lines)
if git diff --name-only --diff-filter=U | grep -q '^known_findings.d/00-fixed.json$'; then
  python3 - <<'PYEOF'
import json, subprocess
def stage(n):
    return json.loads(subprocess.run(["git", "show", ":%d:known_findings.d/00-fixed.json" % n], capture_output=True, text=True, check=True).stdout)
ours, theirs = stage(2), stage(3)
out = dict(ours)
out["fixed"] = ours["fixed"] + [x for x in theirs["fixed"] if x not in ours["fixed"]]
json.dump(out, open("known_findings.d/00-fixed.json", "w"), indent=1, ensure_ascii=False)
open("known_findings.d/00-fixed.json", "a").write("\n")
PYEOF
  git add known_findings.d/00-fixed.json
fi
# generated documents: take ours, they are rewritten below / by the integrator
for f in STATUS.md COVERAGE.md DESIGN.md harness/fingerprints.json; do
  if git diff --name-only --diff-filter=U | grep -q "^$f\$"; then git checkout --ours -- "$f" && git add "$f"; fi
done
python3 tools/gen_manifest.py
python3 tools/gen_status.py >/dev/null 2>&1; git add STATUS.md DESIGN.md 2>/dev/null
git add MANIFEST.json known_findings.json lean/Driver.lean lean/DateutilVerif.lean
# anything still unmerged is a real conflict: say so loudly (do not commit over it)
LEFT=$(git diff --name-only --diff-filter=U)
MARK=$(git grep -l -E '^(<<<<<<<|>>>>>>>) ' -- . ':!reviews' ':!tools/resolve_generated.sh' 2>/dev/null)
if [ -n "$LEFT$MARK" ]; then echo "UNRESOLVED CONFLICTS: $LEFT $MARK"; exit 1; fi
