#!/usr/bin/env python3
"""tools/splice_design.py — rebuild §0 of DESIGN.md from tools/design0.md, filling in the counts that come from
the repository itself (fix commits, known findings, audited obligations, seeded-change verdicts), then let
tools/gen_status.py write the seeded table and STATUS.md."""
import json, glob, os, re, subprocess, sys
V = os.path.dirname(os.path.dirname(os.path.abspath(__file__)))

def main():
    t = open(os.path.join(V, "tools", "design0.md")).read()
    k = json.load(open(os.path.join(V, "known_findings.json")))
    t = t.replace("FIXCOUNT", str(len(k["fixed"])))
    seen, lines = set(), []
    for f in k["findings"]:
        if f["id"] in seen:
            continue
        seen.add(f["id"])
        props = sorted({g["property"] for g in k["findings"] if g["id"] == f["id"]})
        what = f["what"].strip()
        what = what if len(what) <= 230 else what[:227].rsplit(" ", 1)[0] + " …"
        lines.append("  * %s `%s` — %s" % ("/".join(props), f["id"], what))
    t = t.replace("  KNOWNLIST", "\n".join(lines))
    total = 0
    for i in range(1, 21):
        p = "C%02d" % i
        n = len(re.findall(r"^#print axioms", open(os.path.join(V, "lean", "DateutilVerif", "Audit", p + ".lean")).read(), re.M))
        total += n
        t = t.replace("OBL_" + p, str(n))
    t = t.replace("OBLTOTAL", str(total))
    tot = inp = nofail = 0; missed = []; improved = 0
    for f in sorted(glob.glob(os.path.join(V, "seeded", "*", "meta.json"))):
        m = json.load(open(f)); c = m["check"]; tot += 1
        if c.get("with_failing_input"): inp += 1
        elif c.get("caught"): nofail += 1
        else: missed.append(os.path.basename(os.path.dirname(f)))
        if m.get("earlier_runs"): improved += 1
    s = ("Totals over %d confirmed changes with the checks as committed: %d caught with a failing input as replay, %d caught as "
         "`no-failing-input-found` (a named obligation or the correspondence broke, the search found no input), %d not caught%s. "
         "%d of them were missed or caught without an input by an earlier version of the check and led to the strengthening "
         "listed below." % (tot, inp, nofail, len(missed), (" (" + ", ".join(missed) + ")") if missed else "", improved))
    t = t.replace("SEEDSUMMARY", s)
    d = open(os.path.join(V, "DESIGN.md")).read()
    a = d.index("## 0. Status of the build")
    b = d.index("## 1. Approach")
    d = d[:a] + t.rstrip("\n") + "\n\n\n" + d[b:]
    open(os.path.join(V, "DESIGN.md"), "w").write(d)
    subprocess.run([sys.executable, os.path.join(V, "tools", "gen_status.py")], check=True)

if __name__ == "__main__":
    main()
