/- Ops/RRuleStr.lean — driver ops for the rrulestr / rrule.__str__ model (C13). -/
import DateutilVerif.Base.Wire
import DateutilVerif.Model.RRuleStr

namespace Ops.RRuleStr
open Wire _root_.RRuleStr

def hexL (l : List Char) : String := showHexString (String.ofList l)

def showOptList : Option (List Int) → String
  | none => "-"
  | some l => showIntList l

def showWDays : Option (List WDay) → String
  | none => "-"
  | some l => "[" ++ ",".intercalate (l.map (fun w => s!"{w.1}/{showOptInt w.2}")) ++ "]"

def showPo (po : ParseOpts) : String := s!"|i{showBool po.ignoretz}t{showBool po.tzinfos}"

/-- a date value and the options its `parser.parse` call gets (`ignoretz` makes a `Z` value naive; a resolved TZID makes it aware) -/
def showDateTz (txt : List Char) (po : ParseOpts) (tzid : Option (List Char)) : String :=
  match parseCompact txt with
  | .compact y m d hh mm ss z => s!"c:{y},{m},{d},{hh},{mm},{ss},{showBool ((z && !po.ignoretz) || tzid.isSome)}" ++ showPo po ++
      (match tzid with | some n => "+tzid=" ++ hexL n | none => "")
  | .other _ => "o"

def showDate (txt : List Char) (po : ParseOpts) : String := showDateTz txt po none

def showArgs (a : RArgs) : String :=
  " ".intercalate [showOptInt a.freq, showOptInt a.interval, showOptInt a.count, showOptInt a.wkst,
    (match a.untilV with | none => "-" | some u => showDate u.1 u.2),
    showOptList a.bysetpos, showOptList a.bymonth, showOptList a.bymonthday, showOptList a.byyearday,
    showOptList a.byeaster, showOptList a.byweekno, showWDays a.byweekday, showOptList a.byhour,
    showOptList a.byminute, showOptList a.bysecond]

/-- the start every rule is built with: the DTSTART line's value, else the `dtstart=` keyword; `tz` = `tzidOf text opts` -/
def showDtstart (kw : Bool) (tz : List (List Char) → Option (List Char)) : Option DateV → String
  | none => if kw then "kw" else "-"
  | some (v, parms, po) => showDateTz v po (tz parms)

def showParsed (kw : Bool) (tz : List (List Char) → Option (List Char)) : Parsed → String
  | .rule a dt cache => "rule " ++ showDtstart kw tz dt ++ " cache=" ++ showBool cache ++ " {" ++ showArgs a ++ "}"
  | .set rr ex rd exd dt rdd cache =>
      "set " ++ showDtstart kw tz dt ++ " " ++ showBool rdd ++ " cache=" ++ showBool cache ++
      " rr=" ++ "|".intercalate (rr.map (fun a => "{" ++ showArgs a ++ "}")) ++
      " ex=" ++ "|".intercalate (ex.map (fun a => "{" ++ showArgs a ++ "}")) ++
      " rd=" ++ Py.showList (fun p => showDate p.1 p.2) rd ++ " exd=" ++ Py.showList (fun p => showDateTz p.1 p.2.2 (tz p.2.1)) exd

def parseWDays? (s : String) : Option (Option (List WDay)) :=
  if s == "-" then some none else
  if s == "[]" then some (some []) else
  let inner := String.ofList ((s.toList.drop 1).dropLast)
  ((inner.splitOn ",").mapM (fun (t : String) => match t.splitOn "/" with
    | [(w : String), n] => do some ((← w.toInt?), (← parseOptInt? n))
    | _ => none)).map some

def optList? (s : String) : Option (Option (List Int)) := if s == "-" then some none else (parseIntList? s).map some

def six? (s : String) : Option (Option (Nat × Nat × Nat × Nat × Nat × Nat)) :=
  if s == "-" then some none else
  match (s.splitOn ",").mapM (·.toNat?) with
  | some [a, b, c, d, e, f] => some (some (a, b, c, d, e, f))
  | _ => none

def handle (op : String) (args : List String) : Option String :=
  match op, args with
  | "rrs.parse", [o, h] => do
      -- o = flags unfold/forceset/compatible/dtstart-keyword/ignoretz/tzinfos/cache, e.g. "0010100"
      let s ← parseHexString? h
      let f := o.toList.map (· == '1')
      let opts : Opts := { unfold := f.getD 0 false, forceset := f.getD 1 false, compatible := f.getD 2 false,
                           ignoretz := f.getD 4 false, tzinfos := f.getD 5 false, cache := f.getD 6 false }
      some (Py.showR (showParsed (f.getD 3 false) (tzidOf s.toList opts)) (parseRfc s.toList opts (f.getD 3 false)))
  | "rrs.line", [h] => do
      let s ← parseHexString? h
      some (Py.showR showArgs (parseRRuleLine {} (ICal.upper s.toList)))
  | "rrs.compact", [h] => do
      let s ← parseHexString? h
      some (match parseCompact s.toList with
        | .compact y m d hh mm ss z => s!"ok {y} {m} {d} {hh} {mm} {ss} {showBool z}"
        | .other _ => "other")
  | "rrs.str", [dt, freq, interval, wkst, count, untl, bysetpos, bymonth, bymonthday, byyearday, byeaster, byweekno,
                byweekday, byhour, byminute, bysecond, fwd] => do
      -- fwd = `calendar.firstweekday()` at the time of the `str()` call
      let x : StrIn := {
        fwd := ← parseInt? fwd,
        dtstart := ← six? dt, freq := ← freq.toNat?, interval := ← parseInt? interval, wkst := ← parseInt? wkst,
        count := ← parseOptInt? count, untilV := ← six? untl,
        orig := { bysetpos := ← optList? bysetpos, bymonth := ← optList? bymonth, bymonthday := ← optList? bymonthday,
                  byyearday := ← optList? byyearday, byeaster := ← optList? byeaster, byweekno := ← optList? byweekno,
                  byweekday := ← parseWDays? byweekday, byhour := ← optList? byhour, byminute := ← optList? byminute,
                  bysecond := ← optList? bysecond } }
      some ("ok " ++ hexL (toStr x))
  | _, _ => none

end Ops.RRuleStr
