/-
  Ops/RRuleGen.lean — driver ops running the functions TRANSLATED by harness/translate_rr.py
  (Generated/RRuleKernels.lean) for the per-run differential validation of the RrPy translator
  (harness/rrgenlib.py, called from the C01 correspondence).

    rrgen.byset <interval> <start> [byxxx] <base>      Gen.constructByset  → ok [sorted members] | err Kind
    rrgen.moddist <interval> <value> [byxxx] <base>    Gen.modDistance     → ok <acc> <value> | ok - | err Kind
    rrgen.rebuild <args17> <y> <m> <y> <m> …           Gen.rebuild called in this order on ONE fresh `_iterinfo`
                                                       (slots threaded: the lastyear / lastmonth caching is exercised)
                                                       → per call `;`-separated: the slots (see `showII`) or `!Kind` (stops)
    rrgen.dayset <args17> <y0> <m0> <kind 0..3> <y> <m> <d>
                                                       rebuild(y0, m0) on a fresh object, then ydayset / mdayset / wdayset /
                                                       ddayset (y, m, d) → ok <start> <end> [i:v,…  the non-None entries] | err Kind
    rrgen.timeset <args17> <kind 0..2> <h> <m> <s>     htimeset / mtimeset / stimeset → ok [h,m,s,…] | err Kind
    rrgen.initwhole <args17>                          Gen.init (the whole translated constructor) → ok <normalised rule, as rrule.construct> | err Kind
    rrgen.init <args17>                               the translated sections of rrule.__init__ (Gen.init_*) in source order:
                                                       ok bysetpos bymonth byyearday byeaster bymonthday(pos/neg) byweekno byweekday/bynweekday byhour byminute bysecond timeset | err Kind
                                                       (interval check first; bymonth / bymonthday through the defaults section)
  `<args17>` is the argument set of Ops/RRule.lean; the rule is the model's `construct` of it (compared with the
  implementation's normalised state by `rrule.construct` in the same correspondence).
-/
import DateutilVerif.Ops.RRule
import DateutilVerif.Generated.RRuleKernels

namespace Ops.RRuleGen
open Wire
open _root_.RRule

def ruleOfInterval (k : Int) : Rule := { (default : Rule) with interval := k }

/-- positions of the non-zero entries (`i` or `i=v` when the entry is not 1) behind the length -/
def showMask : Option (List Int) → String
  | none => "-"
  | some l =>
    let idx := l.zipIdx.filterMap fun (p : Int × Nat) =>
      if p.1 == 0 then none else if p.1 == 1 then some (toString p.2) else some s!"{p.2}={p.1}"
    s!"{l.length}:" ++ ",".intercalate idx

/-- a table mask by length and a position-weighted checksum -/
def showTable (l : List Int) : String :=
  let s := l.zipIdx.foldl (fun (acc : Int) (p : Int × Nat) => acc + ((p.2 : Int) + 1) * p.1) (0 : Int)
  s!"{l.length}/{s}"

def showII (s : RrPy.II) : String :=
  " ".intercalate [showOptInt s.lastyear, showOptInt s.lastmonth, toString s.yearlen, toString s.nextyearlen,
    toString s.yearordinal, toString s.yearweekday, showTable s.mmask, showTable s.mdaymask, showTable s.nmdaymask,
    showTable s.wdaymask, showIntList s.mrange, showMask s.wnomask, showMask s.nwdaymask, showMask s.eastermask]

def runRebuilds (r : Rule) : List Int → RrPy.II → List String → List String
  | y :: m :: rest, st, acc =>
    match Gen.rebuild r st y m with
    | .ok st' => runRebuilds r rest st' (showII st' :: acc)
    | .error e => (("!" ++ e.name) :: acc).reverse
  | _, _, acc => acc.reverse

def showSlots (l : List (Option Int)) : String :=
  ",".intercalate (l.zipIdx.filterMap fun (p : Option Int × Nat) =>
    match p.1 with
    | some v => some s!"{p.2}:{v}"
    | none => none)

def showDayset (x : Py.R (List (Option Int) × Int × Int)) : String :=
  match x with
  | .ok (d, s, e) => s!"ok {s} {e} {d.length} [{showSlots d}]"
  | .error e => "err " ++ e.name

def showTimes (x : Py.R (List HMS)) : String :=
  Py.showR (fun l => showIntList (l.flatMap fun t => [t.1, t.2.1, t.2.2])) x

/-- the translated sections of `rrule.__init__` in source order on an argument set; `~` where the section's input is the
    product of the (not yet translated) defaults block -/
def runInit (a : Args) : String :=
  let sec (x : Py.R (Option (List Int))) (k : Option (List Int) → String) : String :=
    match x with
    | .error e => "err " ++ e.name
    | .ok v => k v
  match Gen.init_interval a.interval with
  | .error e => "err " ++ e.name
  | .ok _ =>
  sec (Gen.init_bysetpos a.bysetpos) fun s1 =>
  match Gen.init_defaults a.freq a.dtstart a.bymonth a.bymonthday a.byyearday a.byeaster a.byweekno a.byweekday with
  | .error e => "err " ++ e.name
  | .ok (bm, bmd, bwd) =>
  sec (Gen.init_bymonth bm) fun s2 =>
  sec (Gen.init_byyearday a.byyearday) fun s3 =>
  sec (Gen.init_byeaster a.byeaster) fun s4 =>
  match Gen.init_bymonthday bmd with
  | .error e => "err " ++ e.name
  | .ok (p, n) =>
  sec (Gen.init_byweekno a.byweekno) fun s6 =>
  match Gen.init_byweekday a.freq bwd with
  | .error e => "err " ++ e.name
  | .ok (wd, nwd) =>
  sec (Gen.init_byhour a.freq a.dtstart a.interval a.byhour) fun s7 =>
  sec (Gen.init_byminute a.freq a.dtstart a.interval a.byminute) fun s8 =>
  sec (Gen.init_bysecond a.freq a.dtstart a.interval a.bysecond) fun s9 =>
  match Gen.init_timeset a.freq s7 s8 s9 with
  | .error e => "err " ++ e.name
  | .ok ts =>
  "ok " ++ " ".intercalate [Ops.RRule.showOL s1, Ops.RRule.showOL s2, Ops.RRule.showOL s3, Ops.RRule.showOL s4,
    showIntList p ++ "/" ++ showIntList n, Ops.RRule.showOL s6,
    Ops.RRule.showOL wd ++ "/" ++ (match nwd with | none => "-" | some l => showIntList (l.flatMap fun q => [q.1, q.2])),
    Ops.RRule.showOL s7, Ops.RRule.showOL s8, Ops.RRule.showOL s9,
    (match ts with | none => "-" | some l => showIntList (l.flatMap fun t => [t.1, t.2.1, t.2.2]))]

def handle (op : String) (args : List String) : Option String :=
  if !op.startsWith "rrgen." then none else
  if op == "rrgen.initwhole" then
    -- `wkst@k` of the wire form is already resolved by parseArgs? (the ambient first weekday is folded into wkst)
    (match Ops.RRule.parseArgs? (args.take 17) with
     | some a => some (Py.showR Ops.RRule.showRule (Gen.init 0 a.tz a.freq a.dtstart a.interval a.wkst a.count a.untilDT a.bysetpos
         a.bymonth a.bymonthday a.byyearday a.byeaster a.byweekno a.byweekday a.byhour a.byminute a.bysecond false))
     | none => some "bad-args") else
  if op == "rrgen.init" then
    (match Ops.RRule.parseArgs? (args.take 17) with
     | some a => some (runInit a)
     | none => some "bad-args") else
  match op, args with
  | "rrgen.byset", [k, start, l, base] =>
    match parseInt? k, parseInt? start, parseIntList? l, parseInt? base with
    | some k, some start, some l, some base =>
      some (Py.showR (fun c => showIntList (sortBy ltInt c)) (Gen.constructByset (ruleOfInterval k) start l base))
    | _, _, _, _ => some "bad-args"
  | "rrgen.moddist", [k, value, l, base] =>
    match parseInt? k, parseInt? value, parseIntList? l, parseInt? base with
    | some k, some value, some l, some base =>
      some (Py.showR (fun o => match o with
                               | some (a, v) => s!"{a} {v}"
                               | none => "-") (Gen.modDistance (ruleOfInterval k) value l base))
    | _, _, _, _ => some "bad-args"
  | _, _ =>
    match Ops.RRule.parseArgs? (args.take 17), (args.drop 17).mapM parseInt? with
    | some a, some rest =>
      match construct a with
      | .error e => some ("err-construct " ++ e.name)
      | .ok r =>
        match op, rest with
        | "rrgen.rebuild", ys => some ("ok " ++ ";".intercalate (runRebuilds r ys {} []))
        | "rrgen.dayset", [y0, m0, kind, y, m, d] =>
          match Gen.rebuild r {} y0 m0 with
          | .error e => some ("err-rebuild " ++ e.name)
          | .ok st =>
            some (match kind with
              | 0 => (match Gen.ydayset r st y m d with
                      | .ok (l, s, e) => showDayset (.ok (l.map some, s, e))
                      | .error e => "err " ++ e.name)
              | 1 => showDayset (Gen.mdayset r st y m d)
              | 2 => showDayset (Gen.wdayset r st y m d)
              | _ => showDayset (Gen.ddayset r st y m d))
        | "rrgen.timeset", [kind, h, m, s] =>
          some (match kind with
            | 0 => showTimes (Gen.htimeset r {} h m s)
            | 1 => showTimes (Gen.mtimeset r {} h m s)
            | _ => showTimes (Gen.stimeset r {} h m s))
        | _, _ => some "bad-args"
    | _, _ => some "bad-args"

end Ops.RRuleGen
