/- Ops/ReduceOps.lean — driver op for the copy / pickle model (Model/Reduce.lean):

    reduce.rt <protocol> <class> <k1:v1,k2:v2,…|->     `__reduce_ex__(protocol)` then the reconstruction:
        ok <shape> <class> <k=v of the rebuilt object for every key of the original, sorted as given>;eq=<0|1>   |   err AttributeError
   (attribute values are class indices up to `==`, assigned by the harness)
-/
import DateutilVerif.Base.Wire
import DateutilVerif.Model.Reduce

namespace Ops.ReduceOps
open Wire Reduce

def clsOf : String → Option Cls
  | "tzutc" => some .tzutc | "tzoffset" => some .tzoffset | "tzlocal" => some .tzlocal
  | "tzrange" => some .tzrange | "tzstr" => some .tzstr | "tzfile" => some .tzfile
  | _ => none

def clsName : Cls → String
  | .tzutc => "tzutc" | .tzoffset => "tzoffset" | .tzlocal => "tzlocal"
  | .tzrange => "tzrange" | .tzstr => "tzstr" | .tzfile => "tzfile"

def parseDict (s : String) : Option Dict :=
  if s == "-" then some [] else
  (s.splitOn ",").mapM fun kv =>
    match kv.splitOn ":" with
    | [k, v] => (parseInt? v).map fun i => (k, i)
    | _ => none

def shapeName : Reduced → String
  | .reconstructor _ _ => "reconstructor"
  | .newobj _ _ => "newobj"
  | .callCls _ _ _ => "call"

def handle (op : String) (args : List String) : Option String :=
  match op, args with
  | "reduce.rt", [p, c, d] => do
      let p ← parseInt? p
      let c ← clsOf c
      let d ← parseDict d
      let o : Obj := ⟨c, d⟩
      match reduce p.toNat o with
      | none => pure "err AttributeError"
      | some r =>
          let o' := rebuild r
          let vals := d.map fun kv => s!"{kv.1}={showOptInt (lookup kv.1 o'.dict)}"
          pure s!"ok {shapeName r} {clsName o'.cls} {",".intercalate vals};eq={showBool (objEq o' o)}"
  | _, _ => none

end Ops.ReduceOps
