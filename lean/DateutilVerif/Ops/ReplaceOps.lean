/-
  Ops/ReplaceOps.lean — C12, `replace()`; a keyword token `_` means "not passed".
    query.replace <17 constructor-argument tokens> <17 keyword tokens>
        the normalised rule `rrule(<args>).replace(**kw)` builds: `construct (merge (origArgs a r) kw)`
        for `r = construct a` (`skip <Kind>` when the constructor itself raises)
    query.replace_rec <17 recorded-argument tokens> <17 keyword tokens>
        the same from recorded arguments read off a real object (`_original_rule` + scalar attributes)
    query.replace_gen <17 recorded-argument tokens> <17 keyword tokens>
        the same through the program TRANSLATED from the source of `rrule.replace` (`Gen.replaceProgram`, `ReplacePy.run`):
        scalar attributes and `_original_rule` as read off the real object
-/
import DateutilVerif.Model.RRuleReplace
import DateutilVerif.Generated.ReplaceProgram
import DateutilVerif.Ops.RRule

namespace Ops.ReplaceOps
open _root_.RRule Ops.RRule

def parseKw? (orig kwt : List String) : Option Kw := do
  -- absent keywords borrow the original token so that the 17-token parser can be reused
  let filled := List.zipWith (fun k o => if k == "_" then o else k) kwt orig
  let v ← parseArgs? filled
  let p (i : Nat) : Bool := kwt[i]? != some "_"
  pure { freq := if p 0 then some v.freq else none,
         interval := if p 1 then some v.interval else none,
         wkst := if p 2 then some v.wkst else none,
         count := if p 3 then some v.count else none,
         untilDT := if p 4 then some v.untilDT else none,
         dtstart := if p 5 then some v.dtstart else none,
         tz := if p 6 then some v.tz else none,
         bysetpos := if p 7 then some v.bysetpos else none,
         bymonth := if p 8 then some v.bymonth else none,
         bymonthday := if p 9 then some v.bymonthday else none,
         byyearday := if p 10 then some v.byyearday else none,
         byeaster := if p 11 then some v.byeaster else none,
         byweekno := if p 12 then some v.byweekno else none,
         byweekday := if p 13 then some v.byweekday else none,
         byhour := if p 14 then some v.byhour else none,
         byminute := if p 15 then some v.byminute else none,
         bysecond := if p 16 then some v.bysecond else none }

/-- the translated method on an object whose scalar attributes and `_original_rule` are the recorded tokens -/
def runGen (a : Args) (kw : Kw) : String :=
  let r : Rule := { (default : Rule) with freq := a.freq, interval := a.interval, wkst := a.wkst.getD 0, dtstart := a.dtstart, tz := a.tz,
                                          count := a.count, untilDT := a.untilDT }
  let recorded : Kw := { bysetpos := some a.bysetpos, bymonth := some a.bymonth, bymonthday := some a.bymonthday, byyearday := some a.byyearday,
                         byeaster := some a.byeaster, byweekno := some a.byweekno, byweekday := some a.byweekday, byhour := some a.byhour,
                         byminute := some a.byminute, bysecond := some a.bysecond }
  if Gen.replaceProgram.ctor != "rrule" then "untranslated-ctor" else
  match (ReplacePy.run Gen.replaceProgram r recorded kw).bind ReplacePy.toArgs with
  | some m => Py.showR showRule (construct m)
  | none => "untranslated-program"

def handle (op : String) (args : List String) : Option String :=
  if op != "query.replace" && op != "query.replace_rec" && op != "query.replace_gen" then none else
  if args.length != 34 then some "bad-args" else
  match parseArgs? (args.take 17), parseKw? (args.take 17) (args.drop 17) with
  | some a, some kw =>
    if op == "query.replace_gen" then some (runGen a kw)
    else if op == "query.replace_rec" then some (Py.showR showRule (replaceFrom a kw))
    else match construct a with
      | .error e => some ("skip " ++ e.name)
      | .ok r => some (Py.showR showRule (replaceFrom (origArgs a r) kw))
  | _, _ => some "bad-args"

end Ops.ReplaceOps
