/-
  Ops/Parser.lean — driver ops for the generic parser model (C02, C14, C15).

  Text goes over the wire as code points `49.50.32` (`-` = empty) plus a class string with one
  character per code point: `a` alpha, `0`..`9` decimal digit with that value, `n` other digit,
  `s` space, `x` other — Python's own answers for the characters of the request.

    parser.lex   <cps> <classes>
    parser.parse <flags [df,yf,fuzzy,fwt,ignoretz]> <default [7 ints]> <year> <century>
                 <tznames cps;cps> <tzinfos> <info> <cps> <classes>
    parser.assign <n0> <n1> <tzname>            (names: cps | `N` for None)
    parser.localfinal <n0> <n1> <off0> <off1> <tzname> <tzoffset|-> [<UTCZONE words>]
-/
import DateutilVerif.Base.Wire
import DateutilVerif.Model.Parser
import DateutilVerif.Spec.ParserTemplates
import DateutilVerif.Spec.ParserTemplatesGen
import DateutilVerif.Spec.ParserSentence

namespace Ops.Parser
open Wire PM

def parseCps? (s : String) : Option (List Char) :=
  if s == "-" then some [] else
  (s.splitOn ".").mapM (fun t => t.toNat?.map Char.ofNat)

def showCps (t : List Char) : String :=
  if t.isEmpty then "-" else ".".intercalate (t.map (fun c => toString c.toNat))

def showToks (l : List Token) : String := "[" ++ ",".intercalate (l.map showCps) ++ "]"

def classOf (c : Char) : CClass :=
  if c = 'a' then .alpha
  else if '0' ≤ c ∧ c ≤ '9' then .decDigit (c.toNat - '0'.toNat)
  else if c = 'n' then .otherDigit
  else if c = 's' then .space
  else .other

/-- one entry per distinct character of the request (requests may be thousands of characters long) -/
def mkTable (cps : List Char) (classes : String) : List (Char × CClass) :=
  (cps.zip (classes.toList.map classOf)).foldl
    (fun (acc : List (Char × CClass)) p => if acc.any (·.1 = p.1) then acc else p :: acc) []

/-- the classification function for one request: a finite table, ASCII classes elsewhere -/
def clsOfTable (tbl : List (Char × CClass)) (c : Char) : CClass :=
  match tbl.find? (·.1 = c) with
  | some (_, k) => k
  | none => asciiCls c

def optName? (s : String) : Option (Option Token) :=
  if s == "N" then some none else (parseCps? s).map some

def parseTzData? (s : String) : Option TzData :=
  match s.toList with
  | 'o' :: r => (String.ofList r).toNat?.map .obj
  | 's' :: r => (parseCps? (String.ofList r)).map .str
  | 'i' :: r => (String.ofList r).toInt?.map .int
  | ['n'] => some .noneVal
  | ['b'] => some .bad
  | ['r'] => some .raises
  | _ => none

def parseEntries? (s : String) : Option (List (Option Token × TzData)) :=
  if s.isEmpty then some [] else
  (s.splitOn ",").mapM (fun e => match e.splitOn "=" with
    | [k, v] => do let k ← optName? k; let v ← parseTzData? v; pure (k, v)
    | _ => none)

def parseTzInfos? (s : String) : Option TzInfos :=
  if s == "-" then some .absent else
  match s.splitOn ":" with
  | ["M", es] => (parseEntries? es).map .mapping
  | ["C", es, d] => do
    let es ← parseEntries? es
    let d ← if d == "e" then some TzDflt.echoOffset else (parseTzData? d).map .data
    pure (.callable es d)
  | _ => none

/-- `a|b,c|d` → groups of words -/
def parseGroups? (s : String) : Option (List (List Token)) :=
  if s.isEmpty then some [] else
  (s.splitOn ",").mapM (fun g => (g.splitOn "|").mapM parseCps?)

def convGroups (gs : List (List Token)) : List (Token × Nat) :=
  (gs.zipIdx).flatMap (fun (g, i) => g.map (fun v => (lower v, i)))

def parseInfo? (s : String) (year century : Int) : Option Info :=
  match s.splitOn ":" with
  | [hd] =>
    match hd.toList with
    | ['D', a, b] => some (Info.default (a = '1') (b = '1') year century)
    | _ => none
  | [hd, jump, wd, mo, hms, ampm, utc, pert, tzo] =>
    match hd.toList with
    | ['X', a, b] => do
      let jump ← parseGroups? jump; let wd ← parseGroups? wd; let mo ← parseGroups? mo
      let hms ← parseGroups? hms; let ampm ← parseGroups? ampm; let utc ← parseGroups? utc
      let pert ← parseGroups? pert
      let tzo ← if tzo.isEmpty then some [] else
        (tzo.splitOn ",").mapM (fun e => match e.splitOn "=" with
          | [k, v] => do let k ← parseCps? k; let v ← v.toInt?; pure (k, v)
          | _ => none)
      pure { jump := (convGroups jump).map (·.1), weekdays := convGroups wd, months := convGroups mo,
             hms := convGroups hms, ampm := convGroups ampm,
             utczoneKeys := (convGroups utc).map (·.1), pertain := (convGroups pert).map (·.1),
             UTCZONE := utc.flatten, tzoffsets := tzo,
             dayfirst := (a = '1'), yearfirst := (b = '1'), year := year, century := century }
    | _ => none
  | _ => none

def showOptName : Option Token → String
  | none => "N"
  | some t => showCps t

def showTzData : TzData → String
  | .obj k => s!"o{k}"
  | .str s => "s" ++ showCps s
  | .int n => s!"i{n}"
  | .noneVal => "n"
  | .bad => "b"
  | .raises => "r"

def showDescr : TzDescr → String
  | .naive => "naive"
  | .naiveWarn n => "warn " ++ showCps n
  | .utc => "utc"
  | .fixed n off => s!"fixed {showOptName n} {off}"
  | .localZone n off => "local " ++ showCps n ++ " " ++ showOptInt off
  | .viaTzinfos d n => s!"tzi {showTzData d} {showOptName n}"

def showResult (r : Result) : String :=
  s!"{r.dt.wire} | {showDescr r.tz} | " ++ (match r.tokens with | none => "-" | some l => showToks l)

/-- `dflt` = the tzinfo of `default=` is kept (None for a naive default); `naive` / `warn` = tzinfo None whatever the default -/
def showFinal : FinalTz → String
  | .none => "naive"
  | .noneWarn n => "warn " ++ showCps n
  | .ofDefault => "dflt"
  | .zone z => showDescr z

def showResultA (r : ResultA) : String :=
  s!"{r.dt.wire} | {showFinal r.tz} | " ++ (match r.tokens with | none => "-" | some l => showToks l)

/-- `n` | `z0` `z1` | `u` | `h<sp><neg>.<h>` | `m<sp><neg>.<h>.<m>` | `c<sp><neg>.<h>.<m>` -/
def parseOff? (s : String) : Option PT.Off :=
  match s.toList with
  | ['n'] => some .naive
  | ['z', '0'] => some (.z false)
  | ['z', '1'] => some (.z true)
  | ['u'] => some .utc
  | k :: a :: b :: '.' :: rest =>
    let sp := a = '1'; let neg := b = '1'
    match (String.ofList rest).splitOn ".", k with
    | [h], 'h' => h.toNat?.map (fun h => .hh sp neg h)
    | [h, m], 'm' => do let h ← h.toNat?; let m ← m.toNat?; pure (.hhmm sp neg h m)
    | [h, m], 'c' => do let h ← h.toNat?; let m ← m.toNat?; pure (.hhcmm sp neg h m)
    | _, _ => none
  | _ => none

def optBool? (i : Int) : Option Bool := if i < 0 then none else some (i != 0)

def handle (op : String) (args : List String) : Option String :=
  match op, args with
  | "parser.lex", [cps, classes] =>
    some (match parseCps? cps with
      | some cs =>
        let tbl := mkTable cs classes          -- computed once per request
        "ok " ++ showToks (lex (clsOfTable tbl) cs)
      | none => "bad-args")
  | "parser.lex", [cps] =>
    some (match parseCps? cps with
      | some cs => "ok " ++ showToks (lex (clsOfTable []) cs)
      | none => "bad-args")
  | "parser.parse", [flags, dflt, year, century, tzn, tzi, info, cps, classes] =>
    some (match parseIntList? flags, (parseIntList? dflt).bind DT.ofList?, year.toInt?, century.toInt?,
                (tzn.splitOn ";").mapM parseCps?, parseTzInfos? tzi, parseCps? cps with
      | some [df, yf, fz, fwt, ig], some d, some y, some c, some tzn, some tzi, some cs =>
        match parseInfo? info y c with
        | some inf =>
          let o : Opts := { dayfirst := optBool? df, yearfirst := optBool? yf, fuzzy := fz != 0,
                            fuzzyWithTokens := fwt != 0, ignoretz := ig != 0 }
          let cs' := if cps == "-" then [] else cs
          let clss := if classes == "-" then "" else classes
          let tbl := mkTable cs' clss
          Py.showR showResultA (parseA (clsOfTable tbl) inf o tzn tzi d cs')
        | none => "bad-args"
      | _, _, _, _, _, _, _ => "bad-args")
  | "parser.assign", [n0, n1, name] =>
    some (match optName? n0, optName? n1, optName? name with
      | some a, some b, some n => s!"ok {assignFold a b n}"
      | _, _, _ => "bad-args")
  | "parser.assignstr", [tzs, dt, name] =>
    -- `_assign_tzname` for a `tzinfos` TZ string: the names `aware.tzname()` gives at fold 0 / 1 come from the Lean model of
    -- tz.tzstr (C08's `TzStr.tzstr` + `transitions`), not from the implementation; an exception of the zone object propagates
    some (match parseCps? tzs, (parseIntList? dt).bind DT.ofList?, optName? name with
      | some s, some t, some n =>
        let s' := if tzs == "-" then [] else s
        (match strNames s' t with
         | .ok (a, b) => s!"ok {assignFold a b n}"
         | .error .ValueError => "err ParserError"     -- inside parse()'s `try: _build_tzaware … except ValueError` (950345d)
         | .error e => "err " ++ e.name)
      | _, _, _ => "bad-args")
  | "parser.localfinal", [n0, n1, o0, o1, name, tzoff, utcz] =>
    -- with the parserinfo's own UTCZONE list (`;`-separated code-point words)
    some (match optName? n0, optName? n1, o0.toInt?, o1.toInt?, parseCps? name, parseOptInt? tzoff, (utcz.splitOn ";").mapM parseCps? with
      | some a, some b, some x0, some x1, some n, some t, some uz =>
        (match localFinal { Info.default false false 2000 2000 with UTCZONE := uz } a b x0 x1 n t with
         | .utc => "ok utc"
         | .localFold f => s!"ok local {f}")
      | _, _, _, _, _, _, _ => "bad-args")
  | "parser.localfinal", [n0, n1, o0, o1, name, tzoff] =>
    some (match optName? n0, optName? n1, o0.toInt?, o1.toInt?, parseCps? name, parseOptInt? tzoff with
      | some a, some b, some x0, some x1, some n, some t =>
        (match localFinal (Info.default false false 2000 2000) a b x0 x1 n t with
         | .utc => "ok utc"
         | .localFold f => s!"ok local {f}")
      | _, _, _, _, _, _ => "bad-args")
  | "parser.tzcascade", [tzn, tzi, name, off] =>
    -- `_build_tzaware` alone, on the (tzname, tzoffset) pair a text means
    some (match (tzn.splitOn ";").mapM parseCps?, parseTzInfos? tzi, optName? name, parseOptInt? off with
      | some tzn, some tzi, some n, some o =>
        Py.showR showDescr (buildTzaware tzn tzi { tzname := n, tzoffset := o })
      | _, _, _, _ => "bad-args")
  | "parser.finaltz", [ig, tzn, tzi, name, off] =>
    -- the last lines of `parse` (`finalTz`): ignoretz, then `_build_tzaware`, saying whether the tzinfo of `default=` is kept
    some (match (tzn.splitOn ";").mapM parseCps?, parseTzInfos? tzi, optName? name, parseOptInt? off with
      | some tzn, some tzi, some n, some o =>
        Py.showR showFinal (finalTz { ignoretz := ig == "1" } tzn tzi { tzname := n, tzoffset := o })
      | _, _, _, _ => "bad-args")
  | "parser.render", [sep, dt] =>
    some (match sep.toNat?, (parseIntList? dt).bind DT.ofList? with
      | some c, some t => "ok " ++ showCps (PT.renderIso (Char.ofNat c) t)
      | _, _ => "bad-args")
  | "parser.rend", [kind, params, dt, off] =>
    -- the Lean printers of the templates that have a `parse_render` theorem (compared with Python's each run)
    some (match parseIntList? params, (parseIntList? dt).bind DT.ofList?, parseOff? off with
      | some ps, some t, some o =>
        let n (i : Nat) : Nat := (ps.getD i 0).toNat
        (match kind with
         | "isox" =>
           let f : PT.TimeFmt := if n 1 = 0 then .hms else if n 1 = 1 then .frac false (n 2) else if n 1 = 2 then .frac true (n 2) else .hm
           "ok " ++ showCps (PT.renderIsoX (Char.ofNat (n 0)) f t o)
         | "compact" =>
           let f : PT.CompactFmt := if n 0 = 0 then .tHMS else if n 0 = 1 then .nosepHMS else if n 0 = 2 then .tHM else .date
           "ok " ++ showCps (PT.renderCompact f t)
         | "mon" =>
           let f : PT.MonFmt := if n 0 = 0 then .ctime (n 1) else if n 0 = 1 then .rfc2822 (n 1) else if n 0 = 2 then .longDate
                                else if n 0 = 3 then .dMonY else .ddMonY
           "ok " ++ showCps (PT.renderMon f t o)
         | "num" =>
           let f : PT.NumFmt := if n 0 = 0 then .us else if n 0 = 1 then .eu else if n 0 = 2 then .yf else if n 0 = 3 then .us2
                                else if n 0 = 4 then .eu2 else .yf2
           "ok " ++ showCps (PT.renderNum f t)
         | "ampm" => "ok " ++ showCps (PT.renderAmpm t)
         | "hmsl" => "ok " ++ showCps (PT.renderHmsLetters t)
         | _ => "bad-args")
      | _, _, _ => "bad-args")
  | "parser.proved", [] =>
    -- ids of the templates that have a parse_render theorem (C02.proved_templates_have_theorems), with offset scope
    some ("ok " ++ ",".intercalate (PT.provedTemplates.map (fun p => p.1 ++ ":" ++ p.2)))
  | "parser.tmpl", [id, dt, off] =>
    some (match (parseIntList? dt).bind DT.ofList?, parseOff? off with
      | some t, some o => (match PT.renderById id t o with
          | some cs => "ok " ++ showCps cs
          | none => "err unknown-template")
      | _, _ => "bad-args")
  | "parser.sentences", [] =>
    -- ids of the templates that have a C15 sentence theorem (C15.sentence_templates_have_theorems)
    some ("ok " ++ ",".intercalate PT.sentenceTemplates)
  | "parser.filler", [ws] =>
    -- the DECIDABLE class of filler words of the sentence theorems, word by word (`;`-separated code-point words)
    some (match (ws.splitOn ";").mapM parseCps? with
      | some l => "ok " ++ String.ofList (l.map (fun w => if PM.fillerWord w then '1' else '0'))
      | none => "bad-args")
  | "parser.sentence", [id, dt, lead, trail] =>
    -- the Lean text of a sentence: filler words (each followed by a space), the rendering, filler words (each after a space)
    some (match (parseIntList? dt).bind DT.ofList?, (if lead == "-" then some [] else (lead.splitOn ";").mapM parseCps?),
                (if trail == "-" then some [] else (trail.splitOn ";").mapM parseCps?) with
      | some t, some l, some r => (match PT.sentenceCore id t (PM.fillerChars r) with
          | some cs => "ok " ++ showCps (PM.leadChars l ++ cs)
          | none => "err unknown-template")
      | _, _, _ => "bad-args")
  | "parser.asciicls", [] =>
    some ("ok " ++ String.ofList ((List.range 128).map (fun i => match asciiCls (Char.ofNat i) with
      | .alpha => 'a' | .decDigit v => Char.ofNat (48 + v) | .otherDigit => 'n' | .space => 's' | .other => 'x')))
  | "parser.dec", [cps, classes] =>
    -- the Decimal kernel: int(v), v % 1 truthiness, int(60 * (v % 1))
    some (match parseCps? cps with
      | some cs =>
        let tbl := mkTable cs classes
        let cls := clsOfTable tbl
        (match toDecimal cls cs with
         | .error e => "err " ++ e.name
         | .ok v => match v.rem1 with
           | .error e => s!"ok {v.toNat} err {e.name}"
           | .ok r => s!"ok {v.toNat} {if r.isZero then 0 else 1} {r.mul60.toNat}")
      | none => "bad-args")
  | _, _ => none

end Ops.Parser
