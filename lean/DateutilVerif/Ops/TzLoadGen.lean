/- Ops/TzLoadGen.lean — driver ops running the TRANSLATED load paths (Generated/TzLoadKernels.lean) for the per-run
   differential validation of the LoadPy translator.  The file system holds ONE file: <path hex> ↦ <data hex>.

    tzload.file <path hex> <data hex> <form> <name hex|-> <filename hex|->
        form = path: tzfile(path, filename)    form = stream: tzfile(<stream of data with .name = name>, filename)
        form = none: tzfile(None, filename)    ->  ok <_filename hex> <dump of the zone | ->   |  err Kind
    tzload.archive <m1;m2;…> <q1,q2,…>      members  f:<name hex>:<data hex> | l:<name hex>:<target hex>:<0|1 sym> | o:<name hex>
        ->  ok <per queried name: - | _filename hex + "@" + dump>  separated by " | ", then " meta=" <hex|->   |  err Kind
-/
import DateutilVerif.Ops.Zones
import DateutilVerif.Generated.TzLoadKernels

namespace Ops.TzLoadGen
open Wire TZ Ops.Zones LoadPy

def str? (h : String) : Option String := (parseHexString? h)
def optStr? (h : String) : Option (Option String) := if h == "-" then some none else (str? h).map some

def showObj (o : TzObj) : String :=
  showHexString o.filename ++ " " ++ (match o.data with | some d => dump d.view | none => "-")

def parseMember (s : String) : Option Member :=
  match s.splitOn ":" with
  | ["f", n, d] => do let n ← str? n; let d ← (if d == "." then some [] else parseHexBytes? d); pure ⟨n, .file d⟩
  | ["l", n, t, sym] => do let n ← str? n; let t ← str? t; pure ⟨n, .link t (sym == "1")⟩
  | ["o", n] => do let n ← str? n; pure ⟨n, .other⟩
  | _ => none

def handle (op : String) (args : List String) : Option String :=
  match op, args with
  | "tzload.file", [p, d, form, nm, fn] => do
      let p ← str? p
      let d ← parseHexBytes? d
      let nm ← optStr? nm
      let fn ← optStr? fn
      let fs : FS := fun q => if q == p then some d else none
      let arg ← match form with
        | "path" => some (FileArg.path p)
        | "stream" => some (FileArg.stream d nm "<stream>")
        | "none" => some FileArg.none_
        | "missing" => some (FileArg.path (p ++ ".missing"))
        | _ => none
      pure (match Gen.tzfile_init fs arg fn with
        | .ok o => "ok " ++ showObj o
        | .error e => err e)
  | "tzload.archive", [ms, qs] => do
      let ms ← (ms.splitOn ";").mapM parseMember
      let qs ← (qs.splitOn ",").mapM str?
      pure (match Gen.zoneInfoFile_init (fun _ => none) (some ms) with
        | .error e => err e
        | .ok z =>
          let one (q : String) : String :=
            match Gen.zoneInfoFile_get z q none with
            | .ok (some o) => showHexString o.filename ++ "@" ++ (match o.data with | some d => dump d.view | none => "-")
            | .ok none => "-"
            | .error e => "!" ++ e.name
          "ok " ++ " | ".intercalate (qs.map one) ++ " meta=" ++
            (match z.metadata with | some b => showHexBytes b | none => "-"))
  | _, _ => none

end Ops.TzLoadGen
