/- Ops/TzifGen.lean — driver op running the TRANSLATED `tzfile._read_tzfile` (Generated/TzifKernels.lean) for the
   per-run differential validation of the TzifPy translator:

    tzif.read <hex tzif>     Gen.readTzfile, read through its references: the line of `tzfile.load` + ` delta=<0|1>`
                             (every `_ttinfo.delta` equals `timedelta(seconds=offset)`) + ` first=<ttinfo_first>`
-/
import DateutilVerif.Ops.Zones
import DateutilVerif.Generated.TzifKernels

namespace Ops.TzifGen
open Wire TZ Ops.Zones

def handle (op : String) (args : List String) : Option String :=
  match op, args with
  | "tzif.read", [hex] =>
      (parseHexBytes? hex).map fun bs =>
        match Gen.readTzfile bs with
        | .error e => err e
        | .ok o => dump o.view ++ s!" delta={showBool o.deltaOk} first={showOptTT (o.ttinfo_first.map fun r => (TzifPy.hget o.heap r).toModel)}"
  | _, _ => none

end Ops.TzifGen
