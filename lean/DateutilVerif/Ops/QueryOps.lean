/- Ops/QueryOps.lean — driver ops `query.gen|fast|spec <src> <query>` (C12). -/
import DateutilVerif.Base.Wire
import DateutilVerif.Model.Queries
import DateutilVerif.Spec.Queries

namespace Ops.QueryOps
open Wire _root_.Queries

/-- `all`, `take:3`, `idx:-2`, `sl:1:-:2`, `in:5`, `cnt`, `bef:5:1`, `aft:5:0`, `xaf:5:-:1`, `btw:2:9:1` -/
def parseQuery? (s : String) : Option Query :=
  match s.splitOn ":" with
  | ["all"] => some .iterAll
  | ["take", k] => do let k ← parseInt? k; if k < 0 then none else some (.take k.toNat)
  | ["idx", i] => do some (.index (← parseInt? i))
  | ["sl", a, b, c] => do some (.slice (← parseOptInt? a) (← parseOptInt? b) (← parseOptInt? c))
  | ["in", x] => do some (.contains (← parseInt? x))
  | ["cnt"] => some .count
  | ["bef", t, i] => do some (.before (← parseInt? t) ((← parseInt? i) != 0))
  | ["aft", t, i] => do some (.after (← parseInt? t) ((← parseInt? i) != 0))
  | ["xaf", t, n, i] => do some (.xafter (← parseInt? t) (← parseOptInt? n) ((← parseInt? i) != 0))
  | ["btw", a, b, i] => do some (.between (← parseInt? a) (← parseInt? b) ((← parseInt? i) != 0))
  | _ => none

def showRes : Res → String
  | .val v => "ok v " ++ showOptInt v
  | .list l => "ok l " ++ showIntList l
  | .bool b => "ok b " ++ showBool b
  | .nat n => s!"ok n {n}"
  | .err e => "err " ++ e.name

def handle (op : String) (args : List String) : Option String :=
  match op, args with
  | "query.gen", [src, q] => do
      let src ← parseIntList? src; let q ← parseQuery? q
      some (showRes (gen q src))
  | "query.fast", [src, q] => do
      let src ← parseIntList? src; let q ← parseQuery? q
      some (showRes (fast q src))
  | "query.spec", [src, q] => do
      let src ← parseIntList? src; let q ← parseQuery? q
      some (showRes (spec q src))
  | "query.stops", [ys, q] => do
      let ys ← parseIntList? ys; let q ← parseQuery? q
      some ("ok " ++ showBool (stops q ys))
  | _, _ => none

end Ops.QueryOps
