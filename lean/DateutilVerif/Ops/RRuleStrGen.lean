/- Ops/RRuleStrGen.lean — driver ops that EXECUTE the definitions translated from `_rrulestr._parse_rfc` /
   `_parse_date_value` (`Generated/RRuleStrKernels.lean`, `harness/translate_str.py`), so that the translation is compared
   with the Python statements it was made from on every run (C13). -/
import DateutilVerif.Base.Wire
import DateutilVerif.Generated.RRuleStrKernels
import DateutilVerif.Ops.RRuleStr

namespace Ops.RRuleStrGen
open Wire StrPy

def hexL (l : List Char) : String := showHexString (String.ofList l)

def parseStrList? (s : String) : Option (List (List Char)) :=
  if s == "[]" then some [] else
  let inner := String.ofList ((s.toList.drop 1).dropLast)
  (inner.splitOn ",").mapM (fun t => (parseHexString? t).map (·.toList))

def parseDict? (s : String) : Option Dict :=
  if s == "[]" then some [] else
  let inner := String.ofList ((s.toList.drop 1).dropLast)
  (inner.splitOn ",").mapM (fun (t : String) => match t.splitOn ":" with
    | [k, v] => do some ((← parseHexString? k).toList, (← parseHexString? v).toList)
    | _ => none)

def showStrList (l : List (List Char)) : String := "[" ++ ",".intercalate (l.map hexL) ++ "]"
def showDict (d : Dict) : String := "[" ++ ",".intercalate (d.map (fun p => hexL p.1 ++ ":" ++ hexL p.2)) ++ "]"

def showLookup : Lookup → String
  | .gettz => "g" | .call => "c" | .get => "m"

def showZone : Option Zone → String
  | none => "-"
  | some .fromText => "t"
  | some (.looked l n) => "l" ++ showLookup l ++ hexL n

def parseZone? (s : String) : Option (Option Zone) :=
  if s == "-" then some none
  else if s == "t" then some (some .fromText)
  else match s.toList with
    | 'l' :: k :: rest => do
        let l ← (if k == 'g' then some Lookup.gettz else if k == 'c' then some Lookup.call else if k == 'm' then some Lookup.get else none)
        let n ← parseHexString? (String.ofList rest)
        some (some (.looked l n.toList))
    | _ => none

def parseKind? (s : String) : Option TzidsKind :=
  if s == "none" then some .none else if s == "callable" then some .callable else if s == "mapping" then some .mapping
  else if s == "other" then some .other else none

def handle (op : String) (args : List String) : Option String :=
  match op, args with
  | "rrsgen.prefix", [o, h] => do
      -- o = flags unfold/forceset/compatible
      let s ← parseHexString? h
      let f := o.toList.map (· == '1')
      some (Py.showR (fun (r : Bool × Bool × Dict × Str × List Str) =>
          s!"{showBool r.1} {showBool r.2.1} {showDict r.2.2.1} {hexL r.2.2.2.1} {showStrList r.2.2.2.2}")
        (Gen.rrsPrefix s.toList (f.getD 0 false) (f.getD 1 false) (f.getD 2 false)))
  | "rrsgen.parms", [kind, d, ps] => do
      let k ← parseKind? kind
      let d ← parseDict? d
      let ps ← parseStrList? ps
      some (Py.showR (fun (r : Option Zone × Bool) => s!"{showZone r.1} {showBool r.2}") (Gen.rrsDateParms ps d k))
  | "rrsgen.datevalue", [kind, d, ps, h] => do
      -- the WHOLE translated `_parse_date_value`; `parser.parse` = the compact reader (`…Z` carries its own zone), anything else ValueError
      let k ← parseKind? kind
      let d ← parseDict? d
      let ps ← parseStrList? ps
      let v ← parseHexString? h
      let parse : Str → Py.R (Str × Option Zone) := fun t =>
        match RRuleStr.parseCompact t with
        | .compact _ _ _ _ _ _ z => .ok (t, if z then some .fromText else none)
        | .other _ => .error .ValueError
      some (Py.showR (fun (r : List (Str × Option Zone)) => "[" ++ ",".intercalate (r.map (fun p => hexL p.1 ++ "/" ++ showZone p.2)) ++ "]")
        (Gen.rrsParseDateValue parse v.toList ps d k))
  | "rrsgen.dispatch", [ls] => do
      -- the translated body of `for line in lines:` folded over the given lines, from empty lists and no start
      let lines ← parseStrList? ls
      let showDV := fun (d : RRuleStr.DateV) => hexL d.1 ++ "|" ++ hexL (RRuleStr.intercalate [';'] d.2.1)
      some (Py.showR (fun (a : RRuleStr.Acc) =>
          s!"{showStrList a.rrulevals} {showStrList a.rdatevals} {showStrList a.exrulevals} [{",".intercalate (a.exdatevals.map showDV)}] " ++
          (match a.dtstart with | some d => showDV d | none => "-"))
        (lines.foldlM (Gen.rrsStepLine {}) {}))
  | "rrsgen.attach", [a, b] => do
      let a ← parseZone? a
      let b ← parseZone? b
      some (Py.showR showZone (Gen.rrsAttach a b))
  | "rrsgen.str", [dt, freq, interval, wkst, count, untl, bysetpos, bymonth, bymonthday, byyearday, byeaster, byweekno,
                   byweekday, byhour, byminute, bysecond, fwd] => do
      -- the same request as `rrs.str`, answered by the SOURCE TRANSLATION of `rrule.__str__`
      let x : RRuleStr.StrIn := {
        fwd := ← parseInt? fwd,
        dtstart := ← Ops.RRuleStr.six? dt, freq := ← freq.toNat?, interval := ← parseInt? interval, wkst := ← parseInt? wkst,
        count := ← parseOptInt? count, untilV := ← Ops.RRuleStr.six? untl,
        orig := { bysetpos := ← Ops.RRuleStr.optList? bysetpos, bymonth := ← Ops.RRuleStr.optList? bymonth,
                  bymonthday := ← Ops.RRuleStr.optList? bymonthday, byyearday := ← Ops.RRuleStr.optList? byyearday,
                  byeaster := ← Ops.RRuleStr.optList? byeaster, byweekno := ← Ops.RRuleStr.optList? byweekno,
                  byweekday := ← Ops.RRuleStr.parseWDays? byweekday, byhour := ← Ops.RRuleStr.optList? byhour,
                  byminute := ← Ops.RRuleStr.optList? byminute, bysecond := ← Ops.RRuleStr.optList? bysecond } }
      some ("ok " ++ hexL (Gen.rruleStr x))
  | "rrsgen.line", [h] => do
      -- the SOURCE TRANSLATION of `_parse_rfc_rrule` on one line (as `_parse_rfc` hands it over: upper-cased), printed like `rrs.parse`
      let s ← parseHexString? h
      some (Py.showR (fun a => Ops.RRuleStr.showParsed false (fun _ => none) (.rule a none false)) (Gen.rrsParseRule {} s.toList))
  | "rrsgen.call", [o, h] => do
      -- `rrs.parse` through the translated `_rrulestr.__call__`
      let s ← parseHexString? h
      let f := o.toList.map (· == '1')
      let opts : RRuleStr.Opts := { unfold := f.getD 0 false, forceset := f.getD 1 false, compatible := f.getD 2 false,
                                    ignoretz := f.getD 4 false, tzinfos := f.getD 5 false, cache := f.getD 6 false }
      some (Py.showR (Ops.RRuleStr.showParsed (f.getD 3 false) (RRuleStr.tzidOf s.toList opts)) (Gen.rrsCall s.toList opts (f.getD 3 false)))
  | _, _ => none

end Ops.RRuleStrGen
