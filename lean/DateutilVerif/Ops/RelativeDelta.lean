/-
  Ops/RelativeDelta.lean — driver ops of the relativedelta family (C03, C09, C16).

  Wire forms
    RD        18 tokens: years months days leapdays hours minutes seconds microseconds
                         year month day wd wn hour minute second microsecond hasTime
              (`-` = None; `wd -` = no weekday; `wn -` = weekday without n)
    Kw        19 tokens: years months days leapdays weeks hours minutes seconds microseconds
                         year month day WD yearday nlyearday hour minute second microsecond
              WD = `-` | `i<int>` (integer argument) | `w<wd>:<n|->` (weekday object)
    Temporal   8 tokens: kind y m d hh mm ss us      kind = `d` | `n` | `a<tag>`
-/
import DateutilVerif.Base.Wire
import DateutilVerif.Model.RelativeDelta
import DateutilVerif.Spec.RelativeDelta
import DateutilVerif.Generated.RDOps
import DateutilVerif.Model.RDHistory
import DateutilVerif.Model.RDScale

namespace Ops.RelativeDelta
open Wire RDM

def showRD (d : RD) : String :=
  let wd := match d.weekday with
    | none => "- -"
    | some (w, n) => s!"{w} {showOptInt n}"
  s!"{d.years} {d.months} {d.days} {d.leapdays} {d.hours} {d.minutes} {d.seconds} {d.microseconds} " ++
  s!"{showOptInt d.year} {showOptInt d.month} {showOptInt d.day} {wd} " ++
  s!"{showOptInt d.hour} {showOptInt d.minute} {showOptInt d.second} {showOptInt d.microsecond} {d.hasTime}"

def parseRD? (a : List String) : Option RD :=
  match a with
  | [ys, ms, ds, ld, hs, mi, ss, us, y, m, d, wd, wn, h, mn, s, u, ht] => do
    let wd' ← parseOptInt? wd
    let wn' ← parseOptInt? wn
    pure { years := ← parseInt? ys, months := ← parseInt? ms, days := ← parseInt? ds,
           leapdays := ← parseInt? ld, hours := ← parseInt? hs, minutes := ← parseInt? mi,
           seconds := ← parseInt? ss, microseconds := ← parseInt? us,
           year := ← parseOptInt? y, month := ← parseOptInt? m, day := ← parseOptInt? d,
           weekday := wd'.map (fun w => (w, wn')),
           hour := ← parseOptInt? h, minute := ← parseOptInt? mn, second := ← parseOptInt? s,
           microsecond := ← parseOptInt? u, hasTime := ← parseInt? ht }
  | _ => none

def parseWdArg? (s : String) : Option (Option WdArg) :=
  if s == "-" then some none
  else match s.toList with
    | 'i' :: rest => (String.ofList rest).toInt?.map (fun i => some (WdArg.int i))
    | 'w' :: rest =>
      match (String.ofList rest).splitOn ":" with
      | [w, n] => do
        let w' ← w.toInt?
        let n' ← parseOptInt? n
        pure (some (WdArg.obj w' n'))
      | _ => none
    | _ => none

def parseKw? (a : List String) : Option Kw :=
  match a with
  | [ys, ms, ds, ld, ws, hs, mi, ss, us, y, m, d, wd, yd, nl, h, mn, s, u] => do
    pure { years := ← parseInt? ys, months := ← parseInt? ms, days := ← parseInt? ds,
           leapdays := ← parseInt? ld, weeks := ← parseInt? ws, hours := ← parseInt? hs,
           minutes := ← parseInt? mi, seconds := ← parseInt? ss, microseconds := ← parseInt? us,
           year := ← parseOptInt? y, month := ← parseOptInt? m, day := ← parseOptInt? d,
           weekday := ← parseWdArg? wd, yearday := ← parseOptInt? yd, nlyearday := ← parseOptInt? nl,
           hour := ← parseOptInt? h, minute := ← parseOptInt? mn, second := ← parseOptInt? s,
           microsecond := ← parseOptInt? u }
  | _ => none

def showKind : Kind → String
  | .date => "d"
  | .naive => "n"
  | .aware z o => if o = 0 then s!"a{z}" else s!"a{z}.{o}"

def parseKind? (s : String) : Option Kind :=
  if s == "d" then some .date
  else if s == "n" then some .naive
  else match s.toList with
    | 'a' :: rest =>
      match (String.ofList rest).splitOn "." with
      | [z] => z.toNat?.map (fun z' => Kind.aware z' 0)
      | [z, o] => do
        let z' ← z.toNat?
        let o' ← o.toNat?
        pure (Kind.aware z' o')
      | _ => none
    | _ => none

/-- `(zone, shifted wall time of b, offset)` from the flat list `k off k off …` -/
def offTable (z : Nat) (bt : DT) : List Int → List (Nat × DT × Int)
  | k :: o :: rest =>
    let M := 12 * bt.y + (bt.m - 1) + k
    let t : DT := { bt with y := M / 12, m := M % 12 + 1, d := min bt.d (Cal.daysInMonth (M / 12) (M % 12 + 1)) }
    (z, t, o) :: offTable z bt rest
  | _ => []

def showTemporal (x : Temporal) : String := s!"{showKind x.kind} {x.t.wire}"

def parseTemporal? (a : List String) : Option Temporal :=
  match a with
  | k :: rest => do
    let kind ← parseKind? k
    let ints ← rest.mapM parseInt?
    let t ← DT.ofList? ints
    pure { kind := kind, t := t }
  | _ => none

/-- the hashed tuple element by element: `(a,b)` / `-` for the weekday, decimal / `-` for the rest -/
def showHashList (l : List HashElt) : String :=
  " ".intercalate (l.map (fun e => match e with
    | .wd none => "-"
    | .wd (some (a, b)) => s!"({a},{b})"
    | .int i => toString i
    | .opt o => showOptInt o))

def showHash (h : Option (Int × Int) × List Int × List (Option Int)) : String :=
  let w := match h.1 with
    | none => "-"
    | some (a, b) => s!"({a},{b})"
  w ++ " " ++ showIntList h.2.1 ++ " " ++ Py.showList showOptInt h.2.2

/-- RPN evaluator over relativedelta values: `K <19 kw tokens>` pushes `mk`, `R <18 tokens>` pushes a
    raw value, `add sub` pop two (`a b add` = `a + b`), `neg abs` pop one, `mul <k>`, `td <d> <s> <us>`. -/
partial def evalRPN (toks : List String) (stack : List RD) : Option (Py.R RD) :=
  match toks with
  | [] => match stack with
    | [r] => some (.ok r)
    | _ => none
  | "K" :: rest =>
    match parseKw? (rest.take 19) with
    | none => none
    | some kw => match mk kw with
      | .error e => some (.error e)
      | .ok r => evalRPN (rest.drop 19) (r :: stack)
  | "R" :: rest =>
    match parseRD? (rest.take 18) with
    | none => none
    | some r => evalRPN (rest.drop 18) (r :: stack)
  | "add" :: rest => match stack with
    | b :: a :: st => evalRPN rest (add a b :: st)
    | _ => none
  | "sub" :: rest => match stack with
    | b :: a :: st => evalRPN rest (sub a b :: st)
    | _ => none
  | "neg" :: rest => match stack with
    | a :: st => evalRPN rest (neg a :: st)
    | _ => none
  | "abs" :: rest => match stack with
    | a :: st => evalRPN rest (RDM.abs a :: st)
    | _ => none
  | "mul" :: k :: rest => match stack, k.toInt? with
    | a :: st, some k' => evalRPN rest (mulInt a k' :: st)
    | _, _ => none
  | "td" :: d :: s :: u :: rest => match stack, d.toInt?, s.toInt?, u.toInt? with
    | a :: st, some d', some s', some u' => evalRPN rest (addTimedelta a d' s' u' :: st)
    | _, _, _, _ => none
  | _ => none

/-- the RPN evaluator over the TRANSLATED constructor / operators (Generated/RDOps.lean) -/
partial def evalRPNGen (toks : List String) (stack : List RD) : Option (Py.R RD) :=
  let step (r : Py.R RD) (rest : List String) (st : List RD) : Option (Py.R RD) :=
    match r with
    | .error e => some (.error e)
    | .ok v => evalRPNGen rest (v :: st)
  match toks with
  | [] => match stack with
    | [r] => some (.ok r)
    | _ => none
  | "K" :: rest =>
    match parseKw? (rest.take 19) with
    | none => none
    | some kw => step (Gen.initKw kw) (rest.drop 19) stack
  | "R" :: rest =>
    match parseRD? (rest.take 18) with
    | none => none
    | some r => evalRPNGen (rest.drop 18) (r :: stack)
  | "add" :: rest => match stack with
    | b :: a :: st => step (Gen.addRd a b) rest st
    | _ => none
  | "sub" :: rest => match stack with
    | b :: a :: st => step (Gen.subRd a b) rest st
    | _ => none
  | "neg" :: rest => match stack with
    | a :: st => step (Gen.neg a) rest st
    | _ => none
  | "abs" :: rest => match stack with
    | a :: st => step (Gen.abs a) rest st
    | _ => none
  | "mul" :: k :: rest => match stack, k.toInt? with
    | a :: st, some k' => step (Gen.mulInt a k') rest st
    | _, _ => none
  | "td" :: d :: s :: u :: rest => match stack, d.toInt?, s.toInt?, u.toInt? with
    | a :: st, some d', some s', some u' => step (Gen.addTd a d' s' u') rest st
    | _, _, _, _ => none
  | _ => none

/-- the utcoffset table of `rd.diffo` / `rdgen.diffo` -/
def offOf (a b : Temporal) (rest : List Int) : Option (Nat → DT → Int) :=
  match rest with
  | offA :: ks =>
    let zoneOf : Kind → Nat := fun k => match k with | .aware z _ => z | _ => 0
    let tab := offTable (zoneOf b.kind) b.t ks
    some (fun z t =>
      match tab.find? (fun e => e.1 = z ∧ e.2.1 = t) with
      | some e => e.2.2
      | none => offA)
  | _ => none

def handleGen (op : String) (args : List String) : Option String :=
  match op with
  | "rdgen.mk" => (parseKw? args).map (fun k => Py.showR showRD (Gen.initKw k))
  | "rdgen.expr" => (evalRPNGen args []).map (Py.showR showRD)
  | "rdgen.muldy" => do
      let d ← parseRD? (args.take 18)
      match (args.drop 18).mapM parseInt? with
      | some [m, k] => pure (Py.showR showRD (Gen.mulDy d { m := m, k := k.toNat }))
      | _ => none
  | "rdgen.divp2" => do
      let d ← parseRD? (args.take 18)
      match (args.drop 18).mapM parseInt? with
      | some [ng, k] => pure (Py.showR showRD (Gen.divPow2 d { neg := ng != 0, k := k.toNat }))
      | _ => none
  | "rdgen.normalized" => (parseRD? args).map (fun d => Py.showR showRD (Gen.normalized d))
  | "rdgen.bool" => (parseRD? args).map (fun d => Py.showR showBool (Gen.bool d))
  | "rdgen.hash" => (parseRD? args).map (fun d => Py.showR showHashList (Gen.hashKey d))
  | "rdgen.eq" => do
      let a ← parseRD? (args.take 18)
      let b ← parseRD? (args.drop 18)
      pure (match Gen.eq a b, Gen.hashKey a, Gen.hashKey b with
        | .ok e, .ok ha, .ok hb => s!"ok {showBool e} {showBool (decide (ha = hb))}"
        | .error e, _, _ => "err " ++ e.name
        | _, .error e, _ => "err " ++ e.name
        | _, _, .error e => "err " ++ e.name)
  | "rdgen.add" => do
      let d ← parseRD? (args.take 18)
      let x ← parseTemporal? (args.drop 18)
      pure (Py.showR showTemporal (Gen.addDt d x))
  | "rdgen.radd" => do
      let d ← parseRD? (args.take 18)
      let x ← parseTemporal? (args.drop 18)
      pure (Py.showR showTemporal (Gen.raddDt d x))
  | "rdgen.rsub" => do
      let d ← parseRD? (args.take 18)
      let x ← parseTemporal? (args.drop 18)
      pure (Py.showR showTemporal (Gen.rsubDt d x))
  | "rdgen.diff" => do
      let a ← parseTemporal? (args.take 8)
      let b ← parseTemporal? (args.drop 8)
      pure (match Gen.initDiff (fun _ _ => 0) 2 a b with
        | .error .NotImplemented => "fuel"
        | r => Py.showR showRD r)
  | "rdgen.diffn" => match args with
    | n :: rest => do
      let n' ← n.toNat?
      let a ← parseTemporal? (rest.take 8)
      let b ← parseTemporal? (rest.drop 8)
      pure (match Gen.initDiff (fun _ _ => 0) n' a b with
        | .error .NotImplemented => "fuel"
        | r => Py.showR showRD r)
    | _ => none
  | "rdgen.diffo" => do
      let a ← parseTemporal? (args.take 8)
      let b ← parseTemporal? ((args.drop 8).take 8)
      let rest ← ((args.drop 16).mapM parseInt?)
      let off ← offOf a b rest
      pure (match Gen.initDiff off 2 a b with
        | .error .NotImplemented => "fuel"
        | r => Py.showR showRD r)
  | _ => none

/-- the steps of `rd.hist`: `U` a use (any), `S <0..7> <int>` a relative attribute, `A <0..6> <int|->` an absolute
    attribute, `D <wd|-> <n|->` the weekday attribute, `W <int>` the `weeks` setter -/
def parseSteps? : List String → Option (List RDH.Step)
  | [] => some []
  | "U" :: rest => (parseSteps? rest).map (fun l => RDH.Step.use .bool :: l)
  | "W" :: v :: rest => do
      let v' ← parseInt? v
      let l ← parseSteps? rest
      pure (RDH.Step.set (.weeks v') :: l)
  | "S" :: i :: v :: rest => do
      let v' ← parseInt? v
      let m ← match i with
        | "0" => some (RDH.Mut.years v') | "1" => some (.months v') | "2" => some (.days v') | "3" => some (.leapdays v')
        | "4" => some (.hours v') | "5" => some (.minutes v') | "6" => some (.seconds v') | "7" => some (.microseconds v')
        | _ => none
      let l ← parseSteps? rest
      pure (RDH.Step.set m :: l)
  | "A" :: i :: v :: rest => do
      let v' ← parseOptInt? v
      let m ← match i with
        | "0" => some (RDH.Mut.year v') | "1" => some (.month v') | "2" => some (.day v') | "3" => some (.hour v')
        | "4" => some (.minute v') | "5" => some (.second v') | "6" => some (.microsecond v')
        | _ => none
      let l ← parseSteps? rest
      pure (RDH.Step.set m :: l)
  | "D" :: w :: n :: rest => do
      let w' ← parseOptInt? w
      let n' ← parseOptInt? n
      let l ← parseSteps? rest
      pure (RDH.Step.set (.weekday (w'.map (fun x => (x, n')))) :: l)
  | _ => none

def handle (op : String) (args : List String) : Option String :=
  match handleGen op args with
  | some r => some r
  | none =>
  match op with
  | "rd.fix" => (parseRD? args).map (fun d => "ok " ++ showRD (Gen.fix d))
  | "rd.setmonths" => match args.mapM parseInt? with
    | some [m] => let r := Gen.setMonths {} m; some s!"ok {r.years} {r.months}"
    | _ => none
  | "rd.muldy" => do
      let d ← parseRD? (args.take 18)
      match (args.drop 18).mapM parseInt? with
      | some [m, k] => pure ("ok " ++ showRD (mulDyadic d m k.toNat))
      | _ => none
  | "rd.divp2" => do
      let d ← parseRD? (args.take 18)
      match (args.drop 18).mapM parseInt? with
      | some [ng, k] => pure ("ok " ++ showRD (divPow2 d (ng != 0) k.toNat))
      | _ => none
  | "rd.normalized" => (parseRD? args).map (fun d => "ok " ++ showRD (normalizedInt d))
  | "rd.weeks" => (parseRD? args).map (fun d => s!"ok {RDH.weeksOf d}")
  | "rd.setweeks" => do
      let d ← parseRD? (args.take 18)
      let v ← (args.drop 18).head? >>= parseInt?
      pure ("ok " ++ showRD (RDH.setWeeks d v))
  | "rd.hist" => do
      let d ← parseRD? (args.take 18)
      let st ← parseSteps? (args.drop 18)
      pure ("ok " ++ showRD (RDH.run d st).1)
  | "rd.ydayidx" => some ("ok " ++ showIntList ydayidx)
  | "rd.mk" => (parseKw? args).map (fun k => Py.showR showRD (mk k))
  | "rd.expr" => (evalRPN args []).map (Py.showR showRD)
  | "rd.bool" => (parseRD? args).map (fun d => "ok " ++ showBool (RDM.bool d))
  | "rd.hash" => (parseRD? args).map (fun d => "ok " ++ showHashList (hashList d))
  | "rd.eq" => do
      let a ← parseRD? (args.take 18)
      let b ← parseRD? (args.drop 18)
      pure s!"ok {showBool (RDM.eq a b)} {showBool (decide (hashKey a = hashKey b))}"
  | "rd.add" => do
      let d ← parseRD? (args.take 18)
      let x ← parseTemporal? (args.drop 18)
      pure (Py.showR showTemporal (applyTo d x))
  | "rd.rsub" => do
      let d ← parseRD? (args.take 18)
      let x ← parseTemporal? (args.drop 18)
      pure (Py.showR showTemporal (rsub d x))
  | "rd.spec" => do
      let d ← parseRD? (args.take 18)
      let x ← parseTemporal? (args.drop 18)
      pure (Py.showR showTemporal (RDSpec.apply d x))
  | "rd.diff" => do
      let a ← parseTemporal? (args.take 8)
      let b ← parseTemporal? (args.drop 8)
      pure (match diff (fun _ _ => 0) a b with
        | none => "fuel"
        | some r => Py.showR showRD r)
  | "rd.diffn" => match args with
    | n :: rest => do
      let n' ← n.toNat?
      let a ← parseTemporal? (rest.take 8)
      let b ← parseTemporal? (rest.drop 8)
      pure (match diffN (fun _ _ => 0) n' a b with
        | none => "fuel"
        | some r => Py.showR showRD r)
    | _ => none
  | "rd.diffo" => do
      -- rd.diffo <a:8> <b:8> <offA µs> <k off>…: utcoffsets tabulated at a's wall time and at the
      -- whole-month shifts of b's wall time (the only instants the constructor can ask about)
      let a ← parseTemporal? (args.take 8)
      let b ← parseTemporal? ((args.drop 8).take 8)
      let rest ← ((args.drop 16).mapM parseInt?)
      match rest with
      | offA :: ks =>
        let zoneOf : Kind → Nat := fun k => match k with | .aware z _ => z | _ => 0
        let tab := offTable (zoneOf b.kind) b.t ks
        let off : Nat → DT → Int := fun z t =>
          match tab.find? (fun e => e.1 = z ∧ e.2.1 = t) with
          | some e => e.2.2
          | none => if z = zoneOf a.kind ∧ t = a.t then offA else offA
        pure (match diff off a b with
          | none => "fuel"
          | some r => Py.showR showRD r)
      | _ => none
  | _ => none

end Ops.RelativeDelta
