/- Ops/TzHelpGen.lean — driver ops running the TRANSLATED module-level helpers (Generated/TzHelpKernels.lean) and fixed-zone
   methods (Generated/TzFixedKernels.lean) for the per-run differential validation of the HelpPy translator.

    tzhelp.wall <hex tzif> [w…]     per wall second: A0 A1 (aware dt, fold 0/1): exists,ambiguous,resolve ; N0 N1 (naive dt + tz)
                                    and X0 X1 (dt attached to ANOTHER zone + tz): exists,ambiguous
    tzhelp.fixed <name hex|-> <num|td> <seconds> [t…]    tzoffset(name, offset): offset,dst,name,amb then fromutc walls; eq table
    tzhelp.utc [t…]                 tzutc: the same
    tzhelp.local <time.timezone> <time.altzone> <time.daylight> <tzname[0] hex> <tzname[1] hex>    tzlocal(): fields, eq row, class facts
-/
import DateutilVerif.Ops.Zones
import DateutilVerif.Generated.TzHelpKernels
import DateutilVerif.Generated.TzFixedKernels

namespace Ops.TzHelpGen
open Wire TZ Ops.Zones HelpPy

def zoneOfFile (z : TzFile) (id : Nat) : HelpPy.Zone :=
  { id := id, ops := z.ops, dst := fun w => TZ.dst z w, hasIsAmbiguous := true }

def otherZone : HelpPy.Zone :=
  { id := 7, dst := fun _ => .ok 0,
    ops := { utcoffset := fun _ => .ok 19800, fromutc := fun t => .ok ⟨t + 19800, false⟩, isAmbiguous := fun _ => .ok false } }

def showRDt : Py.R HDt → String
  | .ok d => s!"{d.wall}/{showBool d.fold}"
  | .error e => "!" ++ e.name

def wallLine (z : TzFile) (w : Int) : String :=
  let Z := zoneOfFile z 1
  let f (fold : Bool) (dz tz : Option HelpPy.Zone) (withR : Bool) : String :=
    let d : HDt := { wall := w, fold := fold, tz := dz }
    s!"{showRBool (Gen.datetimeExists d tz)},{showRBool (Gen.datetimeAmbiguous d tz)}" ++
      (if withR then "," ++ showRDt (Gen.resolveImaginary d) else "")
  ";".intercalate [f false (some Z) none true, f true (some Z) none true, f false none (some Z) false, f true none (some Z) false,
                   f false (some otherZone) (some Z) false, f true (some otherZone) (some Z) false]

def showTri : Py.R Fact.Tri → String
  | .ok .t => "t" | .ok .f => "f" | .ok .ni => "ni"
  | .error e => "!" ++ e.name

def others : List Fact.Zone :=
  [.utc, .offset "" 0, .offset "A" 3600, .offset "B" (-3600), .offset "C" 1, .loc 0 0 false "UTC", .file 0,
   .range ⟨"", "", 0, 0, 0, 0⟩]

def fixedLine (self : Py.R Fixed) (ts : List Int) : String :=
  match self with
  | .error e => "err " ++ e.name
  | .ok z =>
    let d (t : Int) : HDt := { wall := t, fold := false, tz := none }
    let head := s!"{showRInt (Gen.tzoffset_utcoffset z (d 0))},{showRInt (Gen.tzoffset_dst z (d 0))}," ++
      s!"{showRName (Gen.tzoffset_tzname z (d 0))},{showRBool (Gen.tzoffset_isAmbiguous z (d 0))}"
    let fu := " ".intercalate (ts.map fun t => showRDt (Gen.tzoffset_fromutc z (d t)))
    let eqs := ",".intercalate (others.map fun o => showTri (Gen.tzoffset_eq z o))
    s!"ok {head} {fu} {eqs} {showBool Gen.tzoffset_hashIsNone}{showBool Gen.tzoffset_reduceIsObjectReduce}{showBool Gen.tzoffset_neIsNotEq}"

def handle (op : String) (args : List String) : Option String :=
  match op, args with
  | "tzhelp.wall", [hex, ws] =>
      (parseIntList? ws).bind fun ws => withZone hex (fun _ z => "ok " ++ " ".intercalate (ws.map (wallLine z)))
  | "tzhelp.fixed", [name, kind, secs, ts] => do
      let nm ← if name == "-" then some none else (parseHexBytes? name).map some
      let s ← parseInt? secs
      let ts ← parseIntList? ts
      let arg ← if kind == "num" then some (OffArg.num s) else if kind == "td" then some (OffArg.td s) else none
      pure (fixedLine (Gen.tzoffset_init nm arg) ts)
  | "tzhelp.utc", [ts] => do
      let ts ← parseIntList? ts
      let d (t : Int) : HDt := { wall := t, fold := false, tz := none }
      let head := s!"{showRInt (Gen.tzutc_utcoffset (d 0))},{showRInt (Gen.tzutc_dst (d 0))}," ++
        s!"{showRName (Gen.tzutc_tzname (d 0))},{showRBool (Gen.tzutc_isAmbiguous (d 0))}"
      let fu := " ".intercalate (ts.map fun t => showRDt (Gen.tzutc_fromutc (d t)))
      let eqs := ",".intercalate (others.map fun o => showTri (Gen.tzutc_eq o))
      pure s!"ok {head} {fu} {eqs} {showBool Gen.tzutc_hashIsNone}{showBool Gen.tzutc_reduceIsObjectReduce}{showBool Gen.tzutc_neIsNotEq}"
  | "tzhelp.local", [tzn, alt, dl, n0, n1] => do
      let tzn ← parseInt? tzn; let alt ← parseInt? alt; let dl ← parseInt? dl
      let n0 ← parseHexString? n0; let n1 ← parseHexString? n1
      pure (match Gen.tzlocal_init ⟨tzn, alt, dl, (n0, n1)⟩ with
        | .error e => err e
        | .ok z =>
          let others : List Fact.Zone := [.utc, .offset n0 z.stdOffset, .offset "Q" z.stdOffset, .offset n0 (z.stdOffset + 1),
            .loc z.stdOffset z.dstOffset z.hasdst n0, .loc (z.stdOffset + 60) z.dstOffset false n0, .file 0]
          s!"ok {z.stdOffset},{z.dstOffset},{z.dstSaved},{showBool z.hasdst},{showHexString z.tznames.1},{showHexString z.tznames.2} " ++
            ",".intercalate (others.map fun o => showTri (Gen.tzlocal_eq z o)) ++
            s!" {showBool Gen.tzlocal_hashIsNone}{showBool Gen.tzlocal_reduceIsObjectReduce}{showBool Gen.tzlocal_neIsNotEq}")
  | _, _ => none

end Ops.TzHelpGen
