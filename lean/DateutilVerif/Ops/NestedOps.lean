/-
  Ops/NestedOps.lean — `nest.run <members> <sets> <queries> <shared 0|1> <segments>` (C11, nested objects)
    members : `[..]|[..]` member-rule sequences (`-` none)
    sets    : `inc/exc;inc/exc` with slots joined by `+`, a slot = `m<k>` (cached member k) or `[..]` (plain stream)
    queries : `obj@query;…` (objects: members 0..k-1, then the sets)
    segments: as cache.run, over runner numbers (= position in <queries>)
  → `ok <trace> <object states joined by |> <statuses> <results>`; object state = `cache,complete,len,lock`.
-/
import DateutilVerif.Base.Wire
import DateutilVerif.Model.CacheNested
import DateutilVerif.Ops.CacheOps
import DateutilVerif.Ops.RSetOps

namespace Ops.NestedOps
open Wire _root_.Queries _root_.Cache _root_.Nested Ops.QueryOps

def parseSlot? (s : String) : Option Slot :=
  match s.toList with
  | 'm' :: rest => (String.ofList rest).toNat?.map .cached
  | _ => (parseIntList? s).map .plain

def parseSlots? (s : String) : Option (List Slot) :=
  if s.isEmpty then some [] else (s.splitOn "+").mapM parseSlot?

def parseSets? (s : String) : Option (List (List Slot × List Slot)) :=
  if s == "-" then some [] else
  (s.splitOn ";").mapM (fun d => match d.splitOn "/" with
    | [a, b] => do some (← parseSlots? a, ← parseSlots? b)
    | _ => none)

def parseQs? (s : String) : Option (List (Nat × Query)) :=
  if s == "-" then some [] else
  (s.splitOn ";").mapM (fun d => match d.splitOn "@" with
    | [o, q] => do some (← o.toNat?, ← parseQuery? q)
    | _ => none)

/-! The model's steps are finer than CPython's `line` events: entering or resuming a member iterator's
    frame is an event without a statement, returning from it (a yield, the end) and the completion
    of line 138 after its pulls are statements without an event, and so are the steps of list
    iterators.  `advance` runs a runner from one event to the next; `focus` = the owned member
    iterator whose frame the runner is paused in (`none`: its own frame). -/

structure RunSt where
  ns : NState
  focus : List (Option Nat)
  deriving Inhabited

def setOf (ns : NState) (r : Runner) : Option SetM := ns.sets[r.1 - ns.members.length]?

def headSub (ns : NState) (S : SetM) : Option (Nat × PC) :=
  match S.pulls with
  | p :: _ =>
    let k := match p with | .create k => k | .next k => k
    (S.subs[k]?).bind (fun mt => (ns.members[mt.1]?).map (fun M => (k, Nested.pcOf M mt.2)))
  | [] => none

/-- pulls answered by a list iterator run no traced statement -/
def silentPulls (ns : NState) (r : Runner) : Nat → NState
  | 0 => ns
  | fuel + 1 =>
    match setOf ns r with
    | none => ns
    | some S =>
      match headSub ns S with
      | some (_, pc) =>
        if pc == .listIter then
          match Nested.step ns r with
          | some (ns', _) => silentPulls ns' r fuel
          | none => ns
        else ns
      | none => ns

/-- a direct thread inside a list iterator runs to its end without events -/
def flushTop (ns : NState) (r : Runner) : Nat → NState
  | 0 => ns
  | fuel + 1 =>
    let pc := if r.1 < ns.members.length then (match ns.members[r.1]? with | some M => Nested.pcOf M r.2 | none => .done)
              else (match setOf ns r with | some S => Nested.pcOf S.st r.2 | none => .done)
    if pc == .listIter then
      match Nested.step ns r with
      | some (ns', _) => flushTop ns' r fuel
      | none => ns
    else ns

/-- after the pulls of a `next(gen)`: either pause in the next member frame, or finish line 138 and pause in the own frame -/
def settleCall (ns : NState) (r : Runner) : Option (NState × Option Nat × PC) :=
  let ns1 := silentPulls ns r 100000
  match setOf ns1 r with
  | none => none
  | some S =>
    match headSub ns1 S with
    | some (k, pc) => some (ns1, some k, pc)
    | none =>
      match Nested.step ns1 r with          -- line 138 completes
      | some (ns2, pc) => let ns3 := flushTop ns2 r 100000; some (ns3, none, pc)
      | none => none

/-- one event of runner i: `none` = blocked -/
def advance (st : RunSt) (r : Runner) (i : Nat) : Option (RunSt × PC) :=
  let ns := st.ns
  if r.1 < ns.members.length then
    match Nested.step ns r with
    | none => none
    | some (ns', pc) => let ns2 := flushTop ns' r 100000; some ({ st with ns := ns2 }, pc)
  else
    match setOf ns r with
    | none => none
    | some S =>
      let inCall := Nested.pcOf S.st r.2 == .l138 && !S.pulls.isEmpty
      match st.focus.getD i none, inCall with
      | none, true =>
        -- paused on line 138: the next event is in a member frame (or, if every pull is silent, after the line)
        (settleCall ns r).map (fun (ns', f, pc) => ({ ns := ns', focus := st.focus.set i f }, pc))
      | some _, true =>
        match Nested.step ns r with
        | none => none
        | some (ns', _) => (settleCall ns' r).map (fun (ns2, f, pc) => ({ ns := ns2, focus := st.focus.set i f }, pc))
      | _, false =>
        match Nested.step ns r with
        | none => none
        | some (ns', pc) => let ns2 := flushTop ns' r 100000; some ({ ns := ns2, focus := st.focus.set i none }, pc)

def runSeg (st : RunSt) (rs : List Runner) (i : Nat) : Nat → List String → Bool → RunSt × List String × Bool
  | 0, tr, p => (st, tr, p)
  | k + 1, tr, p =>
    match rs[i]? with
    | none => (st, tr, p)
    | some r =>
      if Nested.finished st.ns r then (st, tr, p) else
      match advance st r i with
      | none => (st, s!"{i}.B" :: tr, p)
      | some (st', pc) =>
        let line := if Nested.finished st'.ns r then PC.done.line else pc.line
        runSeg st' rs i k (s!"{i}.{line}" :: tr) true

def bigFuel : Nat := 100000

def runSegs (st : RunSt) (rs : List Runner) (tr : List String) : List (Nat × Option Nat) → RunSt × List String
  | [] => (st, tr)
  | (i, k) :: rest =>
    let (st', tr', _) := runSeg st rs i (k.getD bigFuel) tr false
    runSegs st' rs tr' rest

def finishAll (st : RunSt) (rs : List Runner) (tr : List String) : Nat → RunSt × List String
  | 0 => (st, tr)
  | rounds + 1 =>
    let (st', tr', p) := (List.range rs.length).foldl (fun (acc : RunSt × List String × Bool) i =>
        let (s1, tr1, p1) := runSeg acc.1 rs i bigFuel acc.2.1 false
        (s1, tr1, acc.2.2 || p1)) (st, tr, false)
    if p then finishAll st' rs tr' rounds else (st', tr')

def showObj (sh : Cache.Shared) : String :=
  s!"{showIntList sh.cache},{showBool sh.complete},{showOptInt (sh.len.map Int.ofNat)},{if sh.lock.isSome then "L" else "-"}"

def runnerIter (ns : NState) (r : Runner) : Option Cache.Iter :=
  if r.1 < ns.members.length then (ns.members[r.1]?).bind (fun M => M.its[r.2]?)
  else (ns.sets[r.1 - ns.members.length]?).bind (fun S => S.st.its[r.2]?)

def handle (op : String) (args : List String) : Option String :=
  match op, args with
  | "nest.run", [ms, sets, qs, sh, segs] => do
      let ms ← Ops.RSetOps.parseStreams? ms
      let sets ← parseSets? sets
      let qs ← parseQs? qs
      let segs ← Ops.CacheOps.parseSegments? segs
      let (ns0, rs) := Nested.init ms sets qs (sh != "0")
      let st0 : RunSt := { ns := ns0, focus := rs.map (fun _ => none) }
      let (st1, tr1) := runSegs st0 rs [] segs
      let (st2, tr2) := finishAll st1 rs tr1 (rs.length + 2)
      let ns2 := st2.ns
      let tr := ",".intercalate tr2.reverse
      let objs := "|".intercalate (ns2.members.map (fun M => showObj M.sh) ++ ns2.sets.map (fun S => showObj S.st.sh))
      let st := ";".intercalate (rs.map (fun r =>
        if Nested.finished ns2 r then "done" else "stuck"))
      let res := ";".intercalate (rs.map (fun r => match runnerIter ns2 r with
        | some it => Ops.CacheOps.showThreadRes it | none => "?"))
      some s!"ok {if tr.isEmpty then "-" else tr} {if objs.isEmpty then "-" else objs} {if st.isEmpty then "-" else st} {if res.isEmpty then "-" else res}"
  | _, _ => none

end Ops.NestedOps
