/-
  Ops/GettzGen.lean — `gzgen.resolve`: the resolution cascade RE-TRANSLATED from `GettzFunc.nocache` on this run
  (Generated/GettzNocache.lean) on the environment wire form of `gettz.resolve` (Ops/Factory.lean):

  gzgen.resolve <tzvar|-> <tzfiles> <tzpaths> <files> <tzname> <vendored> <tzstrok 0|1> <name|->
-/
import DateutilVerif.Ops.Factory
import DateutilVerif.Generated.GettzNocache

namespace Ops.GettzGen
open Ops.Factory

def handle (op : String) (args : List String) : Option String :=
  match op, args with
  | "gzgen.resolve", [tzvar, tzfiles, tzpaths, files, tzname, vend, sok, name] =>
    some <| Id.run do
      let some tzvar := parseOptStr? tzvar | return "err BadRequest"
      let some tzfiles := parseStrList? tzfiles | return "err BadRequest"
      let some tzpaths := parseStrList? tzpaths | return "err BadRequest"
      let some files := parseFiles? files | return "err BadRequest"
      let some tzname := parseStrList? tzname | return "err BadRequest"
      let some vend := parseStrList? vend | return "err BadRequest"
      let some name := parseOptStr? name | return "err BadRequest"
      let env : Gettz.Env := {
        tzVar := tzvar, tzfiles := tzfiles, tzpaths := tzpaths,
        isfile := fun p => files.any (fun f => f.1 == p),
        load := fun p => ((files.find? (fun f => f.1 == p)).map (·.2)).getD .osError,
        tzname := tzname, vendored := fun n => vend.contains n, tzstrOk := fun _ => sok == "1" }
      let r := Gen.nocache env name
      return showResolution r ++ (match r with | .ok x => s!" c{Gettz.cacheClass name x}" | .error _ => "")
  | _, _ => none

end Ops.GettzGen
