/- Ops/ICal.lean — driver ops for the tzical model (C17). -/
import DateutilVerif.Base.Wire
import DateutilVerif.Model.ICal

namespace Ops.ICal
open Wire

def hexL (l : List Char) : String := showHexString (String.ofList l)

def showComp (c : ICal.Comp) : String :=
  s!"{c.tzoffsetfrom},{c.tzoffsetto},{showBool c.isdst}," ++
    (match c.tzname with | none => "-" | some n => "s" ++ hexL n) ++ "," ++ Py.showList hexL c.rrulelines

def showVtz (v : ICal.VTz) : String := hexL v.tzid ++ "=" ++ "|".intercalate (v.comps.map showComp)

/-- `from,to,isdst,[onsets]|…` -/
def parseComps? (s : String) : Option (List ICal.ZComp) :=
  (s.splitOn "|").mapM (fun c =>
    -- split at the first three commas only (the onset list contains commas)
    match c.splitOn "," with
    | f :: t :: d :: rest => do
      let onsets ← parseIntList? (",".intercalate rest)
      some { tzoffsetfrom := ← f.toInt?, tzoffsetto := ← t.toInt?, isdst := d == "1", onsets := onsets }
    | _ => none)

def handle (op : String) (args : List String) : Option String :=
  match op, args with
  | "ical.parse", [h] => do
      let s ← parseHexString? h
      some (match ICal.parseRfc s.toList with
        | .ok vs => "ok " ++ toString vs.length ++ " " ++ ";".intercalate (vs.map showVtz)
        | .error e => "err " ++ e.name)
  | "ical.rrulecalls", [h] => do
      let s ← parseHexString? h
      some ("ok " ++ ";".intercalate ((ICal.rruleCalls s.toList).map (fun g => Py.showList hexL g)))
  | "ical.get", [h, t] => do
      let s ← parseHexString? h
      let tz : Option (List Char) ← (if t == "-" then some none else (parseHexString? t).map (fun x => some x.toList))
      some (match ICal.parseRfc s.toList with
        | .error e => "err " ++ e.name
        | .ok vs => match ICal.get vs tz with
          | .error e => "err " ++ e.name
          | .ok none => "ok none"
          | .ok (some i) => s!"ok {i}")
  | "ical.offset", [h] => do
      let s ← parseHexString? h
      some (Py.showR showInt (ICal.parseOffset s.toList))
  | "ical.query", [cs, w, f] => do
      let comps ← parseComps? cs
      let w ← parseInt? w
      let fold := f == "1"
      some s!"ok {ICal.findCompIdx comps w fold} {ICal.utcoffset comps w fold} {ICal.dst comps w fold}"
  | "ical.fromutc", [cs, t] => do
      let comps ← parseComps? cs
      let t ← parseInt? t
      let r := (ICal.generic comps).fromutc t
      some s!"ok {r.1} {showBool r.2}"
  | "ical.cached", [cs, qs] => do
      -- a sequence of queries `w:fold,w:fold,…` through the ten-entry cache; answers must equal the uncached ones
      let comps ← parseComps? cs
      let qs ← (qs.splitOn ";").mapM (fun q => match q.splitOn ":" with
        | [w, f] => do some ((← w.toInt?), f == "1")
        | _ => none)
      let (outs, _) := qs.foldl (fun (acc : List Nat × ICal.Cache) q =>
        let (i, c) := ICal.findCompCached comps acc.2 q.1 q.2
        (acc.1 ++ [i], c)) ([], [])
      some ("ok " ++ Py.showList toString outs)
  | _, _ => none

end Ops.ICal
