/- Ops/Zones.lean — driver ops for the TZif decoder, the tzfile lookups, range / local zones. -/
import DateutilVerif.Base.Wire
import DateutilVerif.Model.TZif
import DateutilVerif.Model.Zones
import DateutilVerif.Spec.Zones

namespace Ops.Zones
open Wire TZ

def showTT (t : TType) : String :=
  s!"{t.off}/{t.isdst}/{showHexBytes t.abbr}/{showBool t.isstd}/{showBool t.isgmt}/{t.dstoff}"
def showOptTT : Option TType → String
  | none => "-"
  | some t => showTT t
def showTTs (l : List TType) : String := Py.showList showTT l

def err (e : Py.PyErr) : String := "err " ++ e.name

def showRInt : Py.R Int → String
  | .ok v => toString v
  | .error e => "!" ++ e.name
def showRBool : Py.R Bool → String
  | .ok v => showBool v
  | .error e => "!" ++ e.name
def showRName : Py.R (Option (List UInt8)) → String
  | .ok none => "-"
  | .ok (some a) => showHexBytes a
  | .error e => "!" ++ e.name
def showRWall : Py.R Wall → String
  | .ok w => s!"{w.wall},{showBool w.fold}"
  | .error e => "!" ++ e.name

/-- canonical dump of a zone object -/
def dump (z : TzFile) : String :=
  s!"ok utc={showIntList z.utc} tl={showIntList z.transList} w0={showIntList z.wall0} " ++
  s!"w1={showIntList z.wall1} tts={showTTs z.tts} types={showTTs z.ttinfoList} " ++
  s!"std={showOptTT z.std} dst={showOptTT z.dst} before={showOptTT z.before}"

def withZone (hex : String) (k : Raw → TzFile → String) : Option String :=
  match parseHexBytes? hex with
  | none => none
  | some bs => some (match decode bs with
      | .error e => err e
      | .ok r => k r (build r))

def fromutcLine (z : TzFile) (t : Int) : String :=
  match fromutc z t with
  | .error e => "!" ++ e.name
  | .ok w => s!"{w.wall},{showBool w.fold},{showRInt (utcoffset z w)},{showRInt (dst z w)},{showRName (tzname z w)}"

def wallLine (z : TzFile) (w : Int) : String :=
  let f (fold : Bool) : String :=
    let x : Wall := ⟨w, fold⟩
    s!"{showRInt (utcoffset z x)},{showRInt (dst z x)},{showRName (tzname z x)}," ++
    s!"{showRBool (datetimeExists z.ops x)},{showRWall (resolveImaginary z.ops x)}"
  s!"{showBool (isAmbiguous z w)};{f false};{f true}"

def typeLine (r : Raw) (t : Int) : String :=
  match Spec.typeAt r t with
  | none => "-"
  | some tt => s!"{tt.off},{tt.isdst},{showHexBytes tt.abbr}"

def insertSorted (x : Int) : List Int → List Int
  | [] => [x]
  | y :: ys => if x ≤ y then x :: y :: ys else y :: insertSorted x ys
def sortInts (l : List Int) : List Int := l.foldr insertSorted []

def parseTable : List Int → Option (List (Int × Int × Int))
  | [] => some []
  | y :: a :: b :: rest => (parseTable rest).map ((y, a, b) :: ·)
  | _ => none

def rangeOf (args : List String) : Option (RangeZone × List Int) :=
  match args with
  | [s, d, h, tbl, xs] => do
      let s ← parseInt? s; let d ← parseInt? d; let h ← parseInt? h
      let tbl ← parseIntList? tbl; let tbl ← parseTable tbl
      let xs ← parseIntList? xs
      pure (RangeZone.ofTable s d (h != 0) tbl, xs)
  | _ => none

def zoneWallLine (z : ZoneOps) (w : Int) : String :=
  let f (fold : Bool) : String :=
    let x : Wall := ⟨w, fold⟩
    s!"{showRInt (z.utcoffset x)},{showRBool (datetimeExists z x)},{showRWall (resolveImaginary z x)}"
  s!"{showRBool (z.isAmbiguous w)};{f false};{f true}"

def zoneFromutcLine (z : ZoneOps) (t : Int) : String :=
  match z.fromutc t with
  | .error e => "!" ++ e.name
  | .ok w => s!"{w.wall},{showBool w.fold},{showRInt (z.utcoffset w)}"

def handle (op : String) (args : List String) : Option String :=
  match op, args with
  | "tzfile.load", [hex] => withZone hex (fun _ z => dump z)
  | "tzfile.fromutc", [hex, ts] =>
      (parseIntList? ts).bind fun ts => withZone hex (fun _ z => "ok " ++ " ".intercalate (ts.map (fromutcLine z)))
  | "tzfile.wall", [hex, ws] =>
      (parseIntList? ws).bind fun ws => withZone hex (fun _ z => "ok " ++ " ".intercalate (ws.map (wallLine z)))
  | "tzfile.typeat", [hex, ts] =>
      (parseIntList? ts).bind fun ts => withZone hex (fun r _ => "ok " ++ " ".intercalate (ts.map (typeLine r)))
  | "tzfile.pre", [hex, ws] =>
      (parseIntList? ws).bind fun ws => withZone hex (fun r _ =>
        "ok " ++ " ".intercalate (ws.map (fun w => showIntList (sortInts (Spec.pre r w)))))
  | "tzfile.wf", [hex] => withZone hex (fun r _ => s!"ok {showBool (Spec.wf r)} {showBool (Spec.wfCoarse r)}")
  | "tzfile.reenc", [hex] => withZone hex (fun r _ => "ok " ++ showHexBytes (Spec.encode r))
  | "range.fromutc", _ =>
      (rangeOf args).map fun (z, ts) => "ok " ++ " ".intercalate (ts.map (zoneFromutcLine z.ops))
  | "range.wall", _ =>
      (rangeOf args).map fun (z, ws) => "ok " ++ " ".intercalate (ws.map (zoneWallLine z.ops))
  | "local.fromutc", _ =>
      (rangeOf args).map fun (z, ts) => "ok " ++ " ".intercalate (ts.map (zoneFromutcLine (localZone z).ops))
  | "local.wall", _ =>
      (rangeOf args).map fun (z, ws) => "ok " ++ " ".intercalate (ws.map (zoneWallLine (localZone z).ops))
  | "fixed.fromutc", [o, ts] => do
      let o ← parseInt? o; let ts ← parseIntList? ts
      let z : FixedZone := ⟨o, none⟩
      pure ("ok " ++ " ".intercalate (ts.map (zoneFromutcLine z.ops)))
  | "fixed.wall", [o, ws] => do
      let o ← parseInt? o; let ws ← parseIntList? ws
      let z : FixedZone := ⟨o, none⟩
      pure ("ok " ++ " ".intercalate (ws.map (zoneWallLine z.ops)))
  | _, _ => none

end Ops.Zones
