/- Ops/ScanOps.lean — driver ops `query.tgen|tfast <src> <query>`: the query methods of `rrulebase` AS TRANSLATED from the
   source (Generated/RRBaseQueries.lean, meaning Model/ScanPy.lean) run on a sequence — validation of the translation (C12). -/
import DateutilVerif.Base.Wire
import DateutilVerif.Generated.RRBaseQueries
import DateutilVerif.Ops.QueryOps

namespace Ops.ScanOps
open Wire _root_.Queries _root_.ScanPy Ops.QueryOps

def untranslated : Option Res → String
  | some r => showRes r
  | none => "untranslated"

/-- the translated method for a query (`all` / `take` are plain iteration: not a method of their own) -/
def runT (fastPath : Bool) (q : Query) (xs : List Int) : String :=
  let go (m : Method) (e : Env) : String := showRes (if fastPath then runFast m e xs else runGen m e xs)
  match q with
  | .contains x => go Gen.rrbase_contains { item := x }
  | .before t inc => go Gen.rrbase_before { dt := t, inc := inc }
  | .after t inc => go Gen.rrbase_after { dt := t, inc := inc }
  | .xafter t n inc => go Gen.rrbase_xafter { dt := t, count := n, inc := inc }
  | .between a b inc => go Gen.rrbase_between { after := a, before := b, inc := inc }
  | .count => untranslated (runCount Gen.rrbase_count (if fastPath then some xs.length else none) xs)
  | .index i => untranslated (if fastPath then runIndexFast Gen.rrbase_getitem xs i else runIndexGen Gen.rrbase_getitem xs i)
  | .slice a b c => untranslated (if fastPath then runSliceFast Gen.rrbase_getitem xs a b c else runSliceGen Gen.rrbase_getitem xs a b c)
  | q => showRes (if fastPath then fast q xs else gen q xs)

def handle (op : String) (args : List String) : Option String :=
  match op, args with
  | "query.tgen", [src, q] => do
      let src ← parseIntList? src; let q ← parseQuery? q
      some (runT false q src)
  | "query.tfast", [src, q] => do
      let src ← parseIntList? src; let q ← parseQuery? q
      some (runT true q src)
  | _, _ => none

end Ops.ScanOps
