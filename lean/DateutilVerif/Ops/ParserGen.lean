/-
  Ops/ParserGen.lean — driver ops running the TRANSLATED functions of parser/_parser.py (Generated/ParserOps.lean,
  `Gen.P.*`) for the per-run differential validation of the PPy translator (harness/pgenlib.py).

    pgen.ymd <step;step;…>      a script on a fresh `_ymd()`; the script stops at the first exception
        t:<cps>:<classes>:<L>     append(str, label)          L = N | Y | M | D
        d:<num>:<scale>:<L>       append(Decimal num·10^-scale, label)
        n:<nat>:<L>               append(int, label)
        c:<num>:<scale>           could_be_day(Decimal)
        r:<yf><df>                resolve_ymd(yearfirst, dayfirst)
        s:<keys>:<i,j,…>          _resolve_from_stridxs({key: index …}) in that insertion order
      response: one item per executed step: the state `v,v,…|century|d|m|y` after an append, `0`/`1`, `y,m,d`,
      or `!Err`
-/
import DateutilVerif.Ops.Parser
import DateutilVerif.Generated.ParserOps

namespace Ops.ParserGen
open Wire PM Ops.Parser

def label? (s : String) : Option Label :=
  match s with
  | "N" => some .none | "Y" => some .Y | "M" => some .M | "D" => some .D
  | _ => none

def showON : Option Nat → String
  | none => "-"
  | some n => toString n

def showYmd (y : Ymd) : String :=
  ",".intercalate (y.vals.map toString) ++ s!"|{if y.century then 1 else 0}|{showON y.dIdx}|{showON y.mIdx}|{showON y.yIdx}"

def showYMD (r : YMD) : String := s!"{showON r.1},{showON r.2.1},{showON r.2.2}"

def natList? (s : String) : Option (List Nat) :=
  if s.isEmpty then some [] else (s.splitOn ",").mapM (·.toNat?)

/-- one step: the new state and what to print; `none` = malformed request -/
def step (y : Ymd) (s : String) : Option (Py.R (Ymd × String)) :=
  match s.splitOn ":" with
  | ["t", cps, classes, l] => do
    let cs ← parseCps? cps
    let l ← label? l
    let cs := if cps == "-" then [] else cs
    let cls := clsOfTable (mkTable cs (if classes == "-" then "" else classes))
    pure ((Gen.P.ymd_appendTok cls y cs l).map (fun y' => (y', showYmd y')))
  | ["d", num, scale, l] => do
    let n ← num.toNat?; let sc ← scale.toNat?; let l ← label? l
    pure ((Gen.P.ymd_appendDec asciiCls y ⟨n, sc⟩ l).map (fun y' => (y', showYmd y')))
  | ["n", num, l] => do
    let n ← num.toNat?; let l ← label? l
    pure ((Gen.P.ymd_appendNat asciiCls y n l).map (fun y' => (y', showYmd y')))
  | ["c", num, scale] => do
    let n ← num.toNat?; let sc ← scale.toNat?
    pure ((Gen.P.ymd_couldBeDay y ⟨n, sc⟩).map (fun b => (y, if b then "1" else "0")))
  | ["r", flags] =>
    match flags.toList with
    | [a, b] => some ((Gen.P.ymd_resolveYmd y (a = '1') (b = '1')).map (fun r => (y, showYMD r)))
    | _ => none
  | ["s", keys, idxs] => do
    let is ← natList? idxs
    if keys.length ≠ is.length then none
    pure ((Gen.P.ymd_resolveFromStridxs y (keys.toList.zip is)).map (fun r => (y, showYMD r)))
  | _ => none

def script (y : Ymd) : List String → List String → Option (List String)
  | [], acc => some acc.reverse
  | s :: rest, acc =>
    match step y s with
    | none => none
    | some (.error e) => some (("!" ++ e.name) :: acc).reverse
    | some (.ok (y', out)) => script y' rest (out :: acc)

def handle (op : String) (args : List String) : Option String :=
  match op, args with
  | "pgen.ymd", [steps] =>
    some (match script {} (steps.splitOn ";") [] with
      | some outs => "ok " ++ " ".intercalate outs
      | none => "bad-args")
  | _, _ => none

end Ops.ParserGen
