/-
  Ops/ParserGen.lean — driver ops running the TRANSLATED functions of parser/_parser.py (Generated/ParserOps.lean,
  `Gen.P.*`) for the per-run differential validation of the PPy translator (harness/pgenlib.py).

    pgen.ymd <step;step;…>      a script on a fresh `_ymd()`; the script stops at the first exception
        t:<cps>:<classes>:<L>     append(str, label)          L = N | Y | M | D
        d:<num>:<scale>:<L>       append(Decimal num·10^-scale, label)
        n:<nat>:<L>               append(int, label)
        c:<num>:<scale>           could_be_day(Decimal)
        r:<yf><df>                resolve_ymd(yearfirst, dayfirst)
        s:<keys>:<i,j,…>          _resolve_from_stridxs({key: index …}) in that insertion order
      response: one item per executed step: the state `v,v,…|century|d|m|y` after an append, `0`/`1`, `y,m,d`,
      or `!Err`
    pgen.info <info> <year> <century> <fn> <cps>       fn = jump | weekday | month | hms | ampm | pertain | utczone | tzoffset
    pgen.validate <info> <year> <century> <res.year|-> <century_specified> <tzname|N> <tzoffset|->   ->  year tzname tzoffset
    pgen.cbtz <info> <year> <century> <hour|-> <tzname|N> <tzoffset|-> <token cps>                  _could_be_tzname
    pgen.ampm <hour|-> <ampm|-> <fuzzy>                                                              _ampm_valid
    pgen.todec <cps> <classes>                         _to_decimal      -> num scale
    pgen.minsec <num> <scale>                          _parse_min_sec   -> minute second|-
    pgen.parsems <cps> <classes>                       _parsems         -> seconds microseconds
    pgen.assignhms <cps> <classes> <hms>               _assign_hms on an empty result -> hour minute second microsecond
    pgen.findhms <info> <year> <century> <idx> <allow_jump> <tok;tok;…|E>      _find_hms_idx -> index|-
    pgen.parsehms <info> <year> <century> <idx> <hms_idx|-> <tok;tok;…|E>      _parse_hms    -> new_idx hms|-
    pgen.assigntz <n0|N> <n1|N> <tzname|N>             _assign_tzname on a fold-0 datetime -> fold
    pgen.numtok <info> <year> <century> <fuzzy> <idx> <tok;tok;…> <classes of all tokens> <ymd v,v|century|d|m|y> <res.hour|->
                                                       _parse_numeric_token -> idx ; ymd ; hour minute second microsecond
    pgen.loop <info> <year> <century> <fuzzy> <tok;tok;…> <classes>      the whole `while` loop of parser._parse from i = 0
        -> tokens ; weekday hour minute second microsecond ampm tzname tzoffset ; ymd ; skipped
    pgen.parse <info> <year> <century> <dayfirst -1|0|1> <yearfirst> <fuzzy> <fuzzy_with_tokens> <cps> <classes>     _parse
        -> N | year month day weekday hour minute second microsecond ampm tzname tzoffset cs ; tokens|-
    pgen.parsetail <same arguments as parser.parse>    `parser.parse` from the `_parse` call to the return, same answer format
    pgen.recombine <tok;tok;…|E> <i,j,…|N>             _recombine_skipped -> [cps,cps,…]
    pgen.init <info wire (class attributes)> <now_year> <dayfirst> <yearfirst>     parserinfo.__init__ on those class tables
        -> year century dayfirst yearfirst ; jump keys ; weekdays ; months ; hms ; ampm ; utczone keys ; pertain keys
    pgen.tzinfo <tzinfos wire> <tzname|N> <tzoffset|->        _build_tzinfo -> d<data> | s<cps> | f <name> <seconds>
    pgen.naive <year|-> <month|-> <day|-> <weekday|-> <hour|-> <minute|-> <second|-> <microsecond|-> <default [7 ints]>
                                                       _build_naive -> Y M D h m s us
    pgen.step <info> <year> <century> <fuzzy> <i> <tok;tok;…> <classes> <ymd> <hour|-> <ampm|-> <tzname|N> <tzoffset|->
        one iteration of the `while` body of parser._parse
        -> i ; tokens ; weekday hour minute second microsecond ampm tzname tzoffset ; ymd ; skipped
-/
import DateutilVerif.Ops.Parser
import DateutilVerif.Generated.ParserOps

namespace Ops.ParserGen
open Wire PM Ops.Parser

def label? (s : String) : Option Label :=
  match s with
  | "N" => some .none | "Y" => some .Y | "M" => some .M | "D" => some .D
  | _ => none

def showON : Option Nat → String
  | none => "-"
  | some n => toString n

def showYmd (y : Ymd) : String :=
  ",".intercalate (y.vals.map toString) ++ s!"|{if y.century then 1 else 0}|{showON y.dIdx}|{showON y.mIdx}|{showON y.yIdx}"

def showYMD (r : YMD) : String := s!"{showON r.1},{showON r.2.1},{showON r.2.2}"

def natList? (s : String) : Option (List Nat) :=
  if s.isEmpty then some [] else (s.splitOn ",").mapM (·.toNat?)

/-- one step: the new state and what to print; `none` = malformed request -/
def step (y : Ymd) (s : String) : Option (Py.R (Ymd × String)) :=
  match s.splitOn ":" with
  | ["t", cps, classes, l] => do
    let cs ← parseCps? cps
    let l ← label? l
    let cs := if cps == "-" then [] else cs
    let cls := clsOfTable (mkTable cs (if classes == "-" then "" else classes))
    pure ((Gen.P.ymd_appendTok cls y cs l).map (fun y' => (y', showYmd y')))
  | ["d", num, scale, l] => do
    let n ← num.toNat?; let sc ← scale.toNat?; let l ← label? l
    pure ((Gen.P.ymd_appendDec asciiCls y ⟨n, sc⟩ l).map (fun y' => (y', showYmd y')))
  | ["n", num, l] => do
    let n ← num.toNat?; let l ← label? l
    pure ((Gen.P.ymd_appendNat asciiCls y n l).map (fun y' => (y', showYmd y')))
  | ["c", num, scale] => do
    let n ← num.toNat?; let sc ← scale.toNat?
    pure ((Gen.P.ymd_couldBeDay y ⟨n, sc⟩).map (fun b => (y, if b then "1" else "0")))
  | ["r", flags] =>
    match flags.toList with
    | [a, b] => some ((Gen.P.ymd_resolveYmd y (a = '1') (b = '1')).map (fun r => (y, showYMD r)))
    | _ => none
  | ["s", keys, idxs] => do
    let is ← natList? idxs
    if keys.length ≠ is.length then none
    pure ((Gen.P.ymd_resolveFromStridxs y (keys.toList.zip is)).map (fun r => (y, showYMD r)))
  | _ => none

def script (y : Ymd) : List String → List String → Option (List String)
  | [], acc => some acc.reverse
  | s :: rest, acc =>
    match step y s with
    | none => none
    | some (.error e) => some (("!" ++ e.name) :: acc).reverse
    | some (.ok (y', out)) => script y' rest (out :: acc)

def showR {α} (f : α → String) : Py.R α → String
  | .ok a => "ok " ++ f a
  | .error e => "ok !" ++ e.name

def showB (b : Bool) : String := if b then "1" else "0"
def showOI : Option Int → String
  | none => "-"
  | some n => toString n

def optNat? (s : String) : Option (Option Nat) := if s == "-" then some none else s.toNat?.map some

def withInfo (info year century : String) (k : Info → Option String) : Option String :=
  match year.toInt?, century.toInt? with
  | some y, some c => (parseInfo? info y c).bind k
  | _, _ => none

def toks? (s : String) : Option (List Token) :=
  if s == "E" then some [] else (s.splitOn ";").mapM (fun t => (parseCps? t).map (fun cs => if t == "-" then [] else cs))

def tokCls? (cps classes : String) : Option ((Char → CClass) × Token) := do
  let cs ← parseCps? cps
  let cs := if cps == "-" then [] else cs
  pure (clsOfTable (mkTable cs (if classes == "-" then "" else classes)), cs)

def dflt : Info := Info.default false false 2000 2000

def handleFn (op : String) (args : List String) : Option String :=
  match op, args with
  | "pgen.info", [info, y, c, fn, cps] => withInfo info y c fun i => do
    let t ← parseCps? cps
    let t := if cps == "-" then [] else t
    match fn with
    | "jump" => some (showR showB (Gen.P.info_jump i t))
    | "pertain" => some (showR showB (Gen.P.info_pertain i t))
    | "utczone" => some (showR showB (Gen.P.info_utczone i t))
    | "weekday" => some (showR showON (Gen.P.info_weekday i t))
    | "month" => some (showR showON (Gen.P.info_month i t))
    | "hms" => some (showR showON (Gen.P.info_hms i t))
    | "ampm" => some (showR showON (Gen.P.info_ampm i t))
    | "tzoffset" => some (showR showOI (Gen.P.info_tzoffset i t))
    | _ => none
  | "pgen.validate", [info, y, c, ry, cs, tzn, tzo] => withInfo info y c fun i => do
    let ry ← optNat? ry; let tzn ← optName? tzn; let tzo ← parseOptInt? tzo
    let res : Res := { year := ry, centurySpecified := cs == "1", tzname := tzn, tzoffset := tzo }
    some (showR (fun r : Res => s!"{showON r.year} {showOptName r.tzname} {showOI r.tzoffset}") (Gen.P.info_validate i res))
  | "pgen.cbtz", [info, y, c, hour, tzn, tzo, tok] => withInfo info y c fun i => do
    let hour ← optNat? hour; let tzn ← optName? tzn; let tzo ← parseOptInt? tzo; let t ← parseCps? tok
    some (showR showB (Gen.P.couldBeTzname i hour tzn tzo (if tok == "-" then [] else t)))
  | "pgen.ampm", [hour, ampm, fuzzy] => do
    let hour ← optNat? hour; let ampm ← optNat? ampm
    some (showR showB (Gen.P.ampmValid dflt hour ampm (fuzzy == "1")))
  | "pgen.todec", [cps, classes] => do
    let (cls, t) ← tokCls? cps classes
    some (showR (fun d : Dec => s!"{d.num} {d.scale}") (Gen.P.toDecimal cls dflt t))
  | "pgen.minsec", [num, scale] => do
    let n ← num.toNat?; let sc ← scale.toNat?
    some (showR (fun p : Nat × Option Nat => s!"{p.1} {showON p.2}") (Gen.P.parseMinSec dflt ⟨n, sc⟩))
  | "pgen.parsems", [cps, classes] => do
    let (cls, t) ← tokCls? cps classes
    some (showR (fun p : Nat × Nat => s!"{p.1} {p.2}") (Gen.P.parsems cls dflt t))
  | "pgen.assignhms", [cps, classes, hms] => do
    let (cls, t) ← tokCls? cps classes
    let h ← hms.toNat?
    some (showR (fun r : Res => s!"{showON r.hour} {showON r.minute} {showON r.second} {showON r.microsecond}")
      (Gen.P.assignHms cls dflt {} t h))
  | "pgen.findhms", [info, y, c, idx, aj, toks] => withInfo info y c fun i => do
    let idx ← idx.toNat?; let l ← toks? toks
    some (showR showON (Gen.P.findHmsIdx i idx l (aj == "1")))
  | "pgen.parsehms", [info, y, c, idx, hidx, toks] => withInfo info y c fun i => do
    let idx ← idx.toNat?; let h ← optNat? hidx; let l ← toks? toks
    some (showR (fun p : Nat × Option Nat => s!"{p.1} {showON p.2}") (Gen.P.parseHms i idx l h))
  | "pgen.numtok", [info, y, c, fz, idx, toks, classes, ymd, hour] => withInfo info y c fun i => do
    let idx ← idx.toNat?; let l ← toks? toks; let hour ← optNat? hour
    let cls := clsOfTable (mkTable l.flatten (if classes == "-" then "" else classes))
    let ymd ← match ymd.splitOn "|" with
      | [vs, ce, d, m, yy] => do
        let vs ← natList? vs; let d ← optNat? d; let m ← optNat? m; let yy ← optNat? yy
        pure ({ vals := vs, century := ce == "1", dIdx := d, mIdx := m, yIdx := yy } : Ymd)
      | _ => none
    some (showR (fun r : Nat × Ymd × Res =>
        s!"{r.1} ; {showYmd r.2.1} ; {showON r.2.2.hour} {showON r.2.2.minute} {showON r.2.2.second} {showON r.2.2.microsecond}")
      (Gen.P.parseNumericToken cls i l idx ymd { hour := hour } (fz == "1")))
  | "pgen.step", [info, y, c, fz, idx, toks, classes, ymd, hour, ampm, tzn, tzo] => withInfo info y c fun i => do
    let idx ← idx.toNat?; let l ← toks? toks; let hour ← optNat? hour; let ampm ← optNat? ampm
    let tzn ← optName? tzn; let tzo ← parseOptInt? tzo
    let cls := clsOfTable (mkTable l.flatten (if classes == "-" then "" else classes))
    let ymd ← match ymd.splitOn "|" with
      | [vs, ce, d, m, yy] => do
        let vs ← natList? vs; let d ← optNat? d; let m ← optNat? m; let yy ← optNat? yy
        pure ({ vals := vs, century := ce == "1", dIdx := d, mIdx := m, yIdx := yy } : Ymd)
      | _ => none
    some (showR (fun r : List Token × Nat × Res × Ymd × List Nat =>
        let rs := r.2.2.1
        s!"{r.2.1} ; {";".intercalate (r.1.map showCps)} ; {showON rs.weekday} {showON rs.hour} {showON rs.minute} {showON rs.second} {showON rs.microsecond} {showON rs.ampm} {showOptName rs.tzname} {showOI rs.tzoffset} ; {showYmd r.2.2.2.1} ; {",".intercalate (r.2.2.2.2.map toString)}")
      (Gen.P.parseStep cls i l idx l.length { hour := hour, ampm := ampm, tzname := tzn, tzoffset := tzo } ymd [] (fz == "1")))
  | "pgen.naive", [y, m, d, wd, hh, mm, ss, us, dflt] => do
    let y ← optNat? y; let m ← optNat? m; let d ← optNat? d; let wd ← optNat? wd
    let hh ← optNat? hh; let mm ← optNat? mm; let ss ← optNat? ss; let us ← optNat? us
    let t ← (parseIntList? dflt).bind DT.ofList?
    some (showR DT.wire (Gen.P.buildNaive Ops.ParserGen.dflt
      { year := y, month := m, day := d, weekday := wd, hour := hh, minute := mm, second := ss, microsecond := us } t))
  | "pgen.loop", [info, y, c, fz, toks, classes] => withInfo info y c fun i => do
    let l ← toks? toks
    let cls := clsOfTable (mkTable l.flatten (if classes == "-" then "" else classes))
    some (showR (fun r : List Token × Nat × Res × Ymd × List Nat =>
        let rs := r.2.2.1
        s!"{";".intercalate (r.1.map showCps)} ; {showON rs.weekday} {showON rs.hour} {showON rs.minute} {showON rs.second} {showON rs.microsecond} {showON rs.ampm} {showOptName rs.tzname} {showOI rs.tzoffset} ; {showYmd r.2.2.2.1} ; {",".intercalate (r.2.2.2.2.map toString)}")
      (Gen.P.parseLoop (l.length + 1) cls i l 0 l.length {} {} [] (fz == "1")))
  | "pgen.parse", [info, y, c, df, yf, fz, fwt, cps, classes] => withInfo info y c fun i => do
    let (cls, t) ← tokCls? cps classes
    let df ← df.toInt?; let yf ← yf.toInt?
    let ob (k : Int) : Option Bool := if k < 0 then none else some (k != 0)
    some (showR (fun r : Option (Res × Option (List Token)) => match r with
        | none => "N"
        | some (rs, tk) =>
          s!"{showON rs.year} {showON rs.month} {showON rs.day} {showON rs.weekday} {showON rs.hour} {showON rs.minute} {showON rs.second} {showON rs.microsecond} {showON rs.ampm} {showOptName rs.tzname} {showOI rs.tzoffset} {showB rs.centurySpecified} ; " ++
          (match tk with | none => "-" | some l => showToks l))
      (Gen.P.parse (t.length + 1) cls i t (ob df) (ob yf) (fz == "1") (fwt == "1")))
  | "pgen.parsetail", [flags, dflt, year, century, tzn, tzi, info, cps, classes] =>
    (match parseIntList? flags, (parseIntList? dflt).bind DT.ofList?, year.toInt?, century.toInt?,
           (tzn.splitOn ";").mapM parseCps?, parseTzInfos? tzi, parseCps? cps with
      | some [df, yf, fz, fwt, ig], some d, some y, some c, some tzn, some tzi, some cs =>
        (parseInfo? info y c).map fun inf =>
          let cs' := if cps == "-" then [] else cs
          let tbl := mkTable cs' (if classes == "-" then "" else classes)
          Py.showR showResultA (Gen.P.parseTail (cs'.length + 1) (clsOfTable tbl) tzn inf cs' d (ig != 0) tzi (optBool? df) (optBool? yf)
            (fz != 0) (fwt != 0))
      | _, _, _, _, _, _, _ => none)
  | "pgen.recombine", [toks, idxs] => do
    let l ← toks? toks; let is ← (if idxs == "N" then some [] else natList? idxs)
    some (showR showToks (Gen.P.recombineSkipped dflt l is))
  | "pgen.init", [info, y, df, yf] => do
    let y ← y.toInt?
    let grp (s : String) : Option (List (List String)) := (parseGroups? s).map (·.map (·.map String.ofList))
    let t : PPy.InfoTables ← match info.splitOn ":" with
      | [hd] => if hd.startsWith "D" then some PPy.stockTables else none
      | [_, jump, wd, mo, hms, ampm, utc, pert, _] => do
        pure { JUMP := ← grp jump, WEEKDAYS := ← grp wd, MONTHS := ← grp mo, HMS := ← grp hms, AMPM := ← grp ampm,
               UTCZONE := ← grp utc, PERTAIN := ← grp pert, TZOFFSET := [] }
      | _ => none
    -- printed the way a Python dict holds them: a repeated key keeps its first position and takes the last value
    let dd (l : List (Token × Nat)) : List (Token × Nat) :=
      l.foldl (fun acc p => if acc.any (·.1 = p.1) then acc.map (fun q => if q.1 = p.1 then p else q) else acc ++ [p]) []
    let sk (l : List Token) : String := ",".intercalate ((dd (l.map (·, 0))).map (fun p => showCps p.1))
    let sd (l : List (Token × Nat)) : String := ",".intercalate ((dd l).map fun p => showCps p.1 ++ "=" ++ toString p.2)
    some (showR (fun i : Info => s!"{i.year} {i.century} {showB i.dayfirst} {showB i.yearfirst} ; {sk i.jump} ; {sd i.weekdays} ; {sd i.months} ; {sd i.hms} ; {sd i.ampm} ; {sk i.utczoneKeys} ; {sk i.pertain}")
      (Gen.P.info_init t y (df == "1") (yf == "1")))
  | "pgen.tzinfo", [tzi, name, off] => do
    let tzi ← parseTzInfos? tzi; let name ← optName? name; let off ← parseOptInt? off
    some (showR (fun o : PPy.TzObj => match o with
        | .data d => "d" ++ showTzData d
        | .tzstr s => "s" ++ showCps s
        | .fixed nm n => s!"f {showOptName nm} {n}") (Gen.P.buildTzinfo dflt tzi name off))
  | "pgen.assigntz", [n0, n1, name] => do
    let a ← optName? n0; let b ← optName? n1; let n ← optName? name
    some (showR (fun d : PPy.FoldDt => toString d.fold) (Gen.P.assignTzname dflt { n0 := a, n1 := b } n))
  | _, _ => none

def handle (op : String) (args : List String) : Option String :=
  match handleFn op args with
  | some r => some r
  | none =>
  match op, args with
  | "pgen.ymd", [steps] =>
    some (match script {} (steps.splitOn ";") [] with
      | some outs => "ok " ++ " ".intercalate outs
      | none => "bad-args")
  | _, _ => none

end Ops.ParserGen
