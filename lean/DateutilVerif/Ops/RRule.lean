/-
  Ops/RRule.lean — driver ops of C01.

  Wire form of an argument set (17 tokens):
    freq interval wkst[@k] count until dtstart tz bysetpos bymonth bymonthday byyearday byeaster
    byweekno byweekday byhour byminute bysecond
  ints decimal, `-` = None, lists `[..]`, `until`/`dtstart` = `[y,m,d,hh,mm,ss,us]`,
  `byweekday` = flat pairs `[wd,n,wd,n,…]` with `n = 0` for a plain weekday.

    rrule.construct <args>                    → ok <normalised rule>            | err Kind
    rrule.orig <args>                         → ok <args wire of origArgs: what replace() passes again> | err Kind
    rrule.iter <args> <n> <maxperiods>        → ok <status> <item>*             | err Kind (constructor)
        status: more | stop_count | stop_until | stop_maxyear | err_<Kind> | fuel ; item = y.m.d.h.m.s
    rrule.spec <args> <lo> <hi> <max>         → ok <done 0|1> <item>*     (Spec.RRule.window, ordinals lo..hi)
    rrule.occ <args> <nperiods>               → ok <item>*                (Spec.RRule.occ, the plain definition)
    rrule.byok <args> <item>*                 → ok <flags>   per item: byOk ∧ on the interval grid ∧ ≥ dtstart
    rrule.supported <args>                    → ok <family>|-             (RRule.family: the exactness theorem that covers
                                                                           the argument set, Spec/RRuleSupported.lean)
-/
import DateutilVerif.Base.Wire
import DateutilVerif.Model.RRule
import DateutilVerif.Spec.RRule
import DateutilVerif.Spec.RRuleSupported

namespace Ops.RRule
open Wire
open _root_.RRule

def parseOptList? (s : String) : Option (Option (List Int)) :=
  if s == "-" then some none else (parseIntList? s).map some

def pairs : List Int → Option (List (Int × Int))
  | [] => some []
  | a :: b :: rest => (pairs rest).map ((a, b) :: ·)
  | _ => none

def parseOptDT? (s : String) : Option (Option DT) :=
  if s == "-" then some none else do
    let l ← parseIntList? s
    let t ← DT.ofList? l
    pure (some t)

def parseArgs? (t : List String) : Option Args :=
  match t with
  | [freq, interval, wkst, count, untl, dtstart, tz, bysetpos, bymonth, bymonthday, byyearday, byeaster,
     byweekno, byweekday, byhour, byminute, bysecond] => do
    let freq ← parseInt? freq
    let interval ← parseInt? interval
    -- `<wkst>` or `<wkst>@<k>`: with `@k` the rule is built while `calendar.firstweekday()` is `k`
    let wparts := wkst.splitOn "@"
    let wkst ← parseOptInt? (wparts.headD "")
    let fwd ← match wparts with
      | [_] => some none
      | [_, k] => (parseInt? k).map some
      | _ => none
    let count ← parseOptInt? count
    let untilDT ← parseOptDT? untl
    let dtstart ← (← parseOptDT? dtstart)
    let tz ← parseInt? tz
    let bysetpos ← parseOptList? bysetpos
    let bymonth ← parseOptList? bymonth
    let bymonthday ← parseOptList? bymonthday
    let byyearday ← parseOptList? byyearday
    let byeaster ← parseOptList? byeaster
    let byweekno ← parseOptList? byweekno
    let bwd ← parseOptList? byweekday
    let byweekday ← match bwd with
      | none => some none
      | some l => (pairs l).map some
    let byhour ← parseOptList? byhour
    let byminute ← parseOptList? byminute
    let bysecond ← parseOptList? bysecond
    let a : Args := { freq, dtstart, tz, interval, wkst, count, untilDT, bysetpos, bymonth, bymonthday, byyearday,
                      byeaster, byweekno, byweekday, byhour, byminute, bysecond }
    pure (match fwd with | some k => resolveW k a | none => a)
  | _ => none

def showOL : Option (List Int) → String
  | none => "-"
  | some l => showIntList l

def showItem (i : Inst) : String :=
  let t := i.toDT
  s!"{t.y}.{t.m}.{t.d}.{t.hh}.{t.mm}.{t.ss}"

def showItems (l : List Inst) : String := " ".intercalate (l.map showItem)

def parseItem? (s : String) : Option Inst :=
  match (s.splitOn ".").mapM String.toInt? with
  | some [y, m, d, hh, mm, ss] => some { ord := Cal.toOrdinal y m d, h := hh, m := mm, s := ss }
  | _ => none

def showRule (r : Rule) : String :=
  " ".intercalate [toString r.freq, toString r.interval, toString r.wkst, showOL r.bysetpos, showOL r.bymonth,
    showIntList r.bymonthday, showIntList r.bynmonthday, showOL r.byyearday, showOL r.byeaster,
    showOL r.byweekno, showOL r.byweekday,
    (match r.bynweekday with | none => "-" | some l => showIntList (l.flatMap fun p => [p.1, p.2])),
    showOL r.byhour, showOL r.byminute, showOL r.bysecond,
    (match r.timeset with | none => "-" | some l => showIntList (l.flatMap fun t => [t.1, t.2.1, t.2.2]))]

/-- the 17-token wire form of an argument set (inverse of `parseArgs?`) -/
def showArgs (a : Args) : String :=
  let dt (t : DT) := showIntList [t.y, t.m, t.d, t.hh, t.mm, t.ss, t.us]
  " ".intercalate [toString a.freq, toString a.interval, showOptInt a.wkst, showOptInt a.count,
    (match a.untilDT with | none => "-" | some u => dt u), dt a.dtstart, toString a.tz,
    showOL a.bysetpos, showOL a.bymonth, showOL a.bymonthday, showOL a.byyearday, showOL a.byeaster,
    showOL a.byweekno,
    (match a.byweekday with | none => "-" | some l => showIntList (l.flatMap fun p => [p.1, p.2])),
    showOL a.byhour, showOL a.byminute, showOL a.bysecond]

def statusName : Status → String
  | .countReached => "stop_count" | .untilPassed => "stop_until" | .maxYear => "stop_maxyear"
  | .error e => "err_" ++ e.name | .outOfFuel => "fuel"

/-- work done by one `advance` beyond a constant: the reachability loops of MINUTELY / SECONDLY run
    once per skipped unit, so a period is charged `1 + skipped/20` units of fuel (driver accounting
    only; the model's `iter` counts periods) -/
def extra (r : Rule) (a b : Cursor) : Nat :=
  if r.freq < 5 ∨ r.interval < 1 then 0 else
  let da := Cal.toOrdinal a.year a.month a.day
  let db := Cal.toOrdinal b.year b.month b.day
  let mins := (db - da) * 1440 + (b.hour - a.hour) * 60 + (b.minute - a.minute)
  let units := if r.freq == 5 then mins else mins * 60 + (b.second - a.second)
  (units / r.interval / 20).toNat

def cost (r : Rule) (a b : Cursor) : Nat := 1 + extra r a b

/-- iterate `RRule.step` until `need` items are collected, the generator ends, or the fuel is spent -/
def runN (r : Rule) (need : Nat) (fuel : Nat) (st : State) (acc : Array Inst) : Array Inst × String :=
  if h : fuel = 0 then (acc, "fuel") else
  match step r st with
  | (out, .error s) =>
    let acc' := acc ++ out.toArray
    (acc', if acc'.size ≥ need then "more" else statusName s)
  | (out, .ok st') =>
    let acc' := acc ++ out.toArray
    if acc'.size ≥ need then (acc', "more") else runN r need (fuel - cost r st.cur st'.cur) st' acc'
termination_by fuel
decreasing_by
  have : 1 ≤ cost r st.cur st'.cur := by unfold cost; omega
  omega

def iterN (a : Args) (need fuel : Nat) : String :=
  match construct a with
  | .error e => "err " ++ e.name
  | .ok r =>
    match init r with
    | .error e => "ok err_" ++ e.name
    | .ok st =>
      let x := runN r need fuel st #[]
      "ok " ++ x.2 ++ (if x.1.isEmpty then "" else " " ++ showItems (x.1.toList.take need))

def handle (op : String) (args : List String) : Option String :=
  if !op.startsWith "rrule." then none else
  match parseArgs? (args.take 17) with
  | none => some "bad-args"
  | some a =>
    let rest := args.drop 17
    match op, rest.mapM parseInt? with
    | "rrule.construct", some [] => some (Py.showR showRule (construct a))
    | "rrule.orig", some [] =>
        some (match construct a with
          | .error e => "err " ++ e.name
          | .ok r => "ok " ++ showArgs (origArgs a r))
    | "rrule.iter", some [n, fuel] => some (iterN a n.toNat fuel.toNat)
    | "rrule.spec", some [lo, hi, mx] =>
        let w := Spec.RRule.window a lo hi mx.toNat
        some ("ok " ++ showBool w.2 ++ (if w.1.isEmpty then "" else " " ++ showItems w.1))
    | "rrule.occ", some [n] =>
        let l := Spec.RRule.occ a n.toNat
        some ("ok" ++ (if l.isEmpty then "" else " " ++ showItems l))
    | "rrule.supported", some [] =>
        some ("ok " ++ (match family a with | some f => f.name | none => "-"))
    | "rrule.byok", _ =>
        match rest.mapM parseItem? with
        | none => some "bad-args"
        | some items =>
          some ("ok " ++ String.join (items.map fun t =>
            showBool (Spec.RRule.byOk a t && Spec.RRule.onGrid a t && decide (t.micros ≥ Spec.RRule.startMicros a))))
    | _, _ => some "bad-args"

end Ops.RRule
