/- Ops/TzGen.lean — driver ops running the TRANSLATED time-zone lookup functions (Generated/TzKernels.lean) for
   the per-run differential validation of the DtPy translator.  Timestamps are MICROSECONDS since the epoch.

    tzgen.fromutc <hex tzif> [us…]        Gen.tzfile_fromutc            -> us,fold | !Err
    tzgen.wall <hex tzif> [us…]           amb;off,dst,name,idx;off,dst,name,idx   (fold 0 ; fold 1), values in µs
    tzgen.idxutc <hex tzif> [us…]         Gen.tzfile_findLastTransition dt in_utc=True
    tzgen.ts [us…]                        Gen.datetimeToTimestamp
    tzgen.range.fromutc <std> <dst> <hasdst> <table> [us…]
    tzgen.local.fromutc <std> <dst> <hasdst> <table> [us…]   Gen.tzinfo_fromutc on the tzlocal model
    tzgen.range.wall    <std> <dst> <hasdst> <table> [us…] <stdabbr hex> <dstabbr hex>   amb;isdst,off,dst,name;isdst,off,dst,name
-/
import DateutilVerif.Ops.Zones
import DateutilVerif.Generated.TzKernels

namespace Ops.TzGen
open Wire TZ Ops.Zones

def dtOf (us : Int) (fold att : Bool) : DtPy.Dt := { us, fold, attached := att }

def showRDt : Py.R DtPy.Dt → String
  | .ok d => s!"{d.us},{showBool d.fold}"
  | .error e => "!" ++ e.name
def showROptInt : Py.R (Option Int) → String
  | .ok none => "-"
  | .ok (some i) => toString i
  | .error e => "!" ++ e.name
def showRStr : Py.R (List UInt8) → String
  | .ok a => showHexBytes a
  | .error e => "!" ++ e.name

def fileWall (z : TzFile) (us : Int) : String :=
  let f (fold : Bool) : String :=
    let d := dtOf us fold false
    s!"{showRInt (Gen.tzfile_utcoffset z d)},{showRInt (Gen.tzfile_dst z d)},{showRName (Gen.tzfile_tzname z d)}," ++
    s!"{showROptInt (Gen.tzfile_findLastTransition z d false)}"
  s!"{showRBool (Gen.tzfile_isAmbiguous z (dtOf us false false) none)};{f false};{f true}"

def rangeWall (z : RangeZone) (us : Int) : String :=
  let f (fold : Bool) : String :=
    let d := dtOf us fold false
    s!"{showRBool (Gen.tzrange_isdst z d)},{showRInt (Gen.tzrange_utcoffset z d)},{showRInt (Gen.tzrange_dst z d)}," ++
    s!"{showRStr (Gen.tzrange_tzname z d)}"
  s!"{showRBool (Gen.tzrange_isAmbiguous z (dtOf us false false))};{f false};{f true}"

def handle (op : String) (args : List String) : Option String :=
  match op, args with
  | "tzgen.fromutc", [hex, ts] =>
      (parseIntList? ts).bind fun ts => withZone hex (fun _ z =>
        "ok " ++ " ".intercalate (ts.map fun us => showRDt (Gen.tzfile_fromutc z (dtOf us false true))))
  | "tzgen.wall", [hex, ws] =>
      (parseIntList? ws).bind fun ws => withZone hex (fun _ z => "ok " ++ " ".intercalate (ws.map (fileWall z)))
  | "tzgen.idxutc", [hex, ts] =>
      (parseIntList? ts).bind fun ts => withZone hex (fun _ z =>
        "ok " ++ " ".intercalate (ts.map fun us => showROptInt (Gen.tzfile_findLastTransition z (dtOf us false true) true)))
  | "tzgen.ts", [ts] =>
      (parseIntList? ts).map fun ts =>
        "ok " ++ " ".intercalate (ts.map fun us => showRInt (Gen.datetimeToTimestamp (dtOf us false true)))
  | "tzgen.range.fromutc", _ =>
      (rangeOf args).map fun (z, ts) =>
        "ok " ++ " ".intercalate (ts.map fun us => showRDt (Gen.tzrange_fromutc z (dtOf us false true)))
  | "tzgen.range.wall", [s, d, h, tbl, xs, sa, da] => do
      let (z, ws) ← rangeOf [s, d, h, tbl, xs]
      let sa ← parseHexBytes? sa; let da ← parseHexBytes? da
      let z := { z with stdAbbr := sa, dstAbbr := da }
      pure ("ok " ++ " ".intercalate (ws.map (rangeWall z)))
  | "tzgen.local.fromutc", _ =>
      (rangeOf args).map fun (z, ts) =>
        "ok " ++ " ".intercalate (ts.map fun us => showRDt (Gen.tzinfo_fromutc (localZone z) (dtOf us false true)))
  | _, _ => none

end Ops.TzGen
