/- Ops/TzStr.lean — driver ops for the TZ-string parser model and the POSIX spec (C08). -/
import DateutilVerif.Base.Wire
import DateutilVerif.Model.TzStr
import DateutilVerif.Spec.Posix

namespace Ops.TzStr
open Wire

def showOptStr : Option String → String
  | none => "-"
  | some s => "s" ++ showHexString s

def showAttr (a : TzStr.Attr) : String :=
  " ".intercalate [showOptInt a.month, showOptInt a.week, showOptInt a.weekday, showOptInt a.yday,
                   showOptInt a.jyday, showOptInt a.day, showOptInt a.time]

def showRes (r : TzStr.Res) : String :=
  " ".intercalate [showOptStr r.stdabbr, showOptInt r.stdoffset, showOptStr r.dstabbr, showOptInt r.dstoffset,
                   showAttr r.start, showAttr r.«end», showBool r.anyUnused, showBool r.deprecated]

def showDelta : Option TzStr.Delta → String
  | none => "-"
  | some d => "(" ++ " ".intercalate [showOptInt d.month, showOptInt d.day,
      (match d.weekday with | none => "-" | some (w, n) => s!"{w}/{n}"), toString d.leapdays, toString d.seconds] ++ ")"

def showZone (z : TzStr.Zone) : String :=
  " ".intercalate [showOptStr z.stdAbbr, showOptStr z.dstAbbr, toString z.stdOff, toString z.dstOff,
                   showDelta z.start, showDelta z.«end», showBool z.hasdst]

def parseRule? (s : String) : Option Posix.Rule :=
  match s.splitOn "." with
  | ["M", m, w, d] => do some (.M (← m.toInt?) (← w.toInt?) (← d.toInt?))
  | ["J", n] => do some (.J (← n.toInt?))
  | ["N", n] => do some (.N (← n.toInt?))
  | _ => none

def handle (op : String) (args : List String) : Option String :=
  match op, args with
  | "tz.tokens", [h] => do
      let s ← parseHexString? h
      some ("ok " ++ Py.showList showHexString (TzStr.tokens s))
  | "tz.parse", [h] => do
      let s ← parseHexString? h
      some (match TzStr.parse s with
        | .ok none => "ok none"
        | .ok (some r) => "ok " ++ showRes r
        | .error e => "err " ++ e.name)
  | "tz.zone", [p, h] => do
      let s ← parseHexString? h
      some (Py.showR showZone (TzStr.tzstr s (p == "1")))
  | "tz.trans", [p, h, y] => do
      let s ← parseHexString? h
      let y ← parseInt? y
      some (match TzStr.tzstr s (p == "1") with
        | .error e => "err " ++ e.name
        | .ok z => match TzStr.transitions z y with
          | .error e => "err " ++ e.name
          | .ok none => "ok none"
          | .ok (some (a, b)) => s!"ok {a} {b}")
  | "posix.off", [so, d, sr, st, er, et, t] => do
      let spec : Posix.Spec := { stdOff := ← parseInt? so, dstOff := ← parseInt? d, startRule := ← parseRule? sr,
                                 startTime := ← parseInt? st, endRule := ← parseRule? er, endTime := ← parseInt? et }
      let t ← parseInt? t
      some s!"ok {Posix.offsetAt spec t} {showBool (Posix.isDstAt spec t)}"
  | "posix.rule", [r, y] => do
      let r ← parseRule? r
      let y ← parseInt? y
      some s!"ok {Posix.ruleOrdinal y r}"
  | _, _ => none

end Ops.TzStr
