/- Ops/TzObjGen.lean — driver ops running the functions TRANSLATED by harness/translate_obj.py
   (Generated/TzObjKernels.lean) for the per-run differential validation of the ObjPy translator.

    tzgen.ical.offset <hex>                         Gen.tzical_parseOffset
    tzgen.ical.rfc <hex>                            Gen.tzical_parseRfc (the TRANSLATED `_parse_rfc`, recurrence library accepting
                                                    everything), printed like `ical.parse`
    tzgen.ical.seq <comps> <us:fold;us:fold;…>      a FRESH zone queried in this order through the translated
                                                    `_find_comp` (cache threaded): per query `from/to/isdst,utcoff,dst,tzname` (components named by their offsets)
                                                    (µs), then the final cache `us:fold,…|from/to/isdst,…`
                                                    (datetimes are µs since ordinal 0, as the onsets × 10^6)
    tzgen.local.wall <std> <dst> <hasdst> <table> [us…] <stdabbr hex> <dstabbr hex>   the translated tzlocal methods:
                                                    amb;naive,isdst,off,dst,name;naive,isdst,off,dst,name (fold 0 ; fold 1)
    tzgen.range.fromutc_pub <std> <dst> <hasdst> <table> [us…] <attached 0|1>   the PUBLIC fromutc: translated decorator
                                                    `_validate_fromutc_inputs` around the translated `tzrangebase.fromutc`
    tzgen.str.init <posix> <hex>                    Gen.tzstr_init, printed like tz.zone
    tzgen.str.trans <posix> <hex> <year>            Gen.tzrange_transitions on it
    tzgen.str.delta <std> <dst> <isend> <month> <week> <weekday> <yday> <jyday> <day> <time>   Gen.tzstr_delta
    tzgen.range.init <stdabbr> <stdoff> <dstabbr> <dstoff> <start> <end>    Gen.tzrange_init (`-` None, `F` False, `(m d w/n leap secs)`)
    tzgen.range.eq <6 args> <6 args>                Gen.tzrange_eq of the two zones
-/
import DateutilVerif.Ops.ICal
import DateutilVerif.Ops.TzStr
import DateutilVerif.Ops.TzGen
import DateutilVerif.Generated.TzObjKernels
import DateutilVerif.Generated.TzRfcKernels

namespace Ops.TzObjGen
open Wire

def M : Int := DtPy.M

def showComp (c : Option ICal.ZComp) : String :=
  match c with
  | none => "-"
  | some c => s!"{c.tzoffsetfrom}/{c.tzoffsetto}/{showBool c.isdst}"

def showTd : Py.R (Int × List (DtPy.Dt × Int) × List (Option ICal.ZComp)) → String
  | .ok (v, _, _) => toString v
  | .error e => "!" ++ e.name

abbrev CacheSt := List (DtPy.Dt × Int) × List (Option ICal.ZComp)

def runSeq (comps : List ICal.ZComp) (qs : List (Int × Bool)) : String :=
  let (outs, st) := qs.foldl (fun (acc : List String × CacheSt) q =>
    let d : DtPy.Dt := { us := q.1, fold := q.2, attached := true }
    let st := acc.2
    let uo := showTd (Gen.tzicalvtz_utcoffset comps st.1 st.2 d)
    let ds := showTd (Gen.tzicalvtz_dst comps st.1 st.2 d)
    -- the TZNAME of a component: the validation names every component by its offsets
    let nm := match Gen.tzicalvtz_tzname comps (fun c => some (showComp (some c)).toList) st.1 st.2 d with
      | .ok (some n, _, _) => String.ofList n
      | .ok (none, _, _) => "-"
      | .error e => "!" ++ e.name
    match Gen.tzicalvtz_findComp comps st.1 st.2 d with
    | .ok (c, cd, cc) => (acc.1 ++ [s!"{showComp c},{uo},{ds},{nm}"], (cd, cc))
    | .error e => (acc.1 ++ ["!" ++ e.name], st)) ([], ([], []))
  "ok " ++ " ".intercalate outs ++ " cache=" ++ ",".intercalate (st.1.map fun k => s!"{k.1.us}:{k.2}") ++ "|" ++
    ",".intercalate (st.2.map showComp)

open ObjPy (zoneOf)

def parseOptStr? (s : String) : Option (Option String) :=
  if s == "-" then some none else
  if s.startsWith "s" then (parseHexString? (String.ofList (s.toList.drop 1))).map some else none

def parseWd? (s : String) : Option (Option (Int × Int)) :=
  if s == "-" then some none else
  match s.splitOn "/" with
  | [a, b] => do some (some ((← a.toInt?), (← b.toInt?)))
  | _ => none

/-- `-` | `F` | `(month day wd/n leapdays seconds)` with `_` for spaces -/
def parseDArg? (s : String) : Option ObjPy.DArg :=
  if s == "-" then some .none else if s == "F" then some .false_ else
  match (String.ofList ((s.toList.drop 1).dropLast)).splitOn "_" with
  | [m, d, w, l, sec] => do
    some (.delta { month := ← parseOptInt? m, day := ← parseOptInt? d, weekday := ← parseWd? w,
                   leapdays := ← l.toInt?, seconds := ← sec.toInt? })
  | _ => none

def rangeInit? (a : List String) : Option (Py.R TzStr.Zone) :=
  match a with
  | [sa, so, da, d, st, en] => do
    let r := Gen.tzrange_init (← parseOptStr? sa) (← parseOptInt? so) (← parseOptStr? da) (← parseOptInt? d)
      (← parseDArg? st) (← parseDArg? en)
    some (match r with | .ok t => .ok (zoneOf t) | .error e => .error e)
  | _ => none

def localWall (z : TZ.RangeZone) (us : Int) : String :=
  let f (fold : Bool) : String :=
    let d : DtPy.Dt := { us, fold, attached := false }
    s!"{Ops.Zones.showRInt (Gen.tzlocal_naiveIsDst z d)},{Ops.Zones.showRInt (Gen.tzlocal_isdst z d true)}," ++
    s!"{Ops.Zones.showRInt (Gen.tzlocal_utcoffset z d)},{Ops.Zones.showRInt (Gen.tzlocal_dst z d)}," ++
    s!"{Ops.TzGen.showRStr (Gen.tzlocal_tzname z d)}"
  s!"{Ops.Zones.showRBool (Gen.tzlocal_isAmbiguous z { us, fold := false, attached := false })};{f false};{f true}"

def handle (op : String) (args : List String) : Option String :=
  match op, args with
  | "tzgen.range.fromutc_pub", [s, d, h, tbl, xs, att] => do
      let (z, ts) ← Ops.Zones.rangeOf [s, d, h, tbl, xs]
      pure ("ok " ++ " ".intercalate (ts.map fun us => Ops.TzGen.showRDt
        (Gen.validateFromutcInputs (Gen.tzrange_fromutc z) { us, fold := false, attached := att == "1" })))
  | "tzgen.local.wall", [s, d, h, tbl, xs, sa, da] => do
      let (z, ws) ← Ops.Zones.rangeOf [s, d, h, tbl, xs]
      let sa ← parseHexBytes? sa; let da ← parseHexBytes? da
      let z := { z with stdAbbr := sa, dstAbbr := da }
      pure ("ok " ++ " ".intercalate (ws.map (localWall z)))
  | "tzgen.ical.get", [h, t] => do
      -- the TRANSLATED `_parse_rfc` followed by the TRANSLATED `tzical.get` / `keys`: index of the zone returned, and the keys
      let s ← parseHexString? h
      let tz : Option (List Char) ← (if t == "-" then some none else (parseHexString? t).map (fun x => some x.toList))
      some (match Gen.tzical_parseRfc ICal.acceptAll s.toList with
        | .error e => "err " ++ e.name
        | .ok st => match Gen.tzical_get st.vtz tz, Gen.tzical_keys st.vtz with
          | .error e, _ => "err " ++ e.name
          | _, .error e => "err " ++ e.name
          | .ok none, .ok ks => "ok none keys=" ++ Py.showList Ops.ICal.hexL ks
          | .ok (some v), .ok ks => s!"ok {(st.vtz.findIdx? (fun w => w.tzid == v.tzid)).getD 999} keys=" ++ Py.showList Ops.ICal.hexL ks)
  | "tzgen.ical.compinit", [f, t] => do
      let f ← parseInt? f; let t ← parseInt? t
      some (match Gen.tzicalvtzcomp_init f t false none none with
        | .ok c => s!"ok {c.tzoffsetfrom} {c.tzoffsetto} {c.tzoffsetdiff}"
        | .error e => "err " ++ e.name)
  | "tzgen.ical.rfc", [h] => do
      let s ← parseHexString? h
      some (match Gen.tzical_parseRfc ICal.acceptAll s.toList with
        | .ok st => "ok " ++ toString st.vtz.length ++ " " ++ ";".intercalate (st.vtz.map Ops.ICal.showVtz)
        | .error e => "err " ++ e.name)
  | "tzgen.ical.offset", [h] => do
      let s ← parseHexString? h
      some (Py.showR showInt (Gen.tzical_parseOffset s.toList))
  | "tzgen.ical.seq", [cs, qs] => do
      let comps ← Ops.ICal.parseComps? cs
      let qs ← (qs.splitOn ";").mapM (fun q => match q.splitOn ":" with
        | [w, f] => do some ((← w.toInt?), f == "1")
        | _ => none)
      some (runSeq comps qs)
  | "tzgen.str.init", [p, h] => do
      let s ← parseHexString? h
      some (match Gen.tzstr_init s (p == "1") with
        | .ok t => "ok " ++ Ops.TzStr.showZone (zoneOf t)
        | .error e => "err " ++ e.name)
  | "tzgen.str.trans", [p, h, y] => do
      let s ← parseHexString? h
      let y ← parseInt? y
      some (match Gen.tzstr_init s (p == "1") with
        | .error e => "err " ++ e.name
        | .ok t => match Gen.tzrange_transitions (zoneOf t) y with
          | .error e => "err " ++ e.name
          | .ok none => "ok none"
          | .ok (some (a, b)) => s!"ok {a} {b}")
  | "tzgen.str.delta", [so, d, ie, a1, a2, a3, a4, a5, a6, a7] => do
      let x : TzStr.Attr := { month := ← parseOptInt? a1, week := ← parseOptInt? a2, weekday := ← parseOptInt? a3,
                              yday := ← parseOptInt? a4, jyday := ← parseOptInt? a5, day := ← parseOptInt? a6,
                              time := ← parseOptInt? a7 }
      some (match Gen.tzstr_delta ((← parseInt? so) * M) ((← parseInt? d) * M) x (← parseInt? ie) with
        | .ok dl => "ok " ++ Ops.TzStr.showDelta (some dl)
        | .error e => "err " ++ e.name)
  | "tzgen.range.init", a => do
      let r ← rangeInit? a
      some (Py.showR Ops.TzStr.showZone r)
  | "tzgen.range.eq", a => do
      if a.length != 12 then none else
      let x ← rangeInit? (a.take 6)
      let y ← rangeInit? (a.drop 6)
      some (match x, y with
        | .ok x, .ok y => Py.showR showBool (Gen.tzrange_eq x y)
        | _, _ => "err construction")
  | _, _ => none

end Ops.TzObjGen
