/- Ops/Base.lean — driver ops for the calendar base and the generated kernels. -/
import DateutilVerif.Base.Wire
import DateutilVerif.Base.Calendar
import DateutilVerif.Base.Time
import DateutilVerif.Generated.Easter
import DateutilVerif.Generated.ParserKernels
import DateutilVerif.Spec.Easter

namespace Ops.Base
open Wire

def show3 (t : Int × Int × Int) : String := s!"{t.1} {t.2.1} {t.2.2}"

def handle (op : String) (args : List String) : Option String :=
  match op, args.mapM parseInt? with
  | "base.toord", some [y, m, d] =>
      some (if Cal.validDate y m d then s!"ok {Cal.toOrdinal y m d}" else "err ValueError")
  | "base.fromord", some [n] =>
      some (if 1 ≤ n ∧ n ≤ Cal.maxOrdinal then "ok " ++ show3 (Cal.fromOrdinal n) else "err ValueError")
  | "base.weekday", some [y, m, d] => some s!"ok {Cal.weekday y m d}"
  | "base.isocal", some [y, m, d] => some ("ok " ++ show3 (Cal.isoCalendar y m d))
  | "base.dtadd", some [y, m, d, hh, mm, ss, us, delta] =>
      let t : DT := { y, m, d, hh, mm, ss, us }
      some (if t.valid then Py.showR DT.wire (t.addMicros delta) else "err ValueError")
  | "base.dtmicros", some [y, m, d, hh, mm, ss, us] =>
      let t : DT := { y, m, d, hh, mm, ss, us }
      some (if t.valid then s!"ok {t.toMicros}" else "err ValueError")
  | "base.isleap", some [y] => some ("ok " ++ showBool (Cal.isLeap y))
  | "base.dim", some [y, m] => some s!"ok {Cal.daysInMonth y m}"
  | "base.yday", some [y, m, d] => some s!"ok {Cal.yday y m d}"
  | "easter.gen", some [y, m] =>
      -- `datetime.date(y, m, d)` at the end of easter(): ValueError unless a valid date
      some (match Gen.easter y m with
        | .ok (y', m', d') => if Cal.validDate y' m' d' then "ok " ++ show3 (y', m', d') else "err ValueError"
        | .error e => "err " ++ e.name)
  | "easter.spec", some [y, m] =>
      -- the independent spec, as (y, month, day) in the Gregorian calendar for methods 2, 3
      some (if m == 3 then let r := Spec.mjb y; s!"ok {y} {r.1} {r.2}"
            else if m == 1 then let r := Spec.meeusJulian y; s!"ok {y} {r.1} {r.2}"
            else if m == 2 then let j := Spec.meeusJulian y; "ok " ++ show3 (Spec.julianToGregorian y j.1 j.2)
            else "err ValueError")
  | "pk.convertyear", some [century, year, y, cs] =>
      some (Py.showR showInt (Gen.convertyear ⟨century, year⟩ y (cs != 0)))
  | "pk.ampm", some [h, a] => some s!"ok {Gen.adjustAmpm h a}"
  | _, _ => none

end Ops.Base
