/-
  Ops/RSetOps.lean — `rset.iter <inc> <exc>` (streams `[..]|[..]`, `-` for none), `rset.spec`,
  `rset.run <cache 0|1> <op;op;…>` with ops `rr[..]`, `rd5`, `xr[..]`, `xd5`, `q<query>`,
  `o<k>` (open an iterator, take k, keep it), `u<j>:<k>` (take k more from kept iterator j).
-/
import DateutilVerif.Base.Wire
import DateutilVerif.Model.RRuleSet
import DateutilVerif.Spec.RRuleSet
import DateutilVerif.Ops.QueryOps
import DateutilVerif.Generated.RSetMerge

namespace Ops.RSetOps
open Wire RSet Ops.QueryOps

def parseStreams? (s : String) : Option (List (List Int)) :=
  if s == "-" then some [] else (s.splitOn "|").mapM parseIntList?

def parseOp? (s : String) : Option Op :=
  match s.toList with
  | 'r' :: 'r' :: rest => do some (.addRRule (← parseIntList? (String.ofList rest)))
  | 'r' :: 'd' :: rest => do some (.addRDate (← parseInt? (String.ofList rest)))
  | 'x' :: 'r' :: rest => do some (.addExRule (← parseIntList? (String.ofList rest)))
  | 'x' :: 'd' :: rest => do some (.addExDate (← parseInt? (String.ofList rest)))
  | 'q' :: rest => do some (.q (← parseQuery? (String.ofList rest)))
  | 'o' :: rest => do some (.open_ (← (String.ofList rest).toNat?))
  | 'u' :: rest =>
    match (String.ofList rest).splitOn ":" with
    | [j, k] => do some (.resume (← j.toNat?) (← k.toNat?))
    | _ => none
  | _ => none

def showObs : Option Queries.Res → String
  | none => "-"
  | some r => (showRes r).replace " " "_"

def handle (op : String) (args : List String) : Option String :=
  match op, args with
  | "rset.iter", [inc, exc] => do
      let inc ← parseStreams? inc; let exc ← parseStreams? exc
      some ("ok " ++ showIntList (iter selFirstMin inc exc))
  | "rset.titer", [inc, exc] => do
      -- `rruleset._iter` / `_genitem` AS TRANSLATED from the source (Generated/RSetMerge.lean); the first stream of each role is the date list
      let inc ← parseStreams? inc; let exc ← parseStreams? exc
      let m : Members := { rdates := inc.headD [], rrules := inc.tail, exdates := exc.headD [], exrules := exc.tail }
      match MergePy.runIter selFirstMin Gen.genitemInit Gen.genitemNext Gen.genitemCmp Gen.rsetIterProgram m with
      | some (l, _) => some ("ok " ++ showIntList l)
      | none => some "untranslated"
  | "rset.spec", [inc, exc] => do
      let inc ← parseStreams? inc; let exc ← parseStreams? exc
      some ("ok " ++ showIntList (setSpec inc exc))
  | "rset.run", [c, ops] => do
      let ops ← if ops == "-" then some [] else (ops.splitOn ";").mapM parseOp?
      let out := runOps (newState (c != "0")) ops
      some ("ok " ++ (if out.isEmpty then "-" else ";".intercalate (out.map showObs)))
  | _, _ => none

end Ops.RSetOps
