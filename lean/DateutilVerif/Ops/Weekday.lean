/-
  Ops/Weekday.lean — driver ops for `dateutil._common.weekday` (C16 / C13): the hand model (`wd.*`) and the methods
  re-translated from /repo on this run (`wdgen.*`, Generated/WdOps.lean).

  Wire: a weekday object = 2 tokens `<weekday> <n|->`; the operand of `==` = `w <weekday> <n|->` or `x` (an object without
  the attributes); strings are hex (Wire.showHexString).
-/
import DateutilVerif.Base.Wire
import DateutilVerif.Model.WdPy
import DateutilVerif.Generated.WdOps

namespace Ops.Weekday
open Wire WdPy

def parseWd? (a b : String) : Option Wd := do
  let w ← parseInt? a
  let n ← parseOptInt? b
  pure (w, n)

def parseOther? : List String → Option Other
  | ["x"] => some .noAttr
  | ["w", a, b] => (parseWd? a b).map Other.wd
  | _ => none

def showWd (w : Wd) : String := s!"{w.1} {showOptInt w.2}"

def handle (op : String) (args : List String) : Option String :=
  match op, args with
  | "wd.call", [a, b, n] => do
      let w ← parseWd? a b
      let n' ← parseOptInt? n
      let r := call w n'
      pure s!"ok {showWd r.1} {showBool r.2}"
  | "wdgen.call", [a, b, n] => do
      let w ← parseWd? a b
      let n' ← parseOptInt? n
      pure (Py.showR (fun r : Wd × Bool => s!"{showWd r.1} {showBool r.2}") (Gen.wdCall Gen.wdInit w n'))
  | "wd.callrr", [a, b, n] => do
      let w ← parseWd? a b
      let n' ← parseOptInt? n
      pure (Py.showR (fun r : Wd × Bool => s!"{showWd r.1} {showBool r.2}") (callRR w n'))
  | "wdgen.callrr", [a, b, n] => do
      let w ← parseWd? a b
      let n' ← parseOptInt? n
      pure (Py.showR (fun r : Wd × Bool => s!"{showWd r.1} {showBool r.2}") (Gen.wdCall Gen.wdInitRR w n'))
  | "wd.eq", a :: b :: rest => do
      let w ← parseWd? a b
      let o ← parseOther? rest
      pure s!"ok {showBool (eq w o)} {showBool (ne w o)}"
  | "wdgen.eq", a :: b :: rest => do
      let w ← parseWd? a b
      let o ← parseOther? rest
      pure (match Gen.wdEq w o, Gen.wdNe w o with
        | .ok x, .ok y => s!"ok {showBool x} {showBool y}"
        | .error e, _ => Py.showR showBool (.error e)
        | _, .error e => Py.showR showBool (.error e))
  | "wd.hash", [a, b] => (parseWd? a b).map (fun w => "ok " ++ showWd (hashKey w))
  | "wdgen.hash", [a, b] => (parseWd? a b).map (fun w => Py.showR showWd (Gen.wdHash w))
  | "wdgen.reduce", [a, b] => (parseWd? a b).map (fun w => Py.showR showWd (Gen.wdReduce w))
  | "wd.repr", [a, b] => (parseWd? a b).map (fun w => Py.showR showHexString (repr w))
  | "wdgen.repr", [a, b] => (parseWd? a b).map (fun w => Py.showR showHexString (Gen.wdRepr w))
  | "wdgen.init", [a, b] => (parseWd? a b).map (fun w => Py.showR showWd (Gen.wdInit w.1 w.2))
  | "wd.initrr", [a, b] => (parseWd? a b).map (fun w => Py.showR showWd (initRR w.1 w.2))
  | "wdgen.initrr", [a, b] => (parseWd? a b).map (fun w => Py.showR showWd (Gen.wdInitRR w.1 w.2))
  | _, _ => none

end Ops.Weekday
