/-
  Ops/Factory.lean — driver ops for the zone-factory state machine and the zone `__eq__` table (C18).

  fact.run <kind> <cap> <res> <scripts> <schedule> <eager>
     kind     lru | gettz | single (slot pre-filled at import, like tzutc) | single0 (fresh class)
     cap      strong-cache size
     res      `[c0,c1,…]` class of key i: 0 new cacheable zone, 1 uncached (tzlocal), 2 None, 3 the constructor raises,
              10+s the existing shared object of slot s (UTC constant / vendored entry)
     scripts  threads separated by `/`, ops by `,`:  cK call, fK instance/nocache, sN set_cache_size, x cache_clear;  `-` empty
     schedule labels separated by `,`:
                tI   one model step of thread I                mI  one *statement* of thread I (macro step)
                rI   run thread I until its current op ends    dI.N drop the N-th reference handed to thread I
                g    collect every unreferenced weak entry     kK  collect key K
     eager    1: collect every unreferenced weak entry after each label (CPython refcounting), 0: only on g/k
  → ok pcs=<pc after each t/m/r label, `B` when not enabled> rets=<tid:key:id|-|!:cached;…>  (`!` = the call raised)
       strong=<key:id,…> weak=<key:id,…> cap=<n> lock=<tid|-> held=<owner.seq:key:id,…>

  gettz.resolve <tzvar|-> <tzfiles> <tzpaths> <files> <tzname> <vendored> <tzstrok 0|1> <name|->
     strings hex (`.` empty), lists `a,b,c` (`~` empty); files = `hexpath:t|o|v|s` (tzfile() loads / OSError / ValueError / struct.error)
  → (followed by ` c<0|1|2>`: cached / returned uncached / None in GettzFunc.__call__)
    ok local | ok file <hex> | ok vendored <hex> | ok tzstr <hex> | ok utc | ok none | err OSError | err ValueError | err StructError

  zone.eq <a> <b> <same>   → ok <0|1>          zones encoded as described at `parseZone?`
  zone.eqm <a> <b>         → ok t|f|ni         (the `__eq__` method result)
-/
import DateutilVerif.Base.Wire
import DateutilVerif.Model.Factory
import DateutilVerif.Model.GettzResolve

namespace Ops.Factory
open Wire Fact

def dropStr (s : String) (n : Nat) : String := String.ofList (s.toList.drop n)

def parseOp? (s : String) : Option Op :=
  match s.toList with
  | 'c' :: r => (String.ofList r).toNat?.map Op.call
  | 'f' :: r => (String.ofList r).toNat?.map Op.fresh
  | 's' :: r => (String.ofList r).toNat?.map Op.setSize
  | ['x'] => some Op.clear
  | _ => none

def parseScripts? (s : String) : Option (List (List Op)) :=
  (s.splitOn "/").mapM fun th =>
    if th == "-" || th == "" then some [] else (th.splitOn ",").mapM parseOp?

inductive Lab
  | t (i : Nat) | m (i : Nat) | r (i : Nat) | d (i n : Nat) | g | k (key : Nat)

def parseLab? (s : String) : Option Lab :=
  match s.toList with
  | 't' :: r => (String.ofList r).toNat?.map Lab.t
  | 'm' :: r => (String.ofList r).toNat?.map Lab.m
  | 'r' :: r => (String.ofList r).toNat?.map Lab.r
  | 'k' :: r => (String.ofList r).toNat?.map Lab.k
  | ['g'] => some Lab.g
  | 'd' :: r =>
    match (String.ofList r).splitOn "." with
    | [a, b] => do let i ← a.toNat?; let n ← b.toNat?; pure (Lab.d i n)
    | _ => none
  | _ => none

def pcName (p : Pc) : String :=
  match p with
  | .idle => "idle"
  | .lGet => "lGet" | .lTest => "lTest" | .lAlloc => "lAlloc" | .lInit => "lInit" | .lSdRead => "lSdRead" | .lSdWrite => "lSdWrite" | .lAcq => "lAcq"
  | .xTouch => "xTouch" | .xLen => "xLen" | .xEvict => "xEvict" | .xRel => "xRel" | .xRet => "xRet" | .xRelX => "xRelX"
  | .gAcq => "gAcq" | .gGet => "gGet" | .gTest => "gTest" | .gAlloc => "gAlloc" | .gInit => "gInit"
  | .gCheck => "gCheck" | .gStore => "gStore" | .gRelE => "gRelE" | .gRetE => "gRetE"
  | .sAcq => "sAcq" | .sSet => "sSet" | .sLoop => "sLoop" | .sPop => "sPop" | .sRel => "sRel"
  | .cAcq => "cAcq" | .cWeak => "cWeak" | .cStrong => "cStrong" | .cRel => "cRel"
  | .fAlloc => "fAlloc" | .fInit => "fInit" | .fRet => "fRet"
  | .uTest => "uTest" | .uAlloc => "uAlloc" | .uInit => "uInit" | .uStore => "uStore" | .uRet => "uRet"

/-- pcs that continue the statement begun at the previous pc (construction inside an argument
list, the store half of `cls.__instance = super().__call__()`, the implicit return after a
`with` exit on the early-return path) -/
def minor : Pc → Bool
  | .lInit | .lSdWrite | .gInit | .fInit | .uInit | .uStore | .gRetE => true
  | _ => false

/-- one statement: a step, then the steps at `minor` pcs that belong to the same statement -/
def macroStep (kd : Kind) (res : Key → Res) (t : Tid) (s : State) : Option State :=
  match step kd res s (.thr t) with
  | none => none
  | some s1 =>
    let rec go : Nat → State → State
      | 0, s => s
      | n + 1, s =>
        match s.ths[t]? with
        | some th =>
          if minor th.pc then
            match step kd res s (.thr t) with
            | some s' => go n s'
            | none => s
          else s
        | none => s
    some (go 4 s1)

def keysOf (scripts : List (List Op)) : List Key :=
  (scripts.flatten.filterMap fun | .call k => some k | .fresh k => some k | _ => none).eraseDups

def showEv (e : Ev) : String :=
  s!"{e.tid}:{e.key}:{if e.exc then "!" else showOptInt (e.val.map Int.ofNat)}:{if e.cached then 1 else 0}"

def run (kd : Kind) (res : Key → Res) (s0 : State) (keys : List Key) (labs : List Lab) (eager : Bool) : String :=
  let gc (s : State) : State := if eager then collectAll kd res keys s else s
  let pcOf (s : State) (t : Nat) : String := match s.ths[t]? with | some th => pcName th.pc | none => "?"
  let (s, pcs) := labs.foldl (fun (acc : State × List String) l =>
      let (s, pcs) := acc
      match l with
      | .t i => match step kd res s (.thr i) with
                | some s' => (gc s', pcOf s' i :: pcs)
                | none => (s, "B" :: pcs)
      | .m i => match macroStep kd res i s with
                | some s' => (gc s', pcOf s' i :: pcs)
                | none => (s, "B" :: pcs)
      | .r i => match runOp kd res i 100000 s with
                | some s' => (gc s', pcOf s' i :: pcs)
                | none => (s, "B" :: pcs)
      | .d i n => match step kd res s (.drop i n) with
                | some s' => (gc s', pcs)
                | none => (s, "B" :: pcs)
      | .g => (collectAll kd res keys s, pcs)
      | .k key => ((step kd res s (.collect key)).getD s, pcs)) (s0, [])
  let g := s.g
  let weak := keys.filterMap fun k => (g.weak k).map fun i => s!"{k}:{i}"
  "ok pcs=" ++ ",".intercalate pcs.reverse ++
  " rets=" ++ ";".intercalate (g.log.map showEv) ++
  " strong=" ++ ",".intercalate (g.strong.map fun e => s!"{e.1}:{e.2}") ++
  " weak=" ++ ",".intercalate weak ++
  s!" cap={g.cap} lock={showOptInt (g.lock.map Int.ofNat)}" ++
  " held=" ++ ",".intercalate (g.held.map fun r => s!"{r.owner}.{r.seq}:{r.key}:{r.id}")

def resOf (classes : List Int) (k : Key) : Res :=
  match classes[k]? with
  | some 1 => .uncached
  | some 2 => .none
  | some 3 => .raises
  | some n => if n ≥ 10 then .shared (n - 10).toNat else .zone
  | _ => .zone

/-- zones on the wire: `u` | `o:<hexname>:<off>` | `l:<std>:<dst>:<0|1>:<hexname0>` | `f:<n>` |
`r:<hexstd>:<hexdst>:<stdoff>:<dstoff>:<start>:<end>` | `s:<same six>:<hexs>:<0|1>` -/
def parseZone? (w : String) : Option Zone :=
  match w.splitOn ":" with
  | ["u"] => some .utc
  | ["o", n, o] => do pure (.offset (← parseHexString? n) (← parseInt? o))
  | ["l", sd, dd, hd, n0] => do
      pure (.loc (← parseInt? sd) (← parseInt? dd) (hd == "1") (← parseHexString? n0))
  | ["f", d] => d.toNat?.map .file
  | ["r", a, b, so, d, s, e] => do
      pure (.range ⟨← parseHexString? a, ← parseHexString? b, ← parseInt? so, ← parseInt? d, ← parseInt? s, ← parseInt? e⟩)
  | ["s", a, b, so, d, s, e, str, px] => do
      pure (.str ⟨← parseHexString? a, ← parseHexString? b, ← parseInt? so, ← parseInt? d, ← parseInt? s, ← parseInt? e⟩
              (← parseHexString? str) (px == "1"))
  | _ => none

def parseOptStr? (w : String) : Option (Option String) :=
  if w == "-" then some none else (parseHexString? w).map some

def parseStrList? (w : String) : Option (List String) :=
  if w == "~" then some [] else (w.splitOn ",").mapM parseHexString?

def parseFiles? (w : String) : Option (List (String × Gettz.Load)) :=
  if w == "~" then some [] else
  (w.splitOn ",").mapM fun it =>
    match it.splitOn ":" with
    | [p, k] => do
      let path ← parseHexString? p
      let kind ← (if k == "t" then some Gettz.Load.ok else if k == "o" then some Gettz.Load.osError
                  else if k == "v" then some Gettz.Load.valueError
                  else if k == "s" then some Gettz.Load.structError else none)
      pure (path, kind)
    | _ => none

def showResolution : Gettz.R → String
  | .ok .localZone => "ok local"
  | .ok (.file p) => "ok file " ++ showHexString p
  | .ok (.vendored n) => "ok vendored " ++ showHexString n
  | .ok (.tzstr s) => "ok tzstr " ++ showHexString s
  | .ok .utc => "ok utc"
  | .ok .none => "ok none"
  | .error .osError => "err OSError"
  | .error .valueError => "err ValueError"
  | .error .structError => "err StructError"

def handle (op : String) (args : List String) : Option String :=
  match op, args with
  | "fact.run", [kind, cap, res, scripts, sched, eager] =>
    some <| Id.run do
      let some cap := cap.toNat? | return "err ValueError"
      let some classes := parseIntList? res | return "err ValueError"
      let some scripts := parseScripts? scripts | return "err ValueError"
      let some labs := (if sched == "-" then some [] else (sched.splitOn ",").mapM parseLab?) | return "err ValueError"
      let keys := keysOf scripts
      let rs := resOf classes
      match kind with
      | "lru" => return run .lru rs (initState cap scripts) keys labs (eager == "1")
      | "gettz" => return run .gettz rs (initState cap scripts) keys labs (eager == "1")
      | "single" => return run .single rs (initSingleton scripts) keys labs (eager == "1")
      | "single0" => return run .single rs (initState cap scripts) keys labs (eager == "1")
      | _ => return "err ValueError"
  | "gettz.resolve", [tzvar, tzfiles, tzpaths, files, tzname, vend, sok, name] =>
    some <| Id.run do
      let some tzvar := parseOptStr? tzvar | return "err BadRequest"
      let some tzfiles := parseStrList? tzfiles | return "err BadRequest"
      let some tzpaths := parseStrList? tzpaths | return "err BadRequest"
      let some files := parseFiles? files | return "err BadRequest"
      let some tzname := parseStrList? tzname | return "err BadRequest"
      let some vend := parseStrList? vend | return "err BadRequest"
      let some name := parseOptStr? name | return "err BadRequest"
      let env : Gettz.Env := {
        tzVar := tzvar, tzfiles := tzfiles, tzpaths := tzpaths,
        isfile := fun p => files.any (fun f => f.1 == p),
        load := fun p => ((files.find? (fun f => f.1 == p)).map (·.2)).getD .osError,
        tzname := tzname, vendored := fun n => vend.contains n, tzstrOk := fun _ => sok == "1" }
      let r := Gettz.resolve env name
      return showResolution r ++ (match r with | .ok x => s!" c{Gettz.cacheClass name x}" | .error _ => "")
  | "zone.eq", [a, b, same] =>
    some (match parseZone? a, parseZone? b with
      | some a, some b => "ok " ++ showBool (pyEq a b (same == "1"))
      | _, _ => "err ValueError")
  | "zone.eqm", [a, b] =>
    some (match parseZone? a, parseZone? b with
      | some a, some b => "ok " ++ (match eqMethod a b with | .t => "t" | .f => "f" | .ni => "ni")
      | _, _ => "err ValueError")
  | _, _ => none

end Ops.Factory
