/-
  Ops/CacheOps.lean — driver ops for the cached-iterator machine (C11, and the histories of C12):

  * `cache.run <src> <q0;q1;…> <segments>` — statement-granularity schedule over threads, one
    per query.  `<segments>` = `t:k,t:*,…` (`-` for none): run thread t for k statements (`*`:
    until it finishes or blocks); afterwards round-robin every thread to completion.  Answer:
    `ok <trace> <cache> <complete> <len> <lock> <status;…> <result;…>`, trace = `t.line` per
    executed step (`t.B` = blocked in acquire()).
  * `cache.nexts <src> <k> <ops>` — one thread, k iterators, `c<i>` = `iter(rule)`, `n<i>` = `next(it_i)`.
  * `query.run <src> <cache 0|1> <q0;q1;…>` — a history of queries on ONE rule object, run one
    after the other (each through the machine when the cache is on).
-/
import DateutilVerif.Base.Wire
import DateutilVerif.Model.Cache
import DateutilVerif.Model.RRuleSet
import DateutilVerif.Ops.QueryOps

namespace Ops.CacheOps
open Wire _root_.Queries _root_.Cache Ops.QueryOps

def parseQueries? (s : String) : Option (List Query) :=
  if s == "-" then some [] else (s.splitOn ";").mapM parseQuery?

def parseSegments? (s : String) : Option (List (Nat × Option Nat)) :=
  if s == "-" then some [] else
  (s.splitOn ",").mapM (fun seg =>
    match seg.splitOn ":" with
    | [t, k] => do
      let t ← t.toNat?
      if k == "*" then some (t, none) else do some (t, some (← k.toNat?))
    | _ => none)

/-- list-iterator steps touch no shared state and are not trace points: run them through -/
def settle (s : State) (t : Tid) : Nat → State
  | 0 => s
  | fuel + 1 =>
    match s.its[t]? with
    | some it => if it.pc == .listIter then settle ((step s t).getD s) t fuel else s
    | none => s

def pcOf (s : State) (t : Tid) : PC := match s.its[t]? with | some it => it.pc | none => .done

/-- run thread t for at most k statements; stops at done / blocked.  Returns state, trace (reversed), progress flag -/
def runSeg (s : State) (t : Tid) : Nat → List String → Bool → State × List String × Bool
  | 0, tr, p => (s, tr, p)
  | k + 1, tr, p =>
    if pcOf s t == .done then (s, tr, p) else
    match step s t with
    | none => (s, s!"{t}.B" :: tr, p)
    | some s' =>
      let s'' := settle s' t (s'.sh.cache.length + 2)
      runSeg s'' t k (s!"{t}.{(pcOf s'' t).line}" :: tr) true

def bigFuel (s : State) : Nat := 100 + 60 * (s.sh.src.length + 2)

def runSegs (s : State) (tr : List String) : List (Nat × Option Nat) → State × List String
  | [] => (s, tr)
  | (t, k) :: rest =>
    let (s', tr', _) := runSeg s t (k.getD (bigFuel s)) tr false
    runSegs s' tr' rest

/-- round-robin to completion: rounds until a whole round makes no progress -/
def finishAll (s : State) (tr : List String) : Nat → State × List String
  | 0 => (s, tr)
  | rounds + 1 =>
    let n := s.its.length
    let (s', tr', p) := (List.range n).foldl (fun (acc : State × List String × Bool) t =>
        let (s1, tr1, p1) := runSeg acc.1 t (bigFuel acc.1) acc.2.1 false
        (s1, tr1, acc.2.2 || p1)) (s, tr, false)
    if p then finishAll s' tr' rounds else (s', tr')

def showStatus (s : State) (t : Tid) : String :=
  match s.its[t]? with
  | some it => if it.pc == .done then "done" else
      if it.pc == .l132 && s.sh.lock.isSome then "blocked" else s!"at{it.pc.line}"
  | none => "?"

def showThreadRes (it : Iter) : String :=
  match it.res with
  | some r => (showRes r).replace " " "_"
  | none => "-"

def showFinal (s : State) : String :=
  let sh := s.sh
  let st := ";".intercalate ((List.range s.its.length).map (showStatus s))
  let rs := ";".intercalate (s.its.map showThreadRes)
  s!"{showIntList sh.cache} {showBool sh.complete} {showOptInt (sh.len.map Int.ofNat)} {showOptInt (sh.lock.map Int.ofNat)} {if st.isEmpty then "-" else st} {if rs.isEmpty then "-" else rs}"

/-! single-thread `next()` granularity -/

/-- run thread t until its consumer has received one more value / it finishes / it blocks -/
def runToYield (s : State) (t : Tid) (have_ : Nat) : Nat → State × String
  | 0 => (s, "fuel")
  | fuel + 1 =>
    match s.its[t]? with
    | none => (s, "?")
    | some it =>
      if it.yielded.length > have_ then (s, toString (it.yielded.getLastD 0))
      else if it.pc == .done then (s, "S")
      else match step s t with
        | none => (s, "D")
        | some s' => runToYield s' t have_ fuel

/-- `iter(rule)`: lines 106-111 run at creation -/
def runCreate (s : State) (t : Tid) : Nat → State
  | 0 => s
  | fuel + 1 =>
    match s.its[t]? with
    | none => s
    | some it =>
      if it.pc == .l125 || it.pc == .listIter || it.pc == .done then s
      else runCreate ((step s t).getD s) t fuel

def runNexts (s : State) (out : List String) : List String → State × List String
  | [] => (s, out)
  | op :: rest =>
    match op.toList with
    | 'c' :: ds =>
      match (String.ofList ds).toNat? with
      | some t => runNexts (runCreate s t 10) out rest
      | none => (s, "bad" :: out)
    | 'n' :: ds =>
      match (String.ofList ds).toNat? with
      | some t =>
        let have_ := match s.its[t]? with | some it => it.yielded.length | none => 0
        let (s', o) := runToYield s t have_ (bigFuel s)
        if o == "D" then (s', o :: out) else runNexts s' (o :: out) rest
      | none => (s, "bad" :: out)
    | _ => (s, "bad" :: out)

/-! histories of queries on one object -/

/-- the state of a rule object between queries (no live iterators) -/
def runQuery (sh : Shared) (q : Query) : Shared × Res :=
  let s0 : State := { sh := sh, its := [{ q := q }] }
  let (s1, _) := finishAll s0 [] 3
  (s1.sh, match s1.its[0]? with | some it => it.res.getD (.err .AssertionError) | none => .err .AssertionError)

def runHistory (cacheOn : Bool) (src : List Int) : Shared → List Query → List String → List String
  | _, [], out => out.reverse
  | sh, q :: qs, out =>
    if cacheOn then
      let (sh', r) := runQuery sh q
      runHistory cacheOn src sh' qs (((showRes r).replace " " "_") :: out)
    else
      -- cache off: `_cache_complete` is False, `iter(self)` is `self._iter()`; `_len` is published
      -- whenever a generator is run to its end
      let exhausts := !(stops q src)
      let known := match q with | .count => sh.len.isSome | _ => false
      let r := if known then answer sh .count [] else
               match q with | .count => .nat src.length | _ => gen q src
      let sh' := if exhausts && !known then { sh with len := some src.length } else sh
      runHistory cacheOn src sh' qs (((showRes r).replace " " "_") :: out)

def handle (op : String) (args : List String) : Option String :=
  match op, args with
  | "cache.run", [src, qs, segs] => do
      let src ← parseIntList? src; let qs ← parseQueries? qs; let segs ← parseSegments? segs
      let s0 := init src qs
      let (s1, tr1) := runSegs s0 [] segs
      let (s2, tr2) := finishAll s1 tr1 (qs.length + 2)
      let tr := ",".intercalate tr2.reverse
      some s!"ok {if tr.isEmpty then "-" else tr} {showFinal s2}"
  | "cache.nexts", [src, k, ops] => do
      let src ← parseIntList? src; let k ← k.toNat?
      let s0 := init src (List.replicate k .iterAll)
      let (s1, out) := runNexts s0 [] (if ops == "-" then [] else ops.splitOn ",")
      let o := ",".intercalate out.reverse
      some s!"ok {if o.isEmpty then "-" else o} {showFinal s1}"
  | "query.run", [src, c, qs] => do
      let src ← parseIntList? src; let qs ← parseQueries? qs
      let out := runHistory (c != "0") src (initShared src) qs []
      some ("ok " ++ (if out.isEmpty then "-" else ";".intercalate out))
  | "query.runx", [src, k, c, qs] => do
      -- the underlying generator raises ZeroDivisionError after k values
      let src ← parseIntList? src; let k ← k.toNat?; let qs ← parseQueries? qs
      let src := src.take k
      let out := if c != "0" then (RSet.runQueries (init src [] (some .ZeroDivisionError)) qs).map (fun r => r.getD (.err .AssertionError))
                 else qs.map (fun q => genRaising q src .ZeroDivisionError)
      some ("ok " ++ (if out.isEmpty then "-" else ";".intercalate (out.map (fun r => (showRes r).replace " " "_"))))
  | _, _ => none

end Ops.CacheOps
