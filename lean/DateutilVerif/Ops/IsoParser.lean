/-
  Ops/IsoParser.lean — driver ops for the isoparser model and the ISO-form spec.

    iso.parse <sep|-> <hex> [b]      isoparser(sep).isoparse(str)   (`b`: bytes input, no ASCII gate)
    iso.date <hex> [b]               parse_isodate
    iso.time <hex> [b]               parse_isotime
    iso.tz <0|1> <hex> [b]           parse_tzstr(s, zero_as_utc)
    iso.recognise <strict> <sep|-> <hex>   spec: every value the string denotes, `|`-separated
                                     (strict: 0 lax weeks, 1 strict, 2 strict without digit separators)
    iso.recdate <strict> <hex> / iso.rectime <hex> / iso.rectz <0|1> <hex>
    iso.render <df> <tf> <of> <sep> [year,a,b,hh,mm,ss,neg,oh,om] [frac digits]
        -> ok <hex> <lax-wf> <strict-wf> <denotation>

    isogen.parse <sep|-> <hex> [b|s|sb]   the TRANSLATED isoparse behind the TRANSLATED _takes_ascii (input kind: str,
                                     bytes, text stream, byte stream) and the hand-modelled constructor check
    isogen.tz <0|1> <hex>            translated _parse_tzstr
    isogen.digits <width> <hex>      translated _parse_digits
    isogen.idate <hex>               translated _parse_isodate  -> ok y m d pos
    isogen.itime <hex>               translated _parse_isotime  -> ok h m s us tz   (raw components)
    isogen.edate / isogen.etime / isogen.etz   translated bodies of parse_isodate / parse_isotime / parse_tzstr

  `sep` is the hex of the UTF-8 of the `sep` argument (`.` = empty string), `-` = None.
-/
import DateutilVerif.Base.Wire
import DateutilVerif.Model.IsoParser
import DateutilVerif.Spec.IsoForms
import DateutilVerif.Generated.IsoKernels

namespace Ops.IsoParser
open Wire

def bytes? (s : String) : Option (List Nat) := (parseHexBytes? s).map (·.map UInt8.toNat)

/-- `-` = None, else the code points of the string -/
def sep? (s : String) : Option (Option (List Nat)) :=
  if s == "-" then some none else (parseHexString? s).map fun t => some (t.toList.map Char.toNat)

def isStr? : List String → Option Bool
  | [] => some true
  | ["b"] => some false
  | _ => none

def show3 (t : Int × Int × Int) : String := s!"{t.1} {t.2.1} {t.2.2}"

def showTime (c : Iso.TComps) : String := s!"{c.h} {c.m} {c.s} {c.us} " ++ IsoT.Off.wire c.tz

def showOff (o : IsoT.Off) : String := IsoT.Off.wire (some o)

def showVals (l : List String) : String :=
  if l.isEmpty then "none" else "ok " ++ "|".intercalate l

def dateForm? : Int → Option IsoSpec.DateForm
  | 0 => some .calExt | 1 => some .calBas | 2 => some .year | 3 => some .yearMonth
  | 4 => some .weekExtD | 5 => some .weekBasD | 6 => some .weekExt | 7 => some .weekBas
  | 8 => some .ordExt | 9 => some .ordBas | _ => none
def timeForm? : Int → Option IsoSpec.TimeForm
  | 0 => some .none | 1 => some .h | 2 => some .hmExt | 3 => some .hmBas | 4 => some .hmsExt
  | 5 => some .hmsBas | 6 => some (.hmsfExt false) | 7 => some (.hmsfExt true)
  | 8 => some (.hmsfBas false) | 9 => some (.hmsfBas true) | _ => none
def offForm? : Int → Option IsoSpec.OffForm
  | 0 => some .naive | 1 => some .Z | 2 => some .z | 3 => some .hh | 4 => some .hhmm
  | 5 => some .hhcmm | _ => none

def mkFields (year a b hh mm ss neg oh om : Int) (fr : List Int) : IsoSpec.Fields :=
  { year := year.toNat, a := a.toNat, b := b.toNat, hh := hh.toNat, mm := mm.toNat,
    ss := ss.toNat, frac := fr.map Int.toNat, neg := decide (neg ≠ 0), oh := oh.toNat,
    om := om.toNat }

def showComp : BytesPy.Comp → String
  | .int v => toString v
  | .none => "-"
  | .tz o => (IsoT.Off.wire (some o)).replace " " ":"

def showComps (l : List BytesPy.Comp) : String := " ".intercalate (l.map showComp)

/-- input kind token: (none) str | b bytes | s text stream | sb byte stream -/
def pyVal? (rest : List String) (s : List Nat) : Option BytesPy.PyVal :=
  match rest with
  | [] => some (.str s)
  | ["b"] => some (.bytes s)
  | ["s"] => some (.streamStr s)
  | ["sb"] => some (.streamBytes s)
  | _ => none

/-- the translated `isoparse` behind the translated `_takes_ascii` and the hand-modelled `__init__`
    (text is given as its UTF-8 bytes: a non-ASCII character shows as bytes ≥ 128, which is all the gate looks at) -/
def genIsoparseFull (sep : Option (List Nat)) (v : BytesPy.PyVal) : Py.R IsoT.Value := do
  let sp ← Iso.mkSep sep
  Gen.takesAscii (Gen.isoparse (sp.map fun c => [c])) v

def handle (op : String) (args : List String) : Option String :=
  match op, args with
  | "isogen.parse", sep :: hex :: rest => do
      let sp ← sep? sep; let s ← bytes? hex; let v ← pyVal? rest s
      some (Py.showR IsoT.Value.wire (genIsoparseFull sp v))
  | "isogen.tz", [z, hex] => do
      let s ← bytes? hex
      some (Py.showR showOff (Gen.parseTzstr s (z != "0")))
  | "isogen.digits", [w, hex] => do
      let s ← bytes? hex; let w ← parseInt? w
      some (Py.showR toString (Gen.parseDigits s w))
  | "isogen.edate", [hex] => do
      let s ← bytes? hex
      some (Py.showR (fun o => show3 (Cal.fromOrdinal o)) (Gen.parseIsodateEntry s))
  | "isogen.etime", [hex] => do
      let s ← bytes? hex
      some (Py.showR showComps (Gen.parseIsotimeEntry s))
  | "isogen.etz", [z, hex] => do
      let s ← bytes? hex
      some (Py.showR showOff (Gen.parseTzstrEntry s (z != "0")))
  | "isogen.idate", [hex] => do
      let s ← bytes? hex
      some (Py.showR (fun (p : List BytesPy.Comp × Int) => showComps p.1 ++ s!" {p.2}") (Gen.parseIsodate s))
  | "isogen.itime", [hex] => do
      let s ← bytes? hex
      some (Py.showR showComps (Gen.parseIsotime s))
  | "iso.parse", sep :: hex :: rest => do
      let sp ← sep? sep; let s ← bytes? hex; let isStr ← isStr? rest
      some (Py.showR IsoT.Value.wire (Iso.isoparseFull sp isStr s))
  | "iso.date", hex :: rest => do
      let s ← bytes? hex; let isStr ← isStr? rest
      some (Py.showR show3 (Iso.asciiGate isStr s Iso.parseIsodateEntry))
  | "iso.time", hex :: rest => do
      let s ← bytes? hex; let isStr ← isStr? rest
      some (Py.showR showTime (Iso.asciiGate isStr s Iso.parseIsotimeEntry))
  | "iso.tz", z :: hex :: rest => do
      let s ← bytes? hex; let isStr ← isStr? rest
      some (Py.showR showOff (Iso.asciiGate isStr s (fun s => Iso.parseTzstr s (z != "0"))))
  | "iso.recognise", [strict, sep, hex] => do
      let sp ← sep? sep; let s ← bytes? hex
      let cfg : Option Nat ← match sp with
        | none => some none
        | some [c] => some (some c)
        | some _ => none
      some (showVals ((if strict == "2" then IsoSpec.recogniseNoDigitSep true cfg s
                       else IsoSpec.recognise (strict != "0") cfg s).map IsoT.Value.wire))
  | "iso.recdate", [strict, hex] => do
      let s ← bytes? hex
      some (showVals ((IsoSpec.recogniseDate (strict != "0") s).map show3))
  | "iso.rectime", [hex] => do
      let s ← bytes? hex
      some (showVals ((IsoSpec.recogniseTime s).map fun (h, m, sec, us, o) =>
        s!"{h} {m} {sec} {us} " ++ IsoT.Off.wire o))
  | "iso.rectz", [z, hex] => do
      let s ← bytes? hex
      some (showVals ((IsoSpec.recogniseOff (z != "0") s).map showOff))
  | "iso.render", [df, tf, o, sep, fields, frac] => do
      let df ← dateForm? (← parseInt? df); let tf ← timeForm? (← parseInt? tf)
      let o ← offForm? (← parseInt? o); let sep ← parseInt? sep
      let fr ← parseIntList? frac
      match ← parseIntList? fields with
      | [year, a, b, hh, mm, ss, neg, oh, om] =>
        let f : IsoSpec.IsoForm := { date := df, time := tf, off := o, sep := sep.toNat }
        let x := mkFields year a b hh mm ss neg oh om fr
        some (s!"ok {showHexBytes ((IsoSpec.render f x).map UInt8.ofNat)} " ++
              s!"{showBool (IsoSpec.WFieldsB false f x)} {showBool (IsoSpec.WFieldsB true f x)} " ++
              IsoT.Value.wire (IsoSpec.denote f x))
      | _ => none
  | _, _ => none

end Ops.IsoParser
