/-
  Base/Calendar.lean — proleptic Gregorian calendar: a model of the parts of
  CPython's `datetime.date` / `calendar` that dateutil delegates to.
  Modelled, not verified: tied to CPython by the `base.*` correspondence ops.

  All functions are on `Int`.  The real code raises outside years 1..9999; that
  window is the explicit predicate `InRange`, never built into the arithmetic.
  No Mathlib import (linked into the driver).
-/
import DateutilVerif.Base.Py

namespace Cal

def isLeap (y : Int) : Bool := y % 4 == 0 && (y % 100 != 0 || y % 400 == 0)

/-- `calendar.monthrange(y, m)[1]` for `1 ≤ m ≤ 12`. -/
def daysInMonth (y m : Int) : Int :=
  if m == 2 then (if isLeap y then 29 else 28)
  else if m == 4 || m == 6 || m == 9 || m == 11 then 30 else 31

def daysInYear (y : Int) : Int := if isLeap y then 366 else 365

/-- CPython `_days_before_year`: days in years `1 .. y-1`. -/
def daysBeforeYear (y : Int) : Int :=
  (y - 1) * 365 + (y - 1) / 4 - (y - 1) / 100 + (y - 1) / 400

/-- Days of a non-leap year before month `m` (1..13; 13 = whole year). -/
def dbmTable (m : Int) : Int :=
  if m ≤ 1 then 0 else if m == 2 then 31 else if m == 3 then 59 else if m == 4 then 90
  else if m == 5 then 120 else if m == 6 then 151 else if m == 7 then 181
  else if m == 8 then 212 else if m == 9 then 243 else if m == 10 then 273
  else if m == 11 then 304 else if m == 12 then 334 else 365

/-- CPython `_days_before_month`. -/
def daysBeforeMonth (y m : Int) : Int :=
  dbmTable m + (if m > 2 && isLeap y then 1 else 0)

/-- `date(y, m, d).toordinal()`; 0001-01-01 is day 1. -/
def toOrdinal (y m d : Int) : Int := daysBeforeYear y + daysBeforeMonth y m + d

/-- valid (month, day) for the year `y` -/
def ValidYMD (y m d : Int) : Prop := 1 ≤ m ∧ m ≤ 12 ∧ 1 ≤ d ∧ d ≤ daysInMonth y m

instance (y m d : Int) : Decidable (ValidYMD y m d) := by unfold ValidYMD; exact inferInstance

/-- what `datetime.date(y, m, d)` accepts -/
def ValidDate (y m d : Int) : Prop := 1 ≤ y ∧ y ≤ 9999 ∧ ValidYMD y m d

instance (y m d : Int) : Decidable (ValidDate y m d) := by unfold ValidDate; exact inferInstance

def validDate (y m d : Int) : Bool := decide (ValidDate y m d)

/-- month containing the 0-based day of year `n` -/
def monthOfYday (leap : Bool) (n : Int) : Int :=
  let l : Int := if leap then 1 else 0
  if n < 31 then 1
  else if n < 59 + l then 2
  else if n < 90 + l then 3
  else if n < 120 + l then 4
  else if n < 151 + l then 5
  else if n < 181 + l then 6
  else if n < 212 + l then 7
  else if n < 243 + l then 8
  else if n < 273 + l then 9
  else if n < 304 + l then 10
  else if n < 334 + l then 11
  else 12

/-- month and 1-based day from the 0-based day of year `n` -/
def monthDayOfYday (leap : Bool) (n : Int) : Int × Int :=
  let m := monthOfYday leap n
  (m, n - (dbmTable m + (if m > 2 && leap then 1 else 0)) + 1)

/-- `date.fromordinal(n)` (CPython `_ord2ymd`: stepwise 400/100/4/1-year cycles). -/
def fromOrdinal (n : Int) : Int × Int × Int :=
  let n0 := n - 1
  let n400 := n0 / 146097
  let r := n0 % 146097
  let n100 := r / 36524
  let r2 := r % 36524
  let n4 := r2 / 1461
  let r3 := r2 % 1461
  let n1 := r3 / 365
  let r4 := r3 % 365
  let year := n400 * 400 + 1 + n100 * 100 + n4 * 4 + n1
  if n1 == 4 || n100 == 4 then (year - 1, 12, 31)
  else
    let leap := n1 == 3 && (n4 != 24 || n100 == 3)
    let md := monthDayOfYday leap r4
    (year, md.1, md.2)

/-- `date.weekday()` from the ordinal: Monday = 0. -/
def weekdayOfOrd (n : Int) : Int := (n + 6) % 7

def weekday (y m d : Int) : Int := weekdayOfOrd (toOrdinal y m d)

/-- 1-based day of the year, `timetuple().tm_yday` -/
def yday (y m d : Int) : Int := daysBeforeMonth y m + d

/-- ordinal of the Monday starting ISO week 1 of `y` (CPython `_isoweek1monday`) -/
def isoWeek1Monday (y : Int) : Int :=
  let firstday := toOrdinal y 1 1
  let firstweekday := (firstday + 6) % 7
  let week1monday := firstday - firstweekday
  if firstweekday > 3 then week1monday + 7 else week1monday

/-- `date.isocalendar()` → (iso year, iso week, iso weekday 1..7) -/
def isoCalendar (y m d : Int) : Int × Int × Int :=
  let today := toOrdinal y m d
  let w1 := isoWeek1Monday y
  let week := Py.fdiv (today - w1) 7
  let day := Py.fmod (today - w1) 7
  if week < 0 then
    let w1p := isoWeek1Monday (y - 1)
    (y - 1, Py.fdiv (today - w1p) 7 + 1, Py.fmod (today - w1p) 7 + 1)
  else if week ≥ 52 ∧ today ≥ isoWeek1Monday (y + 1) then (y + 1, 1, day + 1)
  else (y, week + 1, day + 1)

def maxOrdinal : Int := 3652059   -- date(9999,12,31).toordinal()

end Cal
