/-
  Base/Wire.lean — the line protocol of the driver: `<op> <arg> <arg> …`, integers in
  decimal, `-` for None, lists `[a,b,…]`, strings as lowercase hex of UTF-8 (`""` = `.`).
-/
import DateutilVerif.Base.Py

namespace Wire

def parseInt? (s : String) : Option Int := s.toInt?

def parseOptInt? (s : String) : Option (Option Int) :=
  if s == "-" then some none else (s.toInt?).map some

/-- `[1,2,3]` / `[]` -/
def parseIntList? (s : String) : Option (List Int) :=
  if s.length < 2 || s.front != '[' || s.back != ']' then none else
  let inner := String.ofList ((s.toList.drop 1).dropLast)
  if inner.isEmpty then some [] else
  (inner.splitOn ",").mapM (fun t => t.toInt?)

def hexVal (c : Char) : Option Nat :=
  if '0' ≤ c ∧ c ≤ '9' then some (c.toNat - '0'.toNat)
  else if 'a' ≤ c ∧ c ≤ 'f' then some (c.toNat - 'a'.toNat + 10)
  else none

/-- hex → bytes; `.` is the empty string -/
def parseHexBytes? (s : String) : Option (List UInt8) :=
  if s == "." then some [] else
  let rec go : List Char → List UInt8 → Option (List UInt8)
    | [], acc => some acc.reverse
    | [_], _ => none
    | a :: b :: rest, acc => do
        let x ← hexVal a; let y ← hexVal b
        go rest (UInt8.ofNat (x * 16 + y) :: acc)
  go s.toList []

/-- hex of UTF-8 → String -/
def parseHexString? (s : String) : Option String := do
  let bs ← parseHexBytes? s
  String.fromUTF8? (ByteArray.mk bs.toArray)

def showInt (i : Int) : String := toString i
def showOptInt : Option Int → String
  | none => "-"
  | some i => toString i
def showIntList (l : List Int) : String := Py.showList showInt l
def showBool (b : Bool) : String := if b then "1" else "0"

def hexDigit (n : Nat) : Char := if n < 10 then Char.ofNat (48 + n) else Char.ofNat (87 + n)
def showHexBytes (bs : List UInt8) : String :=
  if bs.isEmpty then "." else
  String.ofList (bs.foldr (fun b acc => hexDigit (b.toNat / 16) :: hexDigit (b.toNat % 16) :: acc) [])
def showHexString (s : String) : String := showHexBytes s.toUTF8.toList

end Wire
