/-
  Base/Time.lean — naive `datetime.datetime` values and `timedelta` arithmetic.
  A datetime is its seven fields; `toMicros` (microseconds since 0001-01-01T00:00, day 1 = ordinal 1)
  is the order isomorphism used for comparison and for `datetime ± timedelta`
  (timedelta = `Int` microseconds).  Modelled, not verified (tied by `base.dt*` ops).
-/
import DateutilVerif.Base.Calendar

structure DT where
  y : Int
  m : Int
  d : Int
  hh : Int := 0
  mm : Int := 0
  ss : Int := 0
  us : Int := 0
  deriving DecidableEq, Repr, Inhabited

namespace DT

def usPerDay : Int := 86400000000

/-- what `datetime.datetime(y, m, d, hh, mm, ss, us)` accepts -/
def Valid (t : DT) : Prop :=
  Cal.ValidDate t.y t.m t.d ∧ 0 ≤ t.hh ∧ t.hh ≤ 23 ∧ 0 ≤ t.mm ∧ t.mm ≤ 59 ∧
  0 ≤ t.ss ∧ t.ss ≤ 59 ∧ 0 ≤ t.us ∧ t.us ≤ 999999

instance (t : DT) : Decidable t.Valid := by unfold Valid; exact inferInstance

def valid (t : DT) : Bool := decide t.Valid

def ordinal (t : DT) : Int := Cal.toOrdinal t.y t.m t.d

/-- microseconds within the day -/
def timeMicros (t : DT) : Int := ((t.hh * 60 + t.mm) * 60 + t.ss) * 1000000 + t.us

/-- microseconds since the (fictitious) midnight starting ordinal 0 -/
def toMicros (t : DT) : Int := t.ordinal * usPerDay + t.timeMicros

/-- inverse of `toMicros` (total; callers check the range) -/
def ofMicros (x : Int) : DT :=
  let ord := x / usPerDay
  let r := x % usPerDay
  let (y, m, d) := Cal.fromOrdinal ord
  let us := r % 1000000
  let s := r / 1000000
  { y := y, m := m, d := d, hh := s / 3600, mm := (s % 3600) / 60, ss := s % 60, us := us }

def minMicros : Int := 1 * usPerDay
def maxMicros : Int := Cal.maxOrdinal * usPerDay + (usPerDay - 1)

/-- `datetime + timedelta(microseconds=δ)`; `OverflowError` ("date value out of range") outside 1..9999 -/
def addMicros (t : DT) (δ : Int) : Py.R DT :=
  let x := t.toMicros + δ
  if x < minMicros ∨ x > maxMicros then .error .OverflowError else .ok (ofMicros x)

def addDays (t : DT) (n : Int) : Py.R DT := t.addMicros (n * usPerDay)

def weekday (t : DT) : Int := Cal.weekdayOfOrd t.ordinal

def lt (a b : DT) : Bool := a.toMicros < b.toMicros
def le (a b : DT) : Bool := a.toMicros ≤ b.toMicros

/-- wire form: `y m d hh mm ss us` -/
def wire (t : DT) : String := s!"{t.y} {t.m} {t.d} {t.hh} {t.mm} {t.ss} {t.us}"

def ofList? : List Int → Option DT
  | [y, m, d, hh, mm, ss, us] => some { y, m, d, hh, mm, ss, us }
  | _ => none

end DT
