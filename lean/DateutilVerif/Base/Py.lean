/-
  Base/Py.lean — the fragment of Python's semantics the models rely on.

  * `PyErr`: the *kind* of exception that escapes a modelled operation.  Every
    Python operation that can raise is an `Except PyErr α` in the models so that
    "which exception escapes" is a fact of the model, not an artefact of
    totalisation.
  * Python integer `//` and `%` (floor semantics) on `Int`.
  * list indexing with negative wrap-around and `IndexError`.
  * slice normalisation (`slice.indices`) and `L[a:b:c]`.

  No Mathlib import: this file is linked into the compiled driver.
-/

namespace Py

inductive PyErr where
  | ValueError | IndexError | OverflowError | TypeError | InvalidOperation
  | ParserError | StopIteration | KeyError | AssertionError | AttributeError
  | ZeroDivisionError | NotImplemented | UnicodeError | StructError
  deriving DecidableEq, Repr, Inhabited

def PyErr.name : PyErr → String
  | .ValueError => "ValueError" | .IndexError => "IndexError"
  | .OverflowError => "OverflowError" | .TypeError => "TypeError"
  | .InvalidOperation => "InvalidOperation" | .ParserError => "ParserError"
  | .StopIteration => "StopIteration" | .KeyError => "KeyError"
  | .AssertionError => "AssertionError" | .AttributeError => "AttributeError"
  | .ZeroDivisionError => "ZeroDivisionError" | .NotImplemented => "NotImplemented"
  | .UnicodeError => "UnicodeError" | .StructError => "StructError"

abbrev R (α : Type) := Except PyErr α

/-- Python `a // b` for `b ≠ 0` (floor division). -/
@[inline] def fdiv (a b : Int) : Int := Int.fdiv a b
/-- Python `a % b` for `b ≠ 0` (sign of the divisor). -/
@[inline] def fmod (a b : Int) : Int := Int.fmod a b

theorem fdiv_pos (a : Int) {b : Int} (h : 0 < b) : fdiv a b = a / b :=
  Int.fdiv_eq_ediv_of_nonneg a (Int.le_of_lt h)
theorem fmod_pos (a : Int) {b : Int} (h : 0 < b) : fmod a b = a % b :=
  Int.fmod_eq_emod_of_nonneg a (Int.le_of_lt h)

/-- Python `divmod(a, b)` for `b > 0`. -/
@[inline] def divmod (a b : Int) : Int × Int := (fdiv a b, fmod a b)

/-- Python's `_sign` helper used by relativedelta (`int(copysign(1, x))`): +1 for 0. -/
@[inline] def sign (x : Int) : Int := if x < 0 then -1 else 1

/-- `abs`. -/
@[inline] def iabs (x : Int) : Int := if x < 0 then -x else x

/-- Python truthiness of an int. -/
@[inline] def truthy (x : Int) : Bool := x != 0

/-- `L[i]` with Python's negative-index wrap-around and `IndexError`. -/
def getIdx {α} (l : List α) (i : Int) : R α :=
  let n : Int := l.length
  let j := if i < 0 then i + n else i
  if j < 0 ∨ j ≥ n then .error .IndexError
  else match l[j.toNat]? with
    | some x => .ok x
    | none => .error .IndexError

/-- Python slice normalisation: `slice(a,b,c).indices(n)`; `ValueError` for step 0. -/
def sliceIndices (a b c : Option Int) (n : Int) : R (Int × Int × Int) :=
  let step := c.getD 1
  if step == 0 then .error .ValueError else
  let lower : Int := if step < 0 then -1 else 0
  let upper : Int := if step < 0 then n - 1 else n
  let clamp (v : Int) : Int :=
    if v < 0 then (if v + n < lower then lower else v + n)
    else (if v > upper then upper else v)
  let start := match a with
    | none => if step < 0 then upper else lower
    | some v => clamp v
  let stop := match b with
    | none => if step < 0 then lower else upper
    | some v => clamp v
  .ok (start, stop, step)

/-- The index sequence `range(start, stop, step)`, `step ≠ 0`. -/
def rangeList (start stop step : Int) : List Int :=
  if step > 0 then
    let cnt := if start < stop then ((stop - start + step - 1) / step).toNat else 0
    (List.range cnt).map (fun (k : Nat) => start + (k : Int) * step)
  else if step < 0 then
    let cnt := if start > stop then ((start - stop - step - 1) / (-step)).toNat else 0
    (List.range cnt).map (fun (k : Nat) => start + (k : Int) * step)
  else []

/-- `L[a:b:c]`. -/
def slice {α} (l : List α) (a b c : Option Int) : R (List α) := do
  let (s, e, st) ← sliceIndices a b c l.length
  .ok ((rangeList s e st).filterMap (fun i => l[i.toNat]?))

def showList {α} (f : α → String) (l : List α) : String :=
  "[" ++ ",".intercalate (l.map f) ++ "]"

def showR {α} (f : α → String) : R α → String
  | .ok x => "ok " ++ f x
  | .error e => "err " ++ e.name

end Py

deriving instance DecidableEq for Except
