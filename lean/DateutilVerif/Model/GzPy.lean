/-
  Model/GzPy.lean — runtime support of the "GzPy" translator (harness/translate_gettz.py): the NAMED primitives that
  `tz.gettz`'s resolution cascade `GettzFunc.nocache` is translated into (Generated/GettzNocache.lean).  Not dateutil code:
  the meaning of the operating-system calls and constructors the cascade uses, all read from the abstract environment
  `Gettz.Env` of Model/GettzResolve.lean (so they are PARAMETERS of the model); exercised on every run by the `gzgen.*`
  validation against the implementation under a controlled file system (harness/props/gzlib.py).  No Mathlib import.
-/
import DateutilVerif.Model.GettzResolve

namespace Gettz
/-- what a translated `for` loop returns: (left by `break`?, the variables it assigns) -/
abbrev LoopR (α : Type) := Except Err (Bool × α)
/-- what the joined branches of an `if` return: the variables they assign -/
abbrev LoopJ (α : Type) := Except Err α
end Gettz

namespace GzPy
open Gettz

/-- truthiness of `name` (None or a str) -/
def truthyName (n : Option String) : Prop := n ≠ none ∧ n ≠ some ""
instance (n : Option String) : Decidable (truthyName n) := by unfold truthyName; exact inferInstance

/-- `name in (<str literals>)` for a None-or-str name -/
def optIn (n : Option String) (l : List String) : Prop :=
  match n with
  | some s => s ∈ l
  | none => False
instance (n : Option String) (l : List String) : Decidable (optIn n l) := by
  unfold optIn; cases n <;> exact inferInstance

/-- `s.startswith(":")` -/
def startsWithColon (s : String) : Bool := s.toList.head? == some ':'

/-- `s[1:]` -/
def dropFirst (s : String) : String := String.ofList (s.toList.drop 1)

/-- `c in "0123456789"` -/
def isDigit (c : Char) : Bool := decide ('0' ≤ c ∧ c ≤ '9')

/-- `tzfile(p)`: the zone read from the file, or the exception the constructor raises on it -/
def tzfile (e : Env) (p : String) : Except Err Resolution :=
  match e.load p with
  | .ok => .ok (.file p)
  | .osError => .error .osError
  | .valueError => .error .valueError
  | .structError => .error .structError

/-- `tzstr.instance(s)`: the zone, or `none` for the ValueError of a string outside the TZ grammar -/
def tzstrInstance (e : Env) (s : String) : Option Resolution := if e.tzstrOk s then some (.tzstr s) else none

/-- `get_zonefile_instance().get(s)` -/
def vendoredGet (e : Env) (s : String) : Resolution := if e.vendored s then .vendored s else .none

end GzPy
