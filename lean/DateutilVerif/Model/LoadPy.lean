/-
  Model/LoadPy.lean — named primitives of the "LoadPy" translator (harness/translate_load.py), which re-translates on every
  run the LOAD PATHS of a TZif zone: `tz.tzfile.__init__` (file name vs open stream, the choice of `_filename`) and
  `dateutil.zoneinfo.ZoneInfoFile.__init__` / `get` (a tar archive with regular members, link members and METADATA) into
  Generated/TzLoadKernels.lean.  The reader they call is the TRANSLATED `_read_tzfile` (Generated/TzifKernels.lean).

  * the file system is `open(path, 'rb')` as a partial function to bytes (an OSError for a missing file is outside `Py.PyErr` and reported as `NotImplemented`);
  * the `fileobj` argument is a path string, an open binary stream (its bytes, its `.name` attribute if it has one, its repr)
    or None; `with stream as f` and `_nullcontext(stream)` hand the stream through;
  * `TarFile.open(fileobj=stream)` is the list of members in archive order: regular files with their bytes
    (`tf.extractfile`), links (hard or symbolic) with their `linkname`, others (directories …);
  * a `dict` is a list of bindings, the LAST binding of a key wins (`dget`), `dict.update` appends;
  * `_set_tzdata` copies every attribute of `_tzfile.attrs` (the list is checked by translate_tzif.py): the zone data is the
    reader's result; the METADATA JSON is kept as its decoded text.
  No Mathlib.
-/
import DateutilVerif.Model.TzifPy

namespace LoadPy
open Py

abbrev Bytes := List UInt8
abbrev FS := String → Option Bytes

inductive FileArg
  | path (p : String)
  | stream (data : Bytes) (name : Option String) (repr : String)
  | none_
  deriving Repr

/-- a `tzfile` object: `_filename` and the copied `_tzfile` attributes (None when `fileobj` was None) -/
structure TzObj where
  filename : String
  data : Option TzifPy.Out
  deriving Repr

def isStr : FileArg → Bool
  | .path _ => true
  | _ => false
def isNone : FileArg → Bool
  | .none_ => true
  | _ => false
/-- the string itself (`self._filename = fileobj` in the `isinstance(fileobj, string_types)` arm) -/
def strOf : FileArg → R String
  | .path p => .ok p
  | _ => .error .TypeError
/-- `open(fileobj, 'rb')` -/
def openRb (fs : FS) : FileArg → R FileArg
  | .path p => match fs p with
      | some d => .ok (.stream d (some p) ("<_io.BufferedReader name='" ++ p ++ "'>"))
      | none => .error .NotImplemented     -- an OSError: outside the error kinds of Py.PyErr, reported as NotImplemented
  | _ => .error .TypeError
/-- `hasattr(fileobj, "name")` / `fileobj.name` / `repr(fileobj)` -/
def hasName : FileArg → Bool
  | .stream _ (some _) _ => true
  | _ => false
def nameOf : FileArg → R String
  | .stream _ (some n) _ => .ok n
  | _ => .error .AttributeError
def reprOf : FileArg → String
  | .stream _ _ r => r
  | .path p => "'" ++ p ++ "'"
  | .none_ => "None"
/-- the bytes a stream hands to `_read_tzfile` (a str or None has no `read`) -/
def streamBytes : FileArg → R Bytes
  | .stream d _ _ => .ok d
  | _ => .error .AttributeError

/-! ### archives -/
inductive MKind
  | file (data : Bytes)
  | link (target : String) (sym : Bool)      -- hard link (`islnk`) or symbolic link (`issym`)
  | other
  deriving Repr

structure Member where
  name : String
  kind : MKind
  deriving Repr

def Member.isfile (m : Member) : Bool := match m.kind with | .file _ => true | _ => false
def Member.islnk (m : Member) : Bool := match m.kind with | .link _ s => !s | _ => false
def Member.issym (m : Member) : Bool := match m.kind with | .link _ s => s | _ => false
def Member.linkname (m : Member) : String := match m.kind with | .link t _ => t | _ => ""
/-- `tf.extractfile(member)`: the stream of a regular member (None for the others) -/
def extractfile (m : Member) : FileArg :=
  match m.kind with
  | .file d => .stream d (some m.name) "<ExFileObject>"
  | _ => .none_
/-- `tf.getmember(name)`: KeyError when absent (the last member of that name otherwise) -/
def getmember (tf : List Member) (name : String) : R Member :=
  match tf.reverse.find? (·.name == name) with
  | some m => .ok m
  | none => .error .KeyError

/-- `TarFile.open(fileobj=stream)`: the members of the archive the stream holds (None is not a stream) -/
def tarOpen : Option (List Member) → R (List Member)
  | some ms => .ok ms
  | none => .error .AttributeError
/-- `json.loads(text)`: the metadata is kept as its text (a JSON syntax error is outside the model) -/
def jsonLoads (b : Bytes) : Bytes := b

abbrev Dict := List (String × TzObj)
def dget (d : Dict) (k : String) : Option TzObj := (d.reverse.find? (·.1 == k)).map (·.2)
/-- `d[k]` -/
def dgetR (d : Dict) (k : String) : R TzObj :=
  match dget d k with
  | some v => .ok v
  | none => .error .KeyError
/-- `{key(x): val(x) for x in xs if cond(x)}` -/
def dictCompM {α} (xs : List α) (cond : α → Bool) (key : α → String) (val : α → R TzObj) : R Dict :=
  xs.foldlM (fun acc x => if cond x then (val x).map (fun v => acc ++ [(key x, v)]) else .ok acc) []

structure ZIF where
  zones : Dict
  metadata : Option Bytes
  deriving Repr

end LoadPy
