/-
  Model/BytesPy.lean — run-time support for code translated from Python by
  harness/translate_bytes.py ("BytesPy": the IntPy fragment plus `bytes` values, slices,
  heterogeneous `components` lists, `date`/`timedelta` arithmetic and one bounded loop).

  Every definition here is a NAMED PRIMITIVE of the translator with the documented Python meaning;
  they are trusted to the extent of the per-run differential validation (`isogen.*` ops against the
  implementation) and are listed in the evidence.  No Mathlib.
-/
import DateutilVerif.Base.Py
import DateutilVerif.Base.Calendar
import DateutilVerif.Base.Time
import DateutilVerif.Model.IsoTypes

namespace BytesPy
open Py

/-- a `bytes` value: one `Nat` per byte (same representation as the isoparser model) -/
abbrev Bytes := List Nat

/-- `len(x)` -/
def len {α} (s : List α) : Int := s.length

/-- Python's normalisation of a slice bound for a sequence of length `n` (step 1) -/
def norm (i : Int) (n : Nat) : Nat := if i < 0 then (i + n).toNat else min i.toNat n

/-- `x[a:b]` -/
def slice {α} (s : List α) (a b : Int) : List α :=
  (s.drop (norm a s.length)).take (norm b s.length - norm a s.length)

/-- `x[a:]` -/
def sliceFrom {α} (s : List α) (a : Int) : List α := s.drop (norm a s.length)

/-- `x in y` for bytes: `x` occurs as a contiguous sub-string of `y` -/
def isIn (x y : Bytes) : Bool := (List.range (y.length + 1)).any fun i => (y.drop i).take x.length == x

/-- `bytes.isdigit()` -/
def isdigit (f : Bytes) : Bool := !f.isEmpty && f.all fun b => decide (48 ≤ b ∧ b ≤ 57)

def isSpace (b : Nat) : Bool := b == 32 || (9 ≤ b && b ≤ 13)
def isDig (b : Nat) : Bool := decide (48 ≤ b ∧ b ≤ 57)

/-- digits with single underscores between digits (PEP 515), as `int()` accepts them -/
def digitsUnderscoreOK : Bytes → Bool
  | [] => false
  | [b] => isDig b
  | b :: c :: rest =>
    if isDig b then digitsUnderscoreOK (c :: rest)
    else if b == 95 then (isDig c && digitsUnderscoreOK (c :: rest)) else false

def dropWhileEnd (p : Nat → Bool) (l : Bytes) : Bytes := (l.reverse.dropWhile p).reverse

/-- an optional leading sign -/
def stripSign (t : Bytes) : Bool × Bytes :=
  match t with
  | 45 :: r => (true, r)
  | 43 :: r => (false, r)
  | r => (false, r)

/-- `int(x)` for a bytes value: optional surrounding ASCII whitespace, optional sign, decimal digits
    with single underscores between digits; `ValueError` otherwise -/
def pyInt (x : Bytes) : R Int :=
  let t := dropWhileEnd isSpace (x.dropWhile isSpace)
  let (neg, t) := stripSign t
  if t.head?.map isDig = some true ∧ digitsUnderscoreOK t then
    let v : Nat := (t.filter isDig).foldl (fun acc b => acc * 10 + (b - 48)) 0
    .ok (if neg then -(v : Int) else v)
  else .error .ValueError

/-- `b ** e` for integers, `e ≥ 0` (a negative exponent would give a float: outside the fragment) -/
def ipow (b e : Int) : Int := b ^ e.toNat

/-- `int + bool` -/
def b2i (b : Bool) : Int := if b then 1 else 0

/-- `_FRACTION_REGEX.match(x)` for the pattern `b'[\\.,]([0-9]+)'`: `group()` and `group(1)` -/
def fractionMatch (x : Bytes) : Option (Bytes × Bytes) :=
  match x with
  | b :: rest =>
    if b = 46 ∨ b = 44 then
      let ds := rest.takeWhile isDig
      if ds = [] then none else some (b :: ds, ds)
    else none
  | [] => none

/-- `m.group()` / `m.group(1)` of a successful match -/
def mgroup (m : Option (Bytes × Bytes)) (i : Int) : Bytes :=
  match m with
  | some (g0, g1) => if i = 0 then g0 else g1
  | none => []

/-- an element of the parser's `components` lists -/
inductive Comp where
  | int (v : Int)
  | none
  | tz (o : IsoT.Off)
  deriving DecidableEq, Repr, Inhabited

/-- `l[i]` (reads are in range in the translated code; out of range gives the default) -/
def lget {α} [Inhabited α] (l : List α) (i : Int) : α :=
  let j := if i < 0 then i + l.length else i
  if j < 0 then default else l.getD j.toNat default

/-- `l[i] = v` (writes are in range in the translated code; out of range leaves the list unchanged) -/
def lset {α} (l : List α) (i : Int) (v : α) : List α :=
  let j := if i < 0 then i + l.length else i
  if j < 0 then l else l.set j.toNat v

/-! dates are ordinals (`date.toordinal()`), timedeltas are day counts -/

/-- `date(y, m, d)` -/
def date (y m d : Int) : R Int :=
  if Cal.validDate y m d then .ok (Cal.toOrdinal y m d) else .error .ValueError

/-- `date + timedelta(days=n)` -/
def dateAdd (o n : Int) : R Int :=
  if o + n < 1 ∨ o + n > Cal.maxOrdinal then .error .OverflowError else .ok (o + n)

/-- `d.isocalendar()[i]` -/
def isocal (o : Int) (i : Int) : Int :=
  let ymd := Cal.fromOrdinal o
  let c := Cal.isoCalendar ymd.1 ymd.2.1 ymd.2.2
  if i = 0 then c.1 else if i = 1 then c.2.1 else c.2.2

def year (o : Int) : Int := (Cal.fromOrdinal o).1
def month (o : Int) : Int := (Cal.fromOrdinal o).2.1
def day (o : Int) : Int := (Cal.fromOrdinal o).2.2

/-- `calendar.isleap(y)` -/
def isleap (y : Int) : Bool := Cal.isLeap y

/-- `datetime(*components)`: 3 ints, or 7 ints followed by `None` / a tzinfo -/
def datetimeStar (c : List Comp) : R IsoT.Value :=
  let mk (y m d hh mm ss us : Int) (tz : Option IsoT.Off) : R IsoT.Value :=
    let t : DT := { y, m, d, hh, mm, ss, us }
    if t.valid then .ok ⟨t, tz⟩ else .error .ValueError
  match c with
  | [.int y, .int m, .int d] => mk y m d 0 0 0 0 none
  | [.int y, .int m, .int d, .int hh, .int mm, .int ss, .int us, .none] => mk y m d hh mm ss us none
  | [.int y, .int m, .int d, .int hh, .int mm, .int ss, .int us, .tz o] => mk y m d hh mm ss us (some o)
  | _ => .error .TypeError

/-- `date(*components)`: three ints -/
def dateStar (c : List Comp) : R Int :=
  match c with
  | [.int y, .int m, .int d] => date y m d
  | _ => .error .TypeError

/-- `time(*components)`: four ints followed by `None` / a tzinfo; the value is the validated component list -/
def timeStar (c : List Comp) : R (List Comp) :=
  let ok (h m s us : Int) : Bool :=
    decide (0 ≤ h ∧ h ≤ 23 ∧ 0 ≤ m ∧ m ≤ 59 ∧ 0 ≤ s ∧ s ≤ 59 ∧ 0 ≤ us ∧ us ≤ 999999)
  match c with
  | [.int h, .int m, .int s, .int us, .none] => if ok h m s us then .ok c else .error .ValueError
  | [.int h, .int m, .int s, .int us, .tz _] => if ok h m s us then .ok c else .error .ValueError
  | _ => .error .TypeError

/-- `datetime + timedelta(days=n)` -/
def dtAddDays (v : IsoT.Value) (n : Int) : R IsoT.Value :=
  match v.dt.addDays n with
  | .ok t => .ok ⟨t, v.off⟩
  | .error e => .error e

/-- what a `@_takes_ascii` method may be handed: text (its code points), bytes, or a stream of which `rest` is
    still unread -/
inductive PyVal where
  | str (codepoints : List Nat)
  | bytes (bs : Bytes)
  | streamStr (rest : List Nat)
  | streamBytes (rest : Bytes)
  deriving DecidableEq, Repr

/-- `getattr(x, 'read', lambda: x)()`: a stream delivers EVERYTHING from its current position to its end (the
    trusted meaning of `read()` with no argument); anything else is returned unchanged -/
def readAll : PyVal → PyVal
  | .streamStr r => .str r
  | .streamBytes r => .bytes r
  | v => v

/-- `isinstance(x, six.text_type)` -/
def isText : PyVal → Bool
  | .str _ => true
  | _ => false

/-- `x.encode('ascii')` for text: `UnicodeEncodeError` on a code point ≥ 128 -/
def encodeAscii : PyVal → R PyVal
  | .str cps => if cps.any (fun c => decide (c ≥ 128)) then .error .UnicodeError else .ok (.bytes cps)
  | v => .ok v

/-- the wrapped method is modelled on bytes: what `_takes_ascii` passes on is a bytes object -/
def asBytes : PyVal → R Bytes
  | .bytes b => .ok b
  | _ => .error .TypeError

/-- `try: r except K: h` -/
def tryExcept {α} (r : R α) (k : PyErr) (h : R α) : R α :=
  match r with
  | .error e => if e = k then h else .error e
  | .ok v => .ok v

end BytesPy
