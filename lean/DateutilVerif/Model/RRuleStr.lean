/-
  Model/RRuleStr.lean — `rrule.__str__` and `rrulestr` (`_rrulestr._parse_rfc`,
  `_parse_rfc_rrule`, the `_handle_*` methods), at the level of the keyword arguments that
  are handed to `rrule(...)` / `rruleset`.

  * Text is ASCII `List Char`; `str.upper/split/splitlines/rstrip/strip/int` are modelled for
    ASCII (helpers shared with `Model/ICal.lean`).
  * Date values (`DTSTART`, `UNTIL`, `RDATE`, `EXDATE`) go through `parser.parse` in the real code
    (C02's domain).  Here only the compact form that `__str__` itself emits,
    `YYYYMMDDTHHMMSS[Z]`, is modelled (`parseCompact`); any other spelling is reported as
    `.other` and is tied by the oracle on the implementation, not by this model.
  * `rrule(**kwargs)` itself is C01's `construct`; this model stops at the kwargs.
  No Mathlib import.
-/
import DateutilVerif.Model.ICal
import DateutilVerif.Model.StrPy

namespace RRuleStr
open ICal (isSpace upper splitOnChar pyInt rstrip strip isDigit splitLines)

/-! ### decimal printing (Python `str(int)`) -/

def digitChar (d : Nat) : Char := Char.ofNat (48 + d)

def showNat (n : Nat) : List Char :=
  if h : n < 10 then [digitChar n] else showNat (n / 10) ++ [digitChar (n % 10)]
termination_by n
decreasing_by omega

def showInt (i : Int) : List Char :=
  if i < 0 then '-' :: showNat i.natAbs else showNat i.natAbs

/-- `'%+d'`-style: explicit sign -/
def showIntSigned (i : Int) : List Char :=
  if i < 0 then '-' :: showNat i.natAbs else '+' :: showNat i.natAbs

/-- zero-padded to width `w` (`%0wd` for non-negative values) -/
def pad (w : Nat) (n : Nat) : List Char :=
  let s := showNat n
  List.replicate (w - s.length) '0' ++ s

def intercalate (sep : List Char) : List (List Char) → List Char
  | [] => []
  | [x] => x
  | x :: xs => x ++ sep ++ intercalate sep xs

/-! ### keyword arguments -/

abbrev WDay := Int × Option Int        -- weekday 0..6, n

/-- the options every `parser.parse(...)` call of rrulestr is given: `ignoretz=`, and whether `tzinfos=` is the object the
    caller passed (`true`) or `None` -/
structure ParseOpts where
  ignoretz : Bool := false
  tzinfos : Bool := false
  deriving DecidableEq, Repr, Inhabited

structure RArgs where
  freq : Option Int := none
  interval : Option Int := none
  count : Option Int := none
  wkst : Option Int := none
  untilV : Option (List Char × ParseOpts) := none   -- upper-cased text handed to parser.parse, and the options it is parsed with
  bysetpos : Option (List Int) := none
  bymonth : Option (List Int) := none
  bymonthday : Option (List Int) := none
  byyearday : Option (List Int) := none
  byeaster : Option (List Int) := none
  byweekno : Option (List Int) := none
  byweekday : Option (List WDay) := none
  byhour : Option (List Int) := none
  byminute : Option (List Int) := none
  bysecond : Option (List Int) := none
  deriving DecidableEq, Repr, Inhabited

def lit (x : String) : List Char := x.toList

def freqMap : List (List Char × Int) :=
  [(lit "YEARLY", 0), (lit "MONTHLY", 1), (lit "WEEKLY", 2), (lit "DAILY", 3),
   (lit "HOURLY", 4), (lit "MINUTELY", 5), (lit "SECONDLY", 6)]

def weekdayMap : List (List Char × Int) :=
  [(lit "MO", 0), (lit "TU", 1), (lit "WE", 2), (lit "TH", 3), (lit "FR", 4), (lit "SA", 5), (lit "SU", 6)]

def lookup (m : List (List Char × Int)) (k : List Char) : Option Int := (m.find? (·.1 == k)).map (·.2)

def int! (s : List Char) : Py.R Int := match pyInt s with | some v => .ok v | none => .error .ValueError

def intList (value : List Char) : Py.R (List Int) := (splitOnChar ',' value).mapM int!

def isSignDigit (c : Char) : Bool := c == '+' || c == '-' || isDigit c

/-- `weekdays[k](n)` (`_common.weekday.__call__` / `__init__`, hand model): the weekday `k` with ordinal `n`; `n == 0` is a ValueError -/
def weekdayCall (k : Option Int) (n : Option Int) : Py.R WDay :=
  match k with
  | none => .error .KeyError                       -- `self._weekday_map[w]`
  | some k => if n == some 0 then .error .ValueError else .ok (k, n)

/-- one BYDAY item: `TH(+1)` or `+1TH` / `TH`; errors are KeyError/ValueError (both → ValueError upstream) -/
def parseWDay (wday : List Char) : Py.R WDay :=
  if wday.contains '(' then
    let splt := splitOnChar '(' wday
    let w := splt.headD []
    let inner := (splt.getD 1 []).dropLast            -- splt[1][:-1]
    match pyInt inner, lookup weekdayMap w with
    | some n, some k => if n == 0 then .error .ValueError else .ok (k, some n)    -- rrule.weekday rejects n == 0
    | none, _ => .error .ValueError
    | _, none => .error .KeyError
  else if wday.isEmpty then .error .ValueError
  else
    -- for i in range(len(wday)): if wday[i] not in '+-0123456789': break
    let pre := wday.takeWhile isSignDigit
    let i := if pre.length == wday.length then wday.length - 1 else pre.length
    let nTxt := wday.take i
    let w := wday.drop i
    match lookup weekdayMap w with
    | none => if nTxt.isEmpty then .error .KeyError else (match pyInt nTxt with | none => .error .ValueError | some _ => .error .KeyError)
    | some k =>
      if nTxt.isEmpty then .ok (k, none)
      else match pyInt nTxt with
        | some n => if n == 0 then .error .ValueError else .ok (k, some n)
        | none => .error .ValueError

/-- the fifteen keyword arguments a part can set -/
inductive Field where
  | freq | interval | count | wkst | untilV | bysetpos | bymonth | bymonthday | byyearday | byeaster
  | byweekno | byweekday | byhour | byminute | bysecond
  deriving DecidableEq, Repr, Inhabited

/-- one assignment `rrkwargs[key] = v` -/
inductive Update where
  | freq (v : Int) | interval (v : Int) | count (v : Int) | wkst (v : Int) | untilV (t : List Char) (po : ParseOpts)
  | bysetpos (l : List Int) | bymonth (l : List Int) | bymonthday (l : List Int) | byyearday (l : List Int)
  | byeaster (l : List Int) | byweekno (l : List Int) | byweekday (l : List WDay) | byhour (l : List Int)
  | byminute (l : List Int) | bysecond (l : List Int)
  deriving DecidableEq, Repr, Inhabited

def Update.field : Update → Field
  | .freq _ => .freq | .interval _ => .interval | .count _ => .count | .wkst _ => .wkst | .untilV _ _ => .untilV
  | .bysetpos _ => .bysetpos | .bymonth _ => .bymonth | .bymonthday _ => .bymonthday | .byyearday _ => .byyearday
  | .byeaster _ => .byeaster | .byweekno _ => .byweekno | .byweekday _ => .byweekday | .byhour _ => .byhour
  | .byminute _ => .byminute | .bysecond _ => .bysecond

/-- `rrkwargs[key] = v` (a later assignment to the same key overwrites) -/
def Update.apply (u : Update) (a : RArgs) : RArgs :=
  match u with
  | .freq v => { a with freq := some v }
  | .interval v => { a with interval := some v }
  | .count v => { a with count := some v }
  | .wkst v => { a with wkst := some v }
  | .untilV t po => { a with untilV := some (t, po) }
  | .bysetpos l => { a with bysetpos := some l }
  | .bymonth l => { a with bymonth := some l }
  | .bymonthday l => { a with bymonthday := some l }
  | .byyearday l => { a with byyearday := some l }
  | .byeaster l => { a with byeaster := some l }
  | .byweekno l => { a with byweekno := some l }
  | .byweekday l => { a with byweekday := some l }
  | .byhour l => { a with byhour := some l }
  | .byminute l => { a with byminute := some l }
  | .bysecond l => { a with bysecond := some l }

/-- dispatch of `getattr(self, "_handle_" + name)`: which assignment the handler makes;
    `.error .AttributeError` = unknown name -/
def handleU (po : ParseOpts) (name value : List Char) : Py.R Update :=
  if name == lit "INTERVAL" then do let v ← int! value; .ok (.interval v)
  else if name == lit "COUNT" then do let v ← int! value; .ok (.count v)
  else if name == lit "BYSETPOS" then do let l ← intList value; .ok (.bysetpos l)
  else if name == lit "BYMONTH" then do let l ← intList value; .ok (.bymonth l)
  else if name == lit "BYMONTHDAY" then do let l ← intList value; .ok (.bymonthday l)
  else if name == lit "BYYEARDAY" then do let l ← intList value; .ok (.byyearday l)
  else if name == lit "BYEASTER" then do let l ← intList value; .ok (.byeaster l)
  else if name == lit "BYWEEKNO" then do let l ← intList value; .ok (.byweekno l)
  else if name == lit "BYHOUR" then do let l ← intList value; .ok (.byhour l)
  else if name == lit "BYMINUTE" then do let l ← intList value; .ok (.byminute l)
  else if name == lit "BYSECOND" then do let l ← intList value; .ok (.bysecond l)
  else if name == lit "FREQ" then
    match lookup freqMap value with
    | some f => .ok (.freq f)
    | none => .error .KeyError
  else if name == lit "UNTIL" then .ok (.untilV value po)     -- parser.parse(value, ignoretz=kwargs.get("ignoretz"), tzinfos=kwargs.get("tzinfos"))
  else if name == lit "WKST" then
    match lookup weekdayMap value with
    | some k => .ok (.wkst k)
    | none => .error .KeyError
  else if name == lit "BYWEEKDAY" || name == lit "BYDAY" then do
    let l ← (splitOnChar ',' value).mapM parseWDay
    .ok (.byweekday l)
  else .error .AttributeError

def handle (po : ParseOpts) (a : RArgs) (name value : List Char) : Py.R RArgs :=
  match handleU po name value with
  | .ok u => .ok (u.apply a)
  | .error e => .error e

/-- the loop body of `_parse_rfc_rrule`: `name, value = pair.split('=')`, upper, dispatch with the
    exception mapping (AttributeError → ValueError, KeyError/ValueError → ValueError) -/
def stepPair (po : ParseOpts) (a : RArgs) (pair : List Char) : Py.R RArgs :=
  match splitOnChar '=' pair with
  | [name, value] =>
    match handle po a (upper name) (upper value) with
    | .ok a' => .ok a'
    | .error _ => .error .ValueError
  | _ => .error .ValueError               -- unpacking error

/-- the head of `_parse_rfc_rrule`: an optional `RRULE:` prefix (`name, value = line.split(':')`) -/
def lineValue (line : List Char) : Py.R (List Char) :=
  if line.contains ':' then
    match splitOnChar ':' line with
    | [name, value] => if name != lit "RRULE" then .error .ValueError else .ok value
    | _ => .error .ValueError            -- `name, value = line.split(':')` with more than one ':'
  else .ok line

/-- `_parse_rfc_rrule(line)` up to the `rrule(**rrkwargs)` call -/
def parseRRuleLine (po : ParseOpts) (line : List Char) : Py.R RArgs := do
  let value ← lineValue line
  (splitOnChar ';' value).foldlM (stepPair po) {}

/-- `if "freq" not in rrkwargs: raise ValueError` (since the C13 fix; it used to reach `rrule()` and leak TypeError) -/
def needFreq (a : RArgs) : Py.R RArgs := if a.freq.isNone then .error .ValueError else .ok a

/-! ### date values: only the compact form `__str__` emits -/

inductive DateVal where
  | compact (y m d hh mm ss : Nat) (z : Bool)
  | other (txt : List Char)
  deriving DecidableEq, Repr, Inhabited

def nat? (s : List Char) : Option Nat := if !s.isEmpty && s.all isDigit then some (s.foldl (fun a c => a * 10 + (c.toNat - 48)) 0) else none

/-- `YYYYMMDDTHHMMSS[Z]` -/
def parseCompact (s : List Char) : DateVal :=
  let (body, z) := if s.getLast? == some 'Z' then (s.dropLast, true) else (s, false)
  if body.length == 15 && body.getD 8 ' ' == 'T' then
    match nat? (body.take 4), nat? ((body.drop 4).take 2), nat? ((body.drop 6).take 2),
          nat? ((body.drop 9).take 2), nat? ((body.drop 11).take 2), nat? ((body.drop 13).take 2) with
    | some y, some m, some d, some hh, some mm, some ss => .compact y m d hh mm ss z
    | _, _, _, _, _, _ => .other s
  else .other s

/-! ### `_parse_rfc` -/

structure Opts where
  unfold : Bool := false
  forceset : Bool := false
  compatible : Bool := false
  ignoretz : Bool := false
  tzinfos : Bool := false          -- a `tzinfos=` object was passed
  cache : Bool := false
  deriving Repr, Inhabited

/-- the `ignoretz=` / `tzinfos=` parameters of `_parse_rfc`, as they are handed on -/
def Opts.po (o : Opts) : ParseOpts := { ignoretz := o.ignoretz, tzinfos := o.tzinfos }

/-- a date value of a DTSTART / EXDATE line: its text, the line's parameters, the options `parser.parse` gets -/
abbrev DateV := List Char × List (List Char) × ParseOpts

inductive Parsed where
  /-- `rrule(dtstart=…, cache=…, **rrkwargs)` -/
  | rule (a : RArgs) (dtstart : Option DateV) (cache : Bool)
  /-- `rruleset(cache=…)` and its members (member rules are built without `cache=`) -/
  | set (rrules exrules : List RArgs) (rdates : List (List Char × ParseOpts)) (exdates : List DateV)
        (dtstart : Option DateV) (rdateDtstart : Bool) (cache : Bool)
  deriving DecidableEq, Repr, Inhabited

/-- `s.split()` — runs of non-whitespace -/
def splitWs (s : List Char) : List (List Char) :=
  let rec go : List Char → List Char → List (List Char) → List (List Char)
    | [], cur, acc => (if cur.isEmpty then acc else cur.reverse :: acc).reverse
    | c :: cs, cur, acc => if isSpace c then go cs [] (if cur.isEmpty then acc else cur.reverse :: acc) else go cs (c :: cur) acc
  go s [] []

def startsWith (s p : List Char) : Bool := s.take p.length == p

structure Acc where
  rrulevals : List (List Char) := []
  rdatevals : List (List Char) := []
  exrulevals : List (List Char) := []
  exdatevals : List DateV := []
  dtstart : Option DateV := none
  deriving Repr, Inhabited

def dateParmsOk (parms : List (List Char)) : Py.R Unit :=
  -- TZID=… parms are resolved by option plumbing (not modelled); VALUE may appear once
  let rest := parms.filter (fun p => !startsWith p (lit "TZID="))
  if rest.any (fun p => !(p == lit "VALUE=DATE-TIME" || p == lit "VALUE=DATE")) then .error .ValueError
  else if rest.length > 1 then .error .ValueError
  else .ok ()

/-- the dispatch loop body; `po` = the `ignoretz, tzinfos` handed to `_parse_date_value` -/
def stepLine (po : ParseOpts) (acc : Acc) (line : List Char) : Py.R Acc :=
  if line.isEmpty then .ok acc else
  let (name0, value) : List Char × List Char :=
    if !line.contains ':' then (lit "RRULE", line)
    else match ICal.splitColon1 line with
      | some (n, v) => (n, v)
      | none => (lit "RRULE", line)
  let parms0 := splitOnChar ';' name0
  let name := parms0.headD []
  let parms := parms0.drop 1
  if name == lit "RRULE" then
    if !parms.isEmpty then .error .ValueError else .ok { acc with rrulevals := acc.rrulevals ++ [value] }
  else if name == lit "RDATE" then
    if parms.any (· != lit "VALUE=DATE-TIME") then .error .ValueError else .ok { acc with rdatevals := acc.rdatevals ++ [value] }
  else if name == lit "EXRULE" then
    if !parms.isEmpty then .error .ValueError else .ok { acc with exrulevals := acc.exrulevals ++ [value] }
  else if name == lit "EXDATE" then do
    let _ ← dateParmsOk parms
    .ok { acc with exdatevals := acc.exdatevals ++ (splitOnChar ',' value).map (fun d => (d, parms, po)) }
  else if name == lit "DTSTART" then do
    let _ ← dateParmsOk parms
    if (splitOnChar ',' value).length != 1 then .error .ValueError
    else .ok { acc with dtstart := some (value, parms, po) }
  else .error .ValueError

def unfoldLines (lines : List (List Char)) : List (List Char) := ICal.unfold lines

/-- the `lines` of `_parse_rfc`: unfolded `splitlines()` or plain `split()` -/
def linesOf (s : List Char) (unfold : Bool) : List (List Char) :=
  if unfold then unfoldLines (splitLines s) else splitWs s

/-- `_parse_rfc_rrule(value, dtstart=…, ignoretz=…, tzinfos=…)` as far as the model goes: the keyword arguments, FREQ required -/
def ruleOf (po : ParseOpts) (v : List Char) : Py.R RArgs := do let a ← parseRRuleLine po v; needFreq a

/-- `_parse_rfc_rrule(v, dtstart=dtstart, cache=cache, ignoretz=…, tzinfos=…)` -/
def buildRule (po : ParseOpts) (v : List Char) (dtstart : Option DateV) (cache : Bool) : Py.R Parsed := do
  let a ← ruleOf po v
  .ok (.rule a dtstart cache)

/-- the `rruleset(cache=cache)` branch: every RRULE / EXRULE value parsed in order (with the options, without `cache`),
    RDATE values split at `,` and parsed with the options -/
def buildSet (po : ParseOpts) (acc : Acc) (compatible dtstartKw cache : Bool) : Py.R Parsed := do
  let rr ← acc.rrulevals.mapM (ruleOf po)
  let ex ← acc.exrulevals.mapM (ruleOf po)
  let rdates := ((acc.rdatevals.map (splitOnChar ',')).flatten).map (fun d => (d, po))
  .ok (.set rr ex rdates acc.exdatevals acc.dtstart (compatible && (acc.dtstart.isSome || dtstartKw)) cache)

/-- the condition of the `rruleset` branch -/
def wantsSet (forceset : Bool) (acc : Acc) : Bool :=
  forceset || acc.rrulevals.length > 1 || !acc.rdatevals.isEmpty || !acc.exrulevals.isEmpty || !acc.exdatevals.isEmpty

/-- `_parse_rfc` after upper-casing and line splitting (`s` is the upper-cased text); every call site hands on
    `po` (= `ignoretz, tzinfos`) and `cache` itself, as in the code -/
def parseLines (po : ParseOpts) (cache : Bool) (s : List Char) (lines : List (List Char))
    (forceset compatible dtstartKw : Bool) : Py.R Parsed :=
  if !forceset && lines.length == 1 && (!s.contains ':' || startsWith s (lit "RRULE:")) then
    buildRule po (lines.headD []) none cache                       -- the single-line fast path
  else do
    let acc ← lines.foldlM (stepLine po) {}
    if wantsSet forceset acc then buildSet po acc compatible dtstartKw cache
    else
      match acc.rrulevals with
      | v :: _ => buildRule po v acc.dtstart cache                 -- several lines, one rule
      | [] => .error .ValueError                -- `if not rrulevals: raise ValueError` (since the C13 fix)

/-- `_rrulestr._parse_rfc(s, unfold, forceset, compatible, ignoretz, tzinfos, cache)` up to the construction of the objects;
    `dtstartKw` = whether a `dtstart=` keyword was passed (it only matters for `compatible`) -/
def parseRfc (s0 : List Char) (o : Opts) (dtstartKw : Bool := false) : Py.R Parsed :=
  let s := upper s0
  if (strip s).isEmpty then .error .ValueError
  else parseLines o.po o.cache s (linesOf s (o.unfold || o.compatible)) (o.forceset || o.compatible) o.compatible dtstartKw

/-! ### TZID resolution (`TZID_NAMES` in `_parse_rfc`, the `TZID=` arm of `_parse_date_value`)

`parseRfc` keeps the parameters of DTSTART / EXDATE lines; which zone NAME is handed to the `tzids` lookup for such a line is
a function of the ORIGINAL-case text (the name table), the `unfold` flag and the line's (upper-cased) parameters. -/

/-- the pattern `r'\r?\n '` -/
def foldPattern : List StrPy.ReItem := [.opt '\r', .chr '\n', .chr ' ']

/-- `re.sub(r'\r?\n ', '', s)`: what `_parse_rfc` does to the text before collecting TZID names when `unfold` is set
    (`StrPy.subDelete`: the deterministic matcher of Model/StrPy.lean; `stripFolds_cons*` in Proofs/RRuleStrGen.lean are its
    three defining equations) -/
def stripFolds (s : List Char) : List Char := StrPy.subDelete false foldPattern s

/-- the pattern `'TZID=(?P<name>[^:;]+)[:;]'` -/
def tzidPattern : List StrPy.ReItem :=
  [.chr 'T', .chr 'Z', .chr 'I', .chr 'D', .chr '=', .plusNot [':', ';'], .oneOf [':', ';']]

/-- `re.findall('TZID=(?P<name>[^:;]+)[:;]', text, re.IGNORECASE)` (ASCII case folding): left to right, non-overlapping -/
def findTzids (s : List Char) : List (List Char) := StrPy.findall true tzidPattern s

/-- `TZID_NAMES`: upper-cased name → name as written (a later occurrence overwrites an earlier one) -/
def tzidTable (s0 : List Char) (unfold : Bool) : List (List Char × List Char) :=
  (findTzids (if unfold then stripFolds s0 else s0)).map (fun n => (upper n, n))

def tzidLookup (t : List (List Char × List Char)) (k : List Char) : Option (List Char) :=
  (t.reverse.find? (·.1 == k)).map (·.2)

/-- `parm.split('TZID=')[-1]` -/
def afterLastTzid (p : List Char) : List Char := StrPy.afterLast (lit "TZID=") p

/-- the loop over `parms` in `_parse_date_value`: the name handed to the `tzids` lookup (`none`: no TZID parameter, or
    `rule_tzids[...]` raised KeyError for every one of them and the parameter was skipped — silently no zone) -/
def resolveTzid (t : List (List Char × List Char)) (parms : List (List Char)) : Option (List Char) :=
  parms.foldl (fun cur p =>
    if startsWith p (lit "TZID=") then
      match tzidLookup t (afterLastTzid p) with
      | some n => some n
      | none => cur
    else cur) none

/-- the zone name looked up for a DTSTART / EXDATE line with parameters `parms` in the text `s0` -/
def tzidOf (s0 : List Char) (o : Opts) (parms : List (List Char)) : Option (List Char) :=
  resolveTzid (tzidTable s0 (o.unfold || o.compatible)) parms

/-! ### `rrule.__str__` -/

structure StrIn where
  dtstart : Option (Nat × Nat × Nat × Nat × Nat × Nat)     -- always present in practice
  freq : Nat
  interval : Int
  wkst : Int
  count : Option Int
  untilV : Option (Nat × Nat × Nat × Nat × Nat × Nat)
  orig : RArgs                                             -- `_original_rule` (only the BY-parts)
  fwd : Int := 0                                           -- `calendar.firstweekday()` at the time of the `str()` call
  deriving Repr, Inhabited

def FREQNAMES : List (List Char) :=
  [lit "YEARLY", lit "MONTHLY", lit "WEEKLY", lit "DAILY", lit "HOURLY", lit "MINUTELY", lit "SECONDLY"]

def wdName (k : Int) : List Char := ((weekdayMap.find? (·.2 == k)).map (·.1)).getD (lit "??")

def showDT (t : Nat × Nat × Nat × Nat × Nat × Nat) : List Char :=
  let (y, m, d, hh, mm, ss) := t
  pad 4 y ++ pad 2 m ++ pad 2 d ++ ['T'] ++ pad 2 hh ++ pad 2 mm ++ pad 2 ss

/-- a field of the `(year, month, day, hour, minute, second)` of a datetime, by position -/
def sixGet (t : Nat × Nat × Nat × Nat × Nat × Nat) : Nat → Nat
  | 0 => t.1 | 1 => t.2.1 | 2 => t.2.2.1 | 3 => t.2.2.2.1 | 4 => t.2.2.2.2.1 | _ => t.2.2.2.2.2

/-- `_common.weekday.__repr__`: `("MO", …, "SU")[self.weekday]`, followed by `(%+d)` when `n` is truthy (hand model; used by the
    source translation of `rrule.__str__`, `Gen.rruleStr`) -/
def weekdayRepr (w : WDay) : List Char :=
  wdName w.1 ++ (match w.2 with | some n => if n != 0 then '(' :: showIntSigned n ++ [')'] else [] | none => [])

/-- `repr(weekday)`: `MO` or `MO(+1)`; in `__str__`: `+1MO` when n is truthy -/
def showWDayStr (w : WDay) : List Char :=
  match w.2 with
  | some n => if n != 0 then showIntSigned n ++ wdName w.1 else wdName w.1
  | none => wdName w.1

def partOf (name : String) (v : Option (List Int)) : List (List Char) :=
  match v with
  | some l => if l.isEmpty then [] else [lit name ++ ['='] ++ intercalate [','] (l.map showInt)]
  | none => []

def byDayPart (v : Option (List WDay)) : List (List Char) :=
  match v with
  | some l => if l.isEmpty then [] else [lit "BYDAY=" ++ intercalate [','] (l.map showWDayStr)]
  | none => []

/-- the `parts` list of `__str__` -/
def partsOf (x : StrIn) : List (List Char) :=
  [lit "FREQ=" ++ FREQNAMES.getD x.freq []] ++
  (if x.interval != 1 then [lit "INTERVAL=" ++ showInt x.interval] else []) ++
  (if x.wkst != 0 || x.fwd != 0 then [lit "WKST=" ++ wdName x.wkst] else []) ++   -- `if self._wkst or calendar.firstweekday():`
  (match x.count with | some c => [lit "COUNT=" ++ showInt c] | none => []) ++
  (match x.untilV with | some t => [lit "UNTIL=" ++ showDT t] | none => []) ++
  partOf "BYSETPOS" x.orig.bysetpos ++ partOf "BYMONTH" x.orig.bymonth ++
  partOf "BYMONTHDAY" x.orig.bymonthday ++ partOf "BYYEARDAY" x.orig.byyearday ++
  partOf "BYWEEKNO" x.orig.byweekno ++
  byDayPart x.orig.byweekday ++
  partOf "BYHOUR" x.orig.byhour ++ partOf "BYMINUTE" x.orig.byminute ++
  partOf "BYSECOND" x.orig.bysecond ++ partOf "BYEASTER" x.orig.byeaster

/-- `'RRULE:' + ';'.join(parts)` -/
def rruleLineOf (x : StrIn) : List Char := lit "RRULE:" ++ intercalate [';'] (partsOf x)

def dtstartLines (x : StrIn) : List (List Char) :=
  match x.dtstart with
  | some t => [lit "DTSTART:" ++ showDT t]
  | none => []

def toStr (x : StrIn) : List Char := intercalate ['\n'] (dtstartLines x ++ [rruleLineOf x])

end RRuleStr
