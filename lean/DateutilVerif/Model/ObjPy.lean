/-
  Model/ObjPy.lean — run-time support for code translated by harness/translate_obj.py ("ObjPy": the DtPy
  fragment plus ASCII strings, lists mutated in place, `for` loops, keyword dictionaries for
  `relativedelta(**kwargs)` and objects under construction) from
    tz/tz.py  `tzical._parse_offset`, `_tzicalvtz._find_comp/_find_compdt/utcoffset/dst`,
              `tzstr._delta/__init__`, `tzrange.__init__/transitions/__eq__`.

  Every definition is a NAMED PRIMITIVE of the translator, trusted with the documented Python meaning and
  exercised on every run by the `tzgen.ical.*` / `tzgen.str.*` differential validation.

  * strings of the iCalendar code are `List Char` (ASCII, as in Model/ICal.lean); `str.strip()` and `int(str)`
    are the ASCII models `ICal.strip` / `ICal.pyInt`;
  * a VTIMEZONE component object is the record `ICal.ZComp`; its `rrule` is its sorted onset list and
    `rrule.before(dt, inc=True)` is the last onset ≤ dt (the recurrence itself is C13 ∘ C01);
  * `with self._cache_lock:` is transparent (single thread);
  * `relativedelta(**kwargs)` is the constructor restricted to the keywords `_delta`/`tzrange` use, producing the
    `TzStr.Delta` record (C16's domain: `_fix` only redistributes the duration);
  * `datetime(year, 1, 1) + relativedelta` is `TzStr.applyDelta` (C03's domain);
  * `parser._parsetz(s)` is `TzStr.parse` (proved against the grammar in Proofs/TzStrParse*.lean).
  No Mathlib.
-/
import DateutilVerif.Model.DtPy
import DateutilVerif.Model.ICal
import DateutilVerif.Model.TzRange

namespace ObjPy
open Py DtPy

/-- `try: r except K: h` -/
def tryExcept {α} (r : R α) (k : PyErr) (h : R α) : R α :=
  match r with
  | .error e => if e = k then h else .error e
  | .ok v => .ok v

/-! ### ASCII strings (`List Char`) -/

/-- `s[i]` on a string: the one-character string, IndexError outside -/
def sget (s : List Char) (i : Int) : R (List Char) :=
  match lgetR s i with
  | .ok c => .ok [c]
  | .error e => .error e

/-- `int(s)`: ValueError unless an (ASCII) integer literal -/
def pyInt (s : List Char) : R Int :=
  match ICal.pyInt s with
  | some v => .ok v
  | none => .error .ValueError

/-! ### VTIMEZONE components -/

/-- `comp.rrule.before(dt, inc=True)`: the last onset ≤ dt, as a naive datetime; `None` if there is none -/
def rruleBefore (onsets : List Int) (d : Dt) : Option Dt :=
  (ICal.lastLE onsets (d.us / M)).map fun o => { us := o * M, fold := false, attached := false }

/-- operand of `<` that may be `None`: TypeError -/
def cmpDt (o : Option Dt) : R Dt :=
  match o with
  | some d => .ok d
  | none => .error .TypeError

/-- `l.index((dt, fold))` on the cache key list: naive datetimes compare by their time only; ValueError if absent -/
def index (l : List (Dt × Int)) (x : Dt × Int) : R Int :=
  match l.findIdx? (fun e => e.1.us == x.1.us && e.2 == x.2) with
  | some i => .ok (i : Int)
  | none => .error .ValueError

/-- `l.pop()` -/
def pop {α} (l : List α) : R (List α) := if l.isEmpty then .error .IndexError else .ok l.dropLast
/-- `l.pop(0)` -/
def pop0 {α} (l : List α) : R (List α) := if l.isEmpty then .error .IndexError else .ok (l.drop 1)

/-! ### relativedelta keyword dictionaries -/

/-- `kwargs` of `_delta`: one slot per keyword; outer `none` = key absent, inner `none` = the value `None` -/
structure Kw where
  month : Option (Option Int) := none
  day : Option (Option Int) := none
  weekday : Option (Option Int × Option Int) := none      -- relativedelta.weekday(wd, n)
  yearday : Option (Option Int) := none
  nlyearday : Option (Option Int) := none
  seconds : Option (Option Int) := none
  hours : Option (Option Int) := none
  deriving DecidableEq, Repr, Inhabited

/-- `kwargs[k]` read for `-=`: KeyError if absent, TypeError if `None` -/
def kwGetInt (o : Option (Option Int)) : R Int :=
  match o with
  | none => .error .KeyError
  | some none => .error .TypeError
  | some (some v) => .ok v

/-- an int operand that may be `None` (`x.week > 0`, `res.stdoffset *= -1`): TypeError -/
def needInt (o : Option Int) : R Int :=
  match o with
  | some v => .ok v
  | none => .error .TypeError

/-- truthiness of an int-or-None -/
def optIntTruthy (o : Option Int) : Bool :=
  match o with
  | some v => v != 0
  | none => false

/-- `relativedelta.relativedelta(**kwargs)` for the keywords above (a weekday object whose weekday is `None` is
    outside the model and read as no weekday; `n = None` is stored as 0, which `relativedelta` treats as 1) -/
def relativedelta (kw : Kw) : R TzStr.Delta :=
  let month := kw.month.join
  let day := kw.day.join
  let wd : Option (Int × Int) := match kw.weekday with
    | some (some a, n) => some (a, n.getD 0)
    | _ => none
  let secs := (kw.seconds.join.getD 0) + (kw.hours.join.getD 0) * 3600
  let nly := kw.nlyearday.join.getD 0
  let yd := kw.yearday.join.getD 0
  let yday := if nly != 0 then nly else yd
  let leap : Int := if nly == 0 && yd != 0 && yd > 59 && yd < 366 then -1 else 0
  if yday != 0 then
    match TzStr.ydayToMonthDay yday with
    | .ok (m, d) => .ok { month := some m, day := some d, weekday := wd, leapdays := leap, seconds := secs }
    | .error e => .error e
  else .ok { month := month, day := day, weekday := wd, leapdays := 0, seconds := secs }

/-- `td.seconds` / `td.days` of a timedelta (µs) -/
def tdFieldSeconds (td : Int) : Int := (td / M) % 86400
def tdFieldDays (td : Int) : Int := td / (86400 * M)

/-- `datetime.timedelta(seconds=n)`: OverflowError beyond ±999999999 days -/
def tdOfSeconds (n : Int) : R Int :=
  match TzStr.tdCheck n with
  | .ok _ => .ok (n * M)
  | .error e => .error e

/-! ### `tzrange` under construction -/

/-- the `start` / `end` argument of `tzrange.__init__`: `None`, `False` (what `tzstr` passes) or a relativedelta -/
inductive DArg where
  | none | false_ | delta (d : TzStr.Delta)
  deriving DecidableEq, Repr, Inhabited

def DArg.truthy : DArg → Bool
  | .delta d => d.truthy
  | _ => false

def DArg.toOpt : DArg → Option TzStr.Delta
  | .delta d => some d
  | _ => Option.none

def DArg.ofOpt : Option TzStr.Delta → DArg
  | some d => .delta d
  | Option.none => .none

/-- the object built by a translated constructor (the tuple of its fields, offsets as timedeltas in µs) read as the
    model's `Zone` record (`False` placeholders read as `None`) -/
def zoneOf (t : Option String × Option String × Int × Int × DArg × DArg × Bool) : TzStr.Zone :=
  { stdAbbr := t.1, dstAbbr := t.2.1, stdOff := t.2.2.1 / M, dstOff := t.2.2.2.1 / M,
    start := t.2.2.2.2.1.toOpt, «end» := t.2.2.2.2.2.1.toOpt, hasdst := t.2.2.2.2.2.2 }

/-- truthiness of an abbreviation (`None` and `""` are falsy) -/
def strTruthy (o : Option String) : Bool := TzStr.abbrTruthy o

/-- `datetime.datetime(year, 1, 1)`: ValueError outside 1..9999; kept as the year -/
def jan1 (year : Int) : R Int := if year < 1 ∨ year > 9999 then .error .ValueError else .ok year

/-- `datetime(year, 1, 1) + delta` in seconds since ordinal 0; TypeError if the delta is `None` -/
def jan1Add (year : Int) (d : Option TzStr.Delta) : R Int :=
  match d with
  | some d => TzStr.applyDelta year d
  | none => .error .TypeError

/-! ### `tzlocal`: the C library's view of the local zone -/

/-- `time.timezone`: seconds WEST of UTC of the local standard time -/
def timeTimezone (z : TZ.RangeZone) : Int := -z.stdOff

/-- `time.localtime(u).tm_isdst` for a (float) UTC timestamp `u`: the C library, which follows the zone's yearly rule
    (`TZ.localNaiveIsdst`, stated on the naive standard-time reading `u + stdoffset`; the fraction is floored) -/
def localtimeIsdst (z : TZ.RangeZone) (u : Ts) : Int := b2i (TZ.localNaiveIsdst z (u / M + z.stdOff))

end ObjPy
