/-
  Model/IsoTypes.lean — the value type shared by the isoparser model and the ISO-form spec:
  naive datetime fields plus an offset descriptor (`tz.UTC` | `tz.tzoffset(None, seconds)`).
-/
import DateutilVerif.Base.Time

namespace IsoT

/-- offset descriptor: `tz.UTC` or `tz.tzoffset(None, seconds)` -/
inductive Off where
  | utc
  | fixed (seconds : Int)
  deriving DecidableEq, Repr, Inhabited

/-- an (aware or naive) datetime: the seven fields and `none` = naive -/
structure Value where
  dt : DT
  off : Option Off
  deriving DecidableEq, Repr, Inhabited

def Off.wire : Option Off → String
  | none => "naive"
  | some .utc => "utc"
  | some (.fixed s) => s!"fixed {s}"

def Value.wire (v : Value) : String := v.dt.wire ++ " " ++ Off.wire v.off

end IsoT
