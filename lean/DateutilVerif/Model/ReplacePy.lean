/-
  Model/ReplacePy.lean — the statement shape of `rrule.replace` (rrule.py) as data, and its meaning.

      def replace(self, **kwargs):
          new_kwargs = {"interval": self._interval, "count": self._count, "dtstart": self._dtstart,
                        "freq": self._freq, "until": self._until, "wkst": self._wkst,
                        "cache": False if self._cache is None else True }
          new_kwargs.update(self._original_rule)
          new_kwargs.update(kwargs)
          return rrule(**new_kwargs)

  `harness/translate_replace.py` reads the method from /repo's working tree on every run and emits
  `Gen.replaceProgram : ReplacePy.Program` (Generated/ReplaceProgram.lean): the keys of the dictionary literal with the
  attribute each one is filled from, the `update` calls in order, and the constructor called with `**new_kwargs`.  Any other
  statement, key, attribute or call makes the translation fail ("Untranslatable").  `run` is the meaning of such a program
  over keyword dictionaries (`RRule.Kw`: every constructor keyword absent or present); `C12.replace_eq_construct_partial`
  proves that the program read from the source hands the constructor exactly `merge (origArgs a r) kw`.
-/
import DateutilVerif.Model.RRuleReplace

namespace ReplacePy
open RRule

/-- constructor keywords that may appear as keys of the literal -/
inductive Key | interval | count | dtstart | freq | until | wkst | cache
  deriving DecidableEq, Repr, Inhabited

/-- what a key of the literal is filled from -/
inductive Src
  | attrInterval | attrCount | attrDtstart | attrFreq | attrUntil | attrWkst      -- `self._interval` …
  | cacheFlag                                                                     -- `False if self._cache is None else True`
  deriving DecidableEq, Repr, Inhabited

/-- the argument of an `update` call -/
inductive Upd | originalRule | kwargs
  deriving DecidableEq, Repr, Inhabited

structure Program where
  literal : List (Key × Src)
  updates : List Upd
  ctor : String
  deriving DecidableEq, Repr, Inhabited

/-- one entry of the literal: the keyword takes the value of the rule's attribute.  A key filled from the wrong attribute
    has no meaning here (`none`): the obligation about the translated program then fails.  `dtstart` carries its tzinfo
    (`tz`); `cache` is not part of the rule's value (the cache flag of the new object: `query.replace` compares it on the
    implementation). -/
def setKey (r : Rule) (k : Kw) : Key × Src → Option Kw
  | (.interval, .attrInterval) => some { k with interval := some r.interval }
  | (.count, .attrCount) => some { k with count := some r.count }
  | (.dtstart, .attrDtstart) => some { k with dtstart := some r.dtstart, tz := some r.tz }
  | (.freq, .attrFreq) => some { k with freq := some r.freq }
  | (.until, .attrUntil) => some { k with untilDT := some r.untilDT }
  | (.wkst, .attrWkst) => some { k with wkst := some (some r.wkst) }
  | (.cache, .cacheFlag) => some k
  | _ => none

def literalKw (r : Rule) : List (Key × Src) → Kw → Option Kw
  | [], k => some k
  | e :: es, k => match setKey r k e with
    | some k' => literalKw r es k'
    | none => none

/-- `d.update(e)`: the keys of `e` win -/
def update (d e : Kw) : Kw :=
  { freq := e.freq.orElse (fun _ => d.freq), dtstart := e.dtstart.orElse (fun _ => d.dtstart), tz := e.tz.orElse (fun _ => d.tz),
    interval := e.interval.orElse (fun _ => d.interval), wkst := e.wkst.orElse (fun _ => d.wkst),
    count := e.count.orElse (fun _ => d.count), untilDT := e.untilDT.orElse (fun _ => d.untilDT),
    bysetpos := e.bysetpos.orElse (fun _ => d.bysetpos), bymonth := e.bymonth.orElse (fun _ => d.bymonth),
    bymonthday := e.bymonthday.orElse (fun _ => d.bymonthday), byyearday := e.byyearday.orElse (fun _ => d.byyearday),
    byeaster := e.byeaster.orElse (fun _ => d.byeaster), byweekno := e.byweekno.orElse (fun _ => d.byweekno),
    byweekday := e.byweekday.orElse (fun _ => d.byweekday), byhour := e.byhour.orElse (fun _ => d.byhour),
    byminute := e.byminute.orElse (fun _ => d.byminute), bysecond := e.bysecond.orElse (fun _ => d.bysecond) }

def applyUpdates (recorded kw : Kw) : List Upd → Kw → Kw
  | [], d => d
  | .originalRule :: us, d => applyUpdates recorded kw us (update d recorded)
  | .kwargs :: us, d => applyUpdates recorded kw us (update d kw)

/-- the keyword dictionary handed to the constructor -/
def run (p : Program) (r : Rule) (recorded kw : Kw) : Option Kw :=
  (literalKw r p.literal {}).map (applyUpdates recorded kw p.updates)

/-- `rrule(**d)`: `freq` is required; every other keyword absent from `d` takes the constructor's default -/
def toArgs (d : Kw) : Option Args :=
  match d.freq, d.dtstart, d.tz with
  | some f, some ds, some tz =>
    some { freq := f, dtstart := ds, tz := tz, interval := d.interval.getD 1, wkst := d.wkst.getD none, count := d.count.getD none,
           untilDT := d.untilDT.getD none, bysetpos := d.bysetpos.getD none, bymonth := d.bymonth.getD none,
           bymonthday := d.bymonthday.getD none, byyearday := d.byyearday.getD none, byeaster := d.byeaster.getD none,
           byweekno := d.byweekno.getD none, byweekday := d.byweekday.getD none, byhour := d.byhour.getD none,
           byminute := d.byminute.getD none, bysecond := d.bysecond.getD none }
  | _, _, _ => none

/-- `self._original_rule` of the rule `r` built from `a`, as a keyword dictionary: the BY parts as recorded by `__init__`
    (hand model `RRule.origArgs`, C01; a part that is not recorded and a part recorded as `None` are the same to the constructor) -/
def recordedKw (a : Args) (r : Rule) : Kw :=
  let o := origArgs a r
  { bysetpos := some o.bysetpos, bymonth := some o.bymonth, bymonthday := some o.bymonthday, byyearday := some o.byyearday,
    byeaster := some o.byeaster, byweekno := some o.byweekno, byweekday := some o.byweekday, byhour := some o.byhour,
    byminute := some o.byminute, bysecond := some o.bysecond }

/-- the method as translated: run the program, call the constructor it names -/
def replaceGen (p : Program) (a : Args) (r : Rule) (kw : Kw) : Option (Py.R Rule) :=
  if p.ctor == "rrule" then ((run p r (recordedKw a r) kw).bind toArgs).map construct else none

end ReplacePy
