/-
  Model/MergePy.lean — `rruleset._genitem` and `rruleset._iter` (rrule.py) as data, and their meaning over the abstract
  priority queues of Model/RRuleSet.lean.

  `harness/translate_rrbase.py` parses the class `_genitem` (`__init__`, `__next__`, the four comparison methods) and the
  generator `rruleset._iter` from /repo's working tree on every run and emits `Gen.genitem*` / `Gen.rsetIterProgram`
  (Generated/RSetMerge.lean): the statements in source order, each from a strict vocabulary (anything else is
  Untranslatable).  `heapq.heapify / heapreplace / heappop` are named primitives with the contract of the trusted base: after
  them index 0 holds SOME minimal item (`sel`, a parameter: every admissible choice).  Between `advance_iterator(item)` — which
  changes the key of the item at index 0 in place — and the `heapreplace` that re-sifts it the heap is DIRTY: reading its top
  then has no meaning (`none`), so a program that forgets the `heapreplace` does not satisfy the obligation.
  `C10.gen_rset_iter_eq_model`: the translated `_iter` yields exactly `RSet.iter sel inc exc`, for every `sel`.
-/
import DateutilVerif.Model.RRuleSet

namespace MergePy
open RSet

/-! ### `_genitem` -/

/-- `__init__(self, genlist, gen)`: `try: self.dt = advance_iterator(gen); genlist.append(self)` / `except StopIteration: pass`,
    then `self.genlist = genlist; self.gen = gen` -/
structure InitProg where
  advancesInTry : Bool        -- the first statement of the `try` is `self.dt = advance_iterator(gen)`
  appendsSelf : Bool          -- the second is `genlist.append(self)`
  stopIsPass : Bool           -- `except StopIteration: pass`
  keepsGenlist : Bool         -- `self.genlist = genlist`
  keepsGen : Bool             -- `self.gen = gen`
  deriving DecidableEq, Repr, Inhabited

/-- the cursor put on the list, if any -/
def runInit (p : InitProg) (stream : List Int) : Option (Option Cursor) :=
  if p.advancesInTry && p.appendsSelf && p.stopIsPass && p.keepsGenlist && p.keepsGen then
    some (match stream with | [] => none | x :: xs => some ⟨x, xs⟩)
  else none

/-- what `__next__` does when its generator is exhausted -/
inductive Removal
  | heappop            -- `heapq.heappop(self.genlist)`
  | removeHeapify      -- `self.genlist.remove(self)` ; `heapq.heapify(self.genlist)`
  deriving DecidableEq, Repr, Inhabited

/-- `__next__`: `try: self.dt = advance_iterator(self.gen)` / `except StopIteration: if self.genlist[0] is self: <a> else: <b>` -/
structure NextProg where
  advancesInTry : Bool
  ifTop : Removal
  otherwise : Removal
  deriving DecidableEq, Repr, Inhabited

/-- on the item `c` of a heap whose other items are `others` (`isTop`: `c` is at index 0): the new list, and whether the heap
    is left dirty (the key at index 0 changed in place) -/
def runNext (p : NextProg) (c : Cursor) (isTop : Bool) (others : List Cursor) : Option (List Cursor × Bool × Option Cursor) :=
  if !p.advancesInTry then none else
  match c.rest with
  | x :: xs => some (⟨x, xs⟩ :: others, true, some ⟨x, xs⟩)
  | [] =>
    -- exhausted: the item leaves the list; `heappop` removes index 0 (right only when the item IS at index 0)
    match (if isTop then p.ifTop else p.otherwise), isTop with
    | .heappop, true => some (others, false, none)
    | .removeHeapify, _ => some (others, false, none)
    | .heappop, false => none

inductive Cmp | lt | gt | eq | ne
  deriving DecidableEq, Repr, Inhabited

/-- `__lt__`, `__gt__`, `__eq__`, `__ne__`: each `return self.dt <op> other.dt` -/
structure CmpProg where
  lt : Cmp
  gt : Cmp
  eq : Cmp
  ne : Cmp
  deriving DecidableEq, Repr, Inhabited

def evalCmp : Cmp → Int → Int → Bool
  | .lt, a, b => decide (a < b)
  | .gt, a, b => decide (a > b)
  | .eq, a, b => a == b
  | .ne, a, b => a != b

/-! ### `rruleset._iter` -/

inductive Heap | rlist | exlist
  deriving DecidableEq, Repr, Inhabited
inductive Item | ritem | exitem
  deriving DecidableEq, Repr, Inhabited
inductive Role | rdate | rrule | exdate | exrule
  deriving DecidableEq, Repr, Inhabited

/-- the statements before the loop -/
inductive Setup
  | readGeneration                     -- `generation = self._generation`
  | newList (h : Heap)                 -- `rlist = []`
  | sortDates (r : Role)               -- `self._rdate.sort()`
  | genitemDates (h : Heap) (r : Role) -- `self._genitem(rlist, iter(self._rdate))`
  | genitemRules (h : Heap) (r : Role) -- `for gen in [iter(x) for x in self._rrule]: self._genitem(rlist, gen)`
  | lastNone                           -- `lastdt = None`
  | totalZero                          -- `total = 0`
  | heapify (h : Heap)                 -- `heapq.heapify(rlist)`
  deriving DecidableEq, Repr, Inhabited

/-- statements without a body -/
inductive Simple
  | bindTop (i : Item) (h : Heap)          -- `ritem = rlist[0]`
  | advance (i : Item)                     -- `advance_iterator(ritem)` (`_genitem.__next__`)
  | ifTopIsReplace (h : Heap) (i : Item)   -- `if rlist and rlist[0] is ritem: heapq.heapreplace(rlist, ritem)`
  | incTotal                               -- `total += 1`
  | yieldDt                                -- `yield ritem.dt`
  | setLast                                -- `lastdt = ritem.dt`
  deriving DecidableEq, Repr, Inhabited

/-- inside `if not lastdt or lastdt != ritem.dt:` -/
inductive Fresh
  | simple (s : Simple)
  | whileBelow (body : List Simple)        -- `while exlist and exlist[0] < ritem:`
  | ifEmit (body : List Simple)            -- `if not exlist or ritem != exlist[0]:`
  deriving DecidableEq, Repr, Inhabited

/-- inside `while rlist:` -/
inductive Main
  | simple (s : Simple)
  | ifFresh (body : List Fresh)            -- `if not lastdt or lastdt != ritem.dt:`
  deriving DecidableEq, Repr, Inhabited

structure IterProg where
  setup : List Setup
  body : List Main
  publishesLenGuarded : Bool      -- after the loop: `if generation == self._generation: self._len = total`
  deriving DecidableEq, Repr, Inhabited

structure St where
  rl : List Cursor
  ex : List Cursor
  rdirty : Bool := false
  exdirty : Bool := false
  ritem : Option (Cursor × List Cursor) := none      -- the bound item (still on its heap) and the other items of that heap
  exitem : Option (Cursor × List Cursor) := none
  last : Option Int := none
  total : Nat := 0
  out : List Int := []
  deriving DecidableEq, Repr, Inhabited

def St.heap (s : St) : Heap → List Cursor | .rlist => s.rl | .exlist => s.ex
def St.dirty (s : St) : Heap → Bool | .rlist => s.rdirty | .exlist => s.exdirty
def St.item (s : St) : Item → Option (Cursor × List Cursor) | .ritem => s.ritem | .exitem => s.exitem
def St.setHeap (s : St) (h : Heap) (l : List Cursor) (d : Bool) : St :=
  match h with | .rlist => { s with rl := l, rdirty := d } | .exlist => { s with ex := l, exdirty := d }
def St.setItem (s : St) (i : Item) (v : Option (Cursor × List Cursor)) : St :=
  match i with | .ritem => { s with ritem := v } | .exitem => { s with exitem := v }
/-- the heap an item variable is bound from in this method -/
def heapOf : Item → Heap | .ritem => .rlist | .exitem => .exlist

/-- index 0 of a clean heap -/
def top (sel : Sel) (s : St) (h : Heap) : Option (Cursor × List Cursor) := if s.dirty h then none else sel (s.heap h)

def runSimple (sel : Sel) (np : NextProg) (s : St) : Simple → Option St
  | .bindTop i h => if heapOf i != h then none else (top sel s h).map (fun v => s.setItem i (some v))
  | .advance i =>
    match s.item i with
    | none => none
    | some (c, others) =>
      (runNext np c true others).map (fun (l, d, c') => (s.setHeap (heapOf i) l d).setItem i (c'.map (fun c' => (c', others))))
  | .ifTopIsReplace h i =>
    if heapOf i != h then none else
    match s.item i with
    | some _ => some (s.setHeap h (s.heap h) false)     -- still at index 0: `heapreplace` re-sifts it
    | none => some s                                    -- it left the list: the condition is false
  | .incTotal => some { s with total := s.total + 1 }
  | .yieldDt => s.ritem.map (fun v => { s with out := s.out ++ [v.1.dt] })
  | .setLast => s.ritem.map (fun v => { s with last := some v.1.dt })

def runSimples (sel : Sel) (np : NextProg) : List Simple → St → Option St
  | [], s => some s
  | x :: xs, s => match runSimple sel np s x with
    | some s' => runSimples sel np xs s'
    | none => none

/-- `while exlist and exlist[0] < ritem: body` -/
def runWhileBelow (sel : Sel) (np : NextProg) (cp : CmpProg) (body : List Simple) : Nat → St → Option St
  | 0, s => some s
  | fuel + 1, s =>
    match s.ritem with
    | none => none
    | some (r, _) =>
      if s.ex.isEmpty then some s else
      match top sel s .exlist with
      | none => none
      | some (e, _) =>
        if evalCmp cp.lt e.dt r.dt then
          match runSimples sel np body s with
          | some s' => runWhileBelow sel np cp body fuel s'
          | none => none
        else some s

def runFresh (sel : Sel) (np : NextProg) (cp : CmpProg) (s : St) : Fresh → Option St
  | .simple x => runSimple sel np s x
  | .whileBelow body => runWhileBelow sel np cp body ((s.ex.map (fun c => c.elems.length)).sum + 1) s
  | .ifEmit body =>
    match s.ritem with
    | none => none
    | some (r, _) =>
      if s.ex.isEmpty then runSimples sel np body s else
      match top sel s .exlist with
      | none => none
      | some (e, _) => if evalCmp cp.ne r.dt e.dt then runSimples sel np body s else some s

def runFreshs (sel : Sel) (np : NextProg) (cp : CmpProg) : List Fresh → St → Option St
  | [], s => some s
  | x :: xs, s => match runFresh sel np cp s x with
    | some s' => runFreshs sel np cp xs s'
    | none => none

def runMain (sel : Sel) (np : NextProg) (cp : CmpProg) (s : St) : Main → Option St
  | .simple x => runSimple sel np s x
  | .ifFresh body =>
    match s.ritem with
    | none => none
    | some (r, _) => if s.last ≠ some r.dt then runFreshs sel np cp body s else some s     -- `not lastdt or lastdt != ritem.dt`

def runMains (sel : Sel) (np : NextProg) (cp : CmpProg) : List Main → St → Option St
  | [], s => some s
  | x :: xs, s => match runMain sel np cp s x with
    | some s' => runMains sel np cp xs s'
    | none => none

/-- `while rlist: body` -/
def runLoop (sel : Sel) (np : NextProg) (cp : CmpProg) (body : List Main) : Nat → St → Option St
  | 0, s => some s
  | fuel + 1, s =>
    if s.rl.isEmpty then some s else
    match runMains sel np cp body s with
    | some s' => runLoop sel np cp body fuel s'
    | none => none

/-- the statements before the loop, checked for what the loop relies on: both lists are built from the SORTED dates first and
    the rules after them, with `_genitem`, and heapified -/
def setupOk (p : IterProg) : Bool :=
  p.setup == [.readGeneration, .newList .rlist, .sortDates .rdate, .genitemDates .rlist .rdate, .genitemRules .rlist .rrule,
              .newList .exlist, .sortDates .exdate, .genitemDates .exlist .exdate, .genitemRules .exlist .exrule,
              .lastNone, .totalZero, .heapify .rlist, .heapify .exlist]

def cursorsOf (ip : InitProg) (streams : List (List Int)) : Option (List Cursor) :=
  streams.foldr (fun st acc => match runInit ip st, acc with
    | some (some c), some l => some (c :: l)
    | some none, some l => some l
    | _, _ => none) (some [])

/-- `rruleset._iter()` as translated, over the members `m` (rules as the sorted streams they yield): the instants yielded
    and the published `total` -/
def runIter (sel : Sel) (ip : InitProg) (np : NextProg) (cp : CmpProg) (p : IterProg) (m : Members) : Option (List Int × Nat) :=
  if !(setupOk p && p.publishesLenGuarded) then none else
  match cursorsOf ip m.inc, cursorsOf ip m.exc with
  | some rl, some ex =>
    (runLoop sel np cp p.body (totalLen m.inc + 1) { rl := rl, ex := ex }).map (fun s => (s.out, s.total))
  | _, _ => none

/-! ### the mutators of `rruleset` and the decorator `_invalidates_cache` -/

/-- `def inner_func(self, *args, **kwargs): rv = f(self, *args, **kwargs); self._invalidate_cache(); return rv` -/
structure DecoratorProg where
  callsWrapped : Bool
  thenInvalidates : Bool
  returnsRv : Bool
  invalidatesBefore : Bool := false     -- `self._invalidate_cache()` BEFORE the wrapped call (a reader in between refills the fresh cache from the old members)
  deriving DecidableEq, Repr, Inhabited

/-- `@<decorators> def <role>(self, x): self._<appendsTo>.append(x)` -/
structure MutatorProg where
  role : Role
  appendsTo : Role
  decorated : Bool          -- the only decorator is `_invalidates_cache`
  deriving DecidableEq, Repr, Inhabited

/-- `rruleset.__init__`: `super(rruleset, self).__init__(cache)` then the four empty member lists -/
structure SetInitProg where
  callsBaseInit : Bool
  emptyLists : List Role
  deriving DecidableEq, Repr, Inhabited

def mutatorOf (ps : List MutatorProg) (r : Role) : Option MutatorProg := ps.find? (fun p => p.role == r)

/-- the members after the call, and whether `_invalidate_cache()` ran after the append -/
def runMutRule (d : DecoratorProg) (ps : List MutatorProg) (r : Role) (m : Members) (x : List Int) : Option (Members × Bool) :=
  match mutatorOf ps r with
  | none => none
  | some p =>
    if !(d.callsWrapped && d.returnsRv) then none else
    match p.appendsTo with
    | .rrule => some ({ m with rrules := m.rrules ++ [x] }, p.decorated && d.thenInvalidates)
    | .exrule => some ({ m with exrules := m.exrules ++ [x] }, p.decorated && d.thenInvalidates)
    | _ => none

def runMutDate (d : DecoratorProg) (ps : List MutatorProg) (r : Role) (m : Members) (x : Int) : Option (Members × Bool) :=
  match mutatorOf ps r with
  | none => none
  | some p =>
    if !(d.callsWrapped && d.returnsRv) then none else
    match p.appendsTo with
    | .rdate => some ({ m with rdates := m.rdates ++ [x] }, p.decorated && d.thenInvalidates)
    | .exdate => some ({ m with exdates := m.exdates ++ [x] }, p.decorated && d.thenInvalidates)
    | _ => none

end MergePy
