/-
  Model/RDHistory.lean — the LIFE of one `relativedelta` object: it is mutable (the public `weeks` setter,
  lines 268-270, and plain attribute assignment `d.months = 3`) and is used between the mutations
  (added to a date, hashed, compared, negated, …).

  * `weeksOf` / `setWeeks`  — the `weeks` property and its setter (hand model, tied by the ops `rd.weeks` /
    `rd.setweeks`; `int(self.days / 7.0)` is truncation toward zero, exact for |days| < 2^53).
  * `Mut` / `applyMut`      — one mutation: an attribute assignment (which does NOT re-run `_fix`, so the record
    may leave the normal form and `_has_time` may go stale — the model follows the code) or the `weeks` setter.
  * `Use` / `observe`       — one use (18 kinds, incl. `normalized()`, `*` by a dyadic float, `/` by a power of two), evaluated through the methods RE-TRANSLATED from /repo (`Gen.*`,
    Generated/RDOps.lean) on the CURRENT record.
  * `run`                   — a history; a use leaves the record alone.  That no method of the class writes an
    attribute outside `__init__` / `_fix` / `_set_months` / the `weeks` setter is checked on the source on every
    run (AST audit `rdlib.write_audit`, part of the correspondence of C03 / C09 / C16).

  No Mathlib import (linked into the driver).
-/
import DateutilVerif.Generated.RDOps

namespace RDH
open RDM

/-- `relativedelta.weeks` (line 265-266): `int(self.days / 7.0)` — the quotient truncated toward zero -/
def weeksOf (d : RD) : Int := if 0 ≤ d.days then d.days / 7 else -((-d.days) / 7)

/-- the `weeks` setter (lines 268-270): `self.days = self.days - (self.weeks * 7) + value * 7` -/
def setWeeks (d : RD) (v : Int) : RD := { d with days := d.days - weeksOf d * 7 + v * 7 }

/-- one mutation of the object from outside -/
inductive Mut where
  | years (v : Int) | months (v : Int) | days (v : Int) | leapdays (v : Int)
  | hours (v : Int) | minutes (v : Int) | seconds (v : Int) | microseconds (v : Int)
  | year (v : Option Int) | month (v : Option Int) | day (v : Option Int)
  | hour (v : Option Int) | minute (v : Option Int) | second (v : Option Int) | microsecond (v : Option Int)
  | weekday (w : Option (Int × Option Int))
  | weeks (v : Int)
  deriving DecidableEq, Repr, Inhabited

/-- attribute assignment writes that one attribute (nothing re-runs `_fix`: `hasTime` keeps its value) -/
def applyMut (d : RD) : Mut → RD
  | .years v => { d with years := v }
  | .months v => { d with months := v }
  | .days v => { d with days := v }
  | .leapdays v => { d with leapdays := v }
  | .hours v => { d with hours := v }
  | .minutes v => { d with minutes := v }
  | .seconds v => { d with seconds := v }
  | .microseconds v => { d with microseconds := v }
  | .year v => { d with year := v }
  | .month v => { d with month := v }
  | .day v => { d with day := v }
  | .hour v => { d with hour := v }
  | .minute v => { d with minute := v }
  | .second v => { d with second := v }
  | .microsecond v => { d with microsecond := v }
  | .weekday w => { d with weekday := w }
  | .weeks v => setWeeks d v

/-- one use of the object -/
inductive Use where
  | addDt (x : Temporal) | raddDt (x : Temporal) | rsubDt (x : Temporal)
  | hash | bool | eq (o : RD) | eqRev (o : RD)
  | neg | abs | addRd (o : RD) | raddRd (o : RD) | subRd (o : RD) | mulInt (k : Int) | addTd (d s u : Int)
  | weeks | normalized | mulDy (f : RDPy.Dy) | divPow2 (p : RDPy.Pow2)
  deriving DecidableEq, Repr, Inhabited

/-- what a use returns -/
inductive Obs where
  | temporal (r : Py.R Temporal)
  | rd (r : Py.R RD)
  | bool (r : Py.R Bool)
  | hash (r : Py.R (List HashElt))
  | int (i : Int)
  deriving DecidableEq, Repr, Inhabited

/-- a use evaluated on a field record, through the translated methods -/
def observe (d : RD) : Use → Obs
  | .addDt x => .temporal (Gen.addDt d x)
  | .raddDt x => .temporal (Gen.raddDt d x)
  | .rsubDt x => .temporal (Gen.rsubDt d x)
  | .hash => .hash (Gen.hashKey d)
  | .bool => .bool (Gen.bool d)
  | .eq o => .bool (Gen.eq d o)
  | .eqRev o => .bool (Gen.eq o d)
  | .neg => .rd (Gen.neg d)
  | .abs => .rd (Gen.abs d)
  | .addRd o => .rd (Gen.addRd d o)
  | .raddRd o => .rd (Gen.addRd o d)
  | .subRd o => .rd (Gen.subRd d o)
  | .mulInt k => .rd (Gen.mulInt d k)
  | .addTd dd s u => .rd (Gen.addTd d dd s u)
  | .weeks => .int (weeksOf d)
  | .normalized => .rd (Gen.normalized d)
  | .mulDy f => .rd (Gen.mulDy d f)
  | .divPow2 p => .rd (Gen.divPow2 d p)

inductive Step where
  | use (u : Use)
  | set (m : Mut)
  deriving DecidableEq, Repr, Inhabited

/-- one step of the object's life: the record afterwards and what was observed -/
def step (d : RD) : Step → RD × List Obs
  | .use u => (d, [observe d u])
  | .set m => (applyMut d m, [])

/-- a whole history: the final record and every observation, in order -/
def run (d : RD) : List Step → RD × List Obs
  | [] => (d, [])
  | s :: rest => ((run (step d s).1 rest).1, (step d s).2 ++ (run (step d s).1 rest).2)

/-- the mutations of a history, in order -/
def muts : List Step → List Mut
  | [] => []
  | .use _ :: rest => muts rest
  | .set m :: rest => m :: muts rest

/-- the record after a list of mutations -/
def stateAfter (d : RD) (ms : List Mut) : RD := ms.foldl applyMut d

/-- constructor-reachable records: what `relativedelta(**kw)` / the operators can return -/
def Reachable (d : RD) : Prop := Normalised d

end RDH
