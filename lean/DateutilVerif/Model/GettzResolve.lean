/-
  Model/GettzResolve.lean — the name-resolution order of `tz.gettz` (`GettzFunc.nocache`,
  tz.py), statement by statement, over an ABSTRACT environment.

      tz = None
      if not name:                                   name None or ''  →  TZ variable if set
          try: name = os.environ["TZ"]
          except KeyError: pass
      if name is None or name in ("", ":"):          ── unnamed: the local zone ──
          for filepath in TZFILES:                                          localLoop
              if not os.path.isabs(filepath):
                  filename = filepath
                  for path in TZPATHS:                                      firstExisting
                      filepath = os.path.join(path, filename)
                      if os.path.isfile(filepath): break
                  else: continue
              if os.path.isfile(filepath):
                  try: tz = tzfile(filepath); break
                  except (IOError, OSError, ValueError): pass
          else: tz = tzlocal()
      else:
          if name.startswith(":"): name = name[1:]                          stripColon
          if os.path.isabs(name):                    ── absolute path ──
              if os.path.isfile(name): tz = tzfile(name)        (NOT inside a try: errors escape)
              else: tz = None
          else:
              for path in TZPATHS:                   ── search path ──      searchLoop
                  filepath = os.path.join(path, name)
                  if not os.path.isfile(filepath):
                      filepath = filepath.replace(' ', '_')
                      if not os.path.isfile(filepath): continue
                  try: tz = tzfile(filepath); break
                  except (IOError, OSError, ValueError): pass
              else:                                  ── fall-backs ──       fallback
                  tz = None                          (tzwin is None off Windows)
                  if not tz: tz = get_zonefile_instance().get(name)
                  if not tz:
                      for c in name:
                          if c in "0123456789":
                              try: tz = tzstr.instance(name)
                              except ValueError: pass
                              break
                      else:
                          if name in ("GMT", "UTC"): tz = UTC
                          elif name in time.tzname: tz = tzlocal()
      return tz

  The environment is everything the function reads: the TZ variable, the lists TZFILES / TZPATHS,
  `os.path.isfile` and the outcome of `tzfile(path)` on any path string, `time.tzname`, the
  vendored database lookup, and whether `tzstr.instance(name)` accepts the string (the TZ-string
  grammar is C08's model; here it is a parameter).  Names are `str` (bytes raise the documented
  TypeError before any of this).  No Mathlib import.
-/
import DateutilVerif.Base.Py

namespace Gettz

/-- what `tzfile(path)` does on an existing file: loads it, raises IOError/OSError, raises
ValueError (no TZif magic), or raises `struct.error` (TZif magic but truncated / corrupt data —
`_read_tzfile` unpacks without checking the length; NOT in nocache's handler list) -/
inductive Load | ok | osError | valueError | structError
  deriving DecidableEq, Repr

structure Env where
  tzVar : Option String
  tzfiles : List String
  tzpaths : List String
  isfile : String → Bool
  load : String → Load
  tzname : List String
  vendored : String → Bool
  tzstrOk : String → Bool

inductive Resolution
  | localZone                 -- tzlocal()
  | file (path : String)      -- tzfile(path)
  | vendored (name : String)  -- get_zonefile_instance().get(name)
  | tzstr (s : String)        -- tzstr.instance(s)
  | utc                       -- the constant tz.UTC
  | none                      -- None
  deriving DecidableEq, Repr

/-- the exception that escapes `nocache` -/
inductive Err | osError | valueError | structError
  deriving DecidableEq, Repr

abbrev R := Except Err Resolution

/-- `os.path.isabs` (posix) -/
def isabs (p : String) : Bool :=
  match p.toList with
  | '/' :: _ => true
  | _ => false

/-- `os.path.join(a, b)` (posix, two arguments) -/
def join (a b : String) : String :=
  if isabs b then b
  else if a.isEmpty || a.toList.getLast? == some '/' then a ++ b
  else a ++ "/" ++ b

/-- `s.replace(' ', '_')` -/
def underscore (s : String) : String :=
  String.ofList (s.toList.map fun c => if c = ' ' then '_' else c)

/-- `if name.startswith(":"): name = name[1:]` -/
def stripColon (s : String) : String :=
  match s.toList with
  | ':' :: r => String.ofList r
  | _ => s

/-- `for c in name: if c in "0123456789"` finds a character -/
def hasDigit (s : String) : Bool := s.toList.any fun c => '0' ≤ c ∧ c ≤ '9'

/-- `tzfile(p)` succeeds on the existing file `p` -/
def loadable (e : Env) (p : String) : Bool := e.isfile p && e.load p == .ok

/-- inner loop of the unnamed branch: the first TZPATHS entry under which `filename` exists -/
def firstExisting (e : Env) (filename : String) : List String → Option String
  | [] => none
  | path :: rest => if e.isfile (join path filename) then some (join path filename) else firstExisting e filename rest

/-- the path a TZFILES entry stands for: itself when absolute, else the first TZPATHS entry under
which it exists (`none` = the inner `for … else: continue`) -/
def localCand (e : Env) (fp : String) : Option String :=
  if isabs fp then some fp else firstExisting e fp e.tzpaths

/-- the unnamed branch: loop over TZFILES, `for … else: tzlocal()`.
`try: tz = tzfile(filepath); break / except (IOError, OSError, ValueError): pass` -/
def localLoop (e : Env) : List String → R
  | [] => .ok .localZone
  | fp :: rest =>
    match localCand e fp with
    | none => localLoop e rest                                   -- `continue`
    | some p =>
      if e.isfile p then
        match e.load p with
        | .ok => .ok (.file p)
        | .osError | .valueError => localLoop e rest              -- handled: next TZFILES entry
        | .structError => .error .structError                    -- not handled: escapes
      else localLoop e rest

/-- the candidate a TZPATHS entry offers for `name`: the joined path, or its underscore spelling -/
def candidate (e : Env) (path name : String) : Option String :=
  if e.isfile (join path name) then some (join path name)
  else if e.isfile (underscore (join path name)) then some (underscore (join path name))
  else none

/-- the search loop: the first TZPATHS entry whose candidate loads; `none` = the `for … else` -/
def searchLoop (e : Env) (name : String) : List String → Except Err (Option String)
  | [] => .ok none
  | path :: rest =>
    match candidate e path name with
    | none => searchLoop e name rest                             -- `continue`
    | some p =>
      match e.load p with
      | .ok => .ok (some p)                                      -- `break`
      | .osError | .valueError => searchLoop e name rest          -- except …: pass
      | .structError => .error .structError

/-- after the search failed -/
def fallback (e : Env) (name : String) : Resolution :=
  if e.vendored name then .vendored name
  else if hasDigit name then (if e.tzstrOk name then .tzstr name else .none)
  else if name = "GMT" ∨ name = "UTC" then .utc
  else if name ∈ e.tzname then .localZone
  else .none

/-- the name after `if not name: name = os.environ["TZ"]` -/
def effectiveName (e : Env) : Option String → Option String
  | none => e.tzVar
  | some s => if s.isEmpty then (match e.tzVar with | some v => some v | none => some s) else some s

/-- the named branch (`name` is not None, "" or ":") -/
def resolveNamed (e : Env) (name0 : String) : R :=
  let name := stripColon name0
  if isabs name then
    if e.isfile name then
      match e.load name with
      | .ok => .ok (.file name)
      | .osError => .error .osError
      | .valueError => .error .valueError
      | .structError => .error .structError
    else .ok .none
  else
    match searchLoop e name e.tzpaths with
    | .error err => .error err
    | .ok (some p) => .ok (.file p)
    | .ok none => .ok (fallback e name)

/-- `GettzFunc.nocache(name)` -/
def resolve (e : Env) (name : Option String) : R :=
  match effectiveName e name with
  | none => localLoop e e.tzfiles
  | some s => if s = "" ∨ s = ":" then localLoop e e.tzfiles else resolveNamed e s

/-- what `GettzFunc.__call__` does with the result (Model/Factory.lean's `Res`): 0 = cached zone,
1 = returned but not cached, 2 = None.  `name is None` and tzlocal results are never cached. -/
def cacheClass (name : Option String) (r : Resolution) : Nat :=
  match r with
  | .none => 2
  | .localZone => 1
  | _ => if name.isNone then 1 else 0

end Gettz
