/-
  Model/Reduce.lean — copying and pickling of zone objects (C18 "copies and pickles of zones compare equal to the original").

  An object is its class and its `__dict__` (attribute values are abstract: equality is all `__eq__` uses).
  `reduce p o` is what `o.__reduce_ex__(p)` returns:
    * tzutc, tzoffset, tzlocal, tzrange, tzstr set `__reduce__ = object.__reduce__`, so pickle / copy use the default
      `object.__reduce_ex__`: protocols 0, 1 → `(copyreg._reconstructor, (cls, datetime.tzinfo, tzinfo()), __dict__)`
      (the first non-heap base of every zone class is `datetime.tzinfo`: the object is made by `tzinfo.__new__(cls, …)`),
      protocols 2..5 (and copy.copy / copy.deepcopy, which ask for protocol 4) → `(copyreg.__newobj__, (cls,), __dict__)`.
      Both reconstructors call `object.__new__` / `cls.__new__` directly: neither `__init__` nor the caching metaclass
      `__call__` runs, then `obj.__dict__.update(state)`.
    * `tzfile.__reduce_ex__` → `(cls, (None, self._filename), self.__dict__)`: `tzfile(None, filename)` runs `__init__` with
      `fileobj=None`, which only sets `_filename`; then the state is applied on top.
  `rebuild` is what `pickle.loads` / `copy._reconstruct` make of it.  No Mathlib.
-/
namespace Reduce

inductive Cls | tzutc | tzoffset | tzlocal | tzrange | tzstr | tzfile
  deriving DecidableEq, Repr

abbrev Val := Int
abbrev Dict := List (String × Val)

def lookup (k : String) : Dict → Option Val
  | [] => none
  | (k', v) :: r => if k' = k then some v else lookup k r

/-- `d.update(s)`: the bindings of `s` win -/
def update (d s : Dict) : Dict := s ++ d

structure Obj where
  cls : Cls
  dict : Dict
  deriving Repr

inductive Reduced
  | reconstructor (cls : Cls) (state : Dict)                  -- protocols 0, 1
  | newobj (cls : Cls) (state : Dict)                         -- protocols 2..5, copy, deepcopy
  | callCls (cls : Cls) (filename : Val) (state : Dict)       -- tzfile.__reduce_ex__ (any protocol)
  deriving Repr

/-- `o.__reduce_ex__(p)`; `self._filename` of a tzfile without that attribute is an AttributeError (`none`) -/
def reduce (p : Nat) (o : Obj) : Option Reduced :=
  match o.cls with
  | .tzfile => (lookup "_filename" o.dict).map fun fn => .callCls .tzfile fn o.dict
  | c => some (if p < 2 then .reconstructor c o.dict else .newobj c o.dict)

def rebuild : Reduced → Obj
  | .reconstructor c s => ⟨c, update [] s⟩
  | .newobj c s => ⟨c, update [] s⟩
  | .callCls c fn s => ⟨c, update [("_filename", fn)] s⟩

/-- the attributes each class's `__eq__` reads (tzutc: none; tzstr inherits tzrange's) -/
def eqAttrs : Cls → List String
  | .tzutc => []
  | .tzoffset => ["_offset"]
  | .tzlocal => ["_std_offset", "_dst_offset"]
  | .tzrange | .tzstr => ["_std_abbr", "_dst_abbr", "_std_offset", "_dst_offset", "_start_delta", "_end_delta"]
  | .tzfile => ["_trans_list", "_trans_idx", "_ttinfo_list"]

/-- `a == b` for two objects of the same class -/
def objEq (a b : Obj) : Bool :=
  a.cls == b.cls && (eqAttrs a.cls).all fun k => lookup k a.dict == lookup k b.dict

theorem lookup_append (k : String) : ∀ (s d : Dict),
    lookup k (s ++ d) = (lookup k s).or (lookup k d)
  | [], d => by simp [lookup]
  | (k', v) :: r, d => by
      by_cases h : k' = k <;> simp [lookup, h, lookup_append k r d]

end Reduce
