/-
  Model/IsoParser.lean — executable model of `dateutil/parser/isoparser.py` as it is in /repo
  NOW (after the D-C20 repair: every fixed-width numeric field goes through
  `_parse_digits(field, width)`).

  Input is the byte string *after* `_takes_ascii` (a `List Nat`, one entry per byte; the
  parser never looks at a byte other than by equality with an ASCII constant or by the
  digit test, so `Nat` entries ≥ 256 are harmless and make `omega` applicable).  The cursor
  `pos` of the Python code is represented by the *remaining suffix* `dt_str[pos:]`:
  `pos < len_str` is `rest ≠ []`, `dt_str[pos:pos+k]` is `rest.take k`, `len_str - pos` is
  `rest.length`.

  Every Python operation that can raise is an `Except PyErr`: `ValueError` from
  `_parse_digits`, the explicit `raise ValueError`s, `date()/datetime()/time()` construction
  out of range; `OverflowError` from `date ± timedelta` leaving 0001-01-01..9999-12-31
  (`week_1 + timedelta(...)` in `_calculate_weekdate`, `datetime + timedelta(days=1)` after
  the 24:00 rewrite) — both are now caught and re-raised as ValueError (fixes b75c1b5), week 53
  is checked against `isocalendar()` (4bf5835) and a zone boundary before the hour is rejected
  (17b546f).  No Mathlib import.
-/
import DateutilVerif.Base.Py
import DateutilVerif.Base.Calendar
import DateutilVerif.Base.Time
import DateutilVerif.Model.IsoTypes

namespace Iso
open Py

abbrev Bytes := List Nat

def cPlus : Nat := 43
def cComma : Nat := 44
def cDash : Nat := 45
def cDot : Nat := 46
def cColon : Nat := 58
def cW : Nat := 87
def cZ : Nat := 90
def cz : Nat := 122

/-- ASCII digit -/
def isDigit (b : Nat) : Bool := decide (48 ≤ b ∧ b ≤ 57)

/-- `int(field)` for a field of ASCII digits -/
def digitsVal (f : Bytes) : Nat := f.foldl (fun acc b => acc * 10 + (b - 48)) 0

/-- `bytes.isdigit()`: non-empty and all ASCII digits -/
def bytesIsDigit (f : Bytes) : Bool := !f.isEmpty && f.all isDigit

/-- `_parse_digits(field, width)` -/
def parseDigits (field : Bytes) (width : Nat) : R Int :=
  if field.length ≠ width ∨ bytesIsDigit field = false then .error .ValueError
  else .ok (digitsVal field : Nat)

export IsoT (Off)

/-- `_parse_isodate_common`: components and the remaining suffix `dt_str[pos:]` -/
def parseIsodateCommon (s : Bytes) : R ((Int × Int × Int) × Bytes) :=
  if s.length < 4 then .error .ValueError else do
  let y ← parseDigits (s.take 4) 4
  let r := s.drop 4
  if r = [] then .ok ((y, 1, 1), r) else do          -- pos >= len_str
  let hasSep : Bool := r.take 1 == [cDash]
  let r := if hasSep then r.drop 1 else r
  if r.length < 2 then .error .ValueError else do    -- 'Invalid common month'
  let m ← parseDigits (r.take 2) 2
  let r := r.drop 2
  if r = [] then
    (if hasSep then .ok ((y, m, 1), r) else .error .ValueError)   -- 'Invalid ISO format'
  else
  if hasSep && r.take 1 != [cDash] then .error .ValueError else do  -- 'Invalid separator'
  let r := if hasSep then r.drop 1 else r
  if r.length < 2 then .error .ValueError else do    -- 'Invalid common day'
  let d ← parseDigits (r.take 2) 2
  .ok ((y, m, d), r.drop 2)

/-- `date(y, m, d)`: ValueError unless a valid date; the value is its ordinal -/
def mkDateOrd (y m d : Int) : R Int :=
  if Cal.validDate y m d then .ok (Cal.toOrdinal y m d) else .error .ValueError

/-- `date ± timedelta` on ordinals: OverflowError outside 1..maxOrdinal -/
def ordChecked (o : Int) : R Int :=
  if o < 1 ∨ o > Cal.maxOrdinal then .error .OverflowError else .ok o

/-- `try: x except OverflowError: raise ValueError(...)` -/
def overflowToValue {α} (r : R α) : R α :=
  match r with
  | .error .OverflowError => .error .ValueError
  | r => r

/-- `_calculate_weekdate(year, week, day)` -/
def calculateWeekdate (year week day : Int) : R (Int × Int × Int) :=
  if ¬ (0 < week ∧ week < 54) then .error .ValueError
  else if ¬ (0 < day ∧ day < 8) then .error .ValueError
  else do
    let jan4 ← mkDateOrd year 1 4
    let week1 ← ordChecked (jan4 - ((Cal.isoCalendar year 1 4).2.2 - 1))
    let o ← overflowToValue (ordChecked (week1 + ((week - 1) * 7 + (day - 1))))   -- 'Week date out of range'
    let result := Cal.fromOrdinal o
    if week = 53 ∧ (Cal.isoCalendar result.1 result.2.1 result.2.2).2.1 ≠ 53 then .error .ValueError
    else .ok result

/-- `_parse_isodate_uncommon` -/
def parseIsodateUncommon (s : Bytes) : R ((Int × Int × Int) × Bytes) :=
  if s.length < 4 then .error .ValueError else do
  let year ← parseDigits (s.take 4) 4
  let r := s.drop 4
  let hasSep : Bool := r.take 1 == [cDash]
  let r := if hasSep then r.drop 1 else r
  if r.take 1 == [cW] then do
    let r := r.drop 1
    let weekno ← parseDigits (r.take 2) 2
    let r := r.drop 2
    if r ≠ [] then
      if (r.take 1 == [cDash]) != hasSep then .error .ValueError else do   -- 'Inconsistent use of dash'
      let r := if hasSep then r.drop 1 else r
      let dayno ← parseDigits (r.take 1) 1
      let base ← calculateWeekdate year weekno dayno
      .ok (base, r.drop 1)
    else do
      let base ← calculateWeekdate year weekno 1
      .ok (base, r)
  else
    if r.length < 3 then .error .ValueError else do   -- 'Invalid ordinal day'
    let ordinalDay ← parseDigits (r.take 3) 3
    let r := r.drop 3
    if ordinalDay < 1 ∨ ordinalDay > 365 + (if Cal.isLeap year then 1 else 0) then .error .ValueError
    else do
      let jan1 ← mkDateOrd year 1 1
      let o ← ordChecked (jan1 + (ordinalDay - 1))
      .ok (Cal.fromOrdinal o, r)

/-- `_parse_isodate`: common, falling back to uncommon on ValueError -/
def parseIsodate (s : Bytes) : R ((Int × Int × Int) × Bytes) :=
  match parseIsodateCommon s with
  | .ok v => .ok v
  | .error .ValueError => parseIsodateUncommon s
  | .error e => .error e

/-- `_parse_tzstr(tzstr, zero_as_utc)` -/
def parseTzstr (s : Bytes) (zeroAsUtc : Bool := true) : R Off :=
  if s = [cZ] ∨ s = [cz] then .ok .utc
  else if ¬ (s.length = 3 ∨ s.length = 5 ∨ s.length = 6) then .error .ValueError
  else do
    let mult : Int ← (if s.take 1 = [cDash] then .ok (-1)
                      else if s.take 1 = [cPlus] then .ok 1
                      else .error .ValueError : R Int)
    let hours ← parseDigits ((s.drop 1).take 2) 2
    let minutes ← (if s.length = 3 then .ok 0
                   else parseDigits (s.drop (if (s.drop 3).take 1 = [cColon] then 4 else 3)) 2 : R Int)
    if zeroAsUtc ∧ hours = 0 ∧ minutes = 0 then .ok .utc
    else if minutes > 59 then .error .ValueError
    else if hours > 23 then .error .ValueError
    else .ok (.fixed (mult * (hours * 60 + minutes) * 60))

/-- the `components` list of `_parse_isotime` -/
structure TComps where
  h : Int := 0
  m : Int := 0
  s : Int := 0
  us : Int := 0
  tz : Option Off := none
  deriving DecidableEq, Repr, Inhabited

/-- `timestr[pos:pos+1] in b'-+Zz'` for `pos < len_str` -/
def isTzStart (r : Bytes) : Bool :=
  match r with
  | b :: _ => b == cDash || b == cPlus || b == cZ || b == cz
  | [] => true      -- `b'' in b'-+Zz'`; never reached, the loop runs only while pos < len_str

/-- `_FRACTION_REGEX.match(timestr[pos:])` = `[.,]([0-9]+)`: the digits of group(1) and the
    suffix after the whole match -/
def matchFraction (r : Bytes) : Option (Bytes × Bytes) :=
  match r with
  | b :: rest =>
    if b = cDot ∨ b = cComma then
      let ds := rest.takeWhile isDigit
      if ds = [] then none else some (ds, rest.drop ds.length)
    else none
  | [] => none

def setComp (c : TComps) (comp : Nat) (v : Int) : TComps :=
  if comp = 0 then { c with h := v } else if comp = 1 then { c with m := v }
  else if comp = 2 then { c with s := v } else { c with us := v }

/-- the separator bookkeeping at the top of one loop iteration: new suffix and `has_sep` -/
def sepStep (comp : Nat) (r : Bytes) (hasSep : Bool) : R (Bytes × Bool) :=
  if comp = 1 ∧ r.take 1 = [cColon] then .ok (r.drop 1, true)
  else if comp = 2 ∧ hasSep = true then
    (if r.take 1 ≠ [cColon] then .error .ValueError     -- 'Inconsistent use of colon separator'
     else .ok (r.drop 1, hasSep))
  else .ok (r, hasSep)

/-- the `while pos < len_str and comp < 5` loop, one list element per value `comp` takes after
    the increment (0,1,2,3,4,5) -/
def timeLoop : List Nat → Bytes → Bool → TComps → R (TComps × Bytes)
  | [], r, _, c => .ok (c, r)
  | comp :: ks, r, hasSep, c =>
    if r = [] then .ok (c, r) else
    if isTzStart r then
      if comp = 0 then .error .ValueError else     -- 'ISO time requires an hour'
      match parseTzstr r true with
      | .error e => .error e
      | .ok tz => .ok ({ c with tz := some tz }, [])       -- pos = len_str; break
    else
      match sepStep comp r hasSep with
      | .error e => .error e
      | .ok (r, hasSep) =>
        if comp < 3 then
          match parseDigits (r.take 2) 2 with
          | .error e => .error e
          | .ok v => timeLoop ks (r.drop 2) hasSep (setComp c comp v)
        else if comp = 3 then
          match matchFraction r with
          | none => timeLoop ks r hasSep c            -- `continue`
          | some (ds, rest) =>
            timeLoop ks rest hasSep
              (setComp c 3 ((digitsVal (ds.take 6) * 10 ^ (6 - (ds.take 6).length) : Nat) : Int))
        else timeLoop ks r hasSep c

/-- `_parse_isotime` -/
def parseIsotime (s : Bytes) : R TComps :=
  if s.length < 2 then .error .ValueError else       -- 'ISO time too short'
  match timeLoop [0, 1, 2, 3, 4, 5] s false {} with
  | .error e => .error e
  | .ok (c, rest) =>
    if rest ≠ [] then .error .ValueError             -- 'Unused components in ISO string'
    else if c.h = 24 ∧ (c.m ≠ 0 ∨ c.s ≠ 0 ∨ c.us ≠ 0) then .error .ValueError
    else .ok c

/-- the value returned by `isoparse`: naive fields + offset descriptor -/
abbrev Result := IsoT.Value

/-- `datetime(y, m, d, hh, mm, ss, us, tz)` -/
def mkDatetime (y m d hh mm ss us : Int) (tz : Option Off) : R Result :=
  let t : DT := { y, m, d, hh, mm, ss, us }
  if t.valid then .ok ⟨t, tz⟩ else .error .ValueError

/-- `isoparser.isoparse` after the ASCII gate; `sep = none` is "any single character" -/
def isoparse (sep : Option Nat) (s : Bytes) : R Result := do
  let ((y, m, d), r) ← parseIsodate s
  if r ≠ [] then
    if sep = none ∨ r.take 1 = sep.toList then do
      let c ← parseIsotime (r.drop 1)
      if c.h = 24 then do
        let v ← mkDatetime y m d 0 c.m c.s c.us c.tz
        let t ← overflowToValue (v.dt.addDays 1)     -- OverflowError at 9999-12-31 -> 'Date out of range'
        .ok ⟨t, c.tz⟩
      else mkDatetime y m d c.h c.m c.s c.us c.tz
    else .error .ValueError                          -- 'String contains unknown ISO components'
  else mkDatetime y m d 0 0 0 0 none

/-- `isoparser.parse_isodate` after the gate: a `date` -/
def parseIsodateEntry (s : Bytes) : R (Int × Int × Int) := do
  let ((y, m, d), r) ← parseIsodate s
  if r ≠ [] then .error .ValueError
  else if Cal.validDate y m d then .ok (y, m, d) else .error .ValueError

/-- `isoparser.parse_isotime` after the gate: a `time` (hour 24 becomes 0) -/
def parseIsotimeEntry (s : Bytes) : R TComps := do
  let c ← parseIsotime s
  let h := if c.h = 24 then 0 else c.h
  if 0 ≤ h ∧ h ≤ 23 ∧ 0 ≤ c.m ∧ c.m ≤ 59 ∧ 0 ≤ c.s ∧ c.s ≤ 59 ∧ 0 ≤ c.us ∧ c.us ≤ 999999
  then .ok { c with h := h } else .error .ValueError

/-- `_takes_ascii` for `str` input (given as its UTF-8 bytes: a str is ASCII iff every byte
    of its UTF-8 encoding is < 128, and then the encoding is the ASCII encoding) -/
def asciiGate {α} (isStr : Bool) (s : Bytes) (f : Bytes → R α) : R α :=
  if isStr ∧ s.any (fun b => decide (b ≥ 128)) then .error .ValueError else f s

/-- `isoparser.__init__(sep)`: `sep` as a list of code points; `none` = `sep=None` -/
def mkSep (sep : Option (List Nat)) : R (Option Nat) :=
  match sep with
  | none => .ok none
  | some [c] => if c ≥ 128 ∨ isDigit c then .error .ValueError else .ok (some c)
  | some _ => .error .ValueError

/-- `isoparser(sep).isoparse(x)` -/
def isoparseFull (sep : Option (List Nat)) (isStr : Bool) (s : Bytes) : R Result := do
  let sp ← mkSep sep
  asciiGate isStr s (isoparse sp)

/-- what a caller may pass to a `@_takes_ascii` method: text, bytes, or a stream whose `read()` returns one
    of them -/
inductive PyInput where
  | str (codepoints : List Nat)
  | bytes (bs : Bytes)
  | streamStr (codepoints : List Nat)
  | streamBytes (bs : Bytes)
  deriving DecidableEq, Repr

/-- `_takes_ascii`: read a stream, encode text as ASCII (ValueError on a non-ASCII character), pass bytes on -/
def takesAscii {α} (f : Bytes → R α) : PyInput → R α
  | .str cps | .streamStr cps => if cps.any (fun c => decide (c ≥ 128)) then .error .ValueError else f cps
  | .bytes bs | .streamBytes bs => f bs

end Iso
