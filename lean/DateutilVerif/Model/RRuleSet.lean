/-
  Model/RRuleSet.lean — `rruleset._iter` (rrule.py 1394-1424) and `_genitem` (1326-1358) over
  member streams that are finite sorted lists of integers, and add/iterate/query histories of a
  set object with its cache (the cached-iterator machine of Model/Cache.lean).

  The two heaps (`rlist`, `exlist`) are abstract priority queues: `heapq` is standard library
  and is trusted to keep *a* minimal item at index 0; which one among equal items is not
  specified, so the model takes the choice as a parameter `sel` and the theorems are proved for
  every admissible `sel` (Properties/C10.lean).  The driver uses `selFirstMin`.
-/
import DateutilVerif.Model.Cache

namespace RSet
open Queries

/-- `_genitem`: a member generator that has produced `dt` and will produce `rest` -/
structure Cursor where
  dt : Int
  rest : List Int
  deriving DecidableEq, Repr, Inhabited

/-- `_genitem.__init__`: a member that is already exhausted is not put on the list -/
def mkCursor : List Int → Option Cursor
  | [] => none
  | x :: xs => some ⟨x, xs⟩

/-- everything a cursor will still produce -/
def Cursor.elems (c : Cursor) : List Int := c.dt :: c.rest

/-- a priority-queue discipline: which minimal item is at index 0, and the others -/
abbrev Sel := List Cursor → Option (Cursor × List Cursor)

/-- the first item with the minimal `dt` -/
def selFirstMin : Sel
  | [] => none
  | c :: cs =>
    match selFirstMin cs with
    | none => some (c, [])
    | some (m, rest) => if c.dt ≤ m.dt then some (c, cs) else some (m, c :: rest)

/-- `advance_iterator(item)` on the top item (`_genitem.__next__`): next value, or removal from
    the heap when the member is exhausted (`heappop` branch; the top item is always the one
    advanced); then `heapreplace` restores the heap -/
def advanceTop (c : Cursor) (others : List Cursor) : List Cursor :=
  match c.rest with
  | [] => others
  | x :: xs => ⟨x, xs⟩ :: others

/-- lines 1412-1416: `while exlist and exlist[0] < ritem: advance exlist[0]` -/
def advanceEx (sel : Sel) (d : Int) : Nat → List Cursor → List Cursor
  | 0, ex => ex
  | fuel + 1, ex =>
    match sel ex with
    | none => ex
    | some (e, others) => if e.dt < d then advanceEx sel d fuel (advanceTop e others) else ex

/-- line 1417: `if not exlist or ritem != exlist[0]` -/
def emitTest (sel : Sel) (ex : List Cursor) (d : Int) : Bool :=
  match sel ex with
  | none => true
  | some (e, _) => decide (d ≠ e.dt)

/-- the main loop, lines 1409-1423; `last` is `lastdt` -/
def loop (sel : Sel) : Nat → List Cursor → List Cursor → Option Int → List Int
  | 0, _, _, _ => []
  | fuel + 1, rl, ex, last =>
    match sel rl with
    | none => []
    | some (ritem, others) =>
      if last ≠ some ritem.dt then                      -- `if not lastdt or lastdt != ritem.dt`
        let ex' := advanceEx sel ritem.dt ((ex.map (fun c => c.elems.length)).sum + 1) ex
        (if emitTest sel ex' ritem.dt then [ritem.dt] else []) ++ loop sel fuel (advanceTop ritem others) ex' (some ritem.dt)
      else loop sel fuel (advanceTop ritem others) ex last

def totalLen (l : List (List Int)) : Nat := (l.map List.length).sum

/-- `rruleset._iter()` over inclusion streams `inc` and exclusion streams `exc` (each sorted) -/
def iter (sel : Sel) (inc exc : List (List Int)) : List Int :=
  loop sel (totalLen inc + 1) (inc.filterMap mkCursor) (exc.filterMap mkCursor) none

/-! ### the set object and its histories -/

/-- insertion into a sorted list (what `self._rdate.sort()` amounts to) -/
def insertSorted (x : Int) : List Int → List Int
  | [] => [x]
  | y :: ys => if x ≤ y then x :: y :: ys else y :: insertSorted x ys

def sortList (l : List Int) : List Int := l.foldr insertSorted []

structure Members where
  rrules : List (List Int) := []
  rdates : List Int := []
  exrules : List (List Int) := []
  exdates : List Int := []
  deriving DecidableEq, Repr, Inhabited

/-- line 1396-1404: the rdate list (sorted) is the first inclusion stream, then the rrules -/
def Members.inc (m : Members) : List (List Int) := sortList m.rdates :: m.rrules
def Members.exc (m : Members) : List (List Int) := sortList m.exdates :: m.exrules

def Members.src (m : Members) : List Int := iter selFirstMin m.inc m.exc

inductive Op where
  | addRRule (l : List Int) | addRDate (d : Int) | addExRule (l : List Int) | addExDate (d : Int)
  | q (q : Query)        -- iterPartial k = `.take k`, iterFull = `.iterAll`, count, between, after, before, …
  | open_ (k : Nat)      -- `it = iter(s); list(islice(it, k))`, the iterator is KEPT
  | resume (j k : Nat)   -- `list(islice(it_j, k))` on the j-th kept iterator
  deriving DecidableEq, Repr, Inhabited

/-- a kept iterator.  Cached set: the generation (number of invalidations at creation) whose cache
    list / generator it is bound to, and its thread id in that generation's machine.  Uncached set:
    the sequence its `_iter()` generator was bound to at the first `next()`, position, finished flag. -/
structure Handle where
  gen : Nat := 0
  tid : Nat := 0
  usrc : Option (List Int) := none
  upos : Nat := 0
  udone : Bool := false
  deriving DecidableEq, Repr, Inhabited

/-- the set object.  `cur` is the machine of the current generation; `cur.sh` also carries the
    object's attributes `_cache_complete`, `_cache_gen is None`, `_cache_lock`, `_len` (for an
    uncached set only `cur.sh.src` and `cur.sh.len` are meaningful).  `old` are the invalidated
    generations, newest first: their cache lists and generators survive only through iterators
    created before the invalidation. -/
structure RSetState where
  m : Members := {}
  cacheOn : Bool
  cur : Cache.State
  old : List Cache.State := []
  handles : List Handle := []
  deriving Repr, Inhabited

def newState (cacheOn : Bool) : RSetState :=
  { cacheOn := cacheOn, cur := { sh := Cache.initShared [], its := [] } }

/-- `_invalidate_cache()` after every mutator: `self._cache = []`, `self._cache_gen = self._iter()`
    over the members as they are now, `_cache_complete = False`, lock released, `_len = None`.
    The previous list and generator stay reachable from iterators created earlier. -/
def invalidate (st : RSetState) (m : Members) : RSetState :=
  { st with m := m, old := st.cur :: st.old, cur := { sh := Cache.initShared m.src, its := [] } }

def threadFuel (sh : Cache.Shared) : Nat := 100 + 60 * (sh.src.length + 2)

/-- run thread `t` alone until it has finished -/
def runThread (s : Cache.State) (t : Cache.Tid) : Nat → Cache.State
  | 0 => s
  | fuel + 1 => match Cache.step s t with
    | none => s
    | some s' => runThread s' t fuel

def yieldedLen (s : Cache.State) (t : Cache.Tid) : Nat :=
  match s.its[t]? with | some it => it.yielded.length | none => 0

/-- one `next()` on thread `t`: run it until its consumer has received one more value (`some v`),
    or it has finished — StopIteration or an escaped exception (`none`) -/
def nextVal (s : Cache.State) (t : Cache.Tid) : Nat → Cache.State × Option Int
  | 0 => (s, none)
  | fuel + 1 => match Cache.step s t with
    | none => (s, none)
    | some s' =>
      if yieldedLen s t < yieldedLen s' t then
        (s', match s'.its[t]? with | some it => it.yielded.getLast? | none => none)
      else nextVal s' t fuel

/-- `list(islice(it, k))`: up to k calls of next(), stopping at the first StopIteration / exception -/
def takeVals (s : Cache.State) (t : Cache.Tid) : Nat → List Int → Cache.State × List Int
  | 0, acc => (s, acc)
  | k + 1, acc =>
    match nextVal s t (threadFuel s.sh) with
    | (s', some v) => takeVals s' t k (acc ++ [v])
    | (s', none) => (s', acc)

def isDone (s : Cache.State) (t : Cache.Tid) : Bool :=
  match s.its[t]? with | some it => it.pc == .done | none => true

/-- what `list(islice(it, k))` evaluates to: the values, or the exception that escaped the generator
    during THIS call (`s0` = state before; a generator that already finished just raises StopIteration) -/
def takeObs (s0 s : Cache.State) (t : Cache.Tid) (vals : List Int) : Res :=
  if isDone s0 t then .list vals else
  match s.its[t]? with
  | some it => match it.crash with | some e => .err e | none => .list vals
  | none => .list vals

/-- the statements of `__iter__` (and the thread start) -/
def inDispatch : Cache.PC → Bool
  | .start | .entry | .l106 | .l107 | .l108 | .l111 => true
  | _ => false

/-- `iter(self)`: `__iter__` (lines 106-111) runs now; the generator body does not -/
def runCreate (s : Cache.State) (t : Cache.Tid) : Nat → Cache.State
  | 0 => s
  | fuel + 1 =>
    match s.its[t]? with
    | none => s
    | some it =>
      if inDispatch it.pc then
        match Cache.step s t with
        | none => s
        | some s' => runCreate s' t fuel
      else s

/-- a query method executed to its end on a cached set -/
def runQuery (s : Cache.State) (q : Query) : Cache.State × Option Res :=
  let t := s.its.length
  let s' := runThread { s with its := s.its ++ [{ q := q }] } t (threadFuel s.sh)
  (s', match s'.its[t]? with | some it => it.res | none => none)

/-- a history of query methods on one cached object, each executed to its end -/
def runQueries (s : Cache.State) : List Query → List (Option Res)
  | [] => []
  | q :: qs => (runQuery s q).2 :: runQueries (runQuery s q).1 qs

/-- a query on an uncached set: `iter(self)` is `self._iter()`; `_len` is published when a generator runs to its end -/
def runUncached (sh : Cache.Shared) (q : Query) : Cache.Shared × Option Res :=
  match q with
  | .count =>                           -- `if self._len is None: for x in self: pass` ; `return self._len`
    match sh.len with
    | some n => (sh, some (.nat n))
    | none => ({ sh with len := some sh.src.length }, some (.nat sh.src.length))
  | q => (if stops q sh.src then sh else { sh with len := some sh.src.length }, some (gen q sh.src))

/-- `list(islice(it, k))` on a kept iterator of a cached set.  An iterator of an INVALIDATED generation (repaired code:
    `cache is self._cache` is false for it) goes on with ITS cache list and generator and neither trusts nor writes the
    object's `_cache_complete` / `_cache_gen`; its tail loop runs over its own list; the old `rruleset._iter` generator does
    not publish `_len` (`generation != self._generation`).  So it runs on the machine of its own generation (`old[pos]`,
    whose `complete` / `genNone` / `len` fields are then that generation's private ghosts: a second iterator of the same old
    generation that finds the old generator exhausted breaks out of the fill loop either way) and the object (`cur`) is untouched. -/
def resumeCached (st : RSetState) (j : Nat) (h : Handle) (k : Nat) : RSetState × Option Res :=
  let curGen := st.old.length
  if h.gen = curGen then
    let (s', vals) := takeVals st.cur h.tid k []
    ({ st with cur := s' }, some (takeObs st.cur s' h.tid vals))
  else
    let pos := curGen - 1 - h.gen
    match st.old[pos]? with
    | none => (st, none)
    | some o =>
      match o.its[h.tid]? with
      | none => (st, none)
      | some it =>
        if it.pc == .l125 then
          -- the generator body has not started (an unstarted generator object has no local state): its first
          -- statements read the CURRENT `_cache_gen` / `_cache` — it is a fresh iterator of the current generation
          let t := st.cur.its.length
          let s0 : Cache.State := { st.cur with its := st.cur.its ++ [{ q := .iterAll, pc := .l125 }] }
          let (s', vals) := takeVals s0 t k []
          ({ st with cur := s', handles := st.handles.set j { h with gen := curGen, tid := t } },
           some (takeObs s0 s' t vals))
        else
          let (o', vals) := takeVals o h.tid k []
          ({ st with old := st.old.set pos o' }, some (takeObs o o' h.tid vals))

/-- `list(islice(it, k))` on a kept `self._iter()` generator of an uncached set.  The generator binds the members (and
    `generation = self._generation`) at its first `next()`; running into its end it publishes `self._len = total` only if no
    member was added since (`generation == self._generation`, repaired code). -/
def resumeUncached (st : RSetState) (j : Nat) (h : Handle) (k : Nat) : RSetState × Option Res :=
  if k = 0 || h.udone then (st, some (.list []))
  else
    let src := h.usrc.getD st.cur.sh.src          -- bound at the first next()
    let gen := if h.usrc.isSome then h.gen else st.old.length
    let vals := (src.drop h.upos).take k
    let finished := decide (vals.length < k)         -- ran into the end: `if generation == self._generation: self._len = total`
    let h' : Handle := { h with gen := gen, usrc := some src, upos := h.upos + vals.length, udone := finished }
    let sh' := if finished && gen == st.old.length then { st.cur.sh with len := some src.length } else st.cur.sh
    ({ st with cur := { st.cur with sh := sh' }, handles := st.handles.set j h' }, some (.list vals))

def applyOp (st : RSetState) : Op → RSetState × Option Res
  | .addRRule l => (invalidate st { st.m with rrules := st.m.rrules ++ [l] }, none)
  | .addRDate d => (invalidate st { st.m with rdates := st.m.rdates ++ [d] }, none)
  | .addExRule l => (invalidate st { st.m with exrules := st.m.exrules ++ [l] }, none)
  | .addExDate d => (invalidate st { st.m with exdates := st.m.exdates ++ [d] }, none)
  | .q q =>
    if st.cacheOn then
      let (s', r) := runQuery st.cur q
      ({ st with cur := s' }, r)
    else
      let (sh', r) := runUncached st.cur.sh q
      ({ st with cur := { st.cur with sh := sh' } }, r)
  | .open_ k =>
    let j := st.handles.length
    if st.cacheOn then
      let t := st.cur.its.length
      let s1 := runCreate { st.cur with its := st.cur.its ++ [{ q := .iterAll }] } t 8
      let h : Handle := { gen := st.old.length, tid := t }
      resumeCached { st with cur := s1, handles := st.handles ++ [h] } j h k
    else
      let h : Handle := {}
      resumeUncached { st with handles := st.handles ++ [h] } j h k
  | .resume j k =>
    match st.handles[j]? with
    | none => (st, none)
    | some h => if st.cacheOn then resumeCached st j h k else resumeUncached st j h k

/-- run a history, collecting the observations -/
def runOps : RSetState → List Op → List (Option Res)
  | _, [] => []
  | st, op :: ops => let (st', r) := applyOp st op; r :: runOps st' ops

end RSet
