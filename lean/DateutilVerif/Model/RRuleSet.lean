/-
  Model/RRuleSet.lean — `rruleset._iter` (rrule.py 1394-1424) and `_genitem` (1326-1358) over
  member streams that are finite sorted lists of integers, and add/iterate/query histories of a
  set object with its cache (the cached-iterator machine of Model/Cache.lean).

  The two heaps (`rlist`, `exlist`) are abstract priority queues: `heapq` is standard library
  and is trusted to keep *a* minimal item at index 0; which one among equal items is not
  specified, so the model takes the choice as a parameter `sel` and the theorems are proved for
  every admissible `sel` (Properties/C10.lean).  The driver uses `selFirstMin`.
-/
import DateutilVerif.Model.Cache

namespace RSet
open Queries

/-- `_genitem`: a member generator that has produced `dt` and will produce `rest` -/
structure Cursor where
  dt : Int
  rest : List Int
  deriving DecidableEq, Repr, Inhabited

/-- `_genitem.__init__`: a member that is already exhausted is not put on the list -/
def mkCursor : List Int → Option Cursor
  | [] => none
  | x :: xs => some ⟨x, xs⟩

/-- everything a cursor will still produce -/
def Cursor.elems (c : Cursor) : List Int := c.dt :: c.rest

/-- a priority-queue discipline: which minimal item is at index 0, and the others -/
abbrev Sel := List Cursor → Option (Cursor × List Cursor)

/-- the first item with the minimal `dt` -/
def selFirstMin : Sel
  | [] => none
  | c :: cs =>
    match selFirstMin cs with
    | none => some (c, [])
    | some (m, rest) => if c.dt ≤ m.dt then some (c, cs) else some (m, c :: rest)

/-- `advance_iterator(item)` on the top item (`_genitem.__next__`): next value, or removal from
    the heap when the member is exhausted (`heappop` branch; the top item is always the one
    advanced); then `heapreplace` restores the heap -/
def advanceTop (c : Cursor) (others : List Cursor) : List Cursor :=
  match c.rest with
  | [] => others
  | x :: xs => ⟨x, xs⟩ :: others

/-- lines 1412-1416: `while exlist and exlist[0] < ritem: advance exlist[0]` -/
def advanceEx (sel : Sel) (d : Int) : Nat → List Cursor → List Cursor
  | 0, ex => ex
  | fuel + 1, ex =>
    match sel ex with
    | none => ex
    | some (e, others) => if e.dt < d then advanceEx sel d fuel (advanceTop e others) else ex

/-- line 1417: `if not exlist or ritem != exlist[0]` -/
def emitTest (sel : Sel) (ex : List Cursor) (d : Int) : Bool :=
  match sel ex with
  | none => true
  | some (e, _) => decide (d ≠ e.dt)

/-- the main loop, lines 1409-1423; `last` is `lastdt` -/
def loop (sel : Sel) : Nat → List Cursor → List Cursor → Option Int → List Int
  | 0, _, _, _ => []
  | fuel + 1, rl, ex, last =>
    match sel rl with
    | none => []
    | some (ritem, others) =>
      if last ≠ some ritem.dt then                      -- `if not lastdt or lastdt != ritem.dt`
        let ex' := advanceEx sel ritem.dt ((ex.map (fun c => c.elems.length)).sum + 1) ex
        (if emitTest sel ex' ritem.dt then [ritem.dt] else []) ++ loop sel fuel (advanceTop ritem others) ex' (some ritem.dt)
      else loop sel fuel (advanceTop ritem others) ex last

def totalLen (l : List (List Int)) : Nat := (l.map List.length).sum

/-- `rruleset._iter()` over inclusion streams `inc` and exclusion streams `exc` (each sorted) -/
def iter (sel : Sel) (inc exc : List (List Int)) : List Int :=
  loop sel (totalLen inc + 1) (inc.filterMap mkCursor) (exc.filterMap mkCursor) none

/-! ### the set object and its histories -/

/-- insertion into a sorted list (what `self._rdate.sort()` amounts to) -/
def insertSorted (x : Int) : List Int → List Int
  | [] => [x]
  | y :: ys => if x ≤ y then x :: y :: ys else y :: insertSorted x ys

def sortList (l : List Int) : List Int := l.foldr insertSorted []

structure Members where
  rrules : List (List Int) := []
  rdates : List Int := []
  exrules : List (List Int) := []
  exdates : List Int := []
  deriving DecidableEq, Repr, Inhabited

/-- line 1396-1404: the rdate list (sorted) is the first inclusion stream, then the rrules -/
def Members.inc (m : Members) : List (List Int) := sortList m.rdates :: m.rrules
def Members.exc (m : Members) : List (List Int) := sortList m.exdates :: m.exrules

def Members.src (m : Members) : List Int := iter selFirstMin m.inc m.exc

inductive Op where
  | addRRule (l : List Int) | addRDate (d : Int) | addExRule (l : List Int) | addExDate (d : Int)
  | q (q : Query)        -- iterPartial k = `.take k`, iterFull = `.iterAll`, count, between, after, before, …
  deriving DecidableEq, Repr, Inhabited

structure RSetState where
  m : Members := {}
  cacheOn : Bool
  sh : Cache.Shared       -- the cache of the set object (meaningful when `cacheOn`); `sh.len` is `_len` in both modes
  deriving Repr, Inhabited

def newState (cacheOn : Bool) : RSetState := { cacheOn := cacheOn, sh := Cache.initShared [] }

/-- `_invalidate_cache()` after every mutator: empty cache, fresh generator over the members as they are now, `_len = None` -/
def invalidate (st : RSetState) (m : Members) : RSetState :=
  { st with m := m, sh := Cache.initShared m.src }

/-- run one consumer alone to completion on the machine -/
def soloRun (s : Cache.State) : Nat → Cache.State
  | 0 => s
  | fuel + 1 => match Cache.step s 0 with
    | none => s
    | some s' => soloRun s' fuel

def soloFuel (sh : Cache.Shared) : Nat := 100 + 60 * (sh.src.length + 2)

def runQuery (sh : Cache.Shared) (q : Query) : Cache.Shared × Option Res :=
  let s := soloRun { sh := sh, its := [{ q := q }] } (soloFuel sh)
  (s.sh, match s.its[0]? with | some it => it.res | none => none)

/-- a query on an uncached set: `iter(self)` is `self._iter()`; `_len` is published when a generator runs to its end -/
def runUncached (sh : Cache.Shared) (q : Query) : Cache.Shared × Option Res :=
  let src := sh.src
  let known := match q with | .count => sh.len.isSome | _ => false
  if known then (sh, some (Cache.answer sh .count []))
  else
    let r := match q with | .count => Res.nat src.length | _ => gen q src
    (if stops q src then sh else { sh with len := some src.length }, some r)

def applyOp (st : RSetState) : Op → RSetState × Option Res
  | .addRRule l => (invalidate st { st.m with rrules := st.m.rrules ++ [l] }, none)
  | .addRDate d => (invalidate st { st.m with rdates := st.m.rdates ++ [d] }, none)
  | .addExRule l => (invalidate st { st.m with exrules := st.m.exrules ++ [l] }, none)
  | .addExDate d => (invalidate st { st.m with exdates := st.m.exdates ++ [d] }, none)
  | .q q =>
    let (sh', r) := if st.cacheOn then runQuery st.sh q else runUncached st.sh q
    ({ st with sh := sh' }, r)

/-- run a history, collecting the observations -/
def runOps : RSetState → List Op → List (Option Res)
  | _, [] => []
  | st, op :: ops => let (st', r) := applyOp st op; r :: runOps st' ops

end RSet
