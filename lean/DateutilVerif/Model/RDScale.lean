/-
  Model/RDScale.lean — the part of `relativedelta`'s float-facing operators that is EXACT on integer-valued fields:

  * `mulDyadic self m k` — `self * f` / `f * self` for the float (or int) `f = m / 2^k`: every relative field becomes
    `int(field * f)` = the quotient `field·m / 2^k` truncated toward zero, then the constructor (`_fix`).
    (Integers are `k = 0`; `0.5`, `1.5`, `0.25` … are dyadic.)
  * `divPow2 self neg k`  — `self / (±2^k)` = `self * (±1 / 2^k)` (`__div__` / `__truediv__`: the reciprocal is exact).
  * `normalizedInt self`  — `self.normalized()` on integer-valued fields: nothing to cascade, the constructor on the same fields.

  Exactness of the float arithmetic needs `|field·m| < 2^53` (`RDPy.Dy`); fractional fields, other factors and
  `normalized()` of float fields stay executable-only (C16's oracle).  No Mathlib import.
-/
import DateutilVerif.Model.RDPy
import DateutilVerif.Generated.RDKernels

namespace RDM

/-- `int(field * (m / 2^k))` -/
def scaleField (a m : Int) (k : Nat) : Int := RDPy.tquot (a * m) (2 ^ k)

/-- `self * (m / 2^k)` (lines 495-516 with an exact float factor) -/
def mulDyadic (self : RD) (m : Int) (k : Nat) : RD :=
  Gen.fix { self with
    years := scaleField self.years m k, months := scaleField self.months m k, days := scaleField self.days m k,
    hours := scaleField self.hours m k, minutes := scaleField self.minutes m k,
    seconds := scaleField self.seconds m k, microseconds := scaleField self.microseconds m k, hasTime := 0 }

/-- `self / (±2^k)` (lines 574-580) -/
def divPow2 (self : RD) (neg : Bool) (k : Nat) : RD := mulDyadic self (if neg then -1 else 1) k

/-- `self.normalized()` on integer-valued fields (lines 282-315) -/
def normalizedInt (self : RD) : RD := Gen.fix { self with hasTime := 0 }

end RDM
