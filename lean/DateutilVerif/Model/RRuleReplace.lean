/-
  Model/RRuleReplace.lean — `rrule.replace(**kwargs)` (rrule.py 769-781) at the argument level:

      new_kwargs = {"interval", "count", "dtstart", "freq", "until", "wkst", "cache"}   # scalar attributes
      new_kwargs.update(self._original_rule)                                            # the BY parts as recorded
      new_kwargs.update(kwargs)                                                         # the named parameters
      return rrule(**new_kwargs)

  `orig` below stands for the first two lines (the recorded arguments of the rule); C01's branch
  defines it from the constructor model as `origArgs a (construct a)` — not on main yet, so here the
  harness reads it off the real object.  `merge` is `dict.update(kwargs)`; the result is the
  constructor (C01's `RRule.construct`) applied to the merged arguments.
-/
import DateutilVerif.Model.RRule

namespace RRule

/-- `**kwargs`: for every constructor keyword, absent (`none`) or the value passed (which may itself be `None`) -/
structure Kw where
  freq : Option Int := none
  dtstart : Option DT := none
  tz : Option Int := none                -- travels with `dtstart` (its tzinfo tag)
  interval : Option Int := none
  wkst : Option (Option Int) := none
  count : Option (Option Int) := none
  untilDT : Option (Option DT) := none
  bysetpos : Option (Option (List Int)) := none
  bymonth : Option (Option (List Int)) := none
  bymonthday : Option (Option (List Int)) := none
  byyearday : Option (Option (List Int)) := none
  byeaster : Option (Option (List Int)) := none
  byweekno : Option (Option (List Int)) := none
  byweekday : Option (Option (List (Int × Int))) := none
  byhour : Option (Option (List Int)) := none
  byminute : Option (Option (List Int)) := none
  bysecond : Option (Option (List Int)) := none
  deriving Repr, DecidableEq, Inhabited

/-- `new_kwargs.update(kwargs)` -/
def merge (o : Args) (kw : Kw) : Args :=
  { freq := kw.freq.getD o.freq, dtstart := kw.dtstart.getD o.dtstart, tz := kw.tz.getD o.tz,
    interval := kw.interval.getD o.interval, wkst := kw.wkst.getD o.wkst, count := kw.count.getD o.count,
    untilDT := kw.untilDT.getD o.untilDT, bysetpos := kw.bysetpos.getD o.bysetpos,
    bymonth := kw.bymonth.getD o.bymonth, bymonthday := kw.bymonthday.getD o.bymonthday,
    byyearday := kw.byyearday.getD o.byyearday, byeaster := kw.byeaster.getD o.byeaster,
    byweekno := kw.byweekno.getD o.byweekno, byweekday := kw.byweekday.getD o.byweekday,
    byhour := kw.byhour.getD o.byhour, byminute := kw.byminute.getD o.byminute,
    bysecond := kw.bysecond.getD o.bysecond }

/-- `r.replace(**kw)` for a rule whose recorded arguments are `orig` -/
def replaceFrom (orig : Args) (kw : Kw) : Py.R Rule :=
  construct (merge orig kw)

end RRule
