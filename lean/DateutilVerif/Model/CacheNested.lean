/-
  Model/CacheNested.lean — NESTED cached objects (C11): cached recurrence sets whose member rules
  are themselves cached, each object with its OWN `_cache_lock`.

  A cached set's generator (`rruleset._iter`, run by `next(gen)` on line 138 of the set's
  `_iter_cached`, i.e. while the SET's lock is held) owns one iterator per member rule
  (`iter(x)` → the member's `__iter__` / `_iter_cached`) and advances them with `next()` as the
  heap merge requires.  So line 138 of a set is not atomic any more: it is a sequence of *pulls*
  on member iterators, each of which runs statements of the MEMBER's `_iter_cached` — including
  `acquire()` of the member's lock — and only then has the effect of the flat machine
  (append the next merged value / publish `_len` and raise StopIteration).

  * every object is a flat machine `Cache.State` (Model/Cache.lean); a set's `sh.src` is the merged
    sequence (ghost), a member's is what its rule yields;
  * `plan[p]` lists the pulls performed during the p-th `next(gen)` of the set; it is computed
    from the member sequences by `planOf`, a transcription of `rruleset._iter` that records every
    `iter(x)` (`create`) and `advance_iterator(item)` (`next`) on a cached member (the values an
    iterator yields do not depend on the schedule — C11 `safety`).  The theorems hold for ANY plan;
  * lock order is parent → child only: a thread inside a member's critical section runs the
    member's own generator, which takes no lock.

  `shared = true` is the variant in which ALL objects use ONE non-re-entrant lock (a class-level
  `_cache_lock`): the set's fill then dead-locks on its own member (Properties/C11.lean).
-/
import DateutilVerif.Model.Cache
import DateutilVerif.Model.RRuleSet

namespace Nested
open Cache Queries

/-- a member of a set: a plain sorted stream (the dates, an uncached rule) or the cached member rule number m -/
inductive Slot where
  | plain (vals : List Int)
  | cached (m : Nat)
  deriving DecidableEq, Repr, Inhabited

/-- a pull on the k-th member iterator owned by a set's generator -/
inductive Pull where
  | create (k : Nat)     -- `iter(x)`: the member's `__iter__` (lines 106-111)
  | next (k : Nat)       -- `advance_iterator(item)`: the member's `_iter_cached` up to its next yield / end
  deriving DecidableEq, Repr, Inhabited

/-! ### `rruleset._iter` as a producer of pull / yield events -/

structure Cur where
  dt : Int
  rest : List Int
  sub : Option Nat       -- index of the owned member iterator, for a cached member
  deriving DecidableEq, Repr, Inhabited

inductive Ev where
  | pull (p : Pull)
  | yield_ (v : Int)
  deriving DecidableEq, Repr, Inhabited

def pullEv : Option Nat → List Ev
  | some k => [.pull (.next k)]
  | none => []

/-- the cursor with the minimal `dt` (first one on ties) and the others -/
def selMin : List Cur → Option (Cur × List Cur)
  | [] => none
  | c :: cs =>
    match selMin cs with
    | none => some (c, [])
    | some (m, rest) => if c.dt ≤ m.dt then some (c, cs) else some (m, c :: rest)

def advCur (c : Cur) (others : List Cur) : List Cur :=
  match c.rest with
  | [] => others
  | x :: xs => { c with dt := x, rest := xs } :: others

def advEx (d : Int) : Nat → List Cur → List Ev → List Cur × List Ev
  | 0, ex, evs => (ex, evs)
  | fuel + 1, ex, evs =>
    match selMin ex with
    | none => (ex, evs)
    | some (e, others) => if e.dt < d then advEx d fuel (advCur e others) (evs ++ pullEv e.sub) else (ex, evs)

def mergeEvs : Nat → List Cur → List Cur → Option Int → List Ev
  | 0, _, _, _ => []
  | fuel + 1, rl, ex, last =>
    match selMin rl with
    | none => []
    | some (r, others) =>
      if last ≠ some r.dt then
        let (ex', evs) := advEx r.dt (fuel + 1) ex []
        let emit := match selMin ex' with | none => true | some (e, _) => decide (r.dt ≠ e.dt)
        evs ++ (if emit then [.yield_ r.dt] else []) ++ pullEv r.sub ++ mergeEvs fuel (advCur r others) ex' (some r.dt)
      else pullEv r.sub ++ mergeEvs fuel (advCur r others) ex last

/-- member streams with the owned-iterator index of the cached ones (numbered inc first, then exc) -/
def numberSlots (srcOf : Nat → List Int) (start : Nat) : List Slot → Nat → List (List Int × Option Nat)
  | [], _ => []
  | .plain v :: rest, k => (v, none) :: numberSlots srcOf start rest k
  | .cached m :: rest, k => (srcOf m, some (start + k)) :: numberSlots srcOf start rest (k + 1)

/-- `_genitem(list, gen)`: the first `next()`; an exhausted member is not put on the list -/
def initCurs : List (List Int × Option Nat) → List Cur × List Ev
  | [] => ([], [])
  | (vals, sub) :: rest =>
    let (cs, evs) := initCurs rest
    (match vals with | [] => cs | x :: xs => ⟨x, xs, sub⟩ :: cs, pullEv sub ++ evs)

def createEvs (l : List (List Int × Option Nat)) : List Ev :=
  l.filterMap (fun p => p.2.map (fun k => Ev.pull (.create k)))

/-- all events of one run of the generator -/
def genEvs (inc exc : List (List Int × Option Nat)) : List Ev :=
  let (rl, e1) := initCurs inc
  let (ex, e2) := initCurs exc
  let total := (inc.map (fun p => p.1.length)).sum + (exc.map (fun p => p.1.length)).sum
  createEvs inc ++ e1 ++ createEvs exc ++ e2 ++ mergeEvs (total + 1) rl ex none

/-- split into the calls of `next(gen)`: each call ends at a yield; the last one ends in StopIteration -/
def splitCalls : List Ev → List Pull → List (List Pull) × List Int
  | [], cur => ([cur], [])
  | .pull p :: rest, cur => splitCalls rest (cur ++ [p])
  | .yield_ v :: rest, cur => let (cs, vs) := splitCalls rest []; (cur :: cs, v :: vs)

/-- the plan and the merged sequence of a set with the given members -/
def planOf (srcOf : Nat → List Int) (inc exc : List Slot) : List (List Pull) × List Int :=
  let incN := numberSlots srcOf 0 inc 0
  let nInc := (incN.filter (fun p => p.2.isSome)).length
  splitCalls (genEvs incN (numberSlots srcOf nInc exc 0)) []

/-- which member rule the k-th owned iterator of a set iterates -/
def subMembers (inc exc : List Slot) : List Nat :=
  (inc ++ exc).filterMap (fun s => match s with | .cached m => some m | .plain _ => none)

/-! ### the nested machine -/

structure SetM where
  st : Cache.State              -- the set's own flat machine
  plan : List (List Pull)
  subs : List (Nat × Tid)       -- owned iterator k ↦ (member number, thread id in that member's machine)
  pulls : List Pull := []       -- what is left of the `next(gen)` in progress (the thread on line 138)
  deriving Repr, Inhabited

structure NState where
  members : List Cache.State
  sets : List SetM
  shared : Bool := false        -- ONE lock for all objects (the class-level `_cache_lock` variant)
  deriving Repr, Inhabited

/-- runners: (object, thread); objects are the members 0..k-1 followed by the sets -/
abbrev Runner := Nat × Tid

def pcOf (s : Cache.State) (t : Tid) : PC := match s.its[t]? with | some it => it.pc | none => .done

def subDone (ns : NState) (S : SetM) (k : Nat) : Bool :=
  match S.subs[k]? with
  | some (m, tid) => (match ns.members[m]? with | some M => pcOf M tid == .done | none => true)
  | none => true

def pullIdx : Pull → Nat
  | .create k => k
  | .next k => k

/-- the pull would run a statement of the member: a `next()` on an iterator that has not finished, an `iter(x)`
    whose `__iter__` has not run yet -/
def pullLive (ns : NState) (S : SetM) (p : Pull) : Bool :=
  match S.subs[pullIdx p]? with
  | some (m, tid) =>
    (match ns.members[m]? with
     | some M => (match p with
                  | .next _ => !(pcOf M tid == .done)
                  | .create _ => RSet.inDispatch (pcOf M tid))
     | none => false)
  | none => false

/-- pulls that run no statement of the member (a `next()` on a finished iterator returns at once) are skipped -/
def normPulls (ns : NState) (S : SetM) : List Pull → List Pull
  | [] => []
  | p :: rest => if pullLive ns S p then p :: rest else normPulls ns S rest

/-- the pull is complete after this statement of the member: `iter(x)` has returned / the iterator has yielded or ended -/
def pullFin (p : Pull) (M M' : Cache.State) (tid : Tid) : Bool :=
  match p with
  | .create _ => !(RSet.inDispatch (pcOf M' tid))
  | .next _ => decide (RSet.yieldedLen M tid < RSet.yieldedLen M' tid) || pcOf M' tid == .done

/-- the single lock of the `shared` variant: held iff some object's lock field is set -/
def anyLock (ns : NState) : Bool :=
  ns.members.any (fun M => M.sh.lock.isSome) || ns.sets.any (fun S => S.st.sh.lock.isSome)

/-- a flat step of thread t of machine M, under the locking regime -/
def lockStep (ns : NState) (M : Cache.State) (t : Tid) : Option Cache.State :=
  if ns.shared && pcOf M t == .l132 && anyLock ns then none else Cache.step M t

def memberStep (ns : NState) (m : Nat) (t : Tid) : Option (NState × PC) :=
  match ns.members[m]? with
  | none => none
  | some M =>
    match lockStep ns M t with
    | none => none
    | some M' => some ({ ns with members := ns.members.set m M' }, pcOf M' t)

def setStep (ns : NState) (si : Nat) (t : Tid) : Option (NState × PC) :=
  match ns.sets[si]? with
  | none => none
  | some S =>
    if pcOf S.st t == .l138 && !S.pulls.isEmpty then
      match S.pulls with
      | [] => none
      | p :: rest =>
        match S.subs[pullIdx p]? with
        | none => none
        | some (m, tid) =>
          match ns.members[m]? with
          | none => none
          | some M =>
            match lockStep ns M tid with
            | none => none
            | some M' =>
              let fin : Bool := pullFin p M M' tid
              let ns1 : NState := { ns with members := ns.members.set m M' }
              let pulls' := if fin then normPulls ns1 S rest else p :: rest
              some ({ ns1 with sets := ns.sets.set si { S with pulls := pulls' } }, pcOf M' tid)
    else
      match lockStep ns S.st t with
      | none => none
      | some st' =>
        let pc' := pcOf st' t
        let S1 : SetM := { S with st := st' }
        let S2 := if pc' == .l138 then { S1 with pulls := normPulls ns S1 (S.plan.getD st'.sh.genPos []) } else S1
        some ({ ns with sets := ns.sets.set si S2 }, pc')

def step (ns : NState) (r : Runner) : Option (NState × PC) :=
  if r.1 < ns.members.length then memberStep ns r.1 r.2 else setStep ns (r.1 - ns.members.length) r.2

def finished (ns : NState) (r : Runner) : Bool :=
  if r.1 < ns.members.length then
    (match ns.members[r.1]? with | some M => pcOf M r.2 == .done | none => true)
  else (match ns.sets[r.1 - ns.members.length]? with | some S => pcOf S.st r.2 == .done | none => true)

/-- a member iterator owned by a set's generator: `iter(x)` has not run yet -/
def subIter : Cache.Iter := { q := .iterAll, pc := .l106 }

/-- append one owned iterator per cached member slot to the member machines; owned iterator k ↦ (member, thread id) -/
def addSubs : List Cache.State → List Nat → List Cache.State × List (Nat × Tid)
  | ms, [] => (ms, [])
  | ms, m :: rest =>
    match ms[m]? with
    | none => addSubs ms rest
    | some M =>
      let r := addSubs (ms.set m { M with its := M.its ++ [subIter] }) rest
      (r.1, (m, M.its.length) :: r.2)

/-- the sets, one after the other (set number `si` is object `nM + si`) -/
def addSets (srcOf : Nat → List Int) (direct : Nat → List Query) (nM : Nat) :
    List Cache.State → Nat → List (List Slot × List Slot) → List Cache.State × List SetM
  | ms, _, [] => (ms, [])
  | ms, si, d :: rest =>
    let pm := planOf srcOf d.1 d.2
    let a := addSubs ms (subMembers d.1 d.2)
    let r := addSets srcOf direct nM a.1 (si + 1) rest
    (r.1, { st := Cache.init pm.2 (direct (nM + si)), plan := pm.1, subs := a.2 } :: r.2)

/-- build: member rules (their sequences), sets over them, and the runners' consumers -/
def init (memberSrcs : List (List Int)) (setDefs : List (List Slot × List Slot)) (qs : List (Nat × Query))
    (shared : Bool := false) : NState × List Runner :=
  let nM := memberSrcs.length
  let srcOf := fun m => memberSrcs.getD m []
  -- direct runners first, in the order given
  let direct (obj : Nat) : List Query := (qs.filter (fun p => p.1 == obj)).map (·.2)
  let members0 : List Cache.State := (List.range nM).map (fun m => Cache.init (srcOf m) (direct m))
  -- owned iterators: appended to the member machines, set by set
  let r := addSets srcOf direct nM members0 0 setDefs
  -- runner ids: for each query in order, its thread index among the direct threads of its object
  let runners := (List.range qs.length).map (fun i =>
    let obj := (qs.getD i (0, .iterAll)).1
    (obj, ((qs.take i).filter (fun p => p.1 == obj)).length))
  ({ members := r.1, sets := r.2, shared := shared }, runners)

/-- some runner is unfinished and none can move -/
def deadlocked (ns : NState) (rs : List Runner) : Bool :=
  rs.any (fun r => !finished ns r) && rs.all (fun r => (step ns r).isNone)

def run (ns : NState) (rs : List Runner) : List Nat → NState
  | [] => ns
  | i :: rest =>
    match rs[i]? with
    | none => run ns rs rest
    | some r => run (match step ns r with | some (ns', _) => ns' | none => ns) rs rest

end Nested
