/-
  Model/Lexer.lean — `_timelex` of `parser/_parser.py`, state by state.

  `get_token` reads one character at a time (from `charstack` first, then from the stream,
  skipping NUL characters read from the stream), runs the five-state machine
  `None / 'a' / '0' / 'a.' / '0.'`, and when a character does not fit pushes it back on
  `charstack` and emits the token, after the `[.,]` re-split (extra pieces go to `tokenstack`
  and are returned by the next calls before any further character is read) and the
  comma→dot rewrite.  `list(_timelex(s))` is therefore the concatenation, in order, of what
  each `get_token` call emits; the model below is that concatenation, by STRUCTURAL recursion
  on the input (one machine step per character; the pushed-back character is re-dispatched as
  the first character of the next token inside the same step, which is exactly what the next
  `get_token` call does with `charstack.pop(0)`).  Termination is thus a fact of the definition.

  Character classes are a parameter: `cls c` says what Python's `str.isalpha / isdigit /
  isdecimal (+ digit value) / isspace` answer for `c`.  No Mathlib.
-/
import DateutilVerif.Base.Py

namespace PM

/-- what the parser ever asks about a character -/
inductive CClass where
  | alpha                 -- `c.isalpha()`
  | decDigit (v : Nat)    -- `c.isdigit()` and `c.isdecimal()`, digit value `v` (accepted by int/float/Decimal)
  | otherDigit            -- `c.isdigit()` but not decimal (superscripts, circled digits …): rejected by int/float/Decimal
  | space                 -- `c.isspace()`
  | other
  deriving DecidableEq, Repr, Inhabited

abbrev Token := List Char

def CClass.isWord : CClass → Bool
  | .alpha => true
  | _ => false
def CClass.isNum : CClass → Bool
  | .decDigit _ => true
  | .otherDigit => true
  | _ => false
def CClass.isSpace : CClass → Bool
  | .space => true
  | _ => false

/-- Python's classes of the ASCII characters (the driver uses them for characters that are
    not in the request, e.g. the `'0'` padding of `_parsems`; theorems about renderings assume `cls`
    agrees with them on ASCII) -/
def asciiCls (c : Char) : CClass :=
  if ('a' ≤ c ∧ c ≤ 'z') ∨ ('A' ≤ c ∧ c ≤ 'Z') then .alpha
  else if '0' ≤ c ∧ c ≤ '9' then .decDigit (c.toNat - '0'.toNat)
  else if c = ' ' ∨ (9 ≤ c.toNat ∧ c.toNat ≤ 13) ∨ (28 ≤ c.toNat ∧ c.toNat ≤ 31) then .space
  else .other

/-- the `state` variable of `get_token` -/
inductive LState where
  | none | a | n | aDot | nDot      -- None, 'a', '0', 'a.', '0.'
  deriving DecidableEq, Repr, Inhabited, BEq

/-- the locals of one `get_token` call; `tok` is `token` REVERSED (so `token[-1]` is the head) -/
structure LexSt where
  state : LState := .none
  tok : List Char := []
  seen : Bool := false          -- `seenletters`
  deriving DecidableEq, Repr, Inhabited

def LexSt.init : LexSt := {}

/-- `re.compile("([.,])").split(token)`: pieces and separators alternate, empty pieces kept -/
def splitDecimal : List Char → List (List Char)
  | [] => [[]]
  | c :: cs =>
    if c = '.' ∨ c = ',' then [] :: [c] :: splitDecimal cs
    else match splitDecimal cs with
      | [] => [[c]]                 -- unreachable: the result is never empty
      | p :: ps => (c :: p) :: ps

def countDot (t : List Char) : Nat := t.count '.'

/-- `token[-1] in '.,'` (`tok` is the token reversed) -/
def lastIsSep (tok : List Char) : Bool :=
  match tok with
  | c :: _ => c == '.' || c == ','
  | [] => false

/-- `l = _split_decimal.split(token); token = l[0]; tokenstack += [tok for tok in l[1:] if tok]` -/
def resplit (token : List Char) : List Token :=
  match splitDecimal token with
  | [] => []
  | t0 :: rest => t0 :: rest.filter (fun t => !t.isEmpty)

/-- the code after the `while` loop: re-split, comma→dot, and what goes out (token, then the
    non-empty pieces queued on `tokenstack`); after a re-split `token.replace(',', '.')` is a no-op -/
def emit (st : LexSt) : List Token :=
  if (st.state == .aDot || st.state == .nDot) &&
      (st.seen || decide (countDot st.tok.reverse > 1) || lastIsSep st.tok) then
    resplit st.tok.reverse
  else if st.state == .nDot && countDot st.tok.reverse == 0 then
    [st.tok.reverse.map (fun c => if c = ',' then '.' else c)]
  else [st.tok.reverse]

/-- `elif not state:` — the first character of a token.  Returns the tokens emitted at once
    (space / single other character) and the state the machine is left in. -/
def start (cls : Char → CClass) (c : Char) : List Token × LexSt :=
  if (cls c).isWord then ([], { state := .a, tok := [c], seen := false })
  else if (cls c).isNum then ([], { state := .n, tok := [c], seen := false })
  else if (cls c).isSpace then ([[' ']], .init)
  else ([[c]], .init)

/-- push the character back, emit the current token; the next `get_token` call then starts
    a token with that character -/
def pushBack (cls : Char → CClass) (st : LexSt) (c : Char) : List Token × LexSt :=
  let (out, st') := start cls c
  (emit st ++ out, st')

/-- one character through the machine -/
def step (cls : Char → CClass) (st : LexSt) (c : Char) : List Token × LexSt :=
  if c = '\x00' then ([], st)          -- `while nextchar == '\x00': nextchar = read(1)`
  else match st.state with
  | .none => start cls c
  | .a =>
    let st := { st with seen := true }
    if (cls c).isWord then ([], { st with tok := c :: st.tok })
    else if c = '.' then ([], { st with tok := c :: st.tok, state := .aDot })
    else pushBack cls st c
  | .n =>
    if (cls c).isNum then ([], { st with tok := c :: st.tok })
    else if c = '.' ∨ (c = ',' ∧ st.tok.length ≥ 2) then ([], { st with tok := c :: st.tok, state := .nDot })
    else pushBack cls st c
  | .aDot =>
    let st := { st with seen := true }
    if c = '.' ∨ (cls c).isWord then ([], { st with tok := c :: st.tok })
    else if (cls c).isNum ∧ st.tok.head? = some '.' then ([], { st with tok := c :: st.tok, state := .nDot })
    else pushBack cls st c
  | .nDot =>
    if c = '.' ∨ (cls c).isNum then ([], { st with tok := c :: st.tok })
    else if (cls c).isWord ∧ st.tok.head? = some '.' then ([], { st with tok := c :: st.tok, state := .aDot })
    else pushBack cls st c

/-- end of input: the pending token, if any (`token is None` ⇒ `StopIteration`) -/
def flush (st : LexSt) : List Token :=
  match st.state with
  | .none => []
  | _ => emit st

/-- the machine over the rest of the input -/
def scan (cls : Char → CClass) (st : LexSt) : List Char → List Token
  | [] => flush st
  | c :: cs => (step cls st c).1 ++ scan cls (step cls st c).2 cs

/-- `_timelex.split(s)` -/
def lex (cls : Char → CClass) (s : List Char) : List Token := scan cls .init s

end PM
