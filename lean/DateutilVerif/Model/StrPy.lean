/-
  Model/StrPy.lean — the Python fragment the "StrPy" translator (`harness/translate_str.py`) targets: ASCII `str`
  values (`List Char`), lists of them with index read / write / delete, and the three-shape regular expressions
  `_rrulestr._parse_rfc` uses (`re.sub(pat, '', s)`, `re.findall(pat, s, re.IGNORECASE)`).

  Regular expressions are a sequence of `ReItem`s matched DETERMINISTICALLY (no backtracking).  The translator only
  emits an item list for a pattern on which Python's backtracking matcher cannot find anything else:
    * `opt c` (`c?`) must be followed by an item that cannot match `c`;
    * `plusNot cs` (`[^cs]+`, greedy) must be followed by `oneOf cs'` with `cs' ⊆ cs` (giving characters back can never
      make the follower match) and be the only capturing group.
  Any other pattern is `Untranslatable`.  The semantics below are validated against Python's `re` on every run
  (ops `rrsgen.*`, `harness/props/c13.py`).  No Mathlib import.
-/
import DateutilVerif.Model.ICal

namespace StrPy

abbrev Str := List Char

/-- `l[i]` -/
def getL {α} (l : List α) (i : Int) : Py.R α := Py.getIdx l i

/-- the position Python resolves index `i` to, or IndexError -/
def pos {α} (l : List α) (i : Int) : Py.R Nat :=
  let n : Int := l.length
  let j := if i < 0 then i + n else i
  if j < 0 ∨ j ≥ n then .error .IndexError else .ok j.toNat

/-- `del l[i]` -/
def delL {α} (l : List α) (i : Int) : Py.R (List α) :=
  match pos l i with
  | .ok k => .ok (l.eraseIdx k)
  | .error e => .error e

/-- `l[i] = v` -/
def setL {α} (l : List α) (i : Int) (v : α) : Py.R (List α) :=
  match pos l i with
  | .ok k => .ok (l.set k v)
  | .error e => .error e

/-- `s[k:]` for a literal `k ≥ 0` -/
def sliceFrom {α} (s : List α) (k : Nat) : List α := s.drop k

/-- `s.startswith(p)` -/
def startsWith (s p : Str) : Bool := s.take p.length == p

/-- `s.split(sep)[-1]` for a non-empty separator: the text after the LAST occurrence of `sep` (all of `s` when there is none);
    `best` = the answer so far -/
def afterLastAux (sep : Str) : Nat → Str → Str → Str
  | 0, _, best => best
  | _, [], best => best
  | fuel + 1, c :: r, best =>
    if startsWith (c :: r) sep then afterLastAux sep fuel ((c :: r).drop sep.length) ((c :: r).drop sep.length)
    else afterLastAux sep fuel r best

def afterLast (sep s : Str) : Str := afterLastAux sep (s.length + 1) s s

/-- the value of `i` after `for i in range(len(s)): if not p(s[i]): break` on a NON-EMPTY `s` (second argument: the index reached):
    the first index whose character fails `p`, or `len(s) - 1` when none does -/
def forBreakIdx (p : Char → Bool) : List Char → Nat → Nat
  | [], i => i - 1
  | c :: cs, i => if p c then forBreakIdx p cs (i + 1) else i

/-! ### dict built from a list of pairs (`dict(map(...))`): insertion order, a later pair overwrites an earlier one -/

abbrev Dict := List (Str × Str)

/-- `d[k]` (KeyError) -/
def dictGet (d : Dict) (k : Str) : Py.R Str :=
  match d.reverse.find? (·.1 == k) with
  | some p => .ok p.2
  | none => .error .KeyError

/-! ### regular expressions -/

inductive ReItem where
  | chr (c : Char)                  -- a literal character
  | opt (c : Char)                  -- `c?`
  | plusNot (cs : List Char)        -- `([^cs]+)`, the capturing group
  | oneOf (cs : List Char)          -- `[cs]`
  deriving DecidableEq, Repr, Inhabited

def up (c : Char) : Char := if 'a' ≤ c ∧ c ≤ 'z' then Char.ofNat (c.toNat - 32) else c

/-- character equality, under `re.IGNORECASE` for ASCII letters -/
def eqc (ic : Bool) (x c : Char) : Bool := if ic then up x == up c else x == c

/-- match the items at the head of `s`: `some (captured group or none, rest)` -/
def matchItems (ic : Bool) : List ReItem → Str → Option (Option Str × Str)
  | [], s => some (none, s)
  | .chr c :: its, x :: s => if eqc ic x c then matchItems ic its s else none
  | .chr _ :: _, [] => none
  | .opt c :: its, x :: s => if eqc ic x c then matchItems ic its s else matchItems ic its (x :: s)
  | .opt _ :: its, [] => matchItems ic its []
  | .plusNot cs :: its, s =>
    let run := s.takeWhile (fun d => !cs.any (eqc ic d))
    if run.isEmpty then none
    else match matchItems ic its (s.drop run.length) with
      | some (_, rest) => some (some run, rest)
      | none => none
  | .oneOf cs :: its, x :: s => if cs.any (eqc ic x) then matchItems ic its s else none
  | .oneOf _ :: _, [] => none

/-- `re.findall(items, s)` for a pattern with one group: left to right, non-overlapping; `fuel` ≥ the length of `s` + 1 -/
def findallAux (ic : Bool) (items : List ReItem) : Nat → Str → List Str
  | 0, _ => []
  | _, [] => []
  | fuel + 1, c :: r =>
    match matchItems ic items (c :: r) with
    | some (some g, rest) => if rest.length < (c :: r).length then g :: findallAux ic items fuel rest else findallAux ic items fuel r
    | _ => findallAux ic items fuel r

def findall (ic : Bool) (items : List ReItem) (s : Str) : List Str := findallAux ic items (s.length + 1) s

/-- `re.sub(items, '', s)`: every non-overlapping match deleted (the patterns translated never match the empty string) -/
def subDeleteAux (ic : Bool) (items : List ReItem) : Nat → Str → Str
  | 0, s => s
  | _, [] => []
  | fuel + 1, c :: r =>
    match matchItems ic items (c :: r) with
    | some (_, rest) => if rest.length < (c :: r).length then subDeleteAux ic items fuel rest else c :: subDeleteAux ic items fuel r
    | none => c :: subDeleteAux ic items fuel r

def subDelete (ic : Bool) (items : List ReItem) (s : Str) : Str := subDeleteAux ic items (s.length + 1) s

/-! ### the `tzids` argument of `_parse_date_value` (what the lookup is taken from) -/

inductive TzidsKind where
  | none        -- `tzids is None`: `tz.gettz`
  | callable    -- `callable(tzids)`
  | mapping     -- has a `get` attribute
  | other       -- anything else: ValueError
  deriving DecidableEq, Repr, Inhabited

/-- which lookup was used for a name -/
inductive Lookup where
  | gettz | call | get
  deriving DecidableEq, Repr, Inhabited

/-- the zone of a date value: looked up for a `TZID=` parameter (which lookup, which name), or whatever `parser.parse` read
    from the date text itself (`Z`, an offset, a name in `tzinfos`) -/
inductive Zone where
  | looked (l : Lookup) (name : Str)
  | fromText
  deriving DecidableEq, Repr, Inhabited

end StrPy
