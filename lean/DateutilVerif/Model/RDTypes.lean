/-
  Model/RDTypes.lean — the state of a `dateutil.relativedelta.relativedelta`.
  Relative fields are `Int` (the integer-valued domain; float-valued fields are
  outside the theorems, see C16), absolute fields `Option Int`, the weekday a
  pair `(weekday 0..6, n)` with `n = none` for a bare `MO`.
-/
import DateutilVerif.Base.Py

structure RD where
  years : Int := 0
  months : Int := 0
  days : Int := 0
  leapdays : Int := 0
  hours : Int := 0
  minutes : Int := 0
  seconds : Int := 0
  microseconds : Int := 0
  year : Option Int := none
  month : Option Int := none
  day : Option Int := none
  weekday : Option (Int × Option Int) := none
  hour : Option Int := none
  minute : Option Int := none
  second : Option Int := none
  microsecond : Option Int := none
  hasTime : Int := 0
  deriving DecidableEq, Repr, Inhabited
