/-
  Model/RelativeDelta.lean — executable model of `dateutil.relativedelta.relativedelta`
  (src/dateutil/relativedelta.py) on the integer-valued domain.

  * `RD` (Model/RDTypes.lean) is the object state; `Gen.fix` / `Gen.setMonths`
    (Generated/RDKernels.lean) are re-translated from `_fix` / `_set_months` on every run and
    are used here wherever the Python code calls them.
  * `mk`       — the keyword constructor (lines 170-229): weeks, int-or-weekday `weekday`,
                 yearday / nlyearday with the `ydayidx` table, then `_fix`.
  * `applyTo`  — `relativedelta.__add__(date|datetime)` (lines 362-402) line by line.
  * `add/sub/neg/abs/addTimedelta/mulInt/bool/eq/hashKey` — the value operators.
  * `diffN`    — the two-datetime constructor (lines 112-169) with explicit loop fuel.

  Float-valued fields are outside this model (C16's harness oracle covers them directly on the
  implementation).  No Mathlib import (linked into the driver).
-/
import DateutilVerif.Base.Time
import DateutilVerif.Model.RDTypes
import DateutilVerif.Generated.RDKernels

namespace RDM

/-! ## operands -/

/-- what kind of object the operand is; an aware datetime carries its tzinfo as a pair
    (zone id, object id): `replace` keeps tzinfo and `datetime + timedelta` is wall-clock arithmetic
    keeping tzinfo (so `applyTo` never looks at either id), while CPython's `<` and `-` between two aware
    datetimes work on the wall clock iff the two tzinfo are the SAME OBJECT and in UTC otherwise
    (two equal zones held by distinct objects, e.g. two `tz.tzlocal()`, are compared in UTC). -/
inductive Kind where
  | date | naive | aware (zone : Nat) (obj : Nat := 0)
  deriving DecidableEq, Repr, Inhabited

/-- a `datetime.date` (time fields 0), a naive or an aware `datetime.datetime` -/
structure Temporal where
  kind : Kind
  t : DT
  deriving DecidableEq, Repr, Inhabited

/-- the objects Python can construct: valid fields; a `date` has no time of day -/
def Temporal.Valid (x : Temporal) : Prop :=
  x.t.Valid ∧ (x.kind = .date → x.t.hh = 0 ∧ x.t.mm = 0 ∧ x.t.ss = 0 ∧ x.t.us = 0)

instance (x : Temporal) : Decidable x.Valid := by unfold Temporal.Valid; exact inferInstance

/-- Python `a or b` where `a` is `None` or an int -/
def orInt (a : Option Int) (b : Int) : Int :=
  match a with
  | some v => if v ≠ 0 then v else b
  | none => b

/-! ## keyword constructor -/

/-- the `weekday=` argument: an int (index into `weekdays`) or a `weekday` object `wd(n)` -/
inductive WdArg where
  | int (i : Int)
  | obj (wd : Int) (n : Option Int)
  deriving DecidableEq, Repr, Inhabited

structure Kw where
  years : Int := 0
  months : Int := 0
  days : Int := 0
  leapdays : Int := 0
  weeks : Int := 0
  hours : Int := 0
  minutes : Int := 0
  seconds : Int := 0
  microseconds : Int := 0
  year : Option Int := none
  month : Option Int := none
  day : Option Int := none
  weekday : Option WdArg := none
  yearday : Option Int := none
  nlyearday : Option Int := none
  hour : Option Int := none
  minute : Option Int := none
  second : Option Int := none
  microsecond : Option Int := none
  deriving DecidableEq, Repr, Inhabited

/-- the literal of line 216-217 (compared with the source's AST literal on every run, op `rd.ydayidx`) -/
def ydayidx : List Int := [31, 59, 90, 120, 151, 181, 212, 243, 273, 304, 334, 366]

/-- lines 218-227: first index whose bound is ≥ yday; `(month, day)` or ValueError -/
def ydayLookup (yday : Int) : List Int → Int → Int → Py.R (Int × Int)
  | [], _, _ => .error .ValueError
  | b :: rest, idx, prev =>
      if yday ≤ b then .ok (idx + 1, if idx = 0 then yday else yday - prev)
      else ydayLookup yday rest (idx + 1) b

/-- `weekdays[i]` for an int argument (negative indices wrap, IndexError outside −7..6) -/
def weekdayOfArg : WdArg → Py.R (Int × Option Int)
  | .int i => if i < -7 ∨ i ≥ 7 then .error .IndexError else .ok (if i < 0 then i + 7 else i, none)
  | .obj w n => .ok (w, n)

/-- `relativedelta(**kw)` -/
def mk (k : Kw) : Py.R RD := do
  let wd ← match k.weekday with
    | none => pure none
    | some a => (weekdayOfArg a).map some
  -- lines 208-214 (`if 59 < yearday < 366`: day 366 is the last day of the year and takes no leap-day
  -- correction — month=12, day=32 clips to Dec 31; repaired D-C03-yearday366)
  let nl := orInt k.nlyearday 0
  let yd := orInt k.yearday 0
  let yday := if nl ≠ 0 then nl else yd
  let leapdays := if nl = 0 ∧ yd ≠ 0 ∧ 59 < yd ∧ yd < 366 then -1 else k.leapdays
  let (month, day) ← if yday ≠ 0 then
      (ydayLookup yday ydayidx 0 0).map (fun md => (some md.1, some md.2))
    else pure (k.month, k.day)
  pure (Gen.fix {
    years := k.years, months := k.months, days := k.days + k.weeks * 7, leapdays := leapdays,
    hours := k.hours, minutes := k.minutes, seconds := k.seconds, microseconds := k.microseconds,
    year := k.year, month := month, day := day, weekday := wd,
    hour := k.hour, minute := k.minute, second := k.second, microsecond := k.microsecond,
    hasTime := 0 })

/-- the keyword arguments that reproduce a value (`relativedelta(years=d.years, …)`) -/
def fieldsOf (d : RD) : Kw :=
  { years := d.years, months := d.months, days := d.days, leapdays := d.leapdays, weeks := 0,
    hours := d.hours, minutes := d.minutes, seconds := d.seconds, microseconds := d.microseconds,
    year := d.year, month := d.month, day := d.day,
    weekday := d.weekday.map (fun w => WdArg.obj w.1 w.2),
    hour := d.hour, minute := d.minute, second := d.second, microsecond := d.microsecond }

/-! ## value operators (each ends in the constructor, hence in `_fix`) -/

/-- `a if a is not None else b` -/
def firstSome {α} (a b : Option α) : Option α := match a with | some v => some v | none => b

/-- Python `a or b` on ints -/
def orI (a b : Int) : Int := if a ≠ 0 then a else b

/-- `self + other` for two relativedeltas (lines 318-344) -/
def add (self other : RD) : RD :=
  Gen.fix {
    years := other.years + self.years, months := other.months + self.months,
    days := other.days + self.days, hours := other.hours + self.hours,
    minutes := other.minutes + self.minutes, seconds := other.seconds + self.seconds,
    microseconds := other.microseconds + self.microseconds,
    leapdays := orI other.leapdays self.leapdays,
    year := firstSome other.year self.year, month := firstSome other.month self.month,
    day := firstSome other.day self.day, weekday := firstSome other.weekday self.weekday,
    hour := firstSome other.hour self.hour, minute := firstSome other.minute self.minute,
    second := firstSome other.second self.second,
    microsecond := firstSome other.microsecond self.microsecond, hasTime := 0 }

/-- `self - other` (lines 410-437) -/
def sub (self other : RD) : RD :=
  Gen.fix {
    years := self.years - other.years, months := self.months - other.months,
    days := self.days - other.days, hours := self.hours - other.hours,
    minutes := self.minutes - other.minutes, seconds := self.seconds - other.seconds,
    microseconds := self.microseconds - other.microseconds,
    leapdays := orI self.leapdays other.leapdays,
    year := firstSome self.year other.year, month := firstSome self.month other.month,
    day := firstSome self.day other.day, weekday := firstSome self.weekday other.weekday,
    hour := firstSome self.hour other.hour, minute := firstSome self.minute other.minute,
    second := firstSome self.second other.second,
    microsecond := firstSome self.microsecond other.microsecond, hasTime := 0 }

/-- `-self` (lines 457-473) -/
def neg (self : RD) : RD :=
  Gen.fix { self with
    years := -self.years, months := -self.months, days := -self.days, hours := -self.hours,
    minutes := -self.minutes, seconds := -self.seconds, microseconds := -self.microseconds,
    hasTime := 0 }

/-- `abs(self)` (lines 439-455) -/
def abs (self : RD) : RD :=
  Gen.fix { self with
    years := Py.iabs self.years, months := Py.iabs self.months, days := Py.iabs self.days,
    hours := Py.iabs self.hours, minutes := Py.iabs self.minutes, seconds := Py.iabs self.seconds,
    microseconds := Py.iabs self.microseconds, hasTime := 0 }

/-- `self + timedelta(days, seconds, microseconds)` (lines 345-361; the timedelta's own normal form) -/
def addTimedelta (self : RD) (tdDays tdSeconds tdMicros : Int) : RD :=
  Gen.fix { self with
    days := self.days + tdDays, seconds := self.seconds + tdSeconds,
    microseconds := self.microseconds + tdMicros, hasTime := 0 }

/-- `self * k` for an integer `k` with every `field * k` exactly representable as a double
    (then `int(field * float(k))` is the exact product; lines 495-516) -/
def mulInt (self : RD) (k : Int) : RD :=
  Gen.fix { self with
    years := self.years * k, months := self.months * k, days := self.days * k,
    hours := self.hours * k, minutes := self.minutes * k, seconds := self.seconds * k,
    microseconds := self.microseconds * k, hasTime := 0 }

/-- `bool(self)` (lines 475-491) -/
def bool (self : RD) : Bool :=
  !(self.years == 0 && self.months == 0 && self.days == 0 && self.hours == 0 &&
    self.minutes == 0 && self.seconds == 0 && self.microseconds == 0 && self.leapdays == 0 &&
    self.year.isNone && self.month.isNone && self.day.isNone && self.weekday.isNone &&
    self.hour.isNone && self.minute.isNone && self.second.isNone && self.microsecond.isNone)

/-- `not n or n == 1` for a weekday's `n` -/
def nTrivial (n : Option Int) : Bool :=
  match n with
  | none => true
  | some v => v == 0 || v == 1

/-- the weekday part of `__eq__` (lines 523-530) -/
def wdEq (a b : Option (Int × Option Int)) : Bool :=
  match a, b with
  | none, none => true
  | some _, none => false
  | none, some _ => false
  | some (w1, n1), some (w2, n2) =>
      if w1 ≠ w2 then false
      else if n1 ≠ n2 ∧ ¬ (nTrivial n1 ∧ nTrivial n2) then false
      else true

/-- `self == other` (lines 520-545) -/
def eq (self other : RD) : Bool :=
  wdEq self.weekday other.weekday &&
  (self.years == other.years && self.months == other.months && self.days == other.days &&
   self.hours == other.hours && self.minutes == other.minutes && self.seconds == other.seconds &&
   self.microseconds == other.microseconds && self.leapdays == other.leapdays &&
   self.year == other.year && self.month == other.month && self.day == other.day &&
   self.hour == other.hour && self.minute == other.minute && self.second == other.second &&
   self.microsecond == other.microsecond)

/-- the tuple handed to `hash` (lines 547-569): weekday normalised to `(weekday, n or 1)` -/
def hashKey (self : RD) : Option (Int × Int) × List Int × List (Option Int) :=
  (self.weekday.map (fun w => (w.1, orInt w.2 1)),
   [self.years, self.months, self.days, self.hours, self.minutes, self.seconds,
    self.microseconds, self.leapdays],
   [self.year, self.month, self.day, self.hour, self.minute, self.second, self.microsecond])

/-- one element of the tuple handed to `hash`, in the order of the source -/
inductive HashElt where
  | wd (w : Option (Int × Int))
  | int (i : Int)
  | opt (o : Option Int)
  deriving DecidableEq, Repr, Inhabited

/-- the hashed tuple element by element, in source order (`hashKey` is the same content grouped by type) -/
def hashList (self : RD) : List HashElt :=
  [.wd (self.weekday.map (fun w => (w.1, orInt w.2 1))),
   .int self.years, .int self.months, .int self.days, .int self.hours, .int self.minutes, .int self.seconds,
   .int self.microseconds, .int self.leapdays,
   .opt self.year, .opt self.month, .opt self.day, .opt self.hour, .opt self.minute, .opt self.second,
   .opt self.microsecond]

/-! ## normal form -/

/-- `_has_time` as `_fix` computes it from the other fields -/
def hasTimeOf (d : RD) : Int :=
  if d.hours ≠ 0 ∨ d.minutes ≠ 0 ∨ d.seconds ≠ 0 ∨ d.microseconds ≠ 0 ∨ d.hour ≠ none ∨
     d.minute ≠ none ∨ d.second ≠ none ∨ d.microsecond ≠ none then 1 else 0

/-- the state every constructor / operator leaves behind: carried fields within their units and
    `_has_time` consistent (days and years are unbounded) -/
def Normalised (d : RD) : Prop :=
  (-999999 ≤ d.microseconds ∧ d.microseconds ≤ 999999) ∧ (-59 ≤ d.seconds ∧ d.seconds ≤ 59) ∧
  (-59 ≤ d.minutes ∧ d.minutes ≤ 59) ∧ (-23 ≤ d.hours ∧ d.hours ≤ 23) ∧
  (-11 ≤ d.months ∧ d.months ≤ 11) ∧ d.hasTime = hasTimeOf d

instance (d : RD) : Decidable (Normalised d) := by unfold Normalised; exact inferInstance

/-- days … microseconds as one duration in µs -/
def usTotal (d : RD) : Int :=
  (((d.days * 24 + d.hours) * 60 + d.minutes) * 60 + d.seconds) * 1000000 + d.microseconds

/-- years and months as a month count -/
def monthTotal (d : RD) : Int := d.years * 12 + d.months

/-! ## `relativedelta + date/datetime` -/

/-- line 364-365: a date is promoted to a (naive) datetime iff `_has_time` -/
def promote (self : RD) (o : Temporal) : Temporal :=
  if self.hasTime ≠ 0 ∧ o.kind = .date then { o with kind := .naive } else o

/-- lines 366-376: year and month after `years`, `months` and the single ±12 carry -/
def ymCarry (self : RD) (y m : Int) : Py.R (Int × Int) :=
  if self.months ≠ 0 then
    if ¬ (1 ≤ Py.iabs self.months ∧ Py.iabs self.months ≤ 12) then .error .AssertionError
    else if orInt self.month m + self.months > 12 then
      .ok (orInt self.year y + self.years + 1, orInt self.month m + self.months - 12)
    else if orInt self.month m + self.months < 1 then
      .ok (orInt self.year y + self.years - 1, orInt self.month m + self.months + 12)
    else .ok (orInt self.year y + self.years, orInt self.month m + self.months)
  else .ok (orInt self.year y + self.years, orInt self.month m)

/-- `calendar.monthrange(year, month)[1]`: IllegalMonthError (a ValueError) unless 1 ≤ month ≤ 12;
    any year is accepted -/
def monthrange1 (y m : Int) : Py.R Int :=
  if 1 ≤ m ∧ m ≤ 12 then .ok (Cal.daysInMonth y m) else .error .ValueError

def hasAbsTime (self : RD) : Bool :=
  self.hour.isSome || self.minute.isSome || self.second.isSome || self.microsecond.isSome

/-- the arguments of `replace` are parsed as C `int`s: a Python int outside that range is an
    OverflowError before any range validation happens -/
def fitsCInt (t : DT) : Bool :=
  decide (-2147483648 ≤ t.y ∧ t.y ≤ 2147483647 ∧ -2147483648 ≤ t.m ∧ t.m ≤ 2147483647 ∧
          -2147483648 ≤ t.d ∧ t.d ≤ 2147483647 ∧ -2147483648 ≤ t.hh ∧ t.hh ≤ 2147483647 ∧
          -2147483648 ≤ t.mm ∧ t.mm ≤ 2147483647 ∧ -2147483648 ≤ t.ss ∧ t.ss ≤ 2147483647 ∧
          -2147483648 ≤ t.us ∧ t.us ≤ 2147483647)

/-- lines 379-387 `other.replace(**repl)`: a `date` rejects time keywords (TypeError);
    C-int conversion (OverflowError), then the constructor's field validation (ValueError) -/
def replaced (self : RD) (k : Kind) (o : DT) (year month day : Int) : Py.R DT :=
  if k = .date ∧ hasAbsTime self then .error .TypeError
  else
    let t : DT := { y := year, m := month, d := day,
                    hh := self.hour.getD o.hh, mm := self.minute.getD o.mm,
                    ss := self.second.getD o.ss, us := self.microsecond.getD o.us }
    if ¬ fitsCInt t then .error .OverflowError
    else if t.valid then .ok t else .error .ValueError

/-- the `datetime.timedelta(days=, hours=, minutes=, seconds=, microseconds=)` of lines 388-392, in µs -/
def deltaMicros (self : RD) (days : Int) : Int :=
  (((days * 24 + self.hours) * 60 + self.minutes) * 60 + self.seconds) * 1000000 + self.microseconds

/-- lines 384-386 -/
def daysWithLeap (self : RD) (year month : Int) : Int :=
  if self.leapdays ≠ 0 ∧ month > 2 ∧ Cal.isLeap year = true then self.days + self.leapdays else self.days

/-- `x + timedelta`: a `date` uses only the timedelta's (floored) `days` -/
def addDelta (k : Kind) (t : DT) (δ : Int) : Py.R DT :=
  match k with
  | .date => t.addDays (δ / DT.usPerDay)
  | _ => t.addMicros δ

/-- lines 394-400: `nth = n or 1`; the signed number of days to jump (`%` is Python's, modulus 7 > 0) -/
def jumpDays (wd : Int) (n : Option Int) (retWd : Int) : Int :=
  if orInt n 1 > 0 then (Py.iabs (orInt n 1) - 1) * 7 + (7 - retWd + wd) % 7
  else -((Py.iabs (orInt n 1) - 1) * 7 + (retWd - wd) % 7)

/-- lines 393-401 -/
def applyWeekday (wd : Option (Int × Option Int)) (ret : DT) : Py.R DT :=
  match wd with
  | none => .ok ret
  | some (w, n) => ret.addDays (jumpDays w n ret.weekday)

/-- lines 377-402 once year and month are known -/
def applyTail (self : RD) (k : Kind) (o : DT) (year month : Int) : Py.R Temporal := do
  let dim ← monthrange1 year month
  let base ← replaced self k o year month (min dim (orInt self.day o.d))
  let ret ← addDelta k base (deltaMicros self (daysWithLeap self year month))
  let r ← applyWeekday self.weekday ret
  pure { kind := k, t := r }

/-- `self.__add__(other)` for a date / datetime operand (lines 362-402) -/
def applyTo (self : RD) (other : Temporal) : Py.R Temporal := do
  let ym ← ymCarry self (promote self other).t.y (promote self other).t.m
  applyTail self (promote self other).kind (promote self other).t ym.1 ym.2

/-- `other + self` -/
def radd (self : RD) (other : Temporal) : Py.R Temporal := applyTo self other

/-- `other - self` = `self.__neg__().__radd__(other)` -/
def rsub (self : RD) (other : Temporal) : Py.R Temporal := radd (neg self) other

/-! ## `relativedelta(dt1, dt2)` -/

/-- lines 120-125: coerce a date to a midnight datetime when the other operand is a datetime -/
def coerce (a b : Temporal) : Temporal × Temporal :=
  match a.kind, b.kind with
  | .date, .date => (a, b)
  | .date, _ => ({ a with kind := .naive }, b)
  | _, .date => (a, { b with kind := .naive })
  | _, _ => (a, b)

/-- how CPython evaluates `a < b` / `a - b`: naive vs aware raises TypeError; same tzinfo object (and
    date/date, naive/naive) ⇒ wall-clock fields; two distinct tzinfo objects ⇒ both sides minus their
    `utcoffset()` -/
inductive Cmp where
  | wall | utc | typeError
  deriving DecidableEq, Repr

def comparable (a b : Kind) : Cmp :=
  match a, b with
  | .date, .date => .wall
  | .naive, .naive => .wall
  | .aware z o, .aware z' o' => if z = z' ∧ o = o' then .wall else .utc
  | _, _ => .typeError

/-- `x.utcoffset()` in µs: `off zone wallFields` for an aware datetime (the zone's rule is a parameter of
    the model; fold is not modelled, see c09.py ASSUMPTIONS), 0 otherwise -/
def utcOff (off : Nat → DT → Int) (x : Temporal) : Int :=
  match x.kind with
  | .aware z _ => off z x.t
  | _ => 0

/-- the quantity `<` and `-` work on: wall-clock µs, or UTC µs when the tzinfo objects differ -/
def cmpKey (off : Nat → DT → Int) (utc : Bool) (x : Temporal) : Int :=
  if utc then x.t.toMicros - utcOff off x else x.t.toMicros

/-- the empty relativedelta of lines 127-143 -/
def empty : RD := {}

/-- lines 161-164: `while compare(dt1, dtm): months += increment; _set_months; dtm = dt2 + self`.
    `none` = fuel exhausted. `up` = (dt1 < dt2). `key` = what the comparison compares. -/
def diffLoop (key : Temporal → Int) : Nat → Bool → Temporal → Temporal → Int → Temporal → Option (Py.R (Int × Temporal))
  | fuel, up, dt1, dt2, months, dtm =>
    if (if up then key dtm < key dt1 else key dt1 < key dtm) then
      match fuel with
      | 0 => none
      | fuel + 1 =>
        let months' := if up then months + 1 else months - 1
        match applyTo (Gen.setMonths empty months') dt2 with
        | .error e => some (.error e)
        | .ok dtm' => diffLoop key fuel up dt1 dt2 months' dtm'
    else some (.ok (months, dtm))

/-- `relativedelta(dt1, dt2)` with loop fuel (lines 112-169, 229); `off` gives the utcoffset of a zone
    at a wall time and is consulted only when the operands are aware with distinct tzinfo objects -/
def diffN (off : Nat → DT → Int) (fuel : Nat) (a b : Temporal) : Option (Py.R RD) :=
  let dt1 := (coerce a b).1
  let dt2 := (coerce a b).2
  let months := (dt1.t.y - dt2.t.y) * 12 + (dt1.t.m - dt2.t.m)
  match applyTo (Gen.setMonths empty months) dt2 with
  | .error e => some (.error e)
  | .ok dtm =>
    match comparable dt1.kind dt2.kind with
    | .typeError => some (.error .TypeError)
    | mode =>
      let key := cmpKey off (mode == .utc)
      match diffLoop key fuel (decide (key dt1 < key dt2)) dt1 dt2 months dtm with
      | none => none
      | some (.error e) => some (.error e)
      | some (.ok (months', dtm')) =>
        some (.ok (Gen.fix { Gen.setMonths empty months' with
                 seconds := (key dt1 - key dtm') / 1000000, microseconds := (key dt1 - key dtm') % 1000000 }))

/-- the fuel used by the driver; `C09.diff_loop_terminates` shows 1 already suffices -/
def diff (off : Nat → DT → Int) (a b : Temporal) : Option (Py.R RD) := diffN off 2 a b

end RDM
