/-
  Model/Factory.lean — the zone factories of dateutil.tz as a multi-threaded state machine
  (C18), at dateutil-statement granularity, plus the cross-type `__eq__` table of the zones.

  Modelled code (as it is in /repo now):
    * `_factories._TzOffsetFactory.__call__` / `_TzStrFactory.__call__`   (kind `lru`)
        with cls._cache_lock:                                           lAcq
            instance = cls.__instances.get(key, None)                   lGet
            if instance is None:                                        lTest
                instance = cls.__instances.setdefault(key,              lAlloc, lInit (construction)
                                                      cls.instance(...))   lSdRead, lSdWrite
            cls.__strong_cache[key] = cls.__strong_cache.pop(key, instance)   xTouch
            if len(cls.__strong_cache) > cls.__strong_cache_size:       xLen
                cls.__strong_cache.popitem(last=False)                  xEvict
                                                                        xRel   (`with` exit)
        return instance                                                 xRet
      `WeakValueDictionary.setdefault` is modelled as what its pure-Python body is: a READ of the
      entry (lSdRead, into the local `o` = `seen`) followed by a WRITE when the read found nothing
      (lSdWrite) — two separately schedulable steps, NOT one atomic step.
    * `tz.__get_gettz.GettzFunc.__call__`                                (kind `gettz`)
        with self._cache_lock:                                          gAcq
            rv = self.__instances.get(name, None)                       gGet
            if rv is None:                                              gTest
                rv = self.nocache(name=name)                            gAlloc, gInit
                if not (name is None or isinstance(rv, tzlocal_classes) or rv is None):   gCheck
                    self.__instances[name] = rv                         gStore
                else:
                    return rv                                           gRelE (`with` exit), gRetE
            self.__strong_cache[name] = self.__strong_cache.pop(name, rv)   xTouch
            if len(self.__strong_cache) > self.__strong_cache_size:     xLen
                self.__strong_cache.popitem(last=False)                 xEvict
                                                                        xRel
        return rv                                                       xRet
    * exceptional exit: when the constructor raises under the lock (`tzoffset('A','x')`, `tzstr('1')`,
      `gettz(b'x')`: class `Res.raises`) the next statement is the `with` exit `xRelX`, which releases
      the lock and ends the call with the exception recorded (`Ev.exc`)
    * gettz names may resolve to an EXISTING immortal object (`Res.shared slot`: the constant tz.UTC,
      a vendored ZoneInfoFile entry): `nocache` / the miss path return it instead of constructing
    * `GettzFunc.set_cache_size`  sAcq sSet sLoop sPop sRel;  `GettzFunc.cache_clear`  cAcq cWeak cStrong cRel
    * `_TzFactory.instance` / `GettzFunc.nocache`    fAlloc fInit fRet   (never touch the maps)
    * `_TzSingleton.__call__`                                            (kind `single`)
        if cls.__instance is None:                                      uTest
            cls.__instance = super().__call__()                         uAlloc, uInit, uStore
        return cls.__instance                                           uRet

  Objects are ids (`Nat`, allocated from a counter); `inited` records the ids whose
  construction finished.  `weak` is the `WeakValueDictionary` (an entry may vanish — step
  `collect k` — once its id has no strong reference: not in `strong`, not held by a caller, not
  in a local variable (`instance`, the new object, `o`) of any thread, not the singleton slot).  `strong` is the `OrderedDict`
  (front = oldest).  `held` are the references callers keep: a reference is handed over at the
  call's linearisation point (the `with` exit that follows the LRU touch; for the singleton the
  `return`), carries the epoch (number of `cache_clear`s so far) and an (owner, seq) ticket so a
  caller can drop it later (step `drop`).

  Trusted base: a single read (`get`, the lookup inside `setdefault`) or a single write
  (`__setitem__`, the store inside `setdefault`) of the weak dictionary is one step, as is the
  removal of a dead entry (`collect`); lock acquire/release give mutual exclusion.  The
  `OrderedDict` operations (`pop(key, default)`, `__setitem__`, `popitem(last=False)`, `clear`, `len`)
  have their documented sequential meaning; their atomicity is NOT assumed — `lock_discipline`
  shows they only ever run under the lock.

  No Mathlib import: linked into the compiled driver.
-/
import DateutilVerif.Base.Py

namespace Fact

abbrev Key := Nat
abbrev Id := Nat
abbrev Tid := Nat

/-- which `__call__` body the factory runs -/
inductive Kind | lru | gettz | single
  deriving DecidableEq, Repr

/-- what constructing the object for a key does.  For `gettz.nocache(name)`: a new cacheable zone
(`tzfile(path)`, `tzstr.instance(name)`), a new zone that is deliberately not cached (`tzlocal`, or
`name is None`), `None`, an EXISTING immortal object shared by every request that resolves to the
same slot (slot 0 = the module constant `tz.UTC` for `GMT` / `UTC` without a file; the other slots =
the entries of the vendored `ZoneInfoFile`), or an exception (`gettz(b'x')`: TypeError).  For the
tzoffset / tzstr factories only `raises` matters (`tzoffset('A', 'x')`: TypeError, `tzstr('1')`:
ValueError): every other class constructs a new object. -/
inductive Res | zone | uncached | none | shared (slot : Nat) | raises
  deriving DecidableEq, Repr

def Res.slot? : Res → Option Nat
  | .shared sl => some sl
  | _ => Option.none

inductive Op
  | call (k : Key)        -- `cls(...)` / `gettz(name)` / `tzutc()`
  | fresh (k : Key)       -- `cls.instance(...)` / `gettz.nocache(name)`
  | setSize (n : Nat)     -- `gettz.set_cache_size(n)`
  | clear                 -- `gettz.cache_clear()`
  deriving DecidableEq, Repr

inductive Pc
  | idle
  | lAcq | lGet | lTest | lAlloc | lInit | lSdRead | lSdWrite
  | xTouch | xLen | xEvict | xRel | xRet
  | xRelX                                   -- `with` exit while an exception propagates
  | gAcq | gGet | gTest | gAlloc | gInit | gCheck | gStore | gRelE | gRetE
  | sAcq | sSet | sLoop | sPop | sRel
  | cAcq | cWeak | cStrong | cRel
  | fAlloc | fInit | fRet
  | uTest | uAlloc | uInit | uStore | uRet
  deriving DecidableEq, Repr

structure Thread where
  pc : Pc := .idle
  key : Key := 0
  arg : Nat := 0
  inst : Option Id := none     -- local `instance` / `rv`
  tmp : Option Id := none      -- freshly constructed object not yet bound to `instance`
  seen : Option Id := none     -- the local `o` inside `WeakValueDictionary.setdefault`
  nret : Nat := 0              -- number of references this thread's calls have handed out
  todo : List Op := []
  deriving Repr

/-- a reference kept by a caller -/
structure Ref where
  key : Key
  id : Id
  ep : Nat
  owner : Tid
  seq : Nat
  deriving DecidableEq, Repr

/-- observable events (ghost): what each finished call returned -/
structure Ev where
  tid : Tid
  key : Key
  val : Option Id
  cached : Bool          -- came out of the cached path (and was handed to `held`)
  exc : Bool := false    -- the call raised instead of returning
  deriving DecidableEq, Repr

structure Glob where
  weak : Key → Option Id := fun _ => none
  strong : List (Key × Id) := []
  cap : Nat := 8
  lock : Option Tid := none
  held : List Ref := []
  next : Id := 0
  inited : List Id := []
  epoch : Nat := 0
  single : Option Id := none
  shared : List (Nat × Id) := []     -- immortal shared objects by slot (module constant UTC, vendored entries)
  log : List Ev := []

structure State where
  g : Glob
  ths : List Thread

def upd (f : Key → Option Id) (k : Key) (v : Option Id) : Key → Option Id :=
  fun k' => if k' = k then v else f k'

@[simp] theorem upd_same (f k v) : upd f k v k = v := by simp [upd]
@[simp] theorem upd_other (f k v k') (h : k' ≠ k) : upd f k v k' = f k' := by simp [upd, h]

/-- `od[key] = od.pop(key, default)`: the key moves to (or is appended at) the end, keeping the
value it had (or `default`). -/
def touch (od : List (Key × Id)) (k : Key) (dflt : Id) : List (Key × Id) :=
  od.filter (fun e => e.1 != k) ++ [(k, (od.lookup k).getD dflt)]

/-- one statement of thread `t`; `none` = not enabled (blocked on the lock, nothing left to do,
or a statement that would raise — the theorems show the last never happens) -/
def tstep (kd : Kind) (res : Key → Res) (t : Tid) (g : Glob) (th : Thread) : Option (Glob × Thread) :=
  match th.pc with
  | .idle =>
    match th.todo with
    | [] => none
    | .call k :: rest =>
        some (g, { th with key := k, todo := rest, inst := none, tmp := none,
                           pc := match kd with | .lru => .lAcq | .gettz => .gAcq | .single => .uTest })
    | .fresh k :: rest =>
        some (g, { th with key := k, todo := rest, inst := none, tmp := none, pc := .fAlloc })
    | .setSize n :: rest =>
        -- only GettzFunc has the method; elsewhere the op is a no-op of the script
        if kd = .gettz then some (g, { th with arg := n, todo := rest, pc := .sAcq })
        else some (g, { th with todo := rest })
    | .clear :: rest =>
        if kd = .gettz then some (g, { th with todo := rest, pc := .cAcq })
        else some (g, { th with todo := rest })
  -- ---------------- _TzOffsetFactory / _TzStrFactory ----------------
  | .lAcq =>
    if g.lock = none then some ({ g with lock := some t }, { th with pc := .lGet }) else none
  | .lGet => some (g, { th with inst := g.weak th.key, pc := .lTest })
  | .lTest => some (g, { th with pc := if th.inst.isNone then .lAlloc else .xTouch })
  | .lAlloc =>
    if res th.key = .raises then some (g, { th with pc := .xRelX })      -- the constructor raises under the lock
    else some ({ g with next := g.next + 1 }, { th with tmp := some g.next, pc := .lInit })
  | .lInit =>
    match th.tmp with
    | some i => some ({ g with inited := i :: g.inited }, { th with pc := .lSdRead })
    | none => none
  -- WeakValueDictionary.setdefault: `o = self.data[key]()` …
  | .lSdRead => some (g, { th with seen := g.weak th.key, pc := .lSdWrite })
  -- … `if o is None: self.data[key] = KeyedRef(default, …); return default` / `else: return o`
  | .lSdWrite =>
    match th.tmp with
    | some i =>
      match th.seen with
      | some j => some (g, { th with inst := some j, tmp := none, seen := none, pc := .xTouch })
      | none => some ({ g with weak := upd g.weak th.key (some i) },
                      { th with inst := some i, tmp := none, seen := none, pc := .xTouch })
    | none => none
  -- ---------------- shared tail: LRU touch under the lock ----------------
  | .xTouch =>
    match th.inst with
    | some i => some ({ g with strong := touch g.strong th.key i }, { th with pc := .xLen })
    | none => none
  | .xLen => some (g, { th with pc := if g.strong.length > g.cap then .xEvict else .xRel })
  | .xEvict =>
    match g.strong with
    | [] => none                       -- popitem on an empty dict raises KeyError
    | _ :: rest => some ({ g with strong := rest }, { th with pc := .xRel })
  | .xRel =>
    match th.inst with
    | some i =>
      some ({ g with lock := none,
                     held := g.held ++ [{ key := th.key, id := i, ep := g.epoch, owner := t, seq := th.nret }] },
            { th with pc := .xRet, nret := th.nret + 1 })
    | none => none
  | .xRelX =>                              -- `with` exit on the exceptional path, then the exception leaves the call
    some ({ g with lock := none,
                   log := g.log ++ [{ tid := t, key := th.key, val := none, cached := false, exc := true }] },
          { th with pc := .idle, inst := none, tmp := none, seen := none })
  | .xRet =>
    some ({ g with log := g.log ++ [{ tid := t, key := th.key, val := th.inst, cached := true }] },
          { th with pc := .idle, inst := none })
  -- ---------------- GettzFunc.__call__ ----------------
  | .gAcq =>
    if g.lock = none then some ({ g with lock := some t }, { th with pc := .gGet }) else none
  | .gGet => some (g, { th with inst := g.weak th.key, pc := .gTest })
  | .gTest => some (g, { th with pc := if th.inst.isNone then .gAlloc else .xTouch })
  | .gAlloc =>
    match res th.key with
    | .none => some (g, { th with inst := none, pc := .gCheck })
    | .raises => some (g, { th with pc := .xRelX })
    | .shared sl =>
      match g.shared.lookup sl with
      | some i => some (g, { th with inst := some i, pc := .gCheck })          -- the existing shared object
      | none => some ({ g with next := g.next + 1 }, { th with tmp := some g.next, pc := .gInit })
    | _ => some ({ g with next := g.next + 1 }, { th with tmp := some g.next, pc := .gInit })
  | .gInit =>
    match th.tmp with
    | some i =>
      some ({ g with inited := i :: g.inited,
                     shared := match (res th.key).slot? with | some sl => (sl, i) :: g.shared | none => g.shared },
            { th with inst := some i, tmp := none, pc := .gCheck })
    | none => none
  | .gCheck =>
    some (g, { th with pc := if res th.key = .zone ∨ (res th.key).slot?.isSome then .gStore else .gRelE })
  | .gStore =>
    match th.inst with
    | some i => some ({ g with weak := upd g.weak th.key (some i) }, { th with pc := .xTouch })
    | none => none
  | .gRelE => some ({ g with lock := none }, { th with pc := .gRetE })
  | .gRetE =>
    some ({ g with log := g.log ++ [{ tid := t, key := th.key, val := th.inst, cached := false }] },
          { th with pc := .idle, inst := none })
  -- ---------------- set_cache_size ----------------
  | .sAcq =>
    if g.lock = none then some ({ g with lock := some t }, { th with pc := .sSet }) else none
  | .sSet => some ({ g with cap := th.arg }, { th with pc := .sLoop })
  | .sLoop => some (g, { th with pc := if g.strong.length > th.arg then .sPop else .sRel })
  | .sPop =>
    match g.strong with
    | [] => none
    | _ :: rest => some ({ g with strong := rest }, { th with pc := .sLoop })
  | .sRel => some ({ g with lock := none }, { th with pc := .idle })
  -- ---------------- cache_clear ----------------
  | .cAcq =>
    if g.lock = none then some ({ g with lock := some t }, { th with pc := .cWeak }) else none
  | .cWeak => some ({ g with weak := fun _ => none, epoch := g.epoch + 1 }, { th with pc := .cStrong })
  | .cStrong => some ({ g with strong := [] }, { th with pc := .cRel })
  | .cRel => some ({ g with lock := none }, { th with pc := .idle })
  -- ---------------- instance / nocache ----------------
  | .fAlloc =>
    if res th.key = .raises then
      some ({ g with log := g.log ++ [{ tid := t, key := th.key, val := none, cached := false, exc := true }] },
            { th with pc := .idle, tmp := none })
    else if kd = .gettz ∧ res th.key = .none then some (g, { th with tmp := none, pc := .fRet })
    else
      match (if kd = .gettz then ((res th.key).slot?.bind fun sl => g.shared.lookup sl) else none) with
      | some i => some (g, { th with tmp := some i, pc := .fRet })              -- nocache returns the shared object
      | none => some ({ g with next := g.next + 1 }, { th with tmp := some g.next, pc := .fInit })
  | .fInit =>
    match th.tmp with
    | some i =>
      some ({ g with inited := i :: g.inited,
                     shared := match (if kd = .gettz then (res th.key).slot? else none) with
                               | some sl => (sl, i) :: g.shared | none => g.shared },
            { th with pc := .fRet })
    | none => none
  | .fRet =>
    some ({ g with log := g.log ++ [{ tid := t, key := th.key, val := th.tmp, cached := false }] },
          { th with pc := .idle, tmp := none })
  -- ---------------- _TzSingleton.__call__ ----------------
  | .uTest => some (g, { th with pc := if g.single.isNone then .uAlloc else .uRet })
  | .uAlloc => some ({ g with next := g.next + 1 }, { th with tmp := some g.next, pc := .uInit })
  | .uInit =>
    match th.tmp with
    | some i => some ({ g with inited := i :: g.inited }, { th with pc := .uStore })
    | none => none
  | .uStore =>
    match th.tmp with
    | some i => some ({ g with single := some i }, { th with tmp := none, pc := .uRet })
    | none => none
  | .uRet =>
    match g.single with
    | some i =>
      some ({ g with held := g.held ++ [{ key := th.key, id := i, ep := g.epoch, owner := t, seq := th.nret }],
                     log := g.log ++ [{ tid := t, key := th.key, val := some i, cached := true }] },
            { th with pc := .idle, nret := th.nret + 1 })
    | none => none

inductive Label
  | thr (t : Tid)                    -- thread `t` executes its next statement
  | drop (t : Tid) (n : Nat)         -- the caller drops the `n`-th reference handed out to thread `t`
  | collect (k : Key)                -- the weak entry of `k` vanishes (its object has no strong reference)
  deriving DecidableEq, Repr

/-- strong references to object `i`: the LRU, callers, local variables of any thread, the singleton slot -/
def rooted (s : State) (i : Id) : Bool :=
  s.g.strong.any (fun e => e.2 == i) || s.g.held.any (fun r => r.id == i) || s.g.single == some i ||
  s.g.shared.any (fun e => e.2 == i) ||
  s.ths.any (fun th => th.inst == some i || th.tmp == some i || th.seen == some i)

def step (kd : Kind) (res : Key → Res) (s : State) : Label → Option State
  | .thr t =>
    match s.ths[t]? with
    | none => none
    | some th =>
      match tstep kd res t s.g th with
      | none => none
      | some (g', th') => some { g := g', ths := s.ths.set t th' }
  | .drop t n =>
    if s.g.held.any (fun r => r.owner == t && r.seq == n) then
      some { s with g := { s.g with held := s.g.held.filter (fun r => !(r.owner == t && r.seq == n)) } }
    else none
  | .collect k =>
    match s.g.weak k with
    | some i => if rooted s i then none else some { s with g := { s.g with weak := upd s.g.weak k none } }
    | none => none

inductive Reachable (kd : Kind) (res : Key → Res) (s0 : State) : State → Prop
  | init : Reachable kd res s0 s0
  | step {s s' : State} {l : Label} : Reachable kd res s0 s → step kd res s l = some s' → Reachable kd res s0 s'

/-- the initial state: empty maps, any capacity, any number of threads with any scripts -/
def initState (cap : Nat) (scripts : List (List Op)) : State :=
  { g := { cap := cap }, ths := scripts.map (fun sc => { todo := sc }) }

/-- the initial state of `tzutc`: the module body runs `UTC = tzutc()` at import time (under the
import lock), so the singleton slot is filled before any other thread can call `tzutc()` -/
def initSingleton (scripts : List (List Op)) : State :=
  { g := { single := some 0, next := 1, inited := [0] }, ths := scripts.map (fun sc => { todo := sc }) }

def Thread.finished (th : Thread) : Bool := th.pc == .idle && th.todo.isEmpty

/-! ### Executable runs for the driver -/

/-- CPython frees an object the moment its last reference goes: after every step every
unreferenced weak entry among `keys` is collected (a particular schedule of `collect` steps). -/
def collectAll (kd : Kind) (res : Key → Res) (keys : List Key) (s : State) : State :=
  keys.foldl (fun s k => (step kd res s (.collect k)).getD s) s

/-- run thread `t` until its current operation has finished (single-threaded scripted use) -/
def runOp (kd : Kind) (res : Key → Res) (t : Tid) : Nat → State → Option State
  | 0, _ => none
  | fuel + 1, s =>
    match step kd res s (.thr t) with
    | none => none
    | some s' =>
      match s'.ths[t]? with
      | some th => if th.pc == .idle then some s' else runOp kd res t fuel s'
      | none => none

/-! ### Zone equality: the cross-type `__eq__` table -/

/-- the six fields `tzrange.__eq__` compares -/
structure RangeP where
  stdAbbr : String
  dstAbbr : String
  stdOff : Int
  dstOff : Int
  startDelta : Int      -- abstract value of the relativedelta (equality is all that is used)
  endDelta : Int
  deriving DecidableEq, Repr

inductive Zone
  | utc
  | offset (name : String) (off : Int)
  | loc (stdOff dstOff : Int) (hasdst : Bool) (name0 : String)
  | file (data : Nat)                       -- (_trans_list, _trans_idx, _ttinfo_list) up to equality
  | range (p : RangeP)
  | str (p : RangeP) (s : String) (posix : Bool)   -- tzstr is a tzrange subclass, inherits `__eq__`
  deriving DecidableEq, Repr

/-- the result of an `__eq__` method -/
inductive Tri | t | f | ni
  deriving DecidableEq, Repr

def Tri.ofBool (b : Bool) : Tri := if b then .t else .f

def Zone.rangeP? : Zone → Option RangeP
  | .range p => some p
  | .str p _ _ => some p
  | _ => none

/-- `type(a).__eq__(a, b)` -/
def eqMethod (a b : Zone) : Tri :=
  match a with
  | .utc =>
    match b with
    | .utc => .t
    | .offset _ o => Tri.ofBool (o == 0)
    | _ => .ni
  | .offset _ o =>
    match b with
    | .offset _ o' => Tri.ofBool (o == o')
    | _ => .ni
  | .loc sd dd hd n0 =>
    match b with
    | .loc sd' dd' _ _ => Tri.ofBool (sd == sd' && dd == dd')
    | .utc => Tri.ofBool (!hd && (n0 == "UTC" || n0 == "GMT") && sd == 0)
    | .offset n o => Tri.ofBool (!hd && n0 == n && sd == o)
    | _ => .ni
  | .file d =>
    match b with
    | .file d' => Tri.ofBool (d == d')
    | _ => .ni
  | .range p | .str p _ _ =>
    match b.rangeP? with
    | some p' => Tri.ofBool (p == p')
    | none => .ni

/-- `type(b)` is a proper subclass of `type(a)` (only `tzstr` < `tzrange` among the zones) -/
def properSubclass (b a : Zone) : Bool :=
  match b, a with
  | .str _ _ _, .range _ => true
  | _, _ => false

/-- Python's `a == b` (CPython `do_richcompare`): when `type(b)` is a proper subclass of `type(a)`
the reflected `b.__eq__(a)` is tried first; then `a.__eq__(b)`; then (unless already tried) the
reflected method; when everything returned `NotImplemented`, identity. -/
def pyEq (a b : Zone) (same : Bool) : Bool :=
  let fwd (_ : Unit) : Bool :=
    match eqMethod a b with
    | .t => true
    | .f => false
    | .ni =>
      if properSubclass b a then same else
      match eqMethod b a with
      | .t => true
      | .f => false
      | .ni => same
  if properSubclass b a then
    match eqMethod b a with
    | .t => true
    | .f => false
    | .ni => fwd ()
  else fwd ()

/-- the constant UTC offset of the fixed zones (seconds) -/
def fixedOffset? : Zone → Option Int
  | .utc => some 0
  | .offset _ o => some o
  | .loc sd _ hd _ => if hd then none else some sd
  | _ => none

end Fact
