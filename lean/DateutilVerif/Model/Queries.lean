/-
  Model/Queries.lean — the query methods of `rrulebase` (rrule.py 151-306) over an abstract
  underlying sequence: `__getitem__`, `__contains__`, `count`, `before`, `after`, `xafter`,
  `between`, plus plain iteration and `itertools.islice(rule, k)` as consumers.

  Instants are integers.  A query sees the recurrence through one of two doors:

  * the **generator path** (`gen q xs`): the loops of the source, written as structural
    recursions over the list `xs` of values the iterator would yield, with the early exits of
    the source (`break` / `return` inside `for i in gen`).  `stops q ys` says that the consumer
    abandons its iterator after having received exactly the values `ys` (used by the cached
    iterator machine of Model/Cache.lean to decide when a query thread drops its generator).
  * the **cache-complete path** (`fast q cache`): `self._cache[item]`, `item in self._cache`,
    or the same loops run over the list `self._cache`.

  `itertools.islice` is standard library; it is modelled from its documentation
  (start/stop/step with `None` = 0 / unbounded / 1, `ValueError` for negative or zero
  arguments, elements at positions start, start+step, … below stop; the iterable is consumed
  up to `max(start, stop)`).
-/
import DateutilVerif.Base.Py

namespace Queries
open Py

inductive Query where
  | iterAll                                        -- `list(rule)` / `for x in rule`
  | take (k : Nat)                                 -- `list(itertools.islice(rule, k))`
  | index (i : Int)                                -- `rule[i]`
  | slice (a b c : Option Int)                     -- `rule[a:b:c]`
  | contains (x : Int)                             -- `x in rule`
  | count                                          -- `rule.count()`
  | before (t : Int) (inc : Bool)
  | after (t : Int) (inc : Bool)
  | xafter (t : Int) (n : Option Int) (inc : Bool) -- `list(rule.xafter(t, n, inc))`
  | between (a b : Int) (inc : Bool)
  deriving DecidableEq, Repr, Inhabited

inductive Res where
  | val (v : Option Int)      -- an instant or `None`
  | list (l : List Int)
  | bool (b : Bool)
  | nat (n : Nat)
  | err (e : PyErr)
  deriving DecidableEq, Repr, Inhabited

def Res.ofR : R Int → Res
  | .ok v => .val (some v)
  | .error e => .err e

def Res.ofRL : R (List Int) → Res
  | .ok l => .list l
  | .error e => .err e

/-! ### `itertools.islice` (from its documentation) -/

/-- `o is not None and o < k` -/
def optLt (o : Option Int) (k : Int) : Bool :=
  match o with
  | some v => decide (v < k)
  | none => false

/-- `sys.maxsize`: `itertools.islice` rejects larger start / stop / step with ValueError -/
def maxsize : Int := 9223372036854775807

/-- `o is not None and o > k` -/
def optGt (o : Option Int) (k : Int) : Bool :=
  match o with
  | some v => decide (v > k)
  | none => false

/-- `x if x is None else min(x, sys.maxsize)` (rrule.py, `__getitem__`): islice rejects larger bounds, a list slice accepts them -/
def clampMax (o : Option Int) : Option Int := o.map (fun v => if v > maxsize then maxsize else v)

/-- the walk of `islice` over the values of the iterable: `cnt` = position of the head of the
    list, `nexti` = next position to emit. -/
def isliceGo (stop : Option Nat) (step : Nat) : List Int → Nat → Nat → List Int
  | [], _, _ => []
  | x :: xs, cnt, nexti =>
    if cnt < nexti then isliceGo stop step xs (cnt + 1) nexti
    else if (match stop with | some s => decide (s ≤ cnt) | none => false) then []
    else x :: isliceGo stop step xs (cnt + 1) (nexti + step)

/-- `list(itertools.islice(xs, start, stop, step))` -/
def islice (xs : List Int) (start stop step : Option Int) : R (List Int) :=
  if optLt start 0 || optLt stop 0 then .error .ValueError
  else if optLt step 1 then .error .ValueError
  else if optGt start maxsize || optGt stop maxsize || optGt step maxsize then .error .ValueError   -- "0 <= x <= sys.maxsize"
  else .ok (isliceGo (stop.map Int.toNat) ((step.getD 1).toNat) xs 0 ((start.getD 0).toNat))

/-- how many values `islice` pulls from the iterable before it stops pulling (`none`: until the
    iterable is exhausted) -/
def isliceNeeds (start stop : Option Int) : Option Nat :=
  match stop with
  | none => none
  | some b => some (max (start.getD 0).toNat b.toNat)

/-! ### the loops of rrule.py -/

/-- `__getitem__`, `item >= 0`: `for i in range(item+1): res = next(gen)`; StopIteration → IndexError -/
def nthNext : List Int → Nat → R Int
  | [], _ => .error .IndexError
  | x :: _, 0 => .ok x
  | _ :: xs, k + 1 => nthNext xs k

/-- `__contains__`, generator path (lines 179-184) -/
def containsLoop (item : Int) : List Int → Bool
  | [] => false
  | i :: xs => if i == item then true else if i > item then false else containsLoop item xs

/-- `before` (lines 203-214); `last` is the loop-carried variable -/
def beforeLoop (dt : Int) (inc : Bool) : List Int → Option Int → Option Int
  | [], last => last
  | i :: xs, last =>
    if (if inc then decide (i > dt) else decide (i ≥ dt)) then last
    else beforeLoop dt inc xs (some i)

/-- `after` (lines 224-232) -/
def afterLoop (dt : Int) (inc : Bool) : List Int → Option Int
  | [] => none
  | i :: xs =>
    if (if inc then decide (i ≥ dt) else decide (i > dt)) then some i
    else afterLoop dt inc xs

/-- `xafter` (lines 253-273); `n` counts the matches so far -/
def xafterLoop (dt : Int) (count : Option Int) (inc : Bool) : List Int → Int → List Int
  | [], _ => []
  | d :: xs, n =>
    if (if inc then decide (d ≥ dt) else decide (d > dt)) then
      match count with
      | some c => if n + 1 > c then [] else d :: xafterLoop dt count inc xs (n + 1)
      | none => d :: xafterLoop dt count inc xs n
    else xafterLoop dt count inc xs n

/-- `between` (lines 284-306); `started` is the loop-carried flag -/
def betweenLoop (after before : Int) (inc : Bool) : List Int → Bool → List Int
  | [], _ => []
  | i :: xs, started =>
    if (if inc then decide (i > before) else decide (i ≥ before)) then []
    else if !started then
      if (if inc then decide (i ≥ after) else decide (i > after)) then
        i :: betweenLoop after before inc xs true
      else betweenLoop after before inc xs false
    else i :: betweenLoop after before inc xs true

/-- the condition of line 155-157: the slice goes through `list(iter(self))[item]` -/
def sliceListPath (a b c : Option Int) : Bool :=
  optLt c 1 ||        -- `item.step is not None and item.step <= 0`
  optLt a 0 ||        -- `item.start is not None and item.start < 0`
  optLt b 0           -- `item.stop is not None and item.stop < 0`

/-- **generator path**: the query evaluated through `iter(self)` yielding `xs` -/
def gen : Query → List Int → Res
  | .iterAll, xs => .list xs
  | .take k, xs => .ofRL (islice xs none (some (k : Int)) none)
  | .index i, xs =>
    if i ≥ 0 then .ofR (nthNext xs i.toNat)           -- lines 164-171
    else .ofR (getIdx xs i)                            -- line 173: list(iter(self))[item]
  | .slice a b c, xs =>
    if sliceListPath a b c then .ofRL (Py.slice xs a b c)   -- line 158
    else .ofRL (islice xs (clampMax a) (clampMax b) (clampMax c))   -- `min(x, sys.maxsize)` for each bound, then islice
  | .contains x, xs => .bool (containsLoop x xs)
  | .count, xs => .nat xs.length                       -- `for x in self: pass; return self._len`
  | .before t inc, xs => .val (beforeLoop t inc xs none)
  | .after t inc, xs => .val (afterLoop t inc xs)
  | .xafter t n inc, xs => .list (xafterLoop t n inc xs 0)
  | .between a b inc, xs => .list (betweenLoop a b inc xs false)

/-- **cache-complete path** (`self._cache_complete` true; for `count`: `self._len` known) -/
def fast : Query → List Int → Res
  | .iterAll, cache => .list cache                     -- `iter(self._cache)`
  | .take k, cache => .ofRL (islice cache none (some (k : Int)) none)
  | .index i, cache => .ofR (getIdx cache i)           -- line 153
  | .slice a b c, cache => .ofRL (Py.slice cache a b c)
  | .contains x, cache => .bool (cache.elem x)         -- line 177
  | .count, cache => .nat cache.length                 -- `self._len`
  | .before t inc, cache => .val (beforeLoop t inc cache none)
  | .after t inc, cache => .val (afterLoop t inc cache)
  | .xafter t n inc, cache => .list (xafterLoop t n inc cache 0)
  | .between a b inc, cache => .list (betweenLoop a b inc cache false)

/-- the consumer drops its iterator once it has received exactly `ys` (evaluated after every
    value, and once before the first `next()` with `ys = []`) -/
def stops : Query → List Int → Bool
  | .iterAll, _ => false
  | .take k, ys => decide (k ≤ ys.length)
  | .index i, ys => decide (i ≥ 0) && decide (i.toNat + 1 ≤ ys.length)
  | .slice a b c, ys =>
    !sliceListPath a b c &&
      (match isliceNeeds (clampMax a) (clampMax b) with | some n => decide (n ≤ ys.length) | none => false)
  | .contains x, ys => ys.any (fun i => decide (i ≥ x))
  | .count, _ => false
  | .before t inc, ys => ys.any (fun i => if inc then decide (i > t) else decide (i ≥ t))
  | .after t inc, ys => ys.any (fun i => if inc then decide (i ≥ t) else decide (i > t))
  | .xafter t n inc, ys =>
    (match n with
     -- `n > count` is only tested when a matching value arrives: the (max(count,0)+1)-th match
     | some c => decide ((ys.filter (fun d => if inc then decide (d ≥ t) else decide (d > t))).length > c.toNat)
     | none => false)
  | .between _ b inc, ys => ys.any (fun i => if inc then decide (i > b) else decide (i ≥ b))

/-- no bound above `sys.maxsize` reaches `itertools.islice` unclamped -/
def small : Query → Bool
  | .slice a b c => sliceListPath a b c || !(optGt a maxsize || optGt b maxsize || optGt c maxsize)
  | .take k => decide ((k : Int) ≤ maxsize)
  | _ => true

/-- the query and the sequence exist in CPython: a slice bound above `sys.maxsize` is clamped to it, which is
    the list-semantics answer because no Python sequence is longer than `sys.maxsize`; `islice(rule, k)` itself
    needs `k ≤ sys.maxsize`.  Trivially true for every other query. -/
def fits (q : Query) (L : List Int) : Prop :=
  match q with
  | .slice a b c => small (.slice a b c) = true ∨ (L.length : Int) ≤ maxsize
  | .take k => (k : Int) ≤ maxsize
  | _ => True

/-- does the query look at `_cache_complete` (or `_len`, for `count`) before calling `iter(self)`?
    Plain iteration and `islice(rule, k)` go straight to `__iter__`. -/
def hasEntryCheck : Query → Bool
  | .iterAll => false
  | .take _ => false
  | _ => true

end Queries
