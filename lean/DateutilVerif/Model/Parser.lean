/-
  Model/Parser.lean — `parserinfo`, `_ymd`, `parser._parse`, `_parse_numeric_token`,
  `_build_naive`, `_build_tzaware` of `parser/_parser.py`, branch for branch.

  Conventions
  * tokens are `List Char`; `len_l` is computed once, the token list is mutable state
    (the `GMT+3` sign flip writes into it);
  * every Python operation that can raise is a `Py.R` with the exception kind; the `_parse`
    boundary catches `(IndexError, ValueError, InvalidOperation)`, `parse` wraps the
    `ValueError`s of `_build_naive` as `ParserError`, anything else propagates;
  * parsed numbers are non-negative by construction (no sign ever reaches `int()`), so they
    are `Nat`; `tzoffset` is an `Int`;
  * `Decimal` is an exact decimal `num / 10^scale` with the two context-dependent operations
    the parser uses (`% 1`, `60 * r`) rounded to 28 significant digits, half-even, and
    `InvalidOperation` when the integer quotient has more than 28 digits;
  * `float(tok)` is only tested for success: `floatOk`;
  * the result zone is a descriptor, not an object.
  No Mathlib.
-/
import DateutilVerif.Model.Lexer
import DateutilVerif.Base.Calendar
import DateutilVerif.Base.Time
import DateutilVerif.Generated.ParserKernels
import DateutilVerif.Generated.Tables
import DateutilVerif.Model.TzStr

namespace PM
open Py

/-! ### strings -/

/-- `str.lower()` as far as matching against ASCII word tables is concerned: ASCII letters,
    and U+212A KELVIN SIGN (the only non-ASCII code point whose lower case is ASCII —
    audited over all code points by the harness). -/
def lowerChar (c : Char) : Char :=
  if c = 'K' then 'k' else c.toLower

def lower (t : Token) : Token := t.map lowerChar

def tk (s : String) : Token := s.toList

/-- `tok.isdigit()` -/
def isDigitTok (cls : Char → CClass) (t : Token) : Bool :=
  !t.isEmpty && t.all (fun c => (cls c).isNum)

def digitVal (cls : Char → CClass) (c : Char) : Option Nat :=
  match cls c with
  | .decDigit v => some v
  | _ => none

/-- value of a run of decimal digits (any script); `none` if some character is not one -/
def digitsVal (cls : Char → CClass) : List Char → Nat → Option Nat
  | [], acc => some acc
  | c :: cs, acc => match digitVal cls c with
    | some v => digitsVal cls cs (acc * 10 + v)
    | none => none

/-- CPython's `sys.int_max_str_digits` default -/
def intMaxStrDigits : Nat := 4300

/-- `int(tok)` for a token or a slice of one: a non-empty run of decimal digits, at most
    4300 of them; anything else `ValueError`. -/
def pyInt (cls : Char → CClass) (t : Token) : R Nat :=
  if t.isEmpty then .error .ValueError
  else if t.length > intMaxStrDigits then .error .ValueError
  else match digitsVal cls t 0 with
    | some v => .ok v
    | none => .error .ValueError

/-- Python slice `s[a:b]` for `0 ≤ a ≤ b` -/
def sl (t : Token) (a b : Nat) : Token := (t.drop a).take (b - a)

/-! ### Decimal -/

/-- a finite non-negative `Decimal`: `num / 10^scale` -/
structure Dec where
  num : Nat
  scale : Nat
  deriving Repr, DecidableEq, Inhabited

/-- split at the first `.` -/
def splitDot : List Char → List Char × Option (List Char)
  | [] => ([], none)
  | c :: cs => if c = '.' then ([], some cs) else
      let (a, b) := splitDot cs
      (c :: a, b)

/-- the numeric spellings a lexer token can have: `D*[.D*]` with at least one decimal digit -/
def numForm (cls : Char → CClass) (t : Token) : Option Dec :=
  match splitDot t with
  | (ip, none) => if ip.isEmpty then none else (digitsVal cls ip 0).map (fun v => ⟨v, 0⟩)
  | (ip, some fp) =>
    if ip.isEmpty && fp.isEmpty then none else
    match digitsVal cls (ip ++ fp) 0 with
    | some v => some ⟨v, fp.length⟩
    | none => none

/-- `float(tok)` succeeds (`inf`, `infinity`, `nan` in any ASCII case included) -/
def floatOk (cls : Char → CClass) (t : Token) : Bool :=
  (numForm cls t).isSome ||
  (let w := t.map Char.toLower; w == tk "inf" || w == tk "infinity" || w == tk "nan")

/-- `parser._to_decimal`: `Decimal(val)` finite, otherwise `ValueError` (inf/nan/snan and
    every syntax error end in the `except Exception` re-raise) -/
def toDecimal (cls : Char → CClass) (t : Token) : R Dec :=
  match numForm cls t with
  | some d => .ok d
  | none => .error .ValueError

def Dec.toNat (d : Dec) : Nat := d.num / 10 ^ d.scale      -- `int(value)`

def ndigits (n : Nat) : Nat := (Nat.toDigits 10 n).length

def decPrec : Nat := 28

/-- round `coeff / 10^scale` to 28 significant digits, ROUND_HALF_EVEN (`_fix` / `mpd_qfinalize`) -/
def round28 (coeff scale : Nat) : Dec :=
  let nd := ndigits coeff
  if nd ≤ decPrec then ⟨coeff, scale⟩ else
  let k := nd - decPrec
  let q := coeff / 10 ^ k
  let r := coeff % 10 ^ k
  let half := 5 * 10 ^ (k - 1)
  let q' := if r > half ∨ (r = half ∧ q % 2 = 1) then q + 1 else q
  if k ≤ scale then ⟨q', scale - k⟩ else ⟨q' * 10 ^ (k - scale), 0⟩

/-- `value % 1`: `InvalidOperation` (DivisionImpossible) when the integer quotient needs more
    than `prec` digits; the remainder is rounded to the context precision -/
def Dec.rem1 (d : Dec) : R Dec :=
  if ndigits d.toNat > decPrec then .error .InvalidOperation
  else .ok (round28 (d.num % 10 ^ d.scale) d.scale)

def Dec.isZero (d : Dec) : Bool := d.num == 0
/-- `60 * r` in the context -/
def Dec.mul60 (d : Dec) : Dec := round28 (60 * d.num) d.scale
def Dec.geNat (d : Dec) (n : Nat) : Bool := d.num ≥ n * 10 ^ d.scale      -- `n <= value`
def Dec.leNat (d : Dec) (n : Nat) : Bool := d.num ≤ n * 10 ^ d.scale      -- `value <= n`
def Dec.gtNat (d : Dec) (n : Nat) : Bool := d.num > n * 10 ^ d.scale      -- `value > n`
def Dec.ltNat (d : Dec) (n : Nat) : Bool := d.num < n * 10 ^ d.scale      -- `value < n`

/-! ### parserinfo -/

structure Info where
  jump : List Token                 -- keys of `_jump`
  weekdays : List (Token × Nat)     -- items of `_weekdays` in insertion order (a later one wins)
  months : List (Token × Nat)
  hms : List (Token × Nat)
  ampm : List (Token × Nat)
  utczoneKeys : List Token          -- keys of `_utczone` (lower-cased)
  pertain : List Token
  UTCZONE : List Token              -- the class attribute as written
  tzoffsets : List (Token × Int)    -- `TZOFFSET`
  dayfirst : Bool
  yearfirst : Bool
  year : Int                        -- `_year`
  century : Int                     -- `_century`
  deriving Repr, Inhabited

/-- `parserinfo._convert` for a list of tuples -/
def convertGroups (gs : List (List String)) : List (Token × Nat) :=
  (gs.zipIdx).flatMap (fun (g, i) => g.map (fun v => (lower (tk v), i)))

/-- `parserinfo._convert` for a flat list (keys only matter) -/
def convertFlat (xs : List String) : List Token := xs.map (fun v => lower (tk v))

def Info.default (dayfirst yearfirst : Bool) (year century : Int) : Info :=
  { jump := convertFlat Gen.PI_JUMP
    weekdays := convertGroups Gen.PI_WEEKDAYS
    months := convertGroups Gen.PI_MONTHS
    hms := convertGroups Gen.PI_HMS
    ampm := convertGroups Gen.PI_AMPM
    utczoneKeys := convertFlat Gen.PI_UTCZONE
    pertain := convertFlat Gen.PI_PERTAIN
    UTCZONE := Gen.PI_UTCZONE.map tk
    tzoffsets := []
    dayfirst, yearfirst, year, century }

/-- dict lookup where a later insertion overwrote an earlier one -/
def lookupLast {β} (tbl : List (Token × β)) (k : Token) : Option β :=
  tbl.foldl (fun acc (kv : Token × β) => if kv.1 = k then some kv.2 else acc) none

def Info.isJump (info : Info) (t : Token) : Bool := info.jump.contains (lower t)
def Info.weekdayOf (info : Info) (t : Token) : Option Nat := lookupLast info.weekdays (lower t)
def Info.monthOf (info : Info) (t : Token) : Option Nat := (lookupLast info.months (lower t)).map (· + 1)
def Info.hmsOf (info : Info) (t : Token) : Option Nat := lookupLast info.hms (lower t)
def Info.ampmOf (info : Info) (t : Token) : Option Nat := lookupLast info.ampm (lower t)
def Info.isPertain (info : Info) (t : Token) : Bool := info.pertain.contains (lower t)
def Info.isUtczone (info : Info) (t : Token) : Bool := info.utczoneKeys.contains (lower t)
/-- `info.tzoffset(name)`: note `name in self._utczone` is tested WITHOUT lower-casing -/
def Info.tzoffsetOf (info : Info) (t : Token) : Option Int :=
  if info.utczoneKeys.contains t then some 0 else lookupLast info.tzoffsets t

/-! ### `_ymd` -/

structure Ymd where
  vals : List Nat := []
  century : Bool := false       -- `century_specified`
  dIdx : Option Nat := none     -- `dstridx`
  mIdx : Option Nat := none     -- `mstridx`
  yIdx : Option Nat := none     -- `ystridx`
  deriving Repr, DecidableEq, Inhabited

inductive Label where
  | none | Y | M | D
  deriving DecidableEq, Repr

/-- `calendar.monthrange(y, m)[1]`; `IllegalMonthError` is a `ValueError` -/
def monthrange (y m : Int) : R Int :=
  if 1 ≤ m ∧ m ≤ 12 then .ok (Cal.daysInMonth y m) else .error .ValueError

/-- the common tail of `_ymd.append`: `big` says the value carries a century
    (string of more than two digits / number above 100) -/
def Ymd.appendCore (self : Ymd) (big : Bool) (v : R Nat) (label : Label) : R Ymd :=
  -- `if label not in [None, 'Y']: raise ValueError(label)` (only when the value carries a century)
  if big ∧ label ≠ .none ∧ label ≠ .Y then .error .ValueError else
  let century := big || self.century
  let label := if big then Label.Y else label
  match v with                                 -- `int(val)`
  | .error e => .error e
  | .ok n =>
    let idx := self.vals.length                -- `len(self) - 1` after the append
    let self' : Ymd := { self with vals := self.vals ++ [n], century := century }
    match label with
    | .M => if self.mIdx.isSome then .error .ValueError else .ok { self' with mIdx := some idx }
    | .D => if self.dIdx.isSome then .error .ValueError else .ok { self' with dIdx := some idx }
    | .Y => if self.yIdx.isSome then .error .ValueError else .ok { self' with yIdx := some idx }
    | .none => .ok self'

/-- `ymd.append(str)` -/
def Ymd.appendTok (cls : Char → CClass) (self : Ymd) (t : Token) (label : Label := .none) : R Ymd :=
  self.appendCore (isDigitTok cls t && t.length > 2) (pyInt cls t) label
/-- `ymd.append(Decimal)` -/
def Ymd.appendDec (self : Ymd) (d : Dec) (label : Label := .none) : R Ymd :=
  self.appendCore (d.gtNat 100) (.ok d.toNat) label
/-- `ymd.append(int)` -/
def Ymd.appendNat (self : Ymd) (n : Nat) (label : Label := .none) : R Ymd :=
  self.appendCore (n > 100) (.ok n) label

def Ymd.at (self : Ymd) (i : Int) : R Nat := getIdx self.vals i

/-- `_ymd.could_be_day`; the upper bound is only evaluated when `1 <= value` holds -/
def Ymd.couldBeDay (self : Ymd) (v : Dec) : R Bool :=
  if self.dIdx.isSome then .ok false
  else match self.mIdx with
  | none => .ok (v.geNat 1 && v.leNat 31)
  | some mi => match self.yIdx with
    | none => do
      let month ← self.at mi
      if v.geNat 1 then do
        let n ← monthrange 2000 month
        pure (v.leNat n.toNat)
      else pure false
    | some yi => do
      let month ← self.at mi
      let year ← self.at yi
      if v.geNat 1 then do
        let n ← monthrange year month
        pure (v.leNat n.toNat)
      else pure false

abbrev YMD := Option Nat × Option Nat × Option Nat

/-- `strids = {key: val for key, val in (('y', ystridx), ('m', mstridx), ('d', dstridx)) if val is not None}` -/
def Ymd.strids (self : Ymd) : List (Char × Nat) :=
  (match self.yIdx with | some i => [('y', i)] | none => []) ++
  (match self.mIdx with | some i => [('m', i)] | none => []) ++
  (match self.dIdx with | some i => [('d', i)] | none => [])

/-- the first half of `_resolve_from_stridxs`: with three members and two labels the third
    label is backed out; the two `assert`s are `AssertionError`s of the model -/
def completeStrids (len : Nat) (strids : List (Char × Nat)) : R (List (Char × Nat)) := do
  let strids ←
    if len = 3 ∧ strids.length = 2 then
      let missing := [0, 1, 2].filter (fun x => !(strids.map (·.2)).contains x)
      let key := ['y', 'm', 'd'].filter (fun k => !(strids.map (·.1)).contains k)
      match missing, key with
      | [v], [k] => pure (strids ++ [(k, v)])
      | _, _ => throw PyErr.AssertionError          -- `assert len(missing) == len(key) == 1`
    else pure strids
  if len ≠ strids.length then throw .AssertionError  -- `assert len(self) == len(strids)`
  pure strids

/-- `_resolve_from_stridxs` -/
def Ymd.resolveFromStridxs (self : Ymd) : R YMD := do
  let strids ← completeStrids self.vals.length self.strids
  let get (k : Char) : R (Option Nat) :=
    match strids.find? (·.1 = k) with
    | some (_, i) => (self.at i).map some
    | none => pure none
  -- the dict comprehension evaluates `self[strids[key]]` for every key
  let y ← get 'y'; let m ← get 'm'; let d ← get 'd'
  pure (y, m, d)

/-- `len(strids)` -/
def Ymd.nlab (self : Ymd) : Nat :=
  (if self.yIdx.isSome then 1 else 0) + (if self.mIdx.isSome then 1 else 0) + (if self.dIdx.isSome then 1 else 0)

/-- `_ymd.resolve_ymd` after the `_resolve_from_stridxs` shortcut (`len = len(self)`) -/
def Ymd.resolveRest (self : Ymd) (len : Nat) (yearfirst dayfirst : Bool) : R YMD :=
  if len > 3 then throw .ValueError
  else if len = 1 ∨ (self.mIdx.isSome ∧ len = 2) then
    -- one member, or two members with a month string
    match self.mIdx with
    | some mi => do
      let month ← self.at mi
      let other ← self.at ((mi : Int) - 1)
      if len > 1 then
        if other > 31 then pure (some other, some month, none) else pure (none, some month, some other)
      else pure (none, some month, none)
    | none => do
      let other ← self.at 0
      if other > 31 then pure (some other, none, none) else pure (none, none, some other)
  else if len = 2 then do
    let a ← self.at 0; let b ← self.at 1
    if a > 31 then pure (some a, some b, none)                       -- 99-01
    else if b > 31 then pure (some b, some a, none)                  -- 01-99
    else if dayfirst ∧ b ≤ 12 then pure (none, some b, some a)       -- 13-01
    else pure (none, some a, some b)                                 -- 01-13
  else if len = 3 then do
    let a ← self.at 0; let b ← self.at 1; let c ← self.at 2
    if self.mIdx = some 0 then
      if b > 31 then pure (some b, some a, some c)                   -- Apr-2003-25
      else pure (some c, some a, some b)
    else if self.mIdx = some 1 then
      if a > 31 ∨ (yearfirst ∧ c ≤ 31) then pure (some a, some b, some c)   -- 99-Jan-01
      else pure (some c, some b, some a)                             -- 01-Jan-01
    else if self.mIdx = some 2 then
      if b > 31 then pure (some b, some c, some a)                   -- 01-99-Jan
      else pure (some a, some c, some b)                             -- 99-01-Jan
    else
      if a > 31 ∨ self.yIdx = some 0 ∨ (yearfirst ∧ b ≤ 12 ∧ c ≤ 31) then
        if dayfirst ∧ c ≤ 12 then pure (some a, some c, some b)      -- year, day, month
        else pure (some a, some b, some c)
      else if a > 12 ∨ (dayfirst ∧ b ≤ 12) then pure (some c, some b, some a)   -- 13-01-01
      else pure (some c, some a, some b)                             -- 01-13-01
  else pure (none, none, none)

/-- `_ymd.resolve_ymd` -/
def Ymd.resolve (self : Ymd) (yearfirst dayfirst : Bool) : R YMD :=
  if (self.vals.length = self.nlab ∧ self.nlab > 0) ∨ (self.vals.length = 3 ∧ self.nlab = 2) then
    self.resolveFromStridxs
  else self.resolveRest self.vals.length yearfirst dayfirst

/-! ### the result record -/

structure Res where
  year : Option Nat := none
  month : Option Nat := none
  day : Option Nat := none
  weekday : Option Nat := none
  hour : Option Nat := none
  minute : Option Nat := none
  second : Option Nat := none
  microsecond : Option Nat := none
  tzname : Option Token := none
  tzoffset : Option Int := none
  ampm : Option Nat := none
  centurySpecified : Bool := false
  deriving Repr, DecidableEq, Inhabited

/-- `len(res)`: number of slots that are not None -/
def Res.len (r : Res) : Nat :=
  let c {α} (o : Option α) : Nat := if o.isSome then 1 else 0
  c r.year + c r.month + c r.day + c r.weekday + c r.hour + c r.minute + c r.second
  + c r.microsecond + c r.tzname + c r.tzoffset + c r.ampm

/-! ### helpers of `parser` -/

/-- `tokens[i]` for `i ≥ 0` -/
def tokAt (l : List Token) (i : Nat) : R Token :=
  match l[i]? with
  | some t => .ok t
  | none => .error .IndexError

/-- `_parsems` -/
def parsems (cls : Char → CClass) (v : Token) : R (Nat × Nat) :=
  if !v.contains '.' then do
    let i ← pyInt cls v
    pure (i, 0)
  else
    -- `i, f = value.split(".")` — unpacking fails with ValueError unless exactly two parts
    match splitDot v with
    | (i, some f) =>
      if f.contains '.' then .error .ValueError else do
        let iv ← pyInt cls i
        let fv ← pyInt cls ((f ++ List.replicate (6 - f.length) '0').take 6)
        pure (iv, fv)
    | (_, none) => .error .ValueError

/-- `_parse_min_sec` -/
def parseMinSec (v : Dec) : R (Nat × Option Nat) := do
  let minute := v.toNat
  let rem ← v.rem1
  if rem.isZero then pure (minute, none) else pure (minute, some rem.mul60.toNat)

/-- `string.ascii_uppercase` membership -/
def isAsciiUpper (c : Char) : Bool := 'A' ≤ c && c ≤ 'Z'

/-- `_could_be_tzname` -/
def couldBeTzname (info : Info) (hour : Option Nat) (tzname : Option Token) (tzoffset : Option Int)
    (t : Token) : Bool :=
  hour.isSome && tzname.isNone && tzoffset.isNone && t.length ≤ 5 &&
  (t.all isAsciiUpper || info.UTCZONE.contains t)

/-- `_ampm_valid`: `some h` = the marker is an AM/PM flag for hour `h`; `none` = it is not;
    raises when it cannot be one and the parse is not fuzzy -/
def ampmValid (hour : Option Nat) (ampm : Option Nat) (fuzzy : Bool) : R (Option Nat) :=
  match hour with
  | none => if fuzzy then .ok none else .error .ValueError
  | some h =>
    if !(h ≤ 12) then (if fuzzy then .ok none else .error .ValueError)
    else if fuzzy && ampm.isSome then .ok none      -- there is already an AM/PM flag
    else .ok (some h)

/-- `_adjust_ampm` (translated from source) on naturals -/
def adjustAmpm (hour ampm : Nat) : Nat := (Gen.adjustAmpm hour ampm).toNat

/-- `_find_hms_idx`, together with `info.hms(tokens[hms_idx])` (which `_parse_hms` looks up again) -/
def findHmsIdx (info : Info) (idx : Nat) (tokens : List Token) (allowJump : Bool) : Option (Nat × Nat) :=
  let lenL := tokens.length
  let hmsAt (i : Nat) : Option Nat := (tokens[i]?).bind info.hmsOf
  if idx + 1 < lenL ∧ (hmsAt (idx + 1)).isSome then (hmsAt (idx + 1)).map (fun h => (idx + 1, h))
  else if allowJump ∧ idx + 2 < lenL ∧ tokens[idx + 1]? = some [' '] ∧ (hmsAt (idx + 2)).isSome then
    (hmsAt (idx + 2)).map (fun h => (idx + 2, h))
  else if idx > 0 ∧ (hmsAt (idx - 1)).isSome then (hmsAt (idx - 1)).map (fun h => (idx - 1, h))
  else if 1 < idx ∧ idx + 1 = lenL ∧ tokens[idx - 1]? = some [' '] ∧ (hmsAt (idx - 2)).isSome then
    (hmsAt (idx - 2)).map (fun h => (idx - 2, h))
  else none

/-- `_assign_hms` -/
def assignHms (cls : Char → CClass) (res : Res) (valueRepr : Token) (hms : Nat) : R Res := do
  let value ← toDecimal cls valueRepr
  if hms = 0 then
    let res := { res with hour := some value.toNat }
    let r ← value.rem1
    if !r.isZero then
      let r2 ← value.rem1
      pure { res with minute := some r2.mul60.toNat }
    else pure res
  else if hms = 1 then
    let (m, s) ← parseMinSec value
    pure { res with minute := some m, second := s }
  else if hms = 2 then
    let (s, us) ← parsems cls valueRepr
    pure { res with second := some s, microsecond := some us }
  else pure res

/-- `tokens[i] == t` (false past the end) -/
def tokIs (tokens : List Token) (i : Nat) (t : Token) : Bool := tokens[i]? == some t

/-- `info.hms(tokens[i]) is not None` (false past the end) -/
def hmsAtIs (info : Info) (tokens : List Token) (i : Nat) : Bool := ((tokens[i]?).bind info.hmsOf).isSome

/-! #### the arms of `_parse_numeric_token` (each returns how far `idx` moved, `ymd`, `res`) -/

/-- `19990101T23[59]`: a 2- or 4-digit number after a complete date -/
def numHourMin (cls : Char → CClass) (s : Token) (ymd : Ymd) (res : Res) : R (Nat × Ymd × Res) := do
  let h ← pyInt cls (sl s 0 2)
  if s.length = 4 then
    let m ← pyInt cls (s.drop 2)
    pure (0, ymd, { res with hour := some h, minute := some m })
  else pure (0, ymd, { res with hour := some h })

/-- `YYMMDD` or `HHMMSS[.ss]` -/
def numSix (cls : Char → CClass) (s : Token) (ymd : Ymd) (res : Res) : R (Nat × Ymd × Res) :=
  if ymd.vals.isEmpty ∧ !s.contains '.' then do
    let ymd ← ymd.appendTok cls (sl s 0 2)
    let ymd ← ymd.appendTok cls (sl s 2 4)
    let ymd ← ymd.appendTok cls (s.drop 4)
    pure (0, ymd, res)
  else do
    let h ← pyInt cls (sl s 0 2)
    let m ← pyInt cls (sl s 2 4)
    let su ← parsems cls (s.drop 4)
    pure (0, ymd, { res with hour := some h, minute := some m, second := some su.1, microsecond := some su.2 })

/-- `YYYYMMDD[hhmm[ss]]` (8, 12 or 14 characters) -/
def numEight (cls : Char → CClass) (s : Token) (ymd : Ymd) (res : Res) : R (Nat × Ymd × Res) := do
  let ymd ← ymd.appendTok cls (sl s 0 4) .Y
  let ymd ← ymd.appendTok cls (sl s 4 6)
  let ymd ← ymd.appendTok cls (sl s 6 8)
  if s.length > 8 then
    let h ← pyInt cls (sl s 8 10)
    let m ← pyInt cls (sl s 10 12)
    if s.length > 12 then
      let sec ← pyInt cls (s.drop 12)
      pure (0, ymd, { res with hour := some h, minute := some m, second := some sec })
    else pure (0, ymd, { res with hour := some h, minute := some m })
  else pure (0, ymd, res)

/-- `HH[ ]h`, `MM[ ]m`, `SS[.ss][ ]s` (`_parse_hms` + `_assign_hms`): a label behind the number
    means the NEXT unit -/
def numHms (cls : Char → CClass) (valueRepr : Token) (idx hmsIdx h0 : Nat) (ymd : Ymd) (res : Res) :
    R (Nat × Ymd × Res) := do
  let res ← assignHms cls res valueRepr (if hmsIdx > idx then h0 else h0 + 1)
  pure ((if hmsIdx > idx then hmsIdx else idx) - idx, ymd, res)

/-- `HH:MM[:SS[.ss]]` -/
def numColon (cls : Char → CClass) (tokens : List Token) (idx : Nat) (value : Dec) (ymd : Ymd) (res : Res) :
    R (Nat × Ymd × Res) := do
  let t2 ← tokAt tokens (idx + 2)
  let v2 ← toDecimal cls t2
  let ms ← parseMinSec v2
  if idx + 4 < tokens.length ∧ tokIs tokens (idx + 3) [':'] then
    let t4 ← tokAt tokens (idx + 4)
    let su ← parsems cls t4
    pure (4, ymd, { res with hour := some value.toNat, minute := some ms.1, second := some su.1, microsecond := some su.2 })
  else pure (2, ymd, { res with hour := some value.toNat, minute := some ms.1, second := ms.2 })

/-- the second member of `01-01[-01]` / `01-Jan[-01]` -/
def sepSecond (cls : Char → CClass) (info : Info) (ymd : Ymd) (t2 : Token) : R Ymd :=
  if isDigitTok cls t2 then ymd.appendTok cls t2
  else match info.monthOf t2 with
    | some mv => ymd.appendNat mv .M
    | none => .error .ValueError

/-- the third member -/
def sepThird (cls : Char → CClass) (info : Info) (ymd : Ymd) (t4 : Token) : R Ymd :=
  match info.monthOf t4 with
  | some mv => ymd.appendNat mv .M
  | none => ymd.appendTok cls t4

/-- `01-01[-01]`, `01-Jan[-01]`: a number followed by `-`, `/` or `.` -/
def numSep (cls : Char → CClass) (info : Info) (tokens : List Token) (idx : Nat) (valueRepr : Token)
    (ymd : Ymd) (res : Res) : R (Nat × Ymd × Res) := do
  let sep ← tokAt tokens (idx + 1)
  let ymd ← ymd.appendTok cls valueRepr
  match (if idx + 2 < tokens.length then tokens[idx + 2]? else none) with
  | none => pure (1, ymd, res)
  | some t2 =>
    if info.isJump t2 then pure (1, ymd, res) else do
    let ymd ← sepSecond cls info ymd t2
    if idx + 3 < tokens.length ∧ tokIs tokens (idx + 3) sep then
      -- three members
      let t4 ← tokAt tokens (idx + 4)
      let ymd ← sepThird cls info ymd t4
      pure (4, ymd, res)
    else pure (2, ymd, res)

/-- a number followed by a jump word or by nothing: `12 am`, or a year / month / day -/
def numJump (info : Info) (tokens : List Token) (idx : Nat) (value : Dec) (ymd : Ymd) (res : Res) :
    R (Nat × Ymd × Res) :=
  match (if idx + 2 < tokens.length then (tokens[idx + 2]?).bind info.ampmOf else none) with
  | some ap => pure (2, ymd, { res with hour := some (adjustAmpm value.toNat ap) })
  | none => do
    let ymd ← ymd.appendDec value
    pure (1, ymd, res)

/-- the last three arms: `could_be_day` / `not fuzzy` / nothing -/
def dayOrFail (fuzzy : Bool) (ymd : Ymd) (res : Res) (value : Dec) : R (Nat × Ymd × Res) := do
  let cbd ← ymd.couldBeDay value
  if cbd then
    let ymd ← ymd.appendDec value
    pure (0, ymd, res)
  else if !fuzzy then throw .ValueError
  else pure (0, ymd, res)

/-- `12am` (hour below 24 directly followed by an AM/PM word), else the last three arms -/
def numAmpmOrDay (info : Info) (fuzzy : Bool) (tokens : List Token) (idx : Nat) (value : Dec) (ymd : Ymd)
    (res : Res) : R (Nat × Ymd × Res) :=
  match (tokens[idx + 1]?).bind info.ampmOf with
  | some ap =>
    if value.ltNat 24 then pure (1, ymd, { res with hour := some (adjustAmpm value.toNat ap) })
    else dayOrFail fuzzy ymd res value
  | none => dayOrFail fuzzy ymd res value

/-- `_parse_numeric_token`; returns how far `idx` moved, and the new `ymd`, `res` -/
def parseNumericToken (cls : Char → CClass) (info : Info) (fuzzy : Bool)
    (tokens : List Token) (idx : Nat) (ymd : Ymd) (res : Res) : R (Nat × Ymd × Res) := do
  let s ← tokAt tokens idx                    -- `value_repr`
  let value ← toDecimal cls s
  if ymd.vals.length = 3 ∧ (s.length = 2 ∨ s.length = 4) ∧ res.hour.isNone ∧
      (idx + 1 ≥ tokens.length ∨ (!tokIs tokens (idx + 1) [':'] ∧ !hmsAtIs info tokens (idx + 1))) then
    numHourMin cls s ymd res
  else if s.length = 6 ∨ (s.length > 6 ∧ s.idxOf '.' = 6) then numSix cls s ymd res
  else if s.length = 8 ∨ s.length = 12 ∨ s.length = 14 then numEight cls s ymd res
  else match findHmsIdx info idx tokens true with
  | some (hmsIdx, h0) => numHms cls s idx hmsIdx h0 ymd res
  | none =>
  if idx + 2 < tokens.length ∧ tokIs tokens (idx + 1) [':'] then numColon cls tokens idx value ymd res
  else if idx + 1 < tokens.length ∧
      (tokIs tokens (idx + 1) ['-'] ∨ tokIs tokens (idx + 1) ['/'] ∨ tokIs tokens (idx + 1) ['.']) then
    numSep cls info tokens idx s ymd res
  else if idx + 1 ≥ tokens.length ∨ (tokens[idx + 1]?).any info.isJump then numJump info tokens idx value ymd res
  else numAmpmOrDay info fuzzy tokens idx value ymd res

/-! ### `_parse` -/

structure PState where
  l : List Token
  res : Res := {}
  ymd : Ymd := {}
  skipped : List Nat := []
  deriving Repr, DecidableEq, Inhabited

/-! #### the arms of the `while` body (each returns how many FURTHER tokens were consumed) -/

/-- a month name: `Jan-01[-99]`, `Jan of 01`, or just the month -/
def stepMonth (cls : Char → CClass) (info : Info) (lenL i : Nat) (st : PState) (mv : Nat) : R (Nat × PState) := do
  let l := st.l
  let ymd ← st.ymd.appendNat mv .M
  if i + 1 < lenL then
    let l1 ← tokAt l (i + 1)
    if l1 = ['-'] ∨ l1 = ['/'] then
      -- Jan-01[-99]
      let l2 ← tokAt l (i + 2)
      let ymd ← ymd.appendTok cls l2
      if i + 3 < lenL ∧ tokIs l (i + 3) l1 then
        -- Jan-01-99
        let l4 ← tokAt l (i + 4)
        let ymd ← ymd.appendTok cls l4
        pure (4, { st with ymd := ymd })
      else pure (2, { st with ymd := ymd })
    else if i + 4 < lenL ∧ l1 = [' '] ∧ tokIs l (i + 3) [' '] ∧ (l[i + 2]?).any info.isPertain then
      -- Jan of 01: in this case 01 is clearly the year
      let l4 ← tokAt l (i + 4)
      if isDigitTok cls l4 then
        let value ← pyInt cls l4
        let year ← Gen.convertyear ⟨info.century, info.year⟩ value false
        -- `str(year)` then `ymd.append(year, 'Y')`: a decimal string
        let ymd ← ymd.appendCore ((toString year).length > 2) (.ok year.toNat) .Y
        pure (4, { st with ymd := ymd })
      else pure (4, { st with ymd := ymd })
    else pure (0, { st with ymd := ymd })
  else pure (0, { st with ymd := ymd })

/-- an AM/PM word -/
def stepAmpm (fuzzy : Bool) (i : Nat) (st : PState) (ap : Nat) : R (Nat × PState) := do
  let ok ← ampmValid st.res.hour st.res.ampm fuzzy
  match ok with
  | some h => pure (0, { st with res := { st.res with hour := some (adjustAmpm h ap), ampm := some ap } })
  | none =>
    if fuzzy then pure (0, { st with skipped := st.skipped ++ [i] })
    else pure (0, st)

/-- a time zone name; `GMT+3` / `BRST+3` mean "my time +3 is GMT": the sign token is reversed
    in place so that the offset arm gets it right -/
def stepTzname (info : Info) (lenL i : Nat) (st : PState) (li : Token) : Nat × PState :=
  let res := { st.res with tzname := some li, tzoffset := info.tzoffsetOf li }
  match (if i + 1 < lenL then st.l[i + 1]? else none) with
  | some l1 =>
    if l1 = ['+'] ∨ l1 = ['-'] then
      (0, { st with l := st.l.set (i + 1) (if l1 = ['+'] then ['-'] else ['+']),
                    res := { res with tzoffset := none,
                                      tzname := if info.isUtczone li then none else some li } })
    else (0, { st with res := res })
  | none => (0, { st with res := res })

/-- `-0300`, `-03:00`, `-[0]3`: hours, minutes and how many extra tokens the spelling took -/
def tzOffsetDigits (cls : Char → CClass) (l : List Token) (lenL i : Nat) : R (Nat × Nat × Nat) := do
  let l1 ← tokAt l (i + 1)
  if l1.length = 4 then                                   -- -0300
    let h ← pyInt cls (sl l1 0 2)
    let m ← pyInt cls (l1.drop 2)
    pure (h, m, 0)
  else if i + 2 < lenL ∧ tokIs l (i + 2) [':'] then       -- -03:00
    let h ← pyInt cls l1
    let l3 ← tokAt l (i + 3)
    let m ← pyInt cls l3
    pure (h, m, 2)
  else if l1.length ≤ 2 then                              -- -[0]3
    let h ← pyInt cls (sl l1 0 2)
    pure (h, 0, 0)
  else throw PyErr.ValueError

/-- a time zone name between parentheses after the offset: `-0300 (BRST)` -/
def tzParenName (info : Info) (l : List Token) (lenL i' : Nat) (res : Res) : Option Token :=
  if i' + 5 < lenL then
    match l[i' + 2]?, l[i' + 3]?, l[i' + 4]?, l[i' + 5]? with
    | some t2, some t3, some t4, some t5 =>
      if info.isJump t2 ∧ t3 = ['('] ∧ t5 = [')'] ∧ 3 ≤ t4.length ∧
         couldBeTzname info res.hour res.tzname none t4 then some t4 else none
    | _, _, _, _ => none
  else none

/-- a numbered time zone -/
def stepTzoffset (cls : Char → CClass) (info : Info) (lenL i : Nat) (st : PState) (li : Token) : R (Nat × PState) := do
  let signal : Int := if li = ['+'] then 1 else -1
  let hma ← tzOffsetDigits cls st.l lenL i
  let res := { st.res with tzoffset := some (signal * ((hma.1 : Int) * 3600 + (hma.2.1 : Int) * 60)) }
  match tzParenName info st.l lenL (i + hma.2.2) res with
  | some t4 => pure (hma.2.2 + 4 + 1, { st with res := { res with tzname := some t4 } })
  | none => pure (hma.2.2 + 1, { st with res := res })

/-- the body of `while i < len_l` for one `i`: how many FURTHER tokens were consumed
    (`i` ends up at `i + adv + 1`) and the new state -/
def parseStep (cls : Char → CClass) (info : Info) (fuzzy : Bool) (lenL : Nat) (i : Nat) (st : PState) :
    R (Nat × PState) := do
  let li ← tokAt st.l i
  if floatOk cls li then do
    -- numeric token
    let r ← parseNumericToken cls info fuzzy st.l i st.ymd st.res
    pure (r.1, { st with ymd := r.2.1, res := r.2.2 })
  else match info.weekdayOf li with
  | some wd => pure (0, { st with res := { st.res with weekday := some wd } })
  | none =>
  match info.monthOf li with
  | some mv => stepMonth cls info lenL i st mv
  | none =>
  match info.ampmOf li with
  | some ap => stepAmpm fuzzy i st ap
  | none =>
  if couldBeTzname info st.res.hour st.res.tzname st.res.tzoffset li then pure (stepTzname info lenL i st li)
  else if st.res.hour.isSome ∧ (li = ['+'] ∨ li = ['-']) then stepTzoffset cls info lenL i st li
  else if !(info.isJump li || fuzzy) then throw .ValueError
  else pure (0, { st with skipped := st.skipped ++ [i] })

/-- `while i < len_l`, by structural recursion on the number of indices still to visit:
    `skip` counts the indices already consumed by an earlier step (`i += k` in the body). -/
def parseLoop (cls : Char → CClass) (info : Info) (fuzzy : Bool) (lenL : Nat) :
    (fuel : Nat) → (i : Nat) → (skip : Nat) → PState → R PState
  | 0, _, _, st => .ok st
  | fuel + 1, i, skip + 1, st => parseLoop cls info fuzzy lenL fuel (i + 1) skip st
  | fuel + 1, i, 0, st =>
    match parseStep cls info fuzzy lenL i st with
    | .error e => .error e
    | .ok (adv, st') => parseLoop cls info fuzzy lenL fuel (i + 1) adv st'

/-- `_recombine_skipped` -/
def recombineSkipped (tokens : List Token) (skipped : List Nat) : R (List Token) :=
  let sorted := skipped.mergeSort (· ≤ ·)
  let rec go : List Nat → Nat → List Token → R (List Token)
    | [], _, acc => .ok acc
    | idx :: rest, i, acc => do
      let t ← tokAt tokens idx
      if i > 0 ∧ (skipped[i - 1]?).map (· + 1) = some idx then
        match acc.reverse with
        | last :: revInit => go rest (i + 1) (revInit.reverse ++ [last ++ t])
        | [] => .error .IndexError
      else go rest (i + 1) (acc ++ [t])
  go sorted 0 []

structure Opts where
  dayfirst : Option Bool := none
  yearfirst : Option Bool := none
  fuzzy : Bool := false
  fuzzyWithTokens : Bool := false
  ignoretz : Bool := false
  deriving Repr, DecidableEq, Inhabited

/-- the `try:` block of `_parse` -/
def parseTry (cls : Char → CClass) (info : Info) (o : Opts) (l : List Token) : R PState := do
  let fuzzy := o.fuzzy || o.fuzzyWithTokens
  let dayfirst := o.dayfirst.getD info.dayfirst
  let yearfirst := o.yearfirst.getD info.yearfirst
  let st ← parseLoop cls info fuzzy l.length l.length 0 0 { l := l }
  let (y, m, d) ← st.ymd.resolve yearfirst dayfirst
  pure { st with res := { st.res with centurySpecified := st.ymd.century, year := y, month := m, day := d } }

/-- `parserinfo.validate` -/
def validate (info : Info) (res : Res) : R Res := do
  let res ← match res.year with
    | some y => do
      let y' ← Gen.convertyear ⟨info.century, info.year⟩ y res.centurySpecified
      pure { res with year := some y'.toNat }
    | none => pure res
  let noName := res.tzname.isNone || res.tzname == some []
  if (res.tzoffset == some 0 && noName) || res.tzname == some ['Z'] || res.tzname == some ['z'] then
    pure { res with tzname := some (tk "UTC"), tzoffset := some 0 }
  else if res.tzoffset != some 0 && !noName && res.tzname.any info.isUtczone then
    pure { res with tzoffset := some 0 }
  else pure res

def caughtInParse (e : PyErr) : Bool :=
  e == .IndexError || e == .ValueError || e == .InvalidOperation

/-- `parser._parse`: `none` is the `(None, None)` return -/
def parseTokens (cls : Char → CClass) (info : Info) (o : Opts) (l : List Token) :
    R (Option (Res × Option (List Token))) :=
  match parseTry cls info o l with
  | .error e => if caughtInParse e then .ok none else .error e
  | .ok st => do
    let res ← validate info st.res
    if o.fuzzyWithTokens then
      let toks ← recombineSkipped st.l st.skipped
      pure (some (res, some toks))
    else pure (some (res, none))

/-! ### `_build_naive` -/

def intMax : Int := 2147483647

/-- the keyword value does not fit a C int -/
def fieldBig (o : Option Nat) : Bool := match o with | some v => decide ((v : Int) > intMax) | none => false
/-- the keyword value, or the default's field -/
def fieldOr (o : Option Nat) (dv : Int) : Int := match o with | some v => v | none => dv

/-- `default.replace(**repl)`: C-int conversion first (`OverflowError`), then field validation -/
def dtReplace (dflt : DT) (y m d hh mm ss us : Option Nat) : R DT :=
  if fieldBig y || fieldBig m || fieldBig d || fieldBig hh || fieldBig mm || fieldBig ss || fieldBig us then
    .error .OverflowError
  else if (DT.mk (fieldOr y dflt.y) (fieldOr m dflt.m) (fieldOr d dflt.d) (fieldOr hh dflt.hh)
            (fieldOr mm dflt.mm) (fieldOr ss dflt.ss) (fieldOr us dflt.us)).valid then
    .ok (DT.mk (fieldOr y dflt.y) (fieldOr m dflt.m) (fieldOr d dflt.d) (fieldOr hh dflt.hh)
            (fieldOr mm dflt.mm) (fieldOr ss dflt.ss) (fieldOr us dflt.us))
  else .error .ValueError

/-- `relativedelta(weekday=wd)` then `naive + rd`: forward to that weekday, zero days if already there -/
def weekdayShift (naive : DT) (wd : Nat) : R DT :=
  if wd ≥ 7 then .error .IndexError          -- `weekdays[weekday]`
  else naive.addDays (Int.emod (7 - naive.weekday + wd) 7)

/-- the `if 'day' not in repl` block of `_build_naive`: the day that goes into `replace`
    (the parsed one; else the default's day clipped to the length of the resulting month; else none) -/
def clipDay (res : Res) (dflt : DT) : R (Option Nat) :=
  match res.day with
  | some d => .ok (some d)
  | none => do
    let dim ← monthrange (fieldOr res.year dflt.y) (fieldOr res.month dflt.m)
    if dflt.d > dim then pure (some dim.toNat) else pure none

/-- `if res.weekday is not None and not res.day: naive + relativedelta(weekday=res.weekday)` -/
def shiftBareWeekday (res : Res) (naive : DT) : R DT :=
  match res.weekday with
  | some wd => if res.day.isNone ∨ res.day = some 0 then weekdayShift naive wd else .ok naive
  | none => .ok naive

/-- `parser._build_naive` -/
def buildNaive (res : Res) (dflt : DT) : R DT := do
  let day ← clipDay res dflt
  let naive ← dtReplace dflt res.year res.month day res.hour res.minute res.second res.microsecond
  shiftBareWeekday res naive

/-! ### `_build_tzaware` -/

/-- what a `tzinfos` entry / callable returns -/
inductive TzData where
  | obj (k : Nat)            -- a `datetime.tzinfo` instance (identified by an index)
  | str (s : Token)          -- text → `tz.tzstr(s)`
  | int (n : Int)            -- → `tz.tzoffset(tzname, n)`
  | noneVal                  -- None
  | bad                      -- anything else → TypeError
  | raises                   -- (callable only) the user's function raises ValueError for this name
  deriving Repr, DecidableEq, Inhabited

inductive TzDflt where
  | data (d : TzData)        -- the callable's answer for names not listed
  | echoOffset               -- `lambda name, off: off`
  deriving Repr, DecidableEq, Inhabited

inductive TzInfos where
  | absent                                                   -- None
  | mapping (entries : List (Option Token × TzData))
  | callable (entries : List (Option Token × TzData)) (dflt : TzDflt)
  deriving Repr, DecidableEq, Inhabited

/-- the zone of the result, as a description -/
inductive TzDescr where
  | naive                                       -- no zone applied (`aware = naive`): the value of `_build_naive` as it is
  | naiveWarn (name : Token)                    -- UnknownTimezoneWarning, `naive.replace(tzinfo=None)`
  | utc                                         -- `tz.UTC`
  | fixed (name : Option Token) (off : Int)     -- `tz.tzoffset(name, off)`
  | localZone (name : Token) (off : Option Int) -- `tz.tzlocal()` for the parsed (name, `res.tzoffset`); fold / UTC replacement decided by `localFinal`
  | viaTzinfos (d : TzData) (name : Option Token)   -- tzinfo object / tzstr / None from `tzinfos`; fold by `assignFold`
  deriving Repr, DecidableEq, Inhabited

def lookupKey {β} (tbl : List (Option Token × β)) (k : Option Token) : Option β :=
  (tbl.find? (·.1 = k)).map (·.2)

/-- `datetime.timedelta(seconds=n)` is representable -/
def offsetOk (n : Int) : Bool :=
  let days := Int.ediv n 86400
  decide (-999999999 ≤ days) && decide (days ≤ 999999999)

/-- `tz.tzoffset(name, n)`: `timedelta(seconds=n)` must be representable -/
def fixedZone (name : Option Token) (n : Int) : R TzDescr :=
  if offsetOk n then .ok (.fixed name n) else .error .OverflowError

/-- `tz.tzstr(tzdata)` inside `_build_tzinfo`, as far as `parse` is concerned: the zone is built or the constructor
    raises.  This IS C08's model of the TZ-string parser (`TzStr.tzstr`, the non-POSIX reading `tz.tzstr(s)` uses):
    `ValueError` for a malformed string ("unknown string format"), `OverflowError` for an offset no `timedelta` holds.
    `parse()` wraps `_build_tzaware` since /repo 950345d, so that ValueError arrives as ParserError (`parseResult`). -/
def tzstrCtor (s : Token) : R Unit :=
  match TzStr.tzstr (String.ofList s) false with
  | .ok _ => .ok ()
  | .error e => .error e

/-- seconds since ordinal 0 of a naive wall time (whole seconds: the transitions have none finer) -/
def wallSeconds (t : DT) : Int := Cal.toOrdinal t.y t.m t.d * 86400 + t.hh * 3600 + t.mm * 60 + t.ss

/-- `tzrangebase._isdst(dt)` for `dt = naive.replace(tzinfo=tzstr(s), fold=fold)`: `transitions(dt.year)` is computed at
    query time and may raise (month 13 passes the constructor: `calendar.IllegalMonthError`, a ValueError) -/
def strIsdst (z : TzStr.Zone) (t : DT) (fold : Bool) : R Bool :=
  if !z.hasdst then pure false else do
  match ← TzStr.transitions z t.y with
  | none => pure false
  | some (on, off) =>
    let w := wallSeconds t
    let d := if on < off then decide (on ≤ w) && decide (w < off) else !(decide (off ≤ w) && decide (w < on))
    let amb := decide (off ≤ w) && decide (w < off + (z.dstOff - z.stdOff))
    if !d && amb then pure (!fold) else pure d

/-- `aware.tzname()` at fold 0 and at fold 1, the two values `_assign_tzname` looks at, for a `tzinfos` TZ string -/
def strNames (s : Token) (t : DT) : R (Option Token × Option Token) := do
  let z ← TzStr.tzstr (String.ofList s) false
  let nm (b : Bool) : Option Token := (if b then z.dstAbbr else z.stdAbbr).map String.toList
  let d0 ← strIsdst z t false
  let d1 ← strIsdst z t true
  pure (nm d0, nm d1)

/-- `_build_tzinfo` + `naive.replace(tzinfo=…)` -/
def buildTzinfo (tzi : TzInfos) (tzname : Option Token) (tzoffset : Option Int) : R TzDescr := do
  let data : TzData := match tzi with
    | .callable entries dflt =>
      match lookupKey entries tzname with
      | some d => d
      | none => match dflt with
        | .data d => d
        | .echoOffset => match tzoffset with | some n => .int n | none => .noneVal
    | .mapping entries => (lookupKey entries tzname).getD .noneVal
    | .absent => .noneVal
  match data with
  | .obj k => pure (.viaTzinfos (.obj k) tzname)
  | .noneVal => pure (.viaTzinfos .noneVal tzname)
  | .str s => do
    tzstrCtor s                                     -- `tz.tzstr(tzdata)` may raise
    pure (.viaTzinfos (.str s) tzname)
  | .int n => fixedZone tzname n
  | .bad => throw .TypeError
  | .raises => throw .ValueError

/-- `callable(tzinfos) or (tzinfos and res.tzname in tzinfos)` -/
def TzInfos.applies (tzi : TzInfos) (tzname : Option Token) : Bool :=
  match tzi with
  | .callable _ _ => true
  | .mapping entries => !entries.isEmpty && (lookupKey entries tzname).isSome
  | .absent => false

/-- truthiness of `res.tzname` -/
def nameTruthy (n : Option Token) : Bool := match n with | some t => !t.isEmpty | none => false

/-- `_build_tzaware`: the cascade, in the order of the code -/
def buildTzaware (tznames : List Token) (tzi : TzInfos) (res : Res) : R TzDescr :=
  if tzi.applies res.tzname then buildTzinfo tzi res.tzname res.tzoffset       -- tzinfos callable / mapping hit
  else if nameTruthy res.tzname && res.tzname.any tznames.contains then       -- a name of the local zone
    .ok (.localZone (res.tzname.getD []) res.tzoffset)
  else if res.tzoffset = some 0 then .ok .utc                                 -- `res.tzoffset == 0`
  else match res.tzoffset with
    | some n => fixedZone res.tzname n                                        -- `elif res.tzoffset:` (non-zero)
    | none =>
      if !nameTruthy res.tzname then .ok .naive                               -- nothing about a zone was found
      else .ok (.naiveWarn (res.tzname.getD []))                              -- a name nobody knows: warn, naive

/-- `_assign_tzname`: which fold the result carries, given the zone's names for the wall time
    at fold 0 and fold 1 -/
def assignFold (n0 n1 : Option Token) (tzname : Option Token) : Nat :=
  if n0 ≠ tzname then (if n1 = tzname then 1 else 0) else 0

inductive LocalFinal where
  | localFold (fold : Nat)
  | utc
  deriving Repr, DecidableEq

/-- the local-zone row after `_assign_tzname`, given what `tz.tzlocal()` reports for the wall time at fold 0 / fold 1
    (names `n0 n1`, UTC offsets `o0 o1` in seconds):
    * GMT/UTC/Z parsed where the local zone is currently called something else ⇒ `tz.UTC`;
    * (since the repair of D-C15-local-zone-named-utc) the text means offset ZERO (`res.tzoffset == 0`: Z, UTC, GMT, +00:00 …)
      but the local zone is not at offset zero for that wall time — a zone merely CALLED UTC / GMT (`TZ=UTC+3`) ⇒ `tz.UTC`. -/
def localFinal (info : Info) (n0 n1 : Option Token) (o0 o1 : Int) (tzname : Token) (tzoffset : Option Int) : LocalFinal :=
  let f := assignFold n0 n1 (some tzname)
  let nm := if f = 1 then n1 else n0
  let off := if f = 1 then o1 else o0
  if nm ≠ some tzname ∧ info.UTCZONE.contains tzname then .utc
  else if tzoffset = some 0 ∧ off ≠ 0 then .utc            -- `res.tzoffset == 0 and aware.utcoffset() != timedelta(0)`
  else .localFold f

/-- the UTC offset of the local row's result at its wall time -/
def LocalFinal.offset (o0 o1 : Int) : LocalFinal → Int
  | .utc => 0
  | .localFold f => if f = 1 then o1 else o0

/-! ### `parser.parse` -/

structure Result where
  dt : DT
  tz : TzDescr
  tokens : Option (List Token)
  deriving Repr, DecidableEq, Inhabited

/-- `parser.parse(timestr, default, ignoretz, tzinfos, **kwargs)` after lexing -/
def parseResult (cls : Char → CClass) (info : Info) (o : Opts) (tznames : List Token) (tzi : TzInfos)
    (dflt : DT) (l : List Token) : R Result := do
  let r ← parseTokens cls info o l
  match r with
  | none => throw .ParserError                             -- "Unknown string format"
  | some (res, skipped) =>
    if res.len = 0 then throw .ParserError                 -- "String does not contain a date"
    let naive ← match buildNaive res dflt with
      | .ok t => pure t
      | .error .ValueError => throw PyErr.ParserError      -- `except ValueError` → ParserError
      | .error e => throw e
    -- since /repo 950345d `_build_tzaware` is wrapped like `_build_naive`: `except ValueError` → ParserError (a malformed
    -- TZ string in tzinfos, a tzinfos callable that raises ValueError); TypeError / OverflowError pass through
    let tz ← if o.ignoretz then pure TzDescr.naive else
      match buildTzaware tznames tzi res with
      | .ok z => pure z
      | .error .ValueError => throw PyErr.ParserError
      | .error e => throw e
    pure { dt := naive, tz := tz, tokens := if o.fuzzyWithTokens then skipped else none }

/-- the whole thing on text -/
def parse (cls : Char → CClass) (info : Info) (o : Opts) (tznames : List Token) (tzi : TzInfos)
    (dflt : DT) (s : List Char) : R Result :=
  parseResult cls info o tznames tzi dflt (lex cls s)

/-! ### the tzinfo of the returned datetime when `default=` may itself be AWARE

  `_build_naive` returns `default.replace(**repl)`, which still carries `default.tzinfo`.  After the repair of
  D-C15-aware-default-kept the last lines of `parser.parse` / `_build_tzaware` are

      if not ignoretz: ret = self._build_tzaware(ret, res, tzinfos)
      else:            ret = ret.replace(tzinfo=None)                     -- naive, whatever the default carries
      …
      elif not res.tzname and not res.tzoffset:  aware = naive           -- row 5: `default.tzinfo` is KEPT
      elif res.tzname:  warn(…); aware = naive.replace(tzinfo=None)      -- row 6: naive + warning, whatever the default carries

  `parseResult` (above) speaks about a naive default, where "kept" and "None" coincide (`.naive`); `FinalTz` separates them. -/
inductive FinalTz where
  | none                         -- `tzinfo=None`
  | noneWarn (name : Token)      -- `tzinfo=None` + UnknownTimezoneWarning
  | ofDefault                    -- `default.tzinfo`, untouched (None for a naive default)
  | zone (z : TzDescr)           -- the zone rows 1–4 of `_build_tzaware` put (`.viaTzinfos .noneVal` = a tzinfos entry None: `replace(tzinfo=None)`)
  deriving Repr, DecidableEq, Inhabited

/-- the last lines of `parser.parse` -/
def finalTz (o : Opts) (tznames : List Token) (tzi : TzInfos) (res : Res) : R FinalTz :=
  if o.ignoretz then .ok .none
  else match buildTzaware tznames tzi res with
    | .ok .naive => .ok .ofDefault
    | .ok (.naiveWarn n) => .ok (.noneWarn n)
    | .ok z => .ok (.zone z)
    | .error .ValueError => .error .ParserError
    | .error e => .error e

/-- reading a `FinalTz` for a NAIVE default (what `parseResult` reports) -/
def FinalTz.forget : FinalTz → TzDescr
  | .none => .naive
  | .noneWarn n => .naiveWarn n
  | .ofDefault => .naive
  | .zone z => z

structure ResultA where
  dt : DT
  tz : FinalTz
  tokens : Option (List Token)
  deriving Repr, DecidableEq, Inhabited

/-- `parser.parse` for any default (its wall time `dflt`, its tzinfo left symbolic) -/
def parseResultA (cls : Char → CClass) (info : Info) (o : Opts) (tznames : List Token) (tzi : TzInfos)
    (dflt : DT) (l : List Token) : R ResultA := do
  let r ← parseTokens cls info o l
  match r with
  | none => throw .ParserError
  | some (res, skipped) =>
    if res.len = 0 then throw .ParserError
    let naive ← match buildNaive res dflt with
      | .ok t => pure t
      | .error .ValueError => throw PyErr.ParserError
      | .error e => throw e
    let tz ← finalTz o tznames tzi res
    pure { dt := naive, tz := tz, tokens := if o.fuzzyWithTokens then skipped else none }

def parseA (cls : Char → CClass) (info : Info) (o : Opts) (tznames : List Token) (tzi : TzInfos)
    (dflt : DT) (s : List Char) : R ResultA :=
  parseResultA cls info o tznames tzi dflt (lex cls s)

end PM
