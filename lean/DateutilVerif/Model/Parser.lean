/-
  Model/Parser.lean — `parserinfo`, `_ymd`, `parser._parse`, `_parse_numeric_token`,
  `_build_naive`, `_build_tzaware` of `parser/_parser.py`, branch for branch.

  Conventions
  * tokens are `List Char`; `len_l` is computed once, the token list is mutable state
    (the `GMT+3` sign flip writes into it);
  * every Python operation that can raise is a `Py.R` with the exception kind; the `_parse`
    boundary catches `(IndexError, ValueError, InvalidOperation)`, `parse` wraps the
    `ValueError`s of `_build_naive` as `ParserError`, anything else propagates;
  * parsed numbers are non-negative by construction (no sign ever reaches `int()`), so they
    are `Nat`; `tzoffset` is an `Int`;
  * `Decimal` is an exact decimal `num / 10^scale` with the two context-dependent operations
    the parser uses (`% 1`, `60 * r`) rounded to 28 significant digits, half-even, and
    `InvalidOperation` when the integer quotient has more than 28 digits;
  * `float(tok)` is only tested for success: `floatOk`;
  * the result zone is a descriptor, not an object.
  No Mathlib.
-/
import DateutilVerif.Model.Lexer
import DateutilVerif.Base.Calendar
import DateutilVerif.Base.Time
import DateutilVerif.Generated.ParserKernels
import DateutilVerif.Generated.Tables

namespace PM
open Py

/-! ### strings -/

/-- `str.lower()` as far as matching against ASCII word tables is concerned: ASCII letters,
    and U+212A KELVIN SIGN (the only non-ASCII code point whose lower case is ASCII —
    audited over all code points by the harness). -/
def lowerChar (c : Char) : Char :=
  if c = 'K' then 'k' else c.toLower

def lower (t : Token) : Token := t.map lowerChar

def tk (s : String) : Token := s.toList

/-- `tok.isdigit()` -/
def isDigitTok (cls : Char → CClass) (t : Token) : Bool :=
  !t.isEmpty && t.all (fun c => (cls c).isNum)

def digitVal (cls : Char → CClass) (c : Char) : Option Nat :=
  match cls c with
  | .decDigit v => some v
  | _ => none

/-- value of a run of decimal digits (any script); `none` if some character is not one -/
def digitsVal (cls : Char → CClass) : List Char → Nat → Option Nat
  | [], acc => some acc
  | c :: cs, acc => match digitVal cls c with
    | some v => digitsVal cls cs (acc * 10 + v)
    | none => none

/-- CPython's `sys.int_max_str_digits` default -/
def intMaxStrDigits : Nat := 4300

/-- `int(tok)` for a token or a slice of one: a non-empty run of decimal digits, at most
    4300 of them; anything else `ValueError`. -/
def pyInt (cls : Char → CClass) (t : Token) : R Nat :=
  if t.isEmpty then .error .ValueError
  else if t.length > intMaxStrDigits then .error .ValueError
  else match digitsVal cls t 0 with
    | some v => .ok v
    | none => .error .ValueError

/-- Python slice `s[a:b]` for `0 ≤ a ≤ b` -/
def sl (t : Token) (a b : Nat) : Token := (t.drop a).take (b - a)

/-! ### Decimal -/

/-- a finite non-negative `Decimal`: `num / 10^scale` -/
structure Dec where
  num : Nat
  scale : Nat
  deriving Repr, DecidableEq, Inhabited

/-- split at the first `.` -/
def splitDot : List Char → List Char × Option (List Char)
  | [] => ([], none)
  | c :: cs => if c = '.' then ([], some cs) else
      let (a, b) := splitDot cs
      (c :: a, b)

/-- the numeric spellings a lexer token can have: `D*[.D*]` with at least one decimal digit -/
def numForm (cls : Char → CClass) (t : Token) : Option Dec :=
  match splitDot t with
  | (ip, none) => if ip.isEmpty then none else (digitsVal cls ip 0).map (fun v => ⟨v, 0⟩)
  | (ip, some fp) =>
    if ip.isEmpty && fp.isEmpty then none else
    match digitsVal cls (ip ++ fp) 0 with
    | some v => some ⟨v, fp.length⟩
    | none => none

/-- `float(tok)` succeeds (`inf`, `infinity`, `nan` in any ASCII case included) -/
def floatOk (cls : Char → CClass) (t : Token) : Bool :=
  (numForm cls t).isSome ||
  (let w := t.map Char.toLower; w == tk "inf" || w == tk "infinity" || w == tk "nan")

/-- `parser._to_decimal`: `Decimal(val)` finite, otherwise `ValueError` (inf/nan/snan and
    every syntax error end in the `except Exception` re-raise) -/
def toDecimal (cls : Char → CClass) (t : Token) : R Dec :=
  match numForm cls t with
  | some d => .ok d
  | none => .error .ValueError

def Dec.toNat (d : Dec) : Nat := d.num / 10 ^ d.scale      -- `int(value)`

def ndigits (n : Nat) : Nat := (Nat.toDigits 10 n).length

def decPrec : Nat := 28

/-- round `coeff / 10^scale` to 28 significant digits, ROUND_HALF_EVEN (`_fix` / `mpd_qfinalize`) -/
def round28 (coeff scale : Nat) : Dec :=
  let nd := ndigits coeff
  if nd ≤ decPrec then ⟨coeff, scale⟩ else
  let k := nd - decPrec
  let q := coeff / 10 ^ k
  let r := coeff % 10 ^ k
  let half := 5 * 10 ^ (k - 1)
  let q' := if r > half ∨ (r = half ∧ q % 2 = 1) then q + 1 else q
  if k ≤ scale then ⟨q', scale - k⟩ else ⟨q' * 10 ^ (k - scale), 0⟩

/-- `value % 1`: `InvalidOperation` (DivisionImpossible) when the integer quotient needs more
    than `prec` digits; the remainder is rounded to the context precision -/
def Dec.rem1 (d : Dec) : R Dec :=
  if ndigits d.toNat > decPrec then .error .InvalidOperation
  else .ok (round28 (d.num % 10 ^ d.scale) d.scale)

def Dec.isZero (d : Dec) : Bool := d.num == 0
/-- `60 * r` in the context -/
def Dec.mul60 (d : Dec) : Dec := round28 (60 * d.num) d.scale
def Dec.geNat (d : Dec) (n : Nat) : Bool := d.num ≥ n * 10 ^ d.scale      -- `n <= value`
def Dec.leNat (d : Dec) (n : Nat) : Bool := d.num ≤ n * 10 ^ d.scale      -- `value <= n`
def Dec.gtNat (d : Dec) (n : Nat) : Bool := d.num > n * 10 ^ d.scale      -- `value > n`
def Dec.ltNat (d : Dec) (n : Nat) : Bool := d.num < n * 10 ^ d.scale      -- `value < n`

/-! ### parserinfo -/

structure Info where
  jump : List Token                 -- keys of `_jump`
  weekdays : List (Token × Nat)     -- items of `_weekdays` in insertion order (a later one wins)
  months : List (Token × Nat)
  hms : List (Token × Nat)
  ampm : List (Token × Nat)
  utczoneKeys : List Token          -- keys of `_utczone` (lower-cased)
  pertain : List Token
  UTCZONE : List Token              -- the class attribute as written
  tzoffsets : List (Token × Int)    -- `TZOFFSET`
  dayfirst : Bool
  yearfirst : Bool
  year : Int                        -- `_year`
  century : Int                     -- `_century`
  deriving Repr, Inhabited

/-- `parserinfo._convert` for a list of tuples -/
def convertGroups (gs : List (List String)) : List (Token × Nat) :=
  (gs.zipIdx).flatMap (fun (g, i) => g.map (fun v => (lower (tk v), i)))

/-- `parserinfo._convert` for a flat list (keys only matter) -/
def convertFlat (xs : List String) : List Token := xs.map (fun v => lower (tk v))

def Info.default (dayfirst yearfirst : Bool) (year century : Int) : Info :=
  { jump := convertFlat Gen.PI_JUMP
    weekdays := convertGroups Gen.PI_WEEKDAYS
    months := convertGroups Gen.PI_MONTHS
    hms := convertGroups Gen.PI_HMS
    ampm := convertGroups Gen.PI_AMPM
    utczoneKeys := convertFlat Gen.PI_UTCZONE
    pertain := convertFlat Gen.PI_PERTAIN
    UTCZONE := Gen.PI_UTCZONE.map tk
    tzoffsets := []
    dayfirst, yearfirst, year, century }

/-- dict lookup where a later insertion overwrote an earlier one -/
def lookupLast {β} (tbl : List (Token × β)) (k : Token) : Option β :=
  tbl.foldl (fun acc (kv : Token × β) => if kv.1 = k then some kv.2 else acc) none

def Info.isJump (info : Info) (t : Token) : Bool := info.jump.contains (lower t)
def Info.weekdayOf (info : Info) (t : Token) : Option Nat := lookupLast info.weekdays (lower t)
def Info.monthOf (info : Info) (t : Token) : Option Nat := (lookupLast info.months (lower t)).map (· + 1)
def Info.hmsOf (info : Info) (t : Token) : Option Nat := lookupLast info.hms (lower t)
def Info.ampmOf (info : Info) (t : Token) : Option Nat := lookupLast info.ampm (lower t)
def Info.isPertain (info : Info) (t : Token) : Bool := info.pertain.contains (lower t)
def Info.isUtczone (info : Info) (t : Token) : Bool := info.utczoneKeys.contains (lower t)
/-- `info.tzoffset(name)`: note `name in self._utczone` is tested WITHOUT lower-casing -/
def Info.tzoffsetOf (info : Info) (t : Token) : Option Int :=
  if info.utczoneKeys.contains t then some 0 else lookupLast info.tzoffsets t

/-! ### `_ymd` -/

structure Ymd where
  vals : List Nat := []
  century : Bool := false       -- `century_specified`
  dIdx : Option Nat := none     -- `dstridx`
  mIdx : Option Nat := none     -- `mstridx`
  yIdx : Option Nat := none     -- `ystridx`
  deriving Repr, DecidableEq, Inhabited

inductive Label where
  | none | Y | M | D
  deriving DecidableEq, Repr

/-- `calendar.monthrange(y, m)[1]`; `IllegalMonthError` is a `ValueError` -/
def monthrange (y m : Int) : R Int :=
  if 1 ≤ m ∧ m ≤ 12 then .ok (Cal.daysInMonth y m) else .error .ValueError

/-- the common tail of `_ymd.append`: `big` says the value carries a century
    (string of more than two digits / number above 100) -/
def Ymd.appendCore (self : Ymd) (big : Bool) (v : R Nat) (label : Label) : R Ymd := do
  let (century, label) ←
    if big then
      if label ≠ .none ∧ label ≠ .Y then throw PyErr.ValueError else pure (true, Label.Y)
    else pure (self.century, label)
  let n ← v                                  -- `int(val)`
  let vals := self.vals ++ [n]
  let idx := vals.length - 1
  let self := { self with vals := vals, century := century }
  match label with
  | .M => if self.mIdx.isSome then throw .ValueError else pure { self with mIdx := some idx }
  | .D => if self.dIdx.isSome then throw .ValueError else pure { self with dIdx := some idx }
  | .Y => if self.yIdx.isSome then throw .ValueError else pure { self with yIdx := some idx }
  | .none => pure self

/-- `ymd.append(str)` -/
def Ymd.appendTok (cls : Char → CClass) (self : Ymd) (t : Token) (label : Label := .none) : R Ymd :=
  self.appendCore (isDigitTok cls t && t.length > 2) (pyInt cls t) label
/-- `ymd.append(Decimal)` -/
def Ymd.appendDec (self : Ymd) (d : Dec) (label : Label := .none) : R Ymd :=
  self.appendCore (d.gtNat 100) (.ok d.toNat) label
/-- `ymd.append(int)` -/
def Ymd.appendNat (self : Ymd) (n : Nat) (label : Label := .none) : R Ymd :=
  self.appendCore (n > 100) (.ok n) label

def Ymd.at (self : Ymd) (i : Int) : R Nat := getIdx self.vals i

/-- `_ymd.could_be_day`; the upper bound is only evaluated when `1 <= value` holds -/
def Ymd.couldBeDay (self : Ymd) (v : Dec) : R Bool :=
  if self.dIdx.isSome then .ok false
  else match self.mIdx with
  | none => .ok (v.geNat 1 && v.leNat 31)
  | some mi => match self.yIdx with
    | none => do
      let month ← self.at mi
      if v.geNat 1 then do
        let n ← monthrange 2000 month
        pure (v.leNat n.toNat)
      else pure false
    | some yi => do
      let month ← self.at mi
      let year ← self.at yi
      if v.geNat 1 then do
        let n ← monthrange year month
        pure (v.leNat n.toNat)
      else pure false

abbrev YMD := Option Nat × Option Nat × Option Nat

/-- `_resolve_from_stridxs` (the two `assert`s hold whenever it is called) -/
def Ymd.resolveFromStridxs (self : Ymd) : R YMD := do
  let strids : List (Char × Nat) :=
    (match self.yIdx with | some i => [('y', i)] | none => []) ++
    (match self.mIdx with | some i => [('m', i)] | none => []) ++
    (match self.dIdx with | some i => [('d', i)] | none => [])
  let strids ←
    if self.vals.length = 3 ∧ strids.length = 2 then
      let missing := [0, 1, 2].filter (fun x => !(strids.map (·.2)).contains x)
      let key := ['y', 'm', 'd'].filter (fun k => !(strids.map (·.1)).contains k)
      match missing, key with
      | [v], [k] => pure (strids ++ [(k, v)])
      | _, _ => throw PyErr.AssertionError
    else pure strids
  if self.vals.length ≠ strids.length then throw .AssertionError
  let get (k : Char) : R (Option Nat) :=
    match strids.find? (·.1 = k) with
    | some (_, i) => (self.at i).map some
    | none => pure none
  -- the dict comprehension evaluates `self[strids[key]]` for every key
  let y ← get 'y'; let m ← get 'm'; let d ← get 'd'
  pure (y, m, d)

/-- `_ymd.resolve_ymd` -/
def Ymd.resolve (self : Ymd) (yearfirst dayfirst : Bool) : R YMD := do
  let len := self.vals.length
  let nlab := (if self.yIdx.isSome then 1 else 0) + (if self.mIdx.isSome then 1 else 0)
              + (if self.dIdx.isSome then 1 else 0)
  if (len = nlab ∧ nlab > 0) ∨ (len = 3 ∧ nlab = 2) then self.resolveFromStridxs
  else if len > 3 then throw .ValueError
  else if len = 1 ∨ (self.mIdx.isSome ∧ len = 2) then
    -- one member, or two members with a month string
    match self.mIdx with
    | some mi => do
      let month ← self.at mi
      let other ← self.at ((mi : Int) - 1)
      if len > 1 then
        if other > 31 then pure (some other, some month, none) else pure (none, some month, some other)
      else pure (none, some month, none)
    | none => do
      let other ← self.at 0
      if other > 31 then pure (some other, none, none) else pure (none, none, some other)
  else if len = 2 then do
    let a ← self.at 0; let b ← self.at 1
    if a > 31 then pure (some a, some b, none)                       -- 99-01
    else if b > 31 then pure (some b, some a, none)                  -- 01-99
    else if dayfirst ∧ b ≤ 12 then pure (none, some b, some a)       -- 13-01
    else pure (none, some a, some b)                                 -- 01-13
  else if len = 3 then do
    let a ← self.at 0; let b ← self.at 1; let c ← self.at 2
    if self.mIdx = some 0 then
      if b > 31 then pure (some b, some a, some c)                   -- Apr-2003-25
      else pure (some c, some a, some b)
    else if self.mIdx = some 1 then
      if a > 31 ∨ (yearfirst ∧ c ≤ 31) then pure (some a, some b, some c)   -- 99-Jan-01
      else pure (some c, some b, some a)                             -- 01-Jan-01
    else if self.mIdx = some 2 then
      if b > 31 then pure (some b, some c, some a)                   -- 01-99-Jan
      else pure (some a, some c, some b)                             -- 99-01-Jan
    else
      if a > 31 ∨ self.yIdx = some 0 ∨ (yearfirst ∧ b ≤ 12 ∧ c ≤ 31) then
        if dayfirst ∧ c ≤ 12 then pure (some a, some c, some b)      -- year, day, month
        else pure (some a, some b, some c)
      else if a > 12 ∨ (dayfirst ∧ b ≤ 12) then pure (some c, some b, some a)   -- 13-01-01
      else pure (some c, some a, some b)                             -- 01-13-01
  else pure (none, none, none)

/-! ### the result record -/

structure Res where
  year : Option Nat := none
  month : Option Nat := none
  day : Option Nat := none
  weekday : Option Nat := none
  hour : Option Nat := none
  minute : Option Nat := none
  second : Option Nat := none
  microsecond : Option Nat := none
  tzname : Option Token := none
  tzoffset : Option Int := none
  ampm : Option Nat := none
  centurySpecified : Bool := false
  deriving Repr, DecidableEq, Inhabited

/-- `len(res)`: number of slots that are not None -/
def Res.len (r : Res) : Nat :=
  let c {α} (o : Option α) : Nat := if o.isSome then 1 else 0
  c r.year + c r.month + c r.day + c r.weekday + c r.hour + c r.minute + c r.second
  + c r.microsecond + c r.tzname + c r.tzoffset + c r.ampm

/-! ### helpers of `parser` -/

/-- `tokens[i]` for `i ≥ 0` -/
def tokAt (l : List Token) (i : Nat) : R Token :=
  match l[i]? with
  | some t => .ok t
  | none => .error .IndexError

/-- `_parsems` -/
def parsems (cls : Char → CClass) (v : Token) : R (Nat × Nat) :=
  if !v.contains '.' then do
    let i ← pyInt cls v
    pure (i, 0)
  else
    -- `i, f = value.split(".")` — unpacking fails with ValueError unless exactly two parts
    match splitDot v with
    | (i, some f) =>
      if f.contains '.' then .error .ValueError else do
        let iv ← pyInt cls i
        let fv ← pyInt cls ((f ++ List.replicate (6 - f.length) '0').take 6)
        pure (iv, fv)
    | (_, none) => .error .ValueError

/-- `_parse_min_sec` -/
def parseMinSec (v : Dec) : R (Nat × Option Nat) := do
  let minute := v.toNat
  let rem ← v.rem1
  if rem.isZero then pure (minute, none) else pure (minute, some rem.mul60.toNat)

/-- `string.ascii_uppercase` membership -/
def isAsciiUpper (c : Char) : Bool := 'A' ≤ c && c ≤ 'Z'

/-- `_could_be_tzname` -/
def couldBeTzname (info : Info) (hour : Option Nat) (tzname : Option Token) (tzoffset : Option Int)
    (t : Token) : Bool :=
  hour.isSome && tzname.isNone && tzoffset.isNone && t.length ≤ 5 &&
  (t.all isAsciiUpper || info.UTCZONE.contains t)

/-- `_ampm_valid`: `some h` = the marker is an AM/PM flag for hour `h`; `none` = it is not;
    raises when it cannot be one and the parse is not fuzzy -/
def ampmValid (hour : Option Nat) (ampm : Option Nat) (fuzzy : Bool) : R (Option Nat) :=
  match hour with
  | none => if fuzzy then .ok none else .error .ValueError
  | some h =>
    if !(h ≤ 12) then (if fuzzy then .ok none else .error .ValueError)
    else if fuzzy && ampm.isSome then .ok none      -- there is already an AM/PM flag
    else .ok (some h)

/-- `_adjust_ampm` (translated from source) on naturals -/
def adjustAmpm (hour ampm : Nat) : Nat := (Gen.adjustAmpm hour ampm).toNat

/-- `_find_hms_idx`, together with `info.hms(tokens[hms_idx])` (which `_parse_hms` looks up again) -/
def findHmsIdx (info : Info) (idx : Nat) (tokens : List Token) (allowJump : Bool) : Option (Nat × Nat) :=
  let lenL := tokens.length
  let hmsAt (i : Nat) : Option Nat := (tokens[i]?).bind info.hmsOf
  if idx + 1 < lenL ∧ (hmsAt (idx + 1)).isSome then (hmsAt (idx + 1)).map (fun h => (idx + 1, h))
  else if allowJump ∧ idx + 2 < lenL ∧ tokens[idx + 1]? = some [' '] ∧ (hmsAt (idx + 2)).isSome then
    (hmsAt (idx + 2)).map (fun h => (idx + 2, h))
  else if idx > 0 ∧ (hmsAt (idx - 1)).isSome then (hmsAt (idx - 1)).map (fun h => (idx - 1, h))
  else if 1 < idx ∧ idx + 1 = lenL ∧ tokens[idx - 1]? = some [' '] ∧ (hmsAt (idx - 2)).isSome then
    (hmsAt (idx - 2)).map (fun h => (idx - 2, h))
  else none

/-- `_assign_hms` -/
def assignHms (cls : Char → CClass) (res : Res) (valueRepr : Token) (hms : Nat) : R Res := do
  let value ← toDecimal cls valueRepr
  if hms = 0 then
    let res := { res with hour := some value.toNat }
    let r ← value.rem1
    if !r.isZero then
      let r2 ← value.rem1
      pure { res with minute := some r2.mul60.toNat }
    else pure res
  else if hms = 1 then
    let (m, s) ← parseMinSec value
    pure { res with minute := some m, second := s }
  else if hms = 2 then
    let (s, us) ← parsems cls valueRepr
    pure { res with second := some s, microsecond := some us }
  else pure res

/-- the last three arms of `_parse_numeric_token`: `could_be_day` / `not fuzzy` / nothing -/
def dayOrFail (fuzzy : Bool) (ymd : Ymd) (res : Res) (value : Dec) : R (Nat × Ymd × Res) := do
  let cbd ← ymd.couldBeDay value
  if cbd then
    let ymd ← ymd.appendDec value
    pure (0, ymd, res)
  else if !fuzzy then throw .ValueError
  else pure (0, ymd, res)

/-- `_parse_numeric_token`; returns how far `idx` moved, and the new `ymd`, `res` -/
def parseNumericToken (cls : Char → CClass) (info : Info) (fuzzy : Bool)
    (tokens : List Token) (idx : Nat) (ymd : Ymd) (res : Res) : R (Nat × Ymd × Res) := do
  let valueRepr ← tokAt tokens idx
  let value ← toDecimal cls valueRepr
  let lenLi := valueRepr.length
  let lenL := tokens.length
  let s := valueRepr
  let nextIs (k : Nat) (t : Token) : Bool := tokens[idx + k]? = some t
  let nextHms : Bool := match tokens[idx + 1]? with
    | some t => (info.hmsOf t).isSome
    | none => false
  if ymd.vals.length = 3 ∧ (lenLi = 2 ∨ lenLi = 4) ∧ res.hour.isNone ∧
      (idx + 1 ≥ lenL ∨ (!nextIs 1 [':'] ∧ !nextHms)) then
    -- 19990101T23[59]
    let h ← pyInt cls (sl s 0 2)
    let res := { res with hour := some h }
    if lenLi = 4 then
      let m ← pyInt cls (s.drop 2)
      pure (0, ymd, { res with minute := some m })
    else pure (0, ymd, res)
  else if lenLi = 6 ∨ (lenLi > 6 ∧ s.idxOf '.' = 6) then
    -- YYMMDD or HHMMSS[.ss]
    if ymd.vals.isEmpty ∧ !s.contains '.' then
      let ymd ← ymd.appendTok cls (sl s 0 2)
      let ymd ← ymd.appendTok cls (sl s 2 4)
      let ymd ← ymd.appendTok cls (s.drop 4)
      pure (0, ymd, res)
    else
      let h ← pyInt cls (sl s 0 2)
      let m ← pyInt cls (sl s 2 4)
      let (sec, us) ← parsems cls (s.drop 4)
      pure (0, ymd, { res with hour := some h, minute := some m, second := some sec, microsecond := some us })
  else if lenLi = 8 ∨ lenLi = 12 ∨ lenLi = 14 then
    -- YYYYMMDD[hhmm[ss]]
    let ymd ← ymd.appendTok cls (sl s 0 4) .Y
    let ymd ← ymd.appendTok cls (sl s 4 6)
    let ymd ← ymd.appendTok cls (sl s 6 8)
    if lenLi > 8 then
      let h ← pyInt cls (sl s 8 10)
      let m ← pyInt cls (sl s 10 12)
      let res := { res with hour := some h, minute := some m }
      if lenLi > 12 then
        let sec ← pyInt cls (s.drop 12)
        pure (0, ymd, { res with second := some sec })
      else pure (0, ymd, res)
    else pure (0, ymd, res)
  else match findHmsIdx info idx tokens true with
  | some (hmsIdx, h0) =>
    -- HH[ ]h or MM[ ]m or SS[.ss][ ]s   (`_parse_hms`: a label behind the number means the NEXT unit)
    let (newIdx, hms) := if hmsIdx > idx then (hmsIdx, h0) else (idx, h0 + 1)
    let res ← assignHms cls res valueRepr hms
    pure (newIdx - idx, ymd, res)
  | none =>
  if idx + 2 < lenL ∧ nextIs 1 [':'] then
    -- HH:MM[:SS[.ss]]
    let res := { res with hour := some value.toNat }
    let t2 ← tokAt tokens (idx + 2)
    let v2 ← toDecimal cls t2
    let (m, sec) ← parseMinSec v2
    let res := { res with minute := some m, second := sec }
    if idx + 4 < lenL ∧ nextIs 3 [':'] then
      let t4 ← tokAt tokens (idx + 4)
      let (sec, us) ← parsems cls t4
      pure (4, ymd, { res with second := some sec, microsecond := some us })
    else pure (2, ymd, res)
  else if idx + 1 < lenL ∧ (nextIs 1 ['-'] ∨ nextIs 1 ['/'] ∨ nextIs 1 ['.']) then
    let sep ← tokAt tokens (idx + 1)
    let ymd ← ymd.appendTok cls valueRepr
    let t2? := tokens[idx + 2]?
    match (if idx + 2 < lenL then t2? else none) with
    | some t2 =>
      if !info.isJump t2 then
        let ymd ←
          if isDigitTok cls t2 then ymd.appendTok cls t2        -- 01-01[-01]
          else match info.monthOf t2 with                      -- 01-Jan[-01]
            | some mv => ymd.appendNat mv .M
            | none => throw PyErr.ValueError
        if idx + 3 < lenL ∧ tokens[idx + 3]? = some sep then
          -- three members
          let t4 ← tokAt tokens (idx + 4)
          let ymd ← match info.monthOf t4 with
            | some mv => ymd.appendNat mv .M
            | none => ymd.appendTok cls t4
          pure (4, ymd, res)
        else pure (2, ymd, res)
      else pure (1, ymd, res)
    | none => pure (1, ymd, res)
  else if idx + 1 ≥ lenL ∨ (tokens[idx + 1]?).any info.isJump then
    match (if idx + 2 < lenL then (tokens[idx + 2]?).bind info.ampmOf else none) with
    | some ap =>
      -- 12 am
      pure (2, ymd, { res with hour := some (adjustAmpm value.toNat ap) })
    | none =>
      -- year, month or day
      let ymd ← ymd.appendDec value
      pure (1, ymd, res)
  else match (tokens[idx + 1]?).bind info.ampmOf with
  | some ap =>
    if value.ltNat 24 then
      -- 12am
      pure (1, ymd, { res with hour := some (adjustAmpm value.toNat ap) })
    else dayOrFail fuzzy ymd res value
  | none => dayOrFail fuzzy ymd res value

/-! ### `_parse` -/

structure PState where
  l : List Token
  res : Res := {}
  ymd : Ymd := {}
  skipped : List Nat := []
  deriving Repr, DecidableEq, Inhabited

/-- the body of `while i < len_l` for one `i`: how many FURTHER tokens were consumed
    (`i` ends up at `i + adv + 1`) and the new state -/
def parseStep (cls : Char → CClass) (info : Info) (fuzzy : Bool) (lenL : Nat) (i : Nat) (st : PState) :
    R (Nat × PState) := do
  let l := st.l
  let li ← tokAt l i
  if floatOk cls li then
    -- numeric token
    let (adv, ymd, res) ← parseNumericToken cls info fuzzy l i st.ymd st.res
    pure (adv, { st with ymd := ymd, res := res })
  else match info.weekdayOf li with
  | some wd => pure (0, { st with res := { st.res with weekday := some wd } })
  | none =>
  match info.monthOf li with
  | some mv => do
    let ymd ← st.ymd.appendNat mv .M
    if i + 1 < lenL then
      let l1 ← tokAt l (i + 1)
      if l1 = ['-'] ∨ l1 = ['/'] then
        -- Jan-01[-99]
        let sep := l1
        let l2 ← tokAt l (i + 2)
        let ymd ← ymd.appendTok cls l2
        if i + 3 < lenL ∧ l[i + 3]? = some sep then
          -- Jan-01-99
          let l4 ← tokAt l (i + 4)
          let ymd ← ymd.appendTok cls l4
          pure (4, { st with ymd := ymd })
        else pure (2, { st with ymd := ymd })
      else if i + 4 < lenL ∧ l1 = [' '] ∧ l[i + 3]? = some [' '] ∧
              (l[i + 2]?).any info.isPertain then
        -- Jan of 01: in this case 01 is clearly the year
        let l4 ← tokAt l (i + 4)
        if isDigitTok cls l4 then
          let value ← pyInt cls l4
          let year ← Gen.convertyear ⟨info.century, info.year⟩ value false
          -- `str(year)` then `ymd.append(year, 'Y')`: a decimal string
          let ystr := (toString year).toList
          let ymd ← ymd.appendCore (ystr.length > 2) (.ok year.toNat) .Y
          pure (4, { st with ymd := ymd })
        else pure (4, { st with ymd := ymd })
      else pure (0, { st with ymd := ymd })
    else pure (0, { st with ymd := ymd })
  | none =>
  match info.ampmOf li with
  | some ap => do
    let ok ← ampmValid st.res.hour st.res.ampm fuzzy
    match ok with
    | some h => pure (0, { st with res := { st.res with hour := some (adjustAmpm h ap), ampm := some ap } })
    | none =>
      if fuzzy then pure (0, { st with skipped := st.skipped ++ [i] })
      else pure (0, st)
  | none =>
  if couldBeTzname info st.res.hour st.res.tzname st.res.tzoffset li then
    let res := { st.res with tzname := some li, tzoffset := info.tzoffsetOf li }
    -- GMT+3 / BRST+3: "my time +3 is GMT": reverse the sign for the offset branch
    match (if i + 1 < lenL then l[i + 1]? else none) with
    | some l1 =>
      if l1 = ['+'] ∨ l1 = ['-'] then
        let l' := l.set (i + 1) (if l1 = ['+'] then ['-'] else ['+'])
        let res := { res with tzoffset := none }
        let res := if info.isUtczone li then { res with tzname := none } else res
        pure (0, { st with l := l', res := res })
      else pure (0, { st with res := res })
    | none => pure (0, { st with res := res })
  else if st.res.hour.isSome ∧ (li = ['+'] ∨ li = ['-']) then do
    -- numbered time zone
    let signal : Int := if li = ['+'] then 1 else -1
    let l1 ← tokAt l (i + 1)
    let lenLi := l1.length
    let (hourOff, minOff, adv) ←
      if lenLi = 4 then do                                   -- -0300
        let h ← pyInt cls (sl l1 0 2)
        let m ← pyInt cls (l1.drop 2)
        pure (h, m, 0)
      else if i + 2 < lenL ∧ l[i + 2]? = some [':'] then do  -- -03:00
        let h ← pyInt cls l1
        let l3 ← tokAt l (i + 3)
        let m ← pyInt cls l3
        pure (h, m, 2)
      else if lenLi ≤ 2 then do                              -- -[0]3
        let h ← pyInt cls (sl l1 0 2)
        pure (h, 0, 0)
      else throw PyErr.ValueError
    let i' := i + adv
    let res := { st.res with tzoffset := some (signal * ((hourOff : Int) * 3600 + (minOff : Int) * 60)) }
    -- a time zone name between parentheses: -0300 (BRST)
    let paren : Option Token :=
      if i' + 5 < lenL then
        match l[i' + 2]?, l[i' + 3]?, l[i' + 4]?, l[i' + 5]? with
        | some t2, some t3, some t4, some t5 =>
          if info.isJump t2 ∧ t3 = ['('] ∧ t5 = [')'] ∧ 3 ≤ t4.length ∧
             couldBeTzname info res.hour res.tzname none t4 then some t4 else none
        | _, _, _, _ => none
      else none
    match paren with
    | some t4 => pure (adv + 4 + 1, { st with res := { res with tzname := some t4 } })
    | none => pure (adv + 1, { st with res := res })
  else if !(info.isJump li || fuzzy) then throw .ValueError
  else pure (0, { st with skipped := st.skipped ++ [i] })

/-- `while i < len_l`, by structural recursion on the number of indices still to visit:
    `skip` counts the indices already consumed by an earlier step (`i += k` in the body). -/
def parseLoop (cls : Char → CClass) (info : Info) (fuzzy : Bool) (lenL : Nat) :
    (fuel : Nat) → (i : Nat) → (skip : Nat) → PState → R PState
  | 0, _, _, st => .ok st
  | fuel + 1, i, skip + 1, st => parseLoop cls info fuzzy lenL fuel (i + 1) skip st
  | fuel + 1, i, 0, st =>
    match parseStep cls info fuzzy lenL i st with
    | .error e => .error e
    | .ok (adv, st') => parseLoop cls info fuzzy lenL fuel (i + 1) adv st'

/-- `_recombine_skipped` -/
def recombineSkipped (tokens : List Token) (skipped : List Nat) : R (List Token) :=
  let sorted := skipped.mergeSort (· ≤ ·)
  let rec go : List Nat → Nat → List Token → R (List Token)
    | [], _, acc => .ok acc
    | idx :: rest, i, acc => do
      let t ← tokAt tokens idx
      if i > 0 ∧ (skipped[i - 1]?).map (· + 1) = some idx then
        match acc.reverse with
        | last :: revInit => go rest (i + 1) (revInit.reverse ++ [last ++ t])
        | [] => .error .IndexError
      else go rest (i + 1) (acc ++ [t])
  go sorted 0 []

structure Opts where
  dayfirst : Option Bool := none
  yearfirst : Option Bool := none
  fuzzy : Bool := false
  fuzzyWithTokens : Bool := false
  ignoretz : Bool := false
  deriving Repr, DecidableEq, Inhabited

/-- the `try:` block of `_parse` -/
def parseTry (cls : Char → CClass) (info : Info) (o : Opts) (l : List Token) : R PState := do
  let fuzzy := o.fuzzy || o.fuzzyWithTokens
  let dayfirst := o.dayfirst.getD info.dayfirst
  let yearfirst := o.yearfirst.getD info.yearfirst
  let st ← parseLoop cls info fuzzy l.length l.length 0 0 { l := l }
  let (y, m, d) ← st.ymd.resolve yearfirst dayfirst
  pure { st with res := { st.res with centurySpecified := st.ymd.century, year := y, month := m, day := d } }

/-- `parserinfo.validate` -/
def validate (info : Info) (res : Res) : R Res := do
  let res ← match res.year with
    | some y => do
      let y' ← Gen.convertyear ⟨info.century, info.year⟩ y res.centurySpecified
      pure { res with year := some y'.toNat }
    | none => pure res
  let noName := res.tzname.isNone || res.tzname == some []
  if (res.tzoffset == some 0 && noName) || res.tzname == some ['Z'] || res.tzname == some ['z'] then
    pure { res with tzname := some (tk "UTC"), tzoffset := some 0 }
  else if res.tzoffset != some 0 && !noName && res.tzname.any info.isUtczone then
    pure { res with tzoffset := some 0 }
  else pure res

def caughtInParse (e : PyErr) : Bool :=
  e == .IndexError || e == .ValueError || e == .InvalidOperation

/-- `parser._parse`: `none` is the `(None, None)` return -/
def parseTokens (cls : Char → CClass) (info : Info) (o : Opts) (l : List Token) :
    R (Option (Res × Option (List Token))) :=
  match parseTry cls info o l with
  | .error e => if caughtInParse e then .ok none else .error e
  | .ok st => do
    let res ← validate info st.res
    if o.fuzzyWithTokens then
      let toks ← recombineSkipped st.l st.skipped
      pure (some (res, some toks))
    else pure (some (res, none))

/-! ### `_build_naive` -/

def intMax : Int := 2147483647

/-- `default.replace(**repl)`: C-int conversion first (`OverflowError`), then field validation -/
def dtReplace (dflt : DT) (y m d hh mm ss us : Option Nat) : R DT :=
  let big (o : Option Nat) : Bool := match o with | some v => (v : Int) > intMax | none => false
  if big y || big m || big d || big hh || big mm || big ss || big us then .error .OverflowError else
  let g (o : Option Nat) (dv : Int) : Int := match o with | some v => v | none => dv
  let t : DT := { y := g y dflt.y, m := g m dflt.m, d := g d dflt.d, hh := g hh dflt.hh,
                  mm := g mm dflt.mm, ss := g ss dflt.ss, us := g us dflt.us }
  if t.valid then .ok t else .error .ValueError

/-- `relativedelta(weekday=wd)` then `naive + rd`: forward to that weekday, zero days if already there -/
def weekdayShift (naive : DT) (wd : Nat) : R DT :=
  if wd ≥ 7 then .error .IndexError          -- `weekdays[weekday]`
  else naive.addDays (Int.emod (7 - naive.weekday + wd) 7)

/-- `parser._build_naive` -/
def buildNaive (res : Res) (dflt : DT) : R DT := do
  let day ← match res.day with
    | some d => pure (some d)
    | none => do
      let cyear : Int := match res.year with | some y => y | none => dflt.y
      let cmonth : Int := match res.month with | some m => m | none => dflt.m
      let cday := dflt.d
      let dim ← monthrange cyear cmonth
      if cday > dim then pure (some dim.toNat) else pure none
  let naive ← dtReplace dflt res.year res.month day res.hour res.minute res.second res.microsecond
  match res.weekday with
  | some wd => if res.day.isNone ∨ res.day = some 0 then weekdayShift naive wd else pure naive
  | none => pure naive

/-! ### `_build_tzaware` -/

/-- what a `tzinfos` entry / callable returns -/
inductive TzData where
  | obj (k : Nat)            -- a `datetime.tzinfo` instance (identified by an index)
  | str (s : Token)          -- text → `tz.tzstr(s)`
  | int (n : Int)            -- → `tz.tzoffset(tzname, n)`
  | noneVal                  -- None
  | bad                      -- anything else → TypeError
  deriving Repr, DecidableEq, Inhabited

inductive TzDflt where
  | data (d : TzData)        -- the callable's answer for names not listed
  | echoOffset               -- `lambda name, off: off`
  deriving Repr, DecidableEq, Inhabited

inductive TzInfos where
  | absent                                                   -- None
  | mapping (entries : List (Option Token × TzData))
  | callable (entries : List (Option Token × TzData)) (dflt : TzDflt)
  deriving Repr, DecidableEq, Inhabited

/-- the zone of the result, as a description -/
inductive TzDescr where
  | naive
  | naiveWarn (name : Token)                    -- UnknownTimezoneWarning
  | utc                                         -- `tz.UTC`
  | fixed (name : Option Token) (off : Int)     -- `tz.tzoffset(name, off)`
  | localZone (name : Token)                    -- `tz.tzlocal()`; fold / UTC replacement decided by `localFinal`
  | viaTzinfos (d : TzData) (name : Option Token)   -- tzinfo object / tzstr / None from `tzinfos`; fold by `assignFold`
  deriving Repr, DecidableEq, Inhabited

def lookupKey {β} (tbl : List (Option Token × β)) (k : Option Token) : Option β :=
  (tbl.find? (·.1 = k)).map (·.2)

/-- `datetime.timedelta(seconds=n)` is representable -/
def offsetOk (n : Int) : Bool :=
  let days := Int.ediv n 86400
  decide (-999999999 ≤ days) && decide (days ≤ 999999999)

/-- `_build_tzinfo` + `naive.replace(tzinfo=…)` -/
def buildTzinfo (tzi : TzInfos) (tzname : Option Token) (tzoffset : Option Int) : R TzDescr := do
  let data : TzData := match tzi with
    | .callable entries dflt =>
      match lookupKey entries tzname with
      | some d => d
      | none => match dflt with
        | .data d => d
        | .echoOffset => match tzoffset with | some n => .int n | none => .noneVal
    | .mapping entries => (lookupKey entries tzname).getD .noneVal
    | .absent => .noneVal
  match data with
  | .obj k => pure (.viaTzinfos (.obj k) tzname)
  | .noneVal => pure (.viaTzinfos .noneVal tzname)
  | .str s => pure (.viaTzinfos (.str s) tzname)
  | .int n => if offsetOk n then pure (.fixed tzname n) else throw .OverflowError
  | .bad => throw .TypeError

/-- `_build_tzaware`: the cascade, in the order of the code -/
def buildTzaware (tznames : List Token) (tzi : TzInfos) (res : Res) : R TzDescr :=
  let useTzinfos : Bool := match tzi with
    | .callable _ _ => true
    | .mapping entries => !entries.isEmpty && (lookupKey entries res.tzname).isSome
    | .absent => false
  let nameTruthy : Bool := match res.tzname with | some n => !n.isEmpty | none => false
  if useTzinfos then buildTzinfo tzi res.tzname res.tzoffset
  else if nameTruthy ∧ res.tzname.any tznames.contains then
    .ok (.localZone (res.tzname.getD []))
  else if res.tzoffset = some 0 then .ok .utc
  else if res.tzoffset.any (· != 0) then
    match res.tzoffset with
    | some n => if offsetOk n then .ok (.fixed res.tzname n) else .error .OverflowError
    | none => .ok .naive
  else if !nameTruthy then .ok .naive
  else .ok (.naiveWarn (res.tzname.getD []))

/-- `_assign_tzname`: which fold the result carries, given the zone's names for the wall time
    at fold 0 and fold 1 -/
def assignFold (n0 n1 : Option Token) (tzname : Option Token) : Nat :=
  if n0 ≠ tzname then (if n1 = tzname then 1 else 0) else 0

inductive LocalFinal where
  | localFold (fold : Nat)
  | utc
  deriving Repr, DecidableEq

/-- the local-zone row after `_assign_tzname`: GMT/UTC/Z parsed where the local zone is
    currently called something else ⇒ `tz.UTC` -/
def localFinal (info : Info) (n0 n1 : Option Token) (tzname : Token) : LocalFinal :=
  let f := assignFold n0 n1 (some tzname)
  let nm := if f = 1 then n1 else n0
  if nm ≠ some tzname ∧ info.UTCZONE.contains tzname then .utc else .localFold f

/-! ### `parser.parse` -/

structure Result where
  dt : DT
  tz : TzDescr
  tokens : Option (List Token)
  deriving Repr, DecidableEq, Inhabited

/-- `parser.parse(timestr, default, ignoretz, tzinfos, **kwargs)` after lexing -/
def parseResult (cls : Char → CClass) (info : Info) (o : Opts) (tznames : List Token) (tzi : TzInfos)
    (dflt : DT) (l : List Token) : R Result := do
  let r ← parseTokens cls info o l
  match r with
  | none => throw .ParserError                             -- "Unknown string format"
  | some (res, skipped) =>
    if res.len = 0 then throw .ParserError                 -- "String does not contain a date"
    let naive ← match buildNaive res dflt with
      | .ok t => pure t
      | .error .ValueError => throw PyErr.ParserError      -- `except ValueError` → ParserError
      | .error e => throw e
    let tz ← if o.ignoretz then pure TzDescr.naive else buildTzaware tznames tzi res
    pure { dt := naive, tz := tz, tokens := if o.fuzzyWithTokens then skipped else none }

/-- the whole thing on text -/
def parse (cls : Char → CClass) (info : Info) (o : Opts) (tznames : List Token) (tzi : TzInfos)
    (dflt : DT) (s : List Char) : R Result :=
  parseResult cls info o tznames tzi dflt (lex cls s)

end PM
