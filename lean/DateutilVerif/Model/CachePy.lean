/-
  Model/CachePy.lean — `rrulebase._iter_cached` and `rrulebase._invalidate_cache` (rrule.py) as statement programs, and
  their meaning.

  `harness/translate_rrbase.py` parses the two methods from /repo's working tree on every run and emits
  `Gen.iterCachedProgram : List CachePy.Node` and `Gen.invalidateProgram : List CachePy.IStmt`
  (Generated/RRBaseCache.lean).  A `Node` is one statement that is a pause point of the tracer: its program counter
  (`Cache.PC`, the line of the statement in the numbering of Model/Cache.lean), what the statement does (`Op`, a strict
  vocabulary: anything else is `Untranslatable`) and where control goes (`next`: fall through / condition true / no exception;
  `alt`: condition false / loop exhausted / StopIteration / leaving through a `break`), computed from the nesting of the
  source (while / if / try-finally / try-except / for / break).  Statements that touch only locals or compare
  `cache is self._cache` are folded into the node before them and recorded in its `Op` (`exceptStop guarded`,
  `appendNext defers`).  `stepProg` runs the node of the current pc; `C11.program_sim`: it is `Cache.stepIter` at every
  pc on every state — the theorems of C11 are about the statements as translated, not about a hand-aligned listing.
-/
import DateutilVerif.Model.Cache

namespace CachePy
open Cache Queries Py

inductive Op
  | setI0                    -- `i = 0`
  | loadGen                  -- `gen = self._cache_gen`
  | loadCache                -- `cache = self._cache`
  | loadAcquire              -- `acquire = self._cache_lock.acquire`
  | loadRelease              -- `release = self._cache_lock.release`
  | whileGen                 -- `while gen:`
  | ifNeedFill               -- `if i == len(cache):`
  | acquire                  -- `acquire()`
  | tryEnter                 -- `try:` (of the try/finally)
  | ifCompleteOwn            -- `if self._cache_complete and cache is self._cache:`
  | brk                      -- `break` (inside the try/finally: leaves through `release()`)
  | tryFill                  -- `try:` (of the fill)
  | forRange (n : Nat)       -- `for j in range(n):`
  | appendNext (defers : Bool)   -- `cache.append(advance_iterator(gen))`; `defers`: the handler `except Exception: if i == len(cache): raise` follows
  | exceptStop (guarded : Bool)  -- `except StopIteration:` + `gen = None` + (`guarded`) `if cache is self._cache:`
  | storeGenNone             -- `self._cache_gen = None`
  | storeComplete            -- `self._cache_complete = True`
  | release                  -- `release()` in the `finally`
  | yieldFill                -- `yield cache[i]` (fill loop)
  | incFill                  -- `i += 1` (fill loop)
  | whileTail                -- `while i < len(cache):`
  | yieldTail                -- `yield cache[i]` (tail loop)
  | incTail                  -- `i += 1` (tail loop)
  -- `rrulebase.__iter__`
  | ifComplete               -- `if self._cache_complete:`
  | retListIter              -- `return iter(self._cache)`
  | ifCacheNone              -- `elif self._cache is None:` (`next`: `return self._iter()`, not a statement of a cached object)
  | retIterCached            -- `return self._iter_cached()`
  deriving DecidableEq, Repr, Inhabited

structure Node where
  pc : PC
  op : Op
  next : PC
  alt : PC := .done
  exc : PC := .done     -- `appendNext`: where the handler `except Exception:` falls through to (the end of the `try`/`finally` body)
  deriving DecidableEq, Repr, Inhabited

/-- the meaning of one node (thread `t`, shared state `sh`, locals `it`) -/
def stepNode (n : Node) (sh : Shared) (t : Tid) (it : Iter) : Option (Shared × Iter) :=
  match n.op with
  | .setI0 => some (sh, { it with i := 0, pc := n.next })
  | .loadGen => some (sh, { it with hasGen := !sh.genNone, pc := n.next })
  | .loadCache | .loadAcquire | .loadRelease | .tryEnter => some (sh, { it with pc := n.next })
  | .whileGen => some (sh, { it with pc := if it.hasGen then n.next else n.alt })
  | .ifNeedFill => some (sh, { it with pc := if it.i == sh.cache.length then n.next else n.alt })
  | .acquire =>
    match sh.lock with
    | some _ => none
    | none => some ({ sh with lock := some t }, { it with pc := n.next })
  | .ifCompleteOwn => some (sh, { it with pc := if sh.complete then n.next else n.alt })
  | .brk => some (sh, { it with brk := true, pc := n.next })
  | .tryFill => some (sh, { it with j := 0, pc := n.next })
  | .forRange k => some (sh, if it.j < k then { it with pc := n.next } else { it with brk := false, pc := n.alt })
  | .appendNext defers =>
    match sh.src[sh.genPos]? with
    | some x => some ({ sh with cache := sh.cache ++ [x], genPos := sh.genPos + 1 }, { it with j := it.j + 1, pc := n.next })
    | none =>
      match sh.endErr with
      | none => some ({ sh with len := some sh.genPos }, { it with pc := n.alt })
      | some e =>
        if !defers || it.i == sh.cache.length then some ({ sh with lock := none }, raiseTo it e)
        else some (sh, { it with brk := false, pc := n.exc })
  | .exceptStop guarded => if guarded then some (sh, { it with pc := n.next }) else none
  | .storeGenNone => some ({ sh with genNone := true }, { it with hasGen := false, pc := n.next })
  | .storeComplete => some ({ sh with complete := true }, { it with pc := n.next })
  | .release => some ({ sh with lock := none }, { it with pc := if it.brk then n.alt else n.next })
  | .yieldFill | .yieldTail =>
    some (sh, match sh.cache[it.i]? with
              | some x => receive sh it x n.next
              | none => crashWith it .IndexError)
  | .incFill | .incTail => some (sh, { it with i := it.i + 1, pc := n.next })
  | .whileTail => some (sh, if it.i < sh.cache.length then { it with pc := n.next } else finish sh it)
  | .ifComplete => some (sh, { it with pc := if sh.complete then n.next else n.alt })
  | .retListIter =>
    let it' := { it with pending := sh.cache }
    some (sh, if stops it.q [] then finish sh it' else { it' with pc := n.next })
  | .ifCacheNone => some (sh, { it with pc := n.alt })      -- the machine is a CACHED object: `self._cache is None` is false
  | .retIterCached => some (sh, if stops it.q [] then finish sh it else { it with pc := n.next })

def nodeAt (p : List Node) (pc : PC) : Option Node := p.find? (fun n => n.pc == pc)

/-- one statement of the translated program: the node of the thread's pc -/
def stepProg (p : List Node) (sh : Shared) (t : Tid) (it : Iter) : Option (Shared × Iter) :=
  match nodeAt p it.pc with
  | some n => stepNode n sh t it
  | none => none

/-- the program counters of `__iter__` and `_iter_cached` (the generator body) -/
def bodyPC : PC → Bool
  | .l106 | .l107 | .l108 | .l111
  | .l125 | .l126 | .l127 | .l128 | .l129 | .l130 | .l131 | .l132 | .l133 | .l134 | .l135 | .l136 | .l137 | .l138
  | .l139 | .l140 | .l141 | .l142 | .l144 | .l145 | .l146 | .l147 | .l148 | .l149 => true
  | _ => false

/-- the machine's statement function with `__iter__` and the body of `_iter_cached` taken from a translated program (the
    consumers' own statements — thread start, the fast-path test of a query method, the list iterator — are not part of them) -/
def stepIterT (p : List Node) (sh : Shared) (t : Tid) (it : Iter) : Option (Shared × Iter) :=
  if bodyPC it.pc then stepProg p sh t it else stepIter sh t it

/-! ### `_invalidate_cache` -/

inductive IStmt
  | ifCached (body : List IStmt)       -- `if self._cache is not None:`
  | newCache                           -- `self._cache = []`
  | completeFalse                      -- `self._cache_complete = False`
  | newGen (restartable : Bool)        -- `self._cache_gen = _restartable(self._iter)` (`false`: `self._iter()`)
  | ifLockedRelease                    -- `if self._cache_lock.locked(): self._cache_lock.release()`
  | bumpGeneration                     -- `self._generation += 1`
  | lenNone                            -- `self._len = None`
  -- `rrulebase.__init__(self, cache=False)`
  | generationZero                     -- `self._generation = 0`
  | ifCacheArg (thn els : List IStmt)  -- `if cache:` … `else:` …
  | allocLock                          -- `self._cache_lock = _thread.allocate_lock()`
  | callInvalidate                     -- `self._invalidate_cache()`
  | cacheNone                          -- `self._cache = None`
  deriving Repr, Inhabited

/-- the object's caching attributes and its generation counter; `src`/`endErr` of the NEW generator are parameters -/
structure Obj where
  cached : Bool
  sh : Shared
  generation : Nat
  deriving Repr, Inhabited

mutual
def runI (src : List Int) (e : Option PyErr) : IStmt → Obj → Option Obj
  | .generationZero, o => some { o with generation := 0 }
  | .ifCacheArg _ _, _ => none         -- only in `__init__`: `runInitObj`
  | .allocLock, o => some { o with sh := { o.sh with lock := none } }
  | .callInvalidate, _ => none         -- only in `__init__`: `runInitObj`
  | .cacheNone, o => some { o with cached := false }
  | .ifCached body, o => if o.cached then runIL src e body o else some o
  | .newCache, o => some { o with sh := { o.sh with cache := [] } }
  | .completeFalse, o => some { o with sh := { o.sh with complete := false } }
  | .newGen r, o => if r then some { o with sh := { o.sh with src := src, endErr := e, genPos := 0, genNone := false } } else none
  | .ifLockedRelease, o => some { o with sh := { o.sh with lock := none } }
  | .bumpGeneration, o => some { o with generation := o.generation + 1 }
  | .lenNone, o => some { o with sh := { o.sh with len := none } }
def runIL (src : List Int) (e : Option PyErr) : List IStmt → Obj → Option Obj
  | [], o => some o
  | s :: rest, o => match runI src e s o with
    | some o' => runIL src e rest o'
    | none => none
end

/-- the branch of `if cache:` that runs (one level: `__init__` has no deeper nesting) -/
def chooseBranch (cacheArg : Bool) (l : List IStmt) : List IStmt :=
  l.flatMap (fun st => match st with | .ifCacheArg thn els => if cacheArg then thn else els | st => [st])

/-- straight-line statements of `__init__`, `_invalidate_cache` = `inv`; `self._cache = []` is what makes the object a cached one -/
def runFlat (src : List Int) (e : Option PyErr) (inv : List IStmt) : List IStmt → Obj → Option Obj
  | [], o => some o
  | .callInvalidate :: rest, o =>
    match runIL src e inv o with
    | some o' => runFlat src e inv rest o'
    | none => none
  | .newCache :: rest, o => runFlat src e inv rest { o with cached := true, sh := { o.sh with cache := [] } }
  | st :: rest, o =>
    match runI src e st o with
    | some o' => runFlat src e inv rest o'
    | none => none

/-- `rrulebase.__init__(cache)` -/
def runInitObj (src : List Int) (e : Option PyErr) (inv : List IStmt) (cacheArg : Bool) (p : List IStmt) (o : Obj) : Option Obj :=
  runFlat src e inv (chooseBranch cacheArg p) o

/-! ### `_restartable` (the iterator that feeds the cache) -/

/-- `__init__`: `self._func = func; self._gen = func(); self._pos = 0`; `__next__`: `try: item = advance_iterator(self._gen)` /
    `except StopIteration: raise` / `except BaseException: self._gen = itertools.islice(self._func(), self._pos, None); raise` /
    `self._pos += 1` / `return item` -/
structure RestartProg where
  initPosZero : Bool
  advancesInTry : Bool
  stopReraised : Bool
  restartsAtPos : Bool
  countsAfter : Bool
  returnsItem : Bool
  deriving DecidableEq, Repr, Inhabited

inductive Out | value (x : Int) | stop | raise_ (e : PyErr)
  deriving DecidableEq, Repr, Inhabited

/-- `self._pos`, and the inner generator `self._gen`: how many values of `src` it is past, whether an exception has killed it -/
structure RState where
  pos : Nat := 0
  inner : Nat := 0
  dead : Bool := false
  deriving DecidableEq, Repr, Inhabited

/-- one `__next__()` over an underlying `func()` that yields `src` and then ends by StopIteration (`e = none`) or raises `e` -/
def runRestartNext (p : RestartProg) (src : List Int) (e : Option PyErr) (s : RState) : Option (Out × RState) :=
  if !(p.initPosZero && p.advancesInTry && p.stopReraised && p.returnsItem) then none else
  if s.dead then some (.stop, s) else
  match src[s.inner]? with
  | some x => some (.value x, { s with inner := s.inner + 1, pos := if p.countsAfter then s.pos + 1 else s.pos })
  | none =>
    match e with
    | none => some (.stop, s)
    | some err => some (.raise_ err, if p.restartsAtPos then { s with inner := s.pos, dead := false } else { s with dead := true })

end CachePy
