/-
  Model/RRuleTypes.lean — the types shared by the rrule model (`Model/RRule.lean`) and the
  independent specification (`Spec/RRule.lean`): the constructor's *argument set* and an
  instant with whole-second resolution.  Nothing of the algorithm lives here.
-/
import DateutilVerif.Base.Time

namespace RRule

/-- The keyword arguments of `rrule.__init__`.  `dtstart` is the naive field tuple of the start
    (a `date` start is its midnight, as `datetime.fromordinal(dtstart.toordinal())` makes it);
    `tz` is an opaque tag for `dtstart.tzinfo` (0 = naive).  `until` is given in the frame of
    `dtstart.tzinfo` (the harness converts; with the same tzinfo object Python compares the naive
    fields).  Scalar arguments (`bymonth=3`) are the singleton lists; in `byweekday` a pair
    `(wd, 0)` is a plain weekday (an `int` or `MO`), `(wd, n)` is `MO(n)`. -/
structure Args where
  freq : Int
  dtstart : DT
  tz : Int := 0
  interval : Int := 1
  wkst : Option Int := none
  count : Option Int := none
  untilDT : Option DT := none
  bysetpos : Option (List Int) := none
  bymonth : Option (List Int) := none
  bymonthday : Option (List Int) := none
  byyearday : Option (List Int) := none
  byeaster : Option (List Int) := none
  byweekno : Option (List Int) := none
  byweekday : Option (List (Int × Int)) := none
  byhour : Option (List Int) := none
  byminute : Option (List Int) := none
  bysecond : Option (List Int) := none
  deriving Repr, DecidableEq, Inhabited

/-- A yielded value: proleptic ordinal of the date plus the wall time of day. -/
structure Inst where
  ord : Int
  h : Int
  m : Int
  s : Int
  deriving DecidableEq, Repr, Inhabited

namespace Inst
/-- seconds since the (fictitious) midnight starting ordinal 0 -/
def secs (i : Inst) : Int := i.ord * 86400 + (i.h * 3600 + i.m * 60 + i.s)
/-- same scale as `DT.toMicros` -/
def micros (i : Inst) : Int := i.secs * 1000000
/-- `datetime.combine(date.fromordinal(ord), time(h, m, s))` -/
def toDT (i : Inst) : DT :=
  let ymd := Cal.fromOrdinal i.ord
  { y := ymd.1, m := ymd.2.1, d := ymd.2.2, hh := i.h, mm := i.m, ss := i.s, us := 0 }
def wire (i : Inst) : String := i.toDT.wire
end Inst

/-- Python truthiness of an optional tuple: `None` and `()` are false. -/
def truthy {α} : Option (List α) → Bool
  | some (_ :: _) => true
  | _ => false

/-- `x in t` for an optional tuple (false for `None`) -/
def memO (x : Int) : Option (List Int) → Bool
  | some l => l.contains x
  | none => false

/-- `range(a, b)` -/
def intRange (a b : Int) : List Int := (List.range (b - a).toNat).map (fun (k : Nat) => a + (k : Int))

end RRule
