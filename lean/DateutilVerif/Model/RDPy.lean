/-
  Model/RDPy.lean — runtime support of the "RDPy" translator (harness/translate_rd.py): the NAMED
  primitives that the methods of `relativedelta` are translated into (Generated/RDOps.lean).

  What is here is not dateutil code but the meaning of the Python / CPython operations the methods
  call: `x or y`, truthiness of Optional values, `calendar.monthrange`, `calendar.isleap`,
  `date/datetime.replace(**kw)`, `datetime.timedelta(...)`, `x + timedelta`, `x.weekday()`,
  `isinstance(x, datetime.datetime)`, `datetime.fromordinal(d.toordinal())`, `<`, `>` and `-` between
  date/datetime objects, the `days/seconds/microseconds` of a timedelta, `weekdays[i]`, the attributes
  of a `weekday` object.  They are trusted with their documented meaning and exercised on every run
  by the `rdgen.*` validation (generated definitions vs the implementation).  No Mathlib import.
-/
import DateutilVerif.Model.RelativeDelta

namespace RDPy
open RDM

/-- `a or b`, `a : Optional[int]` -/
abbrev orOpt (a : Option Int) (b : Int) : Int := RDM.orInt a b
/-- `a or b` on ints -/
abbrev orInts (a b : Int) : Int := RDM.orI a b

/-- value of an Optional[int] known to be truthy (inside `if x:`) -/
def optVal (a : Option Int) : Int := a.getD 0

/-- truthiness of an Optional[int]: not None and not 0 -/
def truthyOpt (a : Option Int) : Prop := a ≠ none ∧ a ≠ some 0
instance (a : Option Int) : Decidable (truthyOpt a) := by unfold truthyOpt; exact inferInstance

/-- a `weekday` object's `.weekday` / `.n`; `None.weekday` is an AttributeError -/
def wdWeekday (w : Option (Int × Option Int)) : Py.R Int :=
  match w with
  | some p => .ok p.1
  | none => .error .AttributeError
def wdN (w : Option (Int × Option Int)) : Py.R (Option Int) :=
  match w with
  | some p => .ok p.2
  | none => .error .AttributeError

/-- `calendar.monthrange(y, m)[1]` -/
abbrev monthrange1 (y m : Int) : Py.R Int := RDM.monthrange1 y m

/-- the keyword dict handed to `replace` -/
structure Repl where
  year : Option Int := none
  month : Option Int := none
  day : Option Int := none
  hour : Option Int := none
  minute : Option Int := none
  second : Option Int := none
  microsecond : Option Int := none
  deriving DecidableEq, Repr, Inhabited

/-- `other.replace(**repl)`: a `date` rejects time keywords (TypeError); arguments are C ints
    (OverflowError), then field validation (ValueError); kind / tzinfo kept -/
def replace (o : Temporal) (r : Repl) : Py.R Temporal :=
  if o.kind = .date ∧ (r.hour.isSome || r.minute.isSome || r.second.isSome || r.microsecond.isSome) then
    .error .TypeError
  else
    let t : DT := { y := r.year.getD o.t.y, m := r.month.getD o.t.m, d := r.day.getD o.t.d,
                    hh := r.hour.getD o.t.hh, mm := r.minute.getD o.t.mm,
                    ss := r.second.getD o.t.ss, us := r.microsecond.getD o.t.us }
    if ¬ fitsCInt t then .error .OverflowError
    else if t.valid then .ok { kind := o.kind, t := t } else .error .ValueError

/-- `datetime.timedelta(days=, hours=, minutes=, seconds=, microseconds=)` in µs -/
def timedelta (days hours minutes seconds microseconds : Int) : Int :=
  (((days * 24 + hours) * 60 + minutes) * 60 + seconds) * 1000000 + microseconds

/-- `x + timedelta` (a date uses only the floored days; OverflowError outside years 1..9999) -/
def addTd (x : Temporal) (td : Int) : Py.R Temporal :=
  (addDelta x.kind x.t td).map (fun t => { kind := x.kind, t := t })

/-- `x.weekday()` -/
def weekdayOf (x : Temporal) : Int := x.t.weekday

/-- `isinstance(x, datetime.datetime)` for a date/datetime object -/
def isDatetime (x : Temporal) : Bool := decide (x.kind ≠ .date)

/-- `datetime.datetime.fromordinal(d.toordinal())` on a `date` (which has no time of day) -/
def dateToDatetime (x : Temporal) : Temporal := { x with kind := .naive }

/-- `operator.lt` / `operator.gt` -/
inductive CmpOp where
  | lt | gt
  deriving DecidableEq, Repr, Inhabited

/-- `a < b` on date/datetime objects: TypeError for naive vs aware (and date vs datetime); wall clock
    for one tzinfo object, UTC for two -/
def dtLt (off : Nat → DT → Int) (a b : Temporal) : Py.R Bool :=
  match comparable a.kind b.kind with
  | .typeError => .error .TypeError
  | m => .ok (decide (cmpKey off (m == .utc) a < cmpKey off (m == .utc) b))

def cmpApply (off : Nat → DT → Int) (op : CmpOp) (a b : Temporal) : Py.R Bool :=
  match op with
  | .lt => dtLt off a b
  | .gt => dtLt off b a

/-- `a - b` on date/datetime objects, as µs -/
def dtSub (off : Nat → DT → Int) (a b : Temporal) : Py.R Int :=
  match comparable a.kind b.kind with
  | .typeError => .error .TypeError
  | m => .ok (cmpKey off (m == .utc) a - cmpKey off (m == .utc) b)

/-- `timedelta.days`, `.seconds`, `.microseconds` (the normal form: 0 ≤ seconds < 86400, 0 ≤ µs < 10⁶) -/
def tdDays (td : Int) : Int := td / 86400000000
def tdSeconds (td : Int) : Int := td % 86400000000 / 1000000
def tdMicroseconds (td : Int) : Int := td % 1000000

/-- `isinstance(weekday, integer_types)` for the `weekday=` argument -/
def isIntArg (w : Option WdArg) : Bool :=
  match w with
  | some (.int _) => true
  | _ => false

/-- `weekdays[weekday]` for an int argument -/
def weekdaysGet (w : Option WdArg) : Py.R (Option (Int × Option Int)) :=
  match w with
  | some a => (weekdayOfArg a).map some
  | none => .ok none

/-- the `weekday=` argument stored as it is (None or a weekday object) -/
def wdOfArg (w : Option WdArg) : Option (Int × Option Int) :=
  match w with
  | some (.obj wd n) => some (wd, n)
  | some (.int i) => some (i, none)     -- not reached: ints go through `weekdaysGet`
  | none => none

/-- a weekday object (or None) passed as the `weekday=` keyword -/
def wdArgOfObj (w : Option (Int × Option Int)) : Option WdArg := w.map (fun p => WdArg.obj p.1 p.2)

/-! ### floats that are exact: dyadic rationals

`__mul__` / `__div__` compute `int(field * float(other))`.  For an `other` that is a dyadic rational `m / 2^k` (every integer,
halves, 1.5, reciprocals of powers of two) and an integer `field` the product is the exact rational `field·m / 2^k` as long
as `|field·m| < 2^53` (IEEE-754 double: no rounding happens), and `int()` truncates it toward zero.  Outside that range the
float product rounds and these primitives are NOT what the code computes (the harness stays inside; C16 TRUSTED). -/

/-- the float `m / 2^k` -/
structure Dy where
  m : Int
  k : Nat
  deriving DecidableEq, Repr, Inhabited

/-- `field * f` (int × float) -/
def intMulDy (a : Int) (f : Dy) : Dy := { m := a * f.m, k := f.k }

/-- the quotient `a / b` truncated toward zero (`b > 0`), written with the floor division `omega` understands -/
def tquot (a b : Int) : Int := if 0 ≤ a then a / b else -((-a) / b)

/-- `int(x)` of a float: truncation toward zero -/
def truncDy (x : Dy) : Int := tquot x.m (2 ^ x.k)

/-- an `other` that is plus or minus a power of two -/
structure Pow2 where
  neg : Bool
  k : Nat
  deriving DecidableEq, Repr, Inhabited

/-- `1 / float(other)`: exact for a power of two -/
def recipPow2 (p : Pow2) : Dy := { m := if p.neg then -1 else 1, k := p.k }

end RDPy
