/-
  Model/RfcPy.lean — run-time support for `tzical._parse_rfc` as translated by harness/translate_rfc.py
  (Generated/TzRfcKernels.lean).  Every definition is a NAMED PRIMITIVE of that translator, trusted with the documented
  Python meaning and exercised on every run by the `tzgen.ical.rfc` differential validation against `tzical(...)`.
  No Mathlib.
-/
import DateutilVerif.Model.ObjPy

namespace RfcPy
open Py

/-- `a, b = s.split(c, 1)`: ValueError (not enough values to unpack) when `c` does not occur -/
def split1 (s : List Char) (c : Char) : R (List Char × List Char) :=
  if c = ':' then
    match ICal.splitColon1 s with
    | some p => .ok p
    | none => .error .ValueError
  else
    match s.span (· != c) with
    | (a, _ :: b) => .ok (a, b)
    | (_, []) => .error .ValueError

/-- an operand of `str + x` that may be `None`: TypeError -/
def needStr (o : Option (List Char)) : R (List Char) :=
  match o with
  | some s => .ok s
  | none => .error .TypeError

/-- `for x in l: <body that only raises>` -/
def forM_ {α} (l : List α) (f : α → R Unit) : R Unit :=
  match l with
  | [] => .ok ()
  | x :: xs => match f x with
    | .ok _ => forM_ xs f
    | .error e => .error e

/-- index with Python's negative wrap-around; `none` = IndexError -/
def idx? {α} (l : List α) (i : Int) : Option Nat :=
  let j := if i < 0 then i + l.length else i
  if j < 0 ∨ j ≥ l.length then none else some j.toNat

/-- `del l[i]` -/
def ldel {α} (l : List α) (i : Int) : R (List α) :=
  match idx? l i with
  | some j => .ok (l.take j ++ l.drop (j + 1))
  | none => .error .IndexError

/-- `l[i] += x` on a list of strings -/
def laddAt (l : List (List Char)) (i : Int) (x : List Char) : R (List (List Char)) :=
  match idx? l i with
  | some j => .ok (l.take j ++ ((l.getD j []) ++ x) :: l.drop (j + 1))
  | none => .error .IndexError

/-- `while cond: body` run for at most `fuel` iterations; running out of fuel is reported as `NotImplemented`
    (no Python exception: the translated loop would still be running) -/
def whileFuel {σ} (fuel : Nat) (cond : σ → Bool) (body : σ → R σ) (s : σ) : R σ :=
  if cond s then
    match fuel with
    | 0 => .error .NotImplemented
    | n + 1 => match body s with
      | .ok s' => whileFuel n cond body s'
      | .error e => .error e
  else .ok s

/-- the rule set returned by `rrulestr` as `_parse_rfc` sees it: the lines it was read from (and the `_interval` of each member of
    `_rrule` and `_exrule`, should the code read them) -/
structure RR where
  lines : List (List Char)
  rruleIntervals : List Int
  exruleIntervals : List Int := []
  deriving DecidableEq, Repr, Inhabited

/-- `rrule.rrulestr("\n".join(lines), compatible=True, ignoretz=True, cache=True)` through the library parameter
    (all intervals are reported in one list) -/
def rrulestr (lib : ICal.RRuleLib) (lines : List (List Char)) : R RR :=
  match lib lines with
  | .ok ivs => .ok { lines := lines, rruleIntervals := ivs }
  | .error e => .error e

/-- `_tzicalvtzcomp(tzoffsetfrom, tzoffsetto, isdst, tzname, rr)`: `timedelta(seconds=None)` is a TypeError; the
    rule set is kept as the lines it was read from -/
def mkComp (f t : Option Int) (isdst : Bool) (name : Option (List Char)) (rr : Option RR) : R ICal.Comp :=
  match f, t with
  | some f, some t => .ok { tzoffsetfrom := f, tzoffsetto := t, isdst := isdst, tzname := name,
                            rrulelines := (rr.map (·.lines)).getD [] }
  | _, _ => .error .TypeError

/-- `_tzicalvtz(tzid, comps)` stored under `tzid` -/
def mkVtz (tzid : Option (List Char)) (comps : List ICal.Comp) : ICal.VTz := { tzid := tzid.getD [], comps := comps }

/-! ### `self._vtz` as a dict (insertion-ordered association list keyed by `tzid`) -/

/-- `next(iter(d))`: the first key; StopIteration on an empty dict -/
def firstKey (d : List ICal.VTz) : R (List Char) :=
  match d with
  | v :: _ => .ok v.tzid
  | [] => .error .StopIteration

/-- `d.get(k)`: the value stored under `k`, `None` when absent (a `None` key is never stored) -/
def dictGet (d : List ICal.VTz) (k : Option (List Char)) : Option ICal.VTz :=
  match k with
  | some t => d.find? (fun v => v.tzid == t)
  | none => none

/-- `list(d.keys())` -/
def dictKeys (d : List ICal.VTz) : List (List Char) := d.map (·.tzid)

/-- a timedelta result (µs): OverflowError outside ±999999999 days -/
def tdRange (us : Int) : R Int :=
  if us < -(TzStr.tdLimit * DtPy.M) ∨ us ≥ (TzStr.tdLimit + 86400) * DtPy.M then .error .OverflowError else .ok us

/-- `a - b` / `a + b` on timedeltas -/
def tdSub (a b : Int) : R Int := tdRange (a - b)
def tdAdd (a b : Int) : R Int := tdRange (a + b)

/-- the attributes `_tzicalvtzcomp.__init__` sets (timedeltas in microseconds) -/
structure CompObj where
  tzoffsetfrom : Int
  tzoffsetto : Int
  tzoffsetdiff : Int
  isdst : Bool
  tzname : Option (List Char)
  rrule : Option RR
  deriving DecidableEq, Repr, Inhabited

/-- the attributes `_tzicalvtz.__init__` sets (`_cache_lock` is opaque) -/
structure VtzObj where
  tzid : Option (List Char)
  comps : List ICal.Comp
  cachedate : List (DtPy.Dt × Int)
  cachecomp : List (Option ICal.ZComp)
  deriving Repr, Inhabited

/-- `dt.replace(fold=f)`: ValueError unless `f` is 0 or 1 -/
def replaceFold (d : DtPy.Dt) (f : Int) : R DtPy.Dt :=
  if f = 0 ∨ f = 1 then .ok { d with fold := decide (f ≠ 0) } else .error .ValueError

/-- the `fileobj` argument of `tzical(...)`: a path (a `str`, opened with `open(path, 'r')`) or a stream (wrapped in `_nullcontext`);
    `content` is what opening and `read()` produce — the text, or the exception kind they raise -/
structure FileArg where
  isPath : Bool
  content : R (List Char)

/-- `with <open(path) | _nullcontext(stream)> as fobj: fobj.read()` -/
def FileArg.openRead (f : FileArg) : R (List Char) := f.content

end RfcPy
