/-
  Model/TZif.lean — `tzfile._read_tzfile` (src/dateutil/tz/tz.py 489-727), the code AFTER the
  D-C04 repair (two wall-clock transition lists indexed by fold).

  * `decode : List UInt8 → Py.R Raw` mirrors lines 501-628: magic, 16 skipped bytes, six big-endian
    signed counts, the version-1 block only (`>l` transitions, `B` indices, `>lbB` ttinfo records,
    the abbreviation block sliced at NUL with Python's slice/find semantics for negative or
    dangling indices, leap-second skip, isstd / isgmt), the `_ttinfo` list, and the replacement of
    type indices by objects (`IndexError` for an index ≥ typecnt).  `struct.error` is the kind
    `StructError`; a failed `.decode()` is a `UnicodeDecodeError`, i.e. a `ValueError`.
  * `build : Raw → TzFile` mirrors lines 630-725: `ttinfo_std/dst/before` selection, the
    `dstoffset` derivation loop (it mutates the shared `_ttinfo` objects: the last assignment per
    type wins and is seen through every reference), the legacy `trans_list`, and the two
    fold-indexed wall lists.

  Streams are `io.BytesIO`-like: `read(n)` returns what is left, `read(-n)` everything,
  a relative seek clamps at 0.  Abbreviation bytes are modelled for ASCII only (any byte ≥ 0x80
  is reported as the ValueError of an undecodable stream; valid multi-byte UTF-8 is outside the
  model and never generated).  No Mathlib.
-/
import DateutilVerif.Base.Py

namespace TZ
open Py

/-- a `_ttinfo` object: offset (= delta), isdst (signed byte as read), abbreviation (ASCII bytes),
    isstd, isgmt, dstoffset (seconds) -/
structure TType where
  off : Int
  isdst : Int
  abbr : List UInt8
  isstd : Bool
  isgmt : Bool
  dstoff : Int := 0
  deriving DecidableEq, Repr, Inhabited

/-- decoded version-1 block: transitions (UTC instant, type index) and the `_ttinfo` list as
    constructed at lines 613-625 (dstoffset still 0) -/
structure Raw where
  trans : List (Int × Nat)
  types : List TType
  deriving DecidableEq, Repr, Inhabited

/-! ### byte-level reading -/

def be32u (a b c d : UInt8) : Int :=
  ((a.toNat * 256 + b.toNat) * 256 + c.toNat) * 256 + d.toNat

/-- `struct.unpack('>l')` -/
def be32s (a b c d : UInt8) : Int :=
  let u := be32u a b c d
  if u < 2147483648 then u else u - 4294967296

/-- `struct.unpack('b')` -/
def s8 (a : UInt8) : Int := if a.toNat < 128 then a.toNat else (a.toNat : Int) - 256

/-- consecutive `>l` values; `none` when the byte count is not a multiple of four -/
def be32List : List UInt8 → Option (List Int)
  | [] => some []
  | a :: b :: c :: d :: rest => (be32List rest).map (be32s a b c d :: ·)
  | _ => none

/-- `fileobj.read(n)`: (data read, rest); `n < 0` reads to the end -/
def readN (s : List UInt8) (n : Int) : List UInt8 × List UInt8 :=
  if n < 0 then (s, []) else (s.take n.toNat, s.drop n.toNat)

/-- `struct.unpack(">%dl" % cnt, read(cnt*4))` guarded by `if cnt:` -/
def readLongs (s : List UInt8) (cnt : Int) : R (List Int × List UInt8) :=
  if cnt == 0 then .ok ([], s)
  else if cnt < 0 then .error .StructError          -- ">-3l": bad char in struct format
  else
    let (d, rest) := readN s (cnt * 4)
    if d.length ≠ (cnt * 4).toNat then .error .StructError
    else match be32List d with
      | some l => .ok (l, rest)
      | none => .error .StructError

/-- `struct.unpack(">%dB" % cnt, read(cnt))` / `">%db"` guarded by `if cnt:` -/
def readBytes (s : List UInt8) (cnt : Int) : R (List UInt8 × List UInt8) :=
  if cnt == 0 then .ok ([], s)
  else if cnt < 0 then .error .StructError
  else
    let (d, rest) := readN s cnt
    if d.length ≠ cnt.toNat then .error .StructError else .ok (d, rest)

/-- `for i in range(typecnt): struct.unpack(">lbB", read(6))` (tt_abbrind is an unsigned byte; /repo 3b2dec8) -/
def readTtinfo : Nat → List UInt8 → R (List (Int × Int × Int) × List UInt8)
  | 0, s => .ok ([], s)
  | k + 1, a :: b :: c :: d :: e :: f :: rest => do
      let (l, r) ← readTtinfo k rest
      .ok ((be32s a b c d, s8 e, (f.toNat : Int)) :: l, r)
  | _ + 1, _ => .error .StructError

/-- `abbr[abbrind:abbr.find('\x00', abbrind)]` with Python's semantics for a negative or
    out-of-range `abbrind` and for a missing NUL (`find` = -1 ⇒ the slice stops one short of
    the end) -/
def abbrAt (table : List UInt8) (ai : Int) : List UInt8 :=
  let n : Int := table.length
  let s : Nat := if ai < 0 then (if ai + n < 0 then 0 else (ai + n).toNat)
                 else (if ai > n then table.length else ai.toNat)
  let rest := table.drop s
  if rest.any (· == 0) then rest.takeWhile (· != 0)
  else (table.take (table.length - 1)).drop s

/-- `cnt > i and flags[i] != 0` (the list has exactly `cnt` entries) -/
def flagAt (l : List UInt8) (i : Nat) : Bool :=
  match l[i]? with
  | some v => v != 0
  | none => false

/-- lines 613-625: `for i in range(typecnt)`, `i` counted from the given start -/
def mkTypesFrom (abbr : List UInt8) (isstd isgmt : List UInt8) : Nat → List (Int × Int × Int) → List TType
  | _, [] => []
  | i, rec :: rest =>
      { off := rec.1, isdst := rec.2.1, abbr := abbrAt abbr rec.2.2,
        isstd := flagAt isstd i, isgmt := flagAt isgmt i, dstoff := 0 : TType }
        :: mkTypesFrom abbr isstd isgmt (i + 1) rest

def mkTypes (recs : List (Int × Int × Int)) (abbr : List UInt8) (isstd isgmt : List UInt8) :
    List TType := mkTypesFrom abbr isstd isgmt 0 recs

def magic : List UInt8 := [0x54, 0x5A, 0x69, 0x66]   -- "TZif"

/-- `_read_tzfile` lines 501-628 -/
def decode (data : List UInt8) : R Raw := do
  if data.take 4 ≠ magic then throw .ValueError
  let s := (data.drop 4).drop 16
  let (hdr, s) := readN s 24
  let cnts ← match (if hdr.length = 24 then be32List hdr else none) with
    | some [a, b, c, d, e, f] => pure (a, b, c, d, e, f)
    | _ => throw .StructError
  let (ttisgmtcnt, ttisstdcnt, leapcnt, timecnt, typecnt, charcnt) := cnts
  let (times, s) ← readLongs s timecnt
  let (idxs, s) ← readBytes s timecnt
  let (recs, s) ← readTtinfo typecnt.toNat s
  let (abbr, s) := readN s charcnt
  if abbr.any (· ≥ 128) then throw .ValueError      -- UnicodeDecodeError
  -- `if leapcnt: fileobj.seek(leapcnt * 8, os.SEEK_CUR)`; BytesIO clamps a negative position at 0
  let s : List UInt8 :=
    if leapcnt ≥ 0 then s.drop (leapcnt * 8).toNat
    else
      let pos : Int := (data.length : Int) - s.length + leapcnt * 8
      data.drop pos.toNat
  let (isstd, s) ← readBytes s ttisstdcnt
  let (isgmt, _) ← readBytes s ttisgmtcnt
  let types := mkTypes recs abbr isstd isgmt
  -- `out.trans_idx = [out.ttinfo_list[idx] for idx in out.trans_idx]`
  if idxs.any (fun i => i.toNat ≥ types.length) then throw .IndexError
  pure { trans := times.zip (idxs.map (·.toNat)), types := types }

/-! ### lines 630-725 -/

/-- the zone object's data (`_tzfile.attrs`) -/
structure TzFile where
  utc : List Int                 -- trans_list_utc
  tts : List TType               -- trans_idx (objects)
  ttinfoList : List TType
  std : Option TType
  dst : Option TType
  before : Option TType
  transList : List Int           -- the legacy "standard time" list (length, `==`)
  wall0 : List Int               -- trans_list_wall[0]
  wall1 : List Int               -- trans_list_wall[1]
  deriving DecidableEq, Repr, Inhabited

/-- state of the loop at lines 668-705 -/
structure LoopSt where
  lastdst : Option Int := none
  lastoffset : Int := 0
  lastdstoffset : Option Int := none
  lastbaseoffset : Option Int := none

/-- one iteration: (offset, isdst) of the transition's type ↦ (dstoffset assigned to the type's
    object if any, adjustment added to the UTC instant, next state) -/
def loopStep (st : LoopSt) (offset isdst : Int) : Option Int × Int × LoopSt :=
  let assigned : Option Int :=
    match st.lastdst with
    | none => none
    | some ld =>
      if isdst != 0 then
        let d0 : Int := if ld == 0 then offset - st.lastoffset else 0
        let d1 : Int := if d0 == 0 then (match st.lastdstoffset with
                                         | some x => if x != 0 then x else d0
                                         | none => d0) else d0
        some d1
      else none
  let dstoffset : Int := assigned.getD 0
  let baseoffset := offset - dstoffset
  let adjustment :=
    match st.lastbaseoffset, st.lastdst with
    | some lb, some ld => if baseoffset != lb && isdst != ld then lb else baseoffset
    | _, _ => baseoffset
  (assigned, adjustment,
   { lastdst := some isdst, lastoffset := offset,
     lastdstoffset := (match assigned with | some d => some d | none => st.lastdstoffset),
     lastbaseoffset := some baseoffset })

/-- the loop over the transitions' (offset, isdst): per transition (assignment, adjustment) -/
def dstLoop : LoopSt → List (Int × Int) → List (Option Int × Int)
  | _, [] => []
  | st, (o, d) :: rest =>
      let r := loopStep st o d
      (r.1, r.2.1) :: dstLoop r.2.2 rest

/-- apply the assignments in order to the shared objects (type index ↦ dstoffset): last one wins -/
def applyAssign (types : List TType) : List (Nat × Option Int) → List TType
  | [] => types
  | (i, some d) :: rest =>
      applyAssign (types.mapIdx (fun j t => if j = i then { t with dstoff := d } else t)) rest
  | (_, none) :: rest => applyAssign types rest

/-- lines 641-652: scan the transitions from the last to the first -/
def scanStdDst : List TType → Option TType → Option TType → Option TType × Option TType
  | [], std, dst => (match std, dst with | none, some d => some d | _, _ => std, dst)
  | tti :: rest, std, dst =>
      let (std', dst') :=
        if std.isNone && tti.isdst == 0 then (some tti, dst)
        else if dst.isNone && tti.isdst != 0 then (std, some tti)
        else (std, dst)
      if std'.isSome && dst'.isSome then (std', dst') else scanStdDst rest std' dst'

/-- lines 711-721 -/
def wallLists (before : Int) : List Int → List Int → List Int × List Int
  | u :: us, a :: as =>
      let r := wallLists a us as
      ((u + before) :: r.1, (u + min before a) :: r.2)
  | _, _ => ([], [])

/-- everything derived from the UTC instants, the transition objects and the type list -/
def assemble (utc : List Int) (tts : List TType) (types : List TType) : TzFile :=
  let sd : Option TType × Option TType :=
    match types with
    | [] => (none, none)
    | t0 :: _ => if utc.isEmpty then (some t0, none) else scanStdDst tts.reverse none none
  let before : Option TType :=
    if types.isEmpty || utc.isEmpty then none
    else match types.find? (fun t => t.isdst == 0) with
      | some t => some t
      | none => types.head?
  let adj := (dstLoop {} (tts.map (fun t => (t.off, t.isdst)))).map (·.2)
  let w := match before with
    | some b => wallLists b.off utc (tts.map (fun (t : TType) => t.off))
    | none => ([], [])
  { utc := utc, tts := tts, ttinfoList := types, std := sd.1, dst := sd.2, before := before,
    transList := List.zipWith (· + ·) utc adj, wall0 := w.1, wall1 := w.2 }

/-- the `_ttinfo` objects after the dstoffset loop has mutated them -/
def finalTypes (r : Raw) : List TType :=
  let seq := r.trans.map (fun p => let t := r.types.getD p.2 default; (t.off, t.isdst))
  applyAssign r.types ((r.trans.map (·.2)).zip ((dstLoop {} seq).map (·.1)))

/-- `RawOK`: what `decode` guarantees — every type index is in range -/
def Raw.ok (r : Raw) : Bool := r.trans.all (fun p => p.2 < r.types.length)

def build (r : Raw) : TzFile :=
  let types := finalTypes r
  assemble (r.trans.map (·.1)) (r.trans.map (fun p => types.getD p.2 default)) types

end TZ
