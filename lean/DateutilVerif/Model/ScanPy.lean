/-
  Model/ScanPy.lean — the statement fragment of the query methods of `rrulebase` (rrule.py: `__contains__`, `before`,
  `after`, `xafter`, `between`, `count`, `__getitem__`) as data, and its meaning.

  `harness/translate_rrbase.py` parses these methods from /repo's working tree on every run and emits one value per method
  in `Generated/RRBaseQueries.lean`: the loop bodies statement by statement (`Stmt`: if / elif / else, `break`, `return`,
  the assignments, `l.append(i)`, `yield d`, `n += 1`; conditions: comparisons of the loop variable with a parameter,
  `not started`, `comp(d, dt)`, `count is not None`, `n > count`), the `if inc:` split, the source selection
  (`if self._cache_complete: gen = self._cache else: gen = self`), what is returned.  Anything outside the fragment is
  `Untranslatable`.  `run` is the meaning; `C12.gen_*_eq_model` prove the translated methods equal to the loops of
  Model/Queries.lean on both paths.
-/
import DateutilVerif.Model.Queries

namespace ScanPy
open Queries Py

inductive Cmp | eq | gt | ge | lt | le
  deriving DecidableEq, Repr, Inhabited

/-- the parameters a loop compares its variable with -/
inductive Par | item | dt | after | before
  deriving DecidableEq, Repr, Inhabited

inductive Cond
  | cmp (c : Cmp) (p : Par)     -- `i <c> <p>` (the loop variable on the left)
  | notStarted                  -- `not started`
  | comp                        -- `comp(d, dt)` — the lambda selected by `inc`
  | countNotNone                -- `count is not None`
  | nGtCount                    -- `n > count`
  deriving DecidableEq, Repr, Inhabited

inductive Stmt
  | ifElse (c : Cond) (thn els : List Stmt)     -- `if c: thn else: els` (`elif` = an `ifElse` alone in `els`)
  | brk                                         -- `break`
  | retTrue | retFalse | retVar                 -- `return True` / `return False` / `return i`
  | setLast                                     -- `last = i`
  | setStarted                                  -- `started = True`
  | appendVar                                   -- `l.append(i)`
  | yieldVar                                    -- `yield d`
  | incN                                        -- `n += 1`
  deriving Repr, Inhabited

/-- how the method picks what it iterates -/
inductive Source
  | select          -- `if self._cache_complete: gen = self._cache` / `else: gen = self`, then ONE code path over `gen`
  | returnIn        -- `if self._cache_complete: return item in self._cache` / `else:` the loop over `self`
  deriving DecidableEq, Repr, Inhabited

inductive Body
  | loop (b : List Stmt)                -- `for i in gen: b`
  | ifInc (a b : List Stmt)             -- `if inc: for i in gen: a` / `else: for i in gen: b`
  deriving Repr, Inhabited

/-- what the method evaluates to when no `return` inside the loop fired -/
inductive Ret | last | none_ | l | false_ | generator
  deriving DecidableEq, Repr, Inhabited

structure Method where
  source : Source
  compInc : Cmp := .ge       -- `comp = lambda dc, dtc: dc <compInc> dtc` under `if inc:` (xafter only)
  compExc : Cmp := .gt       -- … under `else:`
  body : Body
  ret : Ret
  deriving Repr, Inhabited

structure Env where
  item : Int := 0
  dt : Int := 0
  after : Int := 0
  before : Int := 0
  count : Option Int := none
  inc : Bool := false
  deriving Repr, Inhabited

/-- the locals (`l` and the yielded values share `acc`) -/
structure St where
  last : Option Int := none
  started : Bool := false
  n : Int := 0
  acc : List Int := []
  deriving Repr, Inhabited, DecidableEq

inductive Ctl | next | brk | ret (r : Res)
  deriving Repr, Inhabited, DecidableEq

def evalCmp : Cmp → Int → Int → Bool
  | .eq, a, b => a == b
  | .gt, a, b => decide (a > b)
  | .ge, a, b => decide (a ≥ b)
  | .lt, a, b => decide (a < b)
  | .le, a, b => decide (a ≤ b)

def Env.par (e : Env) : Par → Int
  | .item => e.item | .dt => e.dt | .after => e.after | .before => e.before

def evalCond (m : Method) (e : Env) (i : Int) (s : St) : Cond → Bool
  | .cmp c p => evalCmp c i (e.par p)
  | .notStarted => !s.started
  | .comp => evalCmp (if e.inc then m.compInc else m.compExc) i e.dt
  | .countNotNone => e.count.isSome
  | .nGtCount => match e.count with | some c => decide (s.n > c) | none => false

mutual
/-- one statement with the loop variable bound to `i` -/
def runS (m : Method) (e : Env) (i : Int) : Stmt → St → Ctl × St
  | .ifElse c thn els, s => if evalCond m e i s c then runL m e i thn s else runL m e i els s
  | .brk, s => (.brk, s)
  | .retTrue, s => (.ret (.bool true), s)
  | .retFalse, s => (.ret (.bool false), s)
  | .retVar, s => (.ret (.val (some i)), s)
  | .setLast, s => (.next, { s with last := some i })
  | .setStarted, s => (.next, { s with started := true })
  | .appendVar, s => (.next, { s with acc := s.acc ++ [i] })
  | .yieldVar, s => (.next, { s with acc := s.acc ++ [i] })
  | .incN, s => (.next, { s with n := s.n + 1 })
def runL (m : Method) (e : Env) (i : Int) : List Stmt → St → Ctl × St
  | [], s => (.next, s)
  | st :: rest, s =>
    match runS m e i st s with
    | (.next, s') => runL m e i rest s'
    | r => r
end

/-- `for i in xs: body` -/
def runLoop (m : Method) (e : Env) (body : List Stmt) : List Int → St → Option Res × St
  | [], s => (none, s)
  | i :: xs, s =>
    match runL m e i body s with
    | (.next, s') => runLoop m e body xs s'
    | (.brk, s') => (none, s')
    | (.ret r, s') => (some r, s')

def finish (m : Method) : Option Res × St → Res
  | (some r, _) => r
  | (none, s) => match m.ret with
    | .last => .val s.last
    | .none_ => .val none
    | .l => .list s.acc
    | .false_ => .bool false
    | .generator => .list s.acc

def bodyOf (m : Method) (e : Env) : List Stmt :=
  match m.body with
  | .loop b => b
  | .ifInc a b => if e.inc then a else b

/-- the method on the generator path (`self._cache_complete` false), `iter(self)` yielding `xs` -/
def runGen (m : Method) (e : Env) (xs : List Int) : Res := finish m (runLoop m e (bodyOf m e) xs {})

/-- the method on the cache-complete path -/
def runFast (m : Method) (e : Env) (cache : List Int) : Res :=
  match m.source with
  | .select => finish m (runLoop m e (bodyOf m e) cache {})
  | .returnIn => .bool (cache.elem e.item)

/-! ### `count` -/

/-- `if self._len is None: for x in self: pass` / `return self._len` -/
structure CountProg where
  testLenNone : Bool     -- the guard is `self._len is None`
  drains : Bool          -- the guarded body is `for x in self: pass`
  returnsLen : Bool      -- `return self._len`
  deriving DecidableEq, Repr, Inhabited

/-- `len` = `self._len` before the call; a full iteration publishes the total -/
def runCount (p : CountProg) (len : Option Nat) (xs : List Int) : Option Res :=
  if p.testLenNone && p.drains && p.returnsLen then
    some (.nat (match len with | some n => n | none => xs.length))
  else none

/-! ### `__getitem__` -/

inductive Field | start | stop | step
  deriving DecidableEq, Repr, Inhabited

structure GetitemProg where
  fastIndexes : Bool                        -- `if self._cache_complete: return self._cache[item]`
  listPathConds : List (Field × Cmp × Int)  -- `(item.f is not None and item.f <c> k) or …` → `list(iter(self))[item]`
  clampsToMaxsize : Bool                    -- `x if x is None else min(x, sys.maxsize)` for the three bounds
  isliceArgs : List Field                   -- `itertools.islice(self, …)` in this order
  nonnegCmp : Cmp                           -- `elif item <c> k:` → the `next()` loop
  nonnegBound : Int
  rangeExtra : Int                          -- `for i in range(item + rangeExtra): res = advance_iterator(gen)`
  stopIsIndexError : Bool                   -- `except StopIteration: raise IndexError`
  negativeUsesList : Bool                   -- `else: return list(iter(self))[item]`
  deriving DecidableEq, Repr, Inhabited

def fieldOf (a b c : Option Int) : Field → Option Int
  | .start => a | .stop => b | .step => c

def condHolds (a b c : Option Int) : Field × Cmp × Int → Bool
  | (f, cm, k) => match fieldOf a b c f with | some v => evalCmp cm v k | none => false

/-- `rule[a:b:c]` on the generator path -/
def runSliceGen (p : GetitemProg) (xs : List Int) (a b c : Option Int) : Option Res :=
  if p.listPathConds.any (condHolds a b c) then some (.ofRL (Py.slice xs a b c))
  else match p.isliceArgs with
    | [f1, f2, f3] =>
      let cl := fun o => if p.clampsToMaxsize then clampMax o else o
      some (.ofRL (islice xs (cl (fieldOf a b c f1)) (cl (fieldOf a b c f2)) (cl (fieldOf a b c f3))))
    | _ => none

/-- `rule[i]` on the generator path -/
def runIndexGen (p : GetitemProg) (xs : List Int) (i : Int) : Option Res :=
  if evalCmp p.nonnegCmp i p.nonnegBound then
    if p.stopIsIndexError && p.rangeExtra ≥ 1 then some (.ofR (nthNext xs (i + p.rangeExtra - 1).toNat)) else none
  else if p.negativeUsesList then some (.ofR (getIdx xs i)) else none

/-- both on the cache-complete path: `self._cache[item]` -/
def runIndexFast (p : GetitemProg) (cache : List Int) (i : Int) : Option Res :=
  if p.fastIndexes then some (.ofR (getIdx cache i)) else none
def runSliceFast (p : GetitemProg) (cache : List Int) (a b c : Option Int) : Option Res :=
  if p.fastIndexes then some (.ofRL (Py.slice cache a b c)) else none

end ScanPy
