/-
  Model/TzifPy.lean — named primitives of the "TzifPy" translator (harness/translate_tzif.py), which re-translates
  `tzfile._read_tzfile` (src/dateutil/tz/tz.py) from /repo on every run into Generated/TzifKernels.lean.

  * `File`: an `io.BytesIO`-like stream (all bytes + what is left): `read(n)` returns what is left when fewer than `n`
    bytes remain, `read(-n)` everything; a relative seek clamps at 0.
  * `unpackL/unpackB/unpackSB/unpackLbB`: `struct.unpack` for the big-endian formats `>Nl`, `>NB`, `>Nb`, `>lbB`
    (`struct.error` for a negative count or a wrong byte count is the kind `StructError`).
  * `_ttinfo` OBJECTS live in a heap (`Heap = List TT`, a reference is the allocation index), because `_read_tzfile` mutates
    them (`tti.dstoffset = …`) through aliases held in `trans_idx`, `ttinfo_list`, `ttinfo_std/dst/before`.
  * loops: `forEach` (a `for` statement over a list: left fold in the exception monad), `rangeUp n` = `range(n)`,
    `rangeDown a` = `range(a, -1, -1)`, `enum l` = `enumerate(l)`.
  * `Out`: the attributes of the returned `_tzfile` object; `Out.view` reads it through its references as the model's
    `TZ.TzFile`.
  No Mathlib.
-/
import DateutilVerif.Model.TZif

namespace TzifPy
open Py TZ

/-! ### stream -/
structure File where
  data : List UInt8
  rest : List UInt8
  deriving Repr, Inhabited

def File.ofBytes (d : List UInt8) : File := ⟨d, d⟩

/-- `fileobj.read(n)` -/
def File.read (f : File) (n : Int) : List UInt8 × File :=
  ((readN f.rest n).1, { f with rest := (readN f.rest n).2 })

/-- `fileobj.seek(n, os.SEEK_CUR)` -/
def File.seekCur (f : File) (n : Int) : File :=
  if n ≥ 0 then { f with rest := f.rest.drop n.toNat }
  else { f with rest := f.data.drop ((f.data.length : Int) - f.rest.length + n).toNat }

/-! ### struct.unpack -/
/-- `struct.unpack(">%dl" % n, d)` -/
def unpackL (n : Int) (d : List UInt8) : R (List Int) :=
  if n < 0 then .error .StructError
  else if d.length ≠ (n * 4).toNat then .error .StructError
  else match be32List d with
    | some l => .ok l
    | none => .error .StructError

/-- `struct.unpack(">%dB" % n, d)` -/
def unpackB (n : Int) (d : List UInt8) : R (List Int) :=
  if n < 0 then .error .StructError
  else if d.length ≠ n.toNat then .error .StructError
  else .ok (d.map fun b => (b.toNat : Int))

/-- `struct.unpack(">%db" % n, d)` -/
def unpackSB (n : Int) (d : List UInt8) : R (List Int) :=
  if n < 0 then .error .StructError
  else if d.length ≠ n.toNat then .error .StructError
  else .ok (d.map s8)

/-- `struct.unpack(">lbB", d)` -/
def unpackLbB : List UInt8 → R (Int × Int × Int)
  | [a, b, c, d, e, f] => .ok (be32s a b c d, s8 e, (f.toNat : Int))
  | _ => .error .StructError

/-- `bytes.decode()` restricted to ASCII (a byte ≥ 0x80 is reported as the ValueError of an undecodable stream) -/
def decodeStr (d : List UInt8) : R (List UInt8) :=
  if d.any (· ≥ 128) then .error .ValueError else .ok d

/-- `s[i:s.find(c, i)]` for the one-character string `c` = NUL -/
def sliceToFindNul (s : List UInt8) (i : Int) : List UInt8 := abbrAt s i

/-- unpacking a 6-tuple -/
def six : List Int → R (Int × Int × Int × Int × Int × Int)
  | [a, b, c, d, e, f] => .ok (a, b, c, d, e, f)
  | _ => .error .ValueError

/-! ### lists -/
/-- `l[i]` -/
def lget {α} (l : List α) (i : Int) : R α := Py.getIdx l i

/-- `x.attr` on an object-or-None -/
def need {α} : Option α → R α
  | some x => .ok x
  | none => .error .AttributeError

/-- arithmetic on an int-or-None -/
def needInt : Option Int → R Int
  | some x => .ok x
  | none => .error .TypeError

def optTruthy : Option Int → Bool
  | some x => x != 0
  | none => false

def rangeUp (n : Int) : List Int := (List.range n.toNat).map fun (k : Nat) => (k : Int)
def rangeDown (a : Int) : List Int := (rangeUp (a + 1)).reverse
def enumFrom {α} : Nat → List α → List (Int × α)
  | _, [] => []
  | i, x :: xs => ((i : Int), x) :: enumFrom (i + 1) xs
def enum {α} (l : List α) : List (Int × α) := enumFrom 0 l

/-- a `for` statement: the body maps the loop variable and the carried names to the carried names -/
def forEach {α σ} (f : α → σ → R σ) : List α → σ → R σ
  | [], s => .ok s
  | x :: xs, s => (f x s).bind (forEach f xs)

/-! ### `_ttinfo` objects -/
structure TT where
  offset : Int := 0
  delta : Int := 0           -- seconds of the timedelta
  isdst : Int := 0
  abbr : List UInt8 := []
  isstd : Bool := false
  isgmt : Bool := false
  dstoffset : Int := 0       -- seconds of the timedelta
  deriving DecidableEq, Repr, Inhabited

abbrev Ref := Nat
abbrev Heap := List TT

/-- `_ttinfo()` (every slot is assigned before it is read: checked by the translator) -/
def hnew (h : Heap) : Ref × Heap := (h.length, h ++ [default])
def hget (h : Heap) (r : Ref) : TT := h.getD r default
def hmod (f : TT → TT) : Heap → Ref → Heap
  | [], _ => []
  | t :: ts, 0 => f t :: ts
  | t :: ts, r + 1 => t :: hmod f ts r

/-- the returned `_tzfile` object -/
structure Out where
  heap : Heap
  trans_list_utc : List Int
  trans_idx : List Ref
  ttinfo_list : List Ref
  ttinfo_std : Option Ref
  ttinfo_dst : Option Ref
  ttinfo_before : Option Ref
  ttinfo_first : Option Ref
  trans_list : List Int
  trans_list_wall : List Int × List Int
  deriving Repr, Inhabited

def TT.toModel (t : TT) : TType :=
  { off := t.offset, isdst := t.isdst, abbr := t.abbr, isstd := t.isstd, isgmt := t.isgmt, dstoff := t.dstoffset }

/-- the object read through its references -/
def Out.view (o : Out) : TzFile :=
  let g (r : Ref) : TType := (hget o.heap r).toModel
  { utc := o.trans_list_utc, tts := o.trans_idx.map g, ttinfoList := o.ttinfo_list.map g,
    std := o.ttinfo_std.map g, dst := o.ttinfo_dst.map g, before := o.ttinfo_before.map g,
    transList := o.trans_list, wall0 := o.trans_list_wall.1, wall1 := o.trans_list_wall.2 }

/-- `tti.delta == timedelta(seconds=tti.offset)` for every object -/
def Out.deltaOk (o : Out) : Bool := o.heap.all fun t => t.delta == t.offset

end TzifPy
