/-
  Model/TzRange.lean — `tzrange.__init__` with explicit relativedelta arguments (tz.py 969-1015)
  and `tzrange.__eq__` (six fields, tz.py 1041-1051), over the `Zone` / `Delta` records of
  Model/TzStr.lean.  Offsets are seconds (a `timedelta` argument is converted by
  `total_seconds()` first).
-/
import DateutilVerif.Model.TzStr

namespace TzStr

-- `Delta.truthy` (`bool(relativedelta)`) is defined in Model/TzStr.lean

/-- truthiness of an abbreviation argument (`None` and `""` are falsy) -/
def abbrTruthy : Option String → Bool
  | none => false
  | some a => !a.isEmpty

/-- `tzrange(stdabbr, stdoffset, dstabbr, dstoffset, start, end)` -/
def tzrange (stdabbr : Option String) (stdoffset : Option Int) (dstabbr : Option String)
    (dstoffset : Option Int) (start «end» : Option Delta) : Py.R Zone := do
  let stdOff ← (match stdoffset with
    | some v => do let _ ← tdCheck v; pure v
    | none => pure 0)
  let dstOff ← (match dstoffset with
    | some v => do let _ ← tdCheck v; pure v
    | none => if abbrTruthy dstabbr && stdoffset.isSome then pure (stdOff + 3600) else pure 0)
  let sd : Option Delta :=
    if abbrTruthy dstabbr && start.isNone
    then some { seconds := 7200, month := some 4, day := some 1, weekday := some (6, 1) } else start
  let ed : Option Delta :=
    if abbrTruthy dstabbr && «end».isNone
    then some { seconds := 3600, month := some 10, day := some 31, weekday := some (6, -1) } else «end»
  -- `self.hasdst = bool(self._start_delta)`
  let hasdst := match sd with | some d => d.truthy | none => false
  .ok { stdAbbr := stdabbr, dstAbbr := dstabbr, stdOff, dstOff, start := sd, «end» := ed, hasdst }

/-- `relativedelta.__eq__` on the fields a `Delta` carries: a weekday's `n` of `None`/0 and 1
    are the same -/
def deltaEq (a b : Delta) : Bool :=
  let wk : Option (Int × Int) → Option (Int × Int) := fun w => w.map (fun p => (p.1, if p.2 == 0 then 1 else p.2))
  a.month == b.month && a.day == b.day && wk a.weekday == wk b.weekday &&
  a.leapdays == b.leapdays && a.seconds == b.seconds

def optDeltaEq : Option Delta → Option Delta → Bool
  | some a, some b => deltaEq a b
  | none, none => true
  | _, _ => false

/-- `tzrange.__eq__`: the six compared fields -/
def zoneEq (a b : Zone) : Bool :=
  a.stdAbbr == b.stdAbbr && a.dstAbbr == b.dstAbbr && a.stdOff == b.stdOff && a.dstOff == b.dstOff &&
  optDeltaEq a.start b.start && optDeltaEq a.«end» b.«end»

end TzStr
