/-
  Model/TzStr.lean — the POSIX-style TZ string parser (`parser._tzparser.parse`),
  `tz.tzstr.__init__` / `_delta`, `tz.tzrange.__init__` and `tzrange.transitions`.

  Mirrors the code that exists, including its corners:
  * tokenisation is `re.split(r'([,:.]|[a-zA-Z]+|[0-9]+)', s)` with empty strings dropped:
    single `, : .`, maximal ASCII letter runs, maximal ASCII digit runs, and the *unmatched
    text between matches* (maximal runs of any other characters) kept as tokens of their own;
  * `IndexError / ValueError / AssertionError / TypeError` inside `parse` become `return None`
    (here: `.ok none`);
  * `int(token)` is modelled for ASCII: a token converts iff it is a non-empty run of ASCII
    digits.  (Python's `int()` also accepts non-ASCII decimal digits and surrounding
    whitespace; such tokens can only arise from characters outside the TZ grammar and are
    outside this model — the oracle covers them on the implementation as "unknown characters".)
  No Mathlib import.
-/
import DateutilVerif.Base.Calendar

namespace TzStr

/-! ### tokens -/

inductive CK where | punct | alpha | digit | other
  deriving DecidableEq, Repr

def ck (c : Char) : CK :=
  if c == ',' || c == ':' || c == '.' then .punct
  else if ('a' ≤ c ∧ c ≤ 'z') ∨ ('A' ≤ c ∧ c ≤ 'Z') then .alpha
  else if '0' ≤ c ∧ c ≤ '9' then .digit
  else .other

/-- `[x for x in re.split(r'([,:.]|[a-zA-Z]+|[0-9]+)', s) if x]` -/
def tokensAux : List Char → Option (CK × List Char) → List String → List String
  | [], none, acc => acc.reverse
  | [], some (_, cur), acc => (String.ofList cur.reverse :: acc).reverse
  | c :: cs, none, acc => tokensAux cs (some (ck c, [c])) acc
  | c :: cs, some (k, cur), acc =>
      if ck c == k && k != .punct then tokensAux cs (some (k, c :: cur)) acc
      else tokensAux cs (some (ck c, [c])) (String.ofList cur.reverse :: acc)

def tokens (s : String) : List String := tokensAux s.toList none []

def isDigits (s : String) : Bool := !s.isEmpty && s.toList.all (fun c => '0' ≤ c ∧ c ≤ '9')

/-- `int(token)` on the ASCII model: `none` = ValueError -/
def pyInt (s : String) : Option Int :=
  if isDigits s then some (s.toList.foldl (fun (a : Int) c => a * 10 + ((c.toNat - '0'.toNat : Nat) : Int)) 0) else none

def strTake (s : String) (n : Nat) : String := String.ofList (s.toList.take n)
def strDrop (s : String) (n : Nat) : String := String.ofList (s.toList.drop n)

/-! ### parse result -/

structure Attr where
  month : Option Int := none
  week : Option Int := none
  weekday : Option Int := none
  yday : Option Int := none
  jyday : Option Int := none
  day : Option Int := none
  time : Option Int := none
  deriving DecidableEq, Repr, Inhabited

structure Res where
  stdabbr : Option String := none
  stdoffset : Option Int := none
  dstabbr : Option String := none
  dstoffset : Option Int := none
  start : Attr := {}
  «end» : Attr := {}
  anyUnused : Bool := false
  deprecated : Bool := false      -- DeprecatedTzFormatWarning was issued
  deriving DecidableEq, Repr, Inhabited

/-- parser state: `none` anywhere below = the `except (IndexError, ValueError, AssertionError): return None` -/
structure St where
  res : Res := {}
  i : Nat := 0
  used : List Nat := []
  deriving Repr, Inhabited

abbrev P := Option          -- inner failure = return None

def tok (l : Array String) (i : Nat) : P String := l[i]?      -- IndexError → None

def hasOffsetChar (s : String) : Bool := s.toList.any (fun c => "0123456789:,-+".toList.contains c)

def firstIsDigit (s : String) : Bool :=
  match s.toList with
  | c :: _ => '0' ≤ c ∧ c ≤ '9'
  | [] => false

/-- the three offset spellings (`-0300`, `-03:00`, `-[0]3`); returns (value, used', i') -/
def parseOffset (l : Array String) (st : St) : P (Int × St) := do
  let i := st.i
  let t ← tok l i
  let (signal, st) ← (if t == "+" || t == "-" then
      pure ((if t == "+" then (-1 : Int) else 1), { st with used := st.used ++ [i], i := i + 1 })
    else pure ((-1 : Int), st))
  let i := st.i
  let t ← tok l i
  let len := t.length
  if len == 4 then do
    let a ← pyInt (strTake t 2)
    let b ← pyInt (strDrop t 2)
    pure ((a * 3600 + b * 60) * signal, { st with used := st.used ++ [i], i := i + 1 })
  else if i + 1 < l.size && l[i + 1]? == some ":" then do
    let a ← pyInt t
    let t2 ← tok l (i + 2)
    let b ← pyInt t2
    pure ((a * 3600 + b * 60) * signal, { st with used := st.used ++ [i, i + 2], i := i + 3 })
  else if len ≤ 2 then do
    let a ← pyInt (strTake t 2)
    pure (a * 3600 * signal, { st with used := st.used ++ [i], i := i + 1 })
  else none

/-- every character is an ASCII letter (`x in string.ascii_letters`) -/
def isLetters (s : String) : Bool := s.toList.all (fun c => ck c == .alpha)

/-- `while j < len_l and not [x for x in l[j] if x not in string.ascii_letters]: j += 1`, from `i`: an abbreviation run is made of
    ASCII letter tokens only (fix D-C08b; before it the run stopped at the first token containing one of "0123456789:,-+", so any
    other text was absorbed into the abbreviation) -/
def skipAbbr (l : List String) (i : Nat) : Nat :=
  i + ((l.drop i).takeWhile (fun t => isLetters t)).length

/-- the abbreviation/offset loop `BRST+3[BRDT[+2]]` -/
def abbrLoop (l : Array String) : Nat → St → P St
  | 0, st => some st
  | fuel + 1, st =>
    if st.i < l.size then
      -- j = first index ≥ i whose token is not made of ASCII letters (or len)
      let j := skipAbbr l.toList st.i
      if j != st.i then
        let abbr := String.join ((l.toList.drop st.i).take (j - st.i))
        let isStd := match st.res.stdabbr with | none => true | some s => s.isEmpty
        let res := if isStd then { st.res with stdabbr := some abbr } else { st.res with dstabbr := some abbr }
        let st := { st with res := res, used := st.used ++ List.range j, i := j }
        let step : P St :=
          match l[st.i]? with
          | some t =>
            if t == "+" || t == "-" || firstIsDigit t then do
              let (v, st') ← parseOffset l st
              let res := if isStd then { st'.res with stdoffset := some v } else { st'.res with dstoffset := some v }
              pure { st' with res := res }
            else pure st
          | none => pure st
        match step with
        | none => none
        | some st =>
          let dstSet := match st.res.dstabbr with | none => false | some s => !s.isEmpty
          if dstSet then some st else abbrLoop l fuel st
      else some st
    else some st

def inSet (s : String) (xs : List String) : Bool := xs.contains s

def allCharsIn (s : String) (cs : String) : Bool := s.toList.all (fun c => cs.toList.contains c)

/-- one rule of the deprecated `GMT0BST,3,0,30,3600,10,0,26,7200[,3600]` format -/
def depRule (l : Array String) (st : St) : P (Attr × St) := do
  let i := st.i
  let month ← pyInt (← tok l i)
  let used := st.used ++ [i]
  let i := i + 2
  let t ← tok l i
  let (value, used, i) ← (if t == "-" then do
      let v ← pyInt (← tok l (i + 1))
      pure (v * (-1), used ++ [i], i + 1)
    else do
      let v ← pyInt t
      pure (v, used, i))
  let used := used ++ [i]
  let i := i + 2
  let n ← pyInt (← tok l i)
  let x : Attr := if value != 0 then { month := some month, week := some value, weekday := some (Py.fmod (n - 1) 7) }
                  else { month := some month, day := some n }
  let used := used ++ [i]
  let i := i + 2
  let tm ← pyInt (← tok l i)
  let used := used ++ [i]
  let i := i + 2
  pure ({ x with time := some tm }, { st with used := used, i := i })

/-- `/time` in the three spellings -/
def ruleTime (l : Array String) (st : St) : P (Int × St) := do
  let i := st.i
  let t ← tok l i
  let len := t.length
  if len == 4 then do
    let a ← pyInt (strTake t 2)
    let b ← pyInt (strDrop t 2)
    pure (a * 3600 + b * 60, { st with used := st.used ++ [i], i := i + 1 })
  else if i + 1 < l.size && l[i + 1]? == some ":" then do
    let a ← pyInt t
    let b ← pyInt (← tok l (i + 2))
    let used := st.used ++ [i]
    let i := i + 2
    if i + 1 < l.size && l[i + 1]? == some ":" then do
      let used := used ++ [i]
      let i := i + 2
      let c ← pyInt (← tok l i)
      pure (a * 3600 + b * 60 + c, { st with used := used ++ [i], i := i + 1 })
    else pure (a * 3600 + b * 60, { st with used := used ++ [i], i := i + 1 })
  else if len ≤ 2 then do
    let a ← pyInt (strTake t 2)
    pure (a * 3600, { st with used := st.used ++ [i], i := i + 1 })
  else none

/-- one `Mm.w.d | Jn | n` rule with optional `/time`, then the `,` or the end -/
def stdRule (l : Array String) (st : St) : P (Attr × St) := do
  let i := st.i
  let t ← tok l i
  let (x, used, i) ← (if t == "J" then do
      let used := st.used ++ [i]
      let i := i + 1
      let n ← pyInt (← tok l i)
      pure (({ jyday := some n } : Attr), used, i)
    else if t == "M" then do
      let used := st.used ++ [i]
      let i := i + 1
      let m ← pyInt (← tok l i)
      let used := used ++ [i]
      let i := i + 1
      let s1 ← tok l i
      if !(s1 == "-" || s1 == ".") then none else
      let used := used ++ [i]
      let i := i + 1
      let w ← pyInt (← tok l i)
      let w := if w == 5 then -1 else w
      let used := used ++ [i]
      let i := i + 1
      let s2 ← tok l i
      if !(s2 == "-" || s2 == ".") then none else
      let used := used ++ [i]
      let i := i + 1
      let d ← pyInt (← tok l i)
      pure (({ month := some m, week := some w, weekday := some (Py.fmod (d - 1) 7) } : Attr), used, i)
    else do
      let n ← pyInt t
      pure (({ yday := some (n + 1) } : Attr), st.used, i))
  let used := used ++ [i]
  let i := i + 1
  let st := { st with used := used, i := i }
  let (x, st) ← (if st.i < l.size && l[st.i]? == some "/" then do
      let st := { st with used := st.used ++ [st.i], i := st.i + 1 }
      let (tm, st) ← ruleTime l st
      pure ({ x with time := some tm }, st)
    else pure (x, st))
  -- assert i == len_l or l[i] == ','
  if !(st.i == l.size || l[st.i]? == some ",") then none else
  pure (x, { st with i := st.i + 1 })

/-- `_tzparser.parse`: `.ok none` = returned None; `.error .TypeError` escapes -/
def parseTokens (l0 : Array String) : Py.R (Option Res) :=
  match abbrLoop l0 3 {} with
  | none => .ok none
  | some st =>
    -- if i < len_l: replace ';' by ',' from i on; assert l[i] == ','; i += 1
    let (l, stOpt) : Array String × Option St :=
      if st.i < l0.size then
        let l := (l0.toList.zipIdx.map (fun (t, k) => if k ≥ st.i && t == ";" then "," else t)).toArray
        if l[st.i]? == some "," then (l, some { st with i := st.i + 1 }) else (l, none)
      else (l0, some st)
    match stOpt with
    | none => .ok none
    | some st =>
      let commas := (l.toList.filter (· == ",")).length
      let rest := l.toList.drop st.i
      let finish (st : St) : Py.R (Option Res) :=
        let unused := (List.range l.size).filter (fun k => !st.used.contains k)
        let anyUnused := unused.any (fun k => !(l[k]? == some "," || l[k]? == some ":"))
        .ok (some { st.res with anyUnused := anyUnused })
      if st.i ≥ l.size then finish st
      else if 8 ≤ commas ∧ commas ≤ 9 ∧ rest.all (fun x => x == "," || allCharsIn x "0123456789+-") then
        -- deprecated dateutil-specific format
        match depRule l st with
        | none => .ok none
        | some (a, st) =>
          match depRule l st with
          | none => .ok none
          | some (b, st) =>
            let st := { st with res := { st.res with start := a, «end» := b, deprecated := true } }
            if st.i < l.size then
              let t := l[st.i]?.getD ""
              let (signal, st) : Int × St :=
                if t == "-" || t == "+" then ((if t == "+" then 1 else -1), { st with used := st.used ++ [st.i], i := st.i + 1 })
                else (1, st)
              let st := { st with used := st.used ++ [st.i] }
              match l[st.i]? with
              | none => .ok none
              | some t =>
                match pyInt t with
                | none => .ok none
                | some v =>
                  match st.res.stdoffset with
                  | none => .ok none                    -- None + int: TypeError, caught since the C08 fix
                  | some so => finish { st with res := { st.res with dstoffset := some (so + v * signal) } }
            else finish st
      else if commas == 2 ∧ (rest.filter (· == "/")).length ≤ 2 ∧
              rest.all (fun x => inSet x [",", "/", "J", "M", ".", "-", ":"] || allCharsIn x "0123456789") then
        match stdRule l st with
        | none => .ok none
        | some (a, st) =>
          match stdRule l st with
          | none => .ok none
          | some (b, st) =>
            -- assert i >= len_l
            if st.i < l.size then .ok none
            else finish { st with res := { st.res with start := a, «end» := b } }
      else finish st

def parse (s : String) : Py.R (Option Res) := parseTokens (tokens s).toArray

/-! ### tzstr / tzrange construction -/

/-- what `relativedelta(**kwargs)` of `_delta` denotes: absolute month/day, weekday(wd, n),
    leapdays, and a total duration in seconds (the constructor's `_fix` only redistributes
    `seconds` over days/hours/minutes preserving the total — C16 `fix_preserves_total`). -/
structure Delta where
  month : Option Int := none
  day : Option Int := none
  weekday : Option (Int × Int) := none
  leapdays : Int := 0
  seconds : Int := 0
  deriving DecidableEq, Repr, Inhabited

/-- `bool(relativedelta)` for the deltas `_delta` builds: false iff no field is set -/
def Delta.truthy (d : Delta) : Bool :=
  d.month.isSome || d.day.isSome || d.weekday.isSome || d.leapdays != 0 || d.seconds != 0

/-- the `ydayidx` scan of `relativedelta.__init__` for `yearday=` / `nlyearday=` -/
def ydayToMonthDay (yday : Int) : Py.R (Int × Int) :=
  let idx : List Int := [31, 59, 90, 120, 151, 181, 212, 243, 273, 304, 334, 366]
  let rec go : List Int → Int → Int → Py.R (Int × Int)
    | [], _, _ => .error .ValueError
    | y :: ys, k, prev => if yday ≤ y then .ok (k + 1, if k == 0 then yday else yday - prev) else go ys (k + 1) y
  go idx 0 0

/-- `tzstr._delta(x, isend)` followed by the relativedelta constructor -/
def delta (x : Attr) (isend : Bool) (stdOff dstOff : Int) : Py.R Delta := do
  let base : Option Delta ←
    match x.month with
    | some m =>
      match x.weekday with
      | some wd =>
        let wk := x.week.getD 0
        .ok (some { month := some m, weekday := some (wd, wk), day := some (if wk > 0 then 1 else 31) })
      | none =>
        match x.day with
        | some d => .ok (some (if d != 0 then { month := some m, day := some d } else { month := some m }))
        | none => .ok (some { month := some m })
    | none =>
      match x.yday with
      | some yd =>
        -- relativedelta(yearday=yd): falsy 0 is ignored
        if yd == 0 then .ok none else do
          let (m, d) ← ydayToMonthDay yd
          .ok (some { month := some m, day := some d, leapdays := if yd > 59 then -1 else 0 })
      | none =>
        match x.jyday with
        | some jd =>
          if jd == 0 then .ok none else do
            let (m, d) ← ydayToMonthDay jd
            .ok (some { month := some m, day := some d })
        | none => .ok none
  -- `if not kwargs:` — note kwargs is non-empty as soon as a yearday/nlyearday key was set,
  -- even when its value is 0
  let hadKey := x.month.isSome || x.yday.isSome || x.jyday.isSome
  let d : Delta :=
    match base with
    | some d => d
    | none =>
      if hadKey then {}
      else if !isend then { month := some 4, day := some 1, weekday := some (6, 1) }
      else { month := some 10, day := some 31, weekday := some (6, -1) }
  let secs := (x.time.getD 7200) - (if isend then dstOff - stdOff else 0)
  .ok { d with seconds := secs }

structure Zone where
  stdAbbr : Option String
  dstAbbr : Option String
  stdOff : Int
  dstOff : Int
  start : Option Delta
  «end» : Option Delta
  hasdst : Bool
  deriving DecidableEq, Repr, Inhabited

def tdLimit : Int := 86400 * 999999999

/-- `datetime.timedelta(seconds=x)`: OverflowError beyond ±999999999 days -/
def tdCheck (x : Int) : Py.R Unit := if x < -tdLimit ∨ x ≥ tdLimit + 86400 then .error .OverflowError else .ok ()

/-- `tzstr.__init__(s, posix_offset)` -/
def tzstr (s : String) (posix : Bool) : Py.R Zone := do
  let r ← parse s
  match r with
  | none => .error .ValueError
  | some res =>
    if res.anyUnused then .error .ValueError else
    let flip := (res.stdabbr == some "GMT" || res.stdabbr == some "UTC") && !posix
    let stdoffset : Option Int :=
      if flip then res.stdoffset.map (· * (-1)) else res.stdoffset   -- only when an offset is present
    -- tzrange.__init__(stdabbr, stdoffset, dstabbr, dstoffset, start=False, end=False)
    let stdOff := stdoffset.getD 0
    let _ ← tdCheck stdOff
    let dstTruthy := match res.dstabbr with | none => false | some a => !a.isEmpty
    let dstOff ← (match res.dstoffset with
      | some v => do let _ ← tdCheck v; pure v
      | none => if dstTruthy && stdoffset.isSome then pure (stdOff + 3600) else pure 0)
    if !dstTruthy then
      .ok { stdAbbr := res.stdabbr, dstAbbr := res.dstabbr, stdOff, dstOff, start := none, «end» := none, hasdst := false }
    else do
      let sd ← delta res.start false stdOff dstOff
      -- `if self._start_delta:` — a relativedelta with no field set is falsy (e.g. `J0/0`): the end delta is
      -- then never built (it stays the `False` passed to tzrange.__init__) and `hasdst = bool(start_delta)` is False
      if !sd.truthy then
        .ok { stdAbbr := res.stdabbr, dstAbbr := res.dstabbr, stdOff, dstOff, start := some sd, «end» := none, hasdst := false }
      else do
      let ed ← delta res.«end» true stdOff dstOff
      .ok { stdAbbr := res.stdabbr, dstAbbr := res.dstabbr, stdOff, dstOff, start := some sd, «end» := some ed, hasdst := true }

/-! ### `tzrange.transitions(year)`: `datetime(year, 1, 1) + delta`, in seconds since ordinal 0 -/

/-- the weekday step of `relativedelta.__add__`: days to jump from a day whose weekday is `cur`
    to the `n`-th weekday `wd` on/after (n > 0) or on/before (n < 0); `n = 0` counts as 1 -/
def weekdayJump (cur wd n : Int) : Int :=
  let nth := if n != 0 then n else 1
  if nth > 0 then (Py.iabs nth - 1) * 7 + (7 - cur + wd) % 7
  else -((Py.iabs nth - 1) * 7 + (cur - wd) % 7)

def inRange (t : Int) : Bool := decide (86400 ≤ t ∧ t < (Cal.maxOrdinal + 1) * 86400)

/-- steps 1–3 of `relativedelta.__add__` on `datetime(year, 1, 1)`: replace month/day (clipped),
    add leapdays and the duration; seconds since ordinal 0 -/
def baseInstant (year : Int) (d : Delta) : Py.R Int :=
  if year < 1 ∨ year > 9999 then .error .ValueError else
  let month := match d.month with | some m => if m != 0 then m else 1 | none => 1
  if month < 1 ∨ month > 12 then .error .ValueError else     -- calendar.monthrange → IllegalMonthError
  let dayArg := match d.day with | some x => if x != 0 then x else 1 | none => 1
  let day := min (Cal.daysInMonth year month) dayArg
  if day < 1 then .error .ValueError else                     -- other.replace(day=…) rejects it
  let days := if d.leapdays != 0 && month > 2 && Cal.isLeap year then d.leapdays else 0
  let t := (Cal.toOrdinal year month day + days) * 86400 + d.seconds
  if inRange t then .ok t else .error .OverflowError

/-- step 4: the weekday jump -/
def weekdayStep (t : Int) : Option (Int × Int) → Py.R Int
  | none => .ok t
  | some (wd, n) =>
    let t' := t + weekdayJump (Cal.weekdayOfOrd (t / 86400)) wd n * 86400
    if inRange t' then .ok t' else .error .OverflowError

/-- `datetime(year,1,1) + relativedelta(month, day, weekday, leapdays, seconds…)` as
    seconds since ordinal 0, mirroring `relativedelta.__add__` -/
def applyDelta (year : Int) (d : Delta) : Py.R Int :=
  match baseInstant year d with
  | .error e => .error e
  | .ok t => weekdayStep t d.weekday

/-- `(dston, dstoff)` on the standard-time side, seconds since ordinal 0 -/
def transitions (z : Zone) (year : Int) : Py.R (Option (Int × Int)) :=
  match z.hasdst, z.start, z.«end» with
  | true, some s, some e => do
    let a ← applyDelta year s
    let b ← applyDelta year e
    .ok (some (a, b))
  | _, _, _ => .ok none

end TzStr
