/-
  Model/ParserPy.lean — runtime support ("PPy") for the functions of parser/_parser.py that harness/translate_parser.py
  re-translates from /repo on every run (Generated/ParserOps.lean): the named primitives the translation maps Python
  operations to, over the data types of Model/Parser.lean.  No Mathlib.
-/
import DateutilVerif.Model.Parser

namespace PPy
open Py PM

/-- an integer Python computes where the model keeps a natural number (`len(self) - 1`): a negative value is the
    distinguished error NotImplemented (the obligations show it is never produced) -/
def natOfInt (i : Int) : R Nat := if i < 0 then .error .NotImplemented else .ok i.toNat

/-- arithmetic / indexing / ordering with an `Optional[int]` that is None: TypeError -/
def optNat (o : Option Nat) : R Nat := match o with | some n => .ok n | none => .error .TypeError

/-- a str method on an `Optional[str]` that is None: AttributeError -/
def optTok (o : Option Token) : R Token := match o with | some t => .ok t | none => .error .AttributeError

/-- a bool flag that is still None where a bool is needed -/
def optBool (o : Option Bool) : R Bool := match o with | some b => .ok b | none => .error .TypeError

/-- `len(res)` etc. on a result that is still None -/
def optRes (o : Option Res) : R Res := match o with | some r => .ok r | none => .error .TypeError

def truthyOptNat (o : Option Nat) : Bool := match o with | some n => n != 0 | none => false
def truthyOptInt (o : Option Int) : Bool := match o with | some n => n != 0 | none => false

/-- `value <= n` etc. for a Decimal and a Python int (the Decimals of the parser are non-negative) -/
def decLeInt (v : Dec) (n : Int) : Bool := if n < 0 then false else v.leNat n.toNat
def decLtInt (v : Dec) (n : Int) : Bool := if n < 0 then false else v.ltNat n.toNat
def decGeInt (v : Dec) (n : Int) : Bool := if n < 0 then true else v.geNat n.toNat
def decGtInt (v : Dec) (n : Int) : Bool := if n < 0 then true else v.gtNat n.toNat

/-- `string.ascii_uppercase` -/
def asciiUppercase : List Char := "ABCDEFGHIJKLMNOPQRSTUVWXYZ".toList

/-! ### the small dict `{'y' | 'm' | 'd': index}` of `_ymd`, in insertion order -/

/-- `{key: val for key, val in ((k, o), …) if val is not None}`: the entry one pair contributes -/
def optEntry (k : Char) (o : Option Nat) : List (Char × Nat) := match o with | some i => [(k, i)] | none => []

/-- `d[k] = v` -/
def dictSet (d : List (Char × Nat)) (k : Char) (v : Nat) : List (Char × Nat) :=
  if d.any (fun p => p.1 = k) then d.map (fun p => if p.1 = k then (k, v) else p) else d ++ [(k, v)]

/-- `d[k]` -/
def dictGet (d : List (Char × Nat)) (k : Char) : R Nat :=
  match d.find? (fun p => p.1 = k) with | some p => .ok p.2 | none => .error .KeyError

/-- `d.get(k)` -/
def dictFind (d : List (Char × Nat)) (k : Char) : Option Nat := (d.find? (fun p => p.1 = k)).map (·.2)

/-- `{key: f(key) for key in d}` (values computed in insertion order; the first exception wins) -/
def dictCompM (d : List (Char × Nat)) (f : Char → R Nat) : R (List (Char × Nat)) :=
  match d with
  | [] => .ok []
  | p :: ps => match f p.1 with
    | .error e => .error e
    | .ok v => match dictCompM ps f with
      | .error e => .error e
      | .ok r => .ok ((p.1, v) :: r)

/-- `a, b = seq` / `a, b, c = seq`: ValueError unless the length fits -/
def unpack2 (l : List Nat) : R (Nat × Nat) := match l with | [a, b] => .ok (a, b) | _ => .error .ValueError
def unpack3 (l : List Nat) : R (Nat × Nat × Nat) := match l with | [a, b, c] => .ok (a, b, c) | _ => .error .ValueError

/-- `tokens[k] = v` for `k ≥ 0` -/
def toksSet (l : List Token) (k : Nat) (v : Token) : R (List Token) :=
  if k < l.length then .ok (l.set k v) else .error .IndexError

/-- `tokens[-1] = v` -/
def toksSetLast (l : List Token) (v : Token) : R (List Token) :=
  match l.reverse with
  | [] => .error .IndexError
  | _ :: revInit => .ok (revInit.reverse ++ [v])

/-- `sorted(xs)` for a list of ints -/
def sortedNat (xs : List Nat) : List Nat := xs.mergeSort (· ≤ ·)

/-- `str(n)` for an int -/
def strOfInt (n : Int) : Token := (toString n).toList

/-! a str known to be `str(n)` for an int `n` is kept as `n`: `str(n).isdigit()` (no sign), `len(str(n))`; `int(str(n))` is `n` -/
def intStrIsDigit (n : Int) : Bool := decide (0 ≤ n)
def intStrLen (n : Int) : Nat := (toString n).length

/-- `tokens[i]` with Python's negative-index wrap-around -/
def toksAt (l : List Token) (i : Int) : R Token := Py.getIdx l i

/-! ### `Decimal(str)` -/

/-- what `Decimal(tok)` gives for a lexer token: a finite value, or one of the specials (`inf`, `infinity`, `nan`,
    `snan` in any letter case) -/
inductive DecimalV where
  | fin (d : Dec)
  | special
  deriving Repr, DecidableEq, Inhabited

/-- `Decimal(tok)`; anything else is `InvalidOperation` (ConversionSyntax) -/
def decimalCtor (cls : Char → CClass) (t : Token) : R DecimalV :=
  match numForm cls t with
  | some d => .ok (.fin d)
  | none =>
    let w := t.map Char.toLower
    if w == tk "inf" || w == tk "infinity" || w == tk "nan" || w == tk "snan" then .ok .special
    else .error .InvalidOperation

def DecimalV.isFinite : DecimalV → Bool
  | .fin _ => true
  | .special => false

/-- the Decimal behind a value for which `is_finite()` held (a special here is the distinguished error
    NotImplemented, which the obligation shows is never produced) -/
def decFinite : DecimalV → R Dec
  | .fin d => .ok d
  | .special => .error .NotImplemented

/-! ### str -/

/-- split at the first `c` -/
def splitFirst (c : Char) : List Char → List Char × Option (List Char)
  | [] => ([], none)
  | x :: xs => if x = c then ([], some xs) else
      let (a, b) := splitFirst c xs
      (x :: a, b)

/-- `a, b = s.split(c)`: ValueError unless there are exactly two pieces -/
def split2 (s : Token) (c : Char) : R (Token × Token) :=
  match splitFirst c s with
  | (a, some b) => if b.contains c then .error .ValueError else .ok (a, b)
  | (_, none) => .error .ValueError

/-- `s.find(c)` for a one-character `c`: the first position, or -1 -/
def strFind (s : Token) (c : Char) : Int := if s.contains c then (s.idxOf c : Nat) else -1

/-- `s.ljust(n, c)` -/
def ljust (s : Token) (n : Nat) (c : Char) : Token := s ++ List.replicate (n - s.length) c

/-- the dict `repl` of `_build_naive`: the keyword arguments handed to `default.replace` -/
structure Repl where
  year : Option Nat := none
  month : Option Nat := none
  day : Option Nat := none
  hour : Option Nat := none
  minute : Option Nat := none
  second : Option Nat := none
  microsecond : Option Nat := none
  deriving Repr, DecidableEq, Inhabited

/-! ### a datetime as far as `_assign_tzname` looks at it -/

/-- the zone's names for the wall time at fold 0 and at fold 1, and the fold the datetime carries -/
structure FoldDt where
  n0 : Option Token
  n1 : Option Token
  fold : Nat := 0
  deriving Repr, DecidableEq, Inhabited

/-- `dt.tzname()` -/
def FoldDt.tzname (d : FoldDt) : Option Token := if d.fold = 0 then d.n0 else d.n1
/-- `tz.enfold(dt, fold=k)` -/
def FoldDt.enfold (d : FoldDt) (k : Nat) : FoldDt := { d with fold := k }

/-! ### `parserinfo.__init__` -/

/-- the class attributes of a `parserinfo` (sub)class: word lists as groups (a plain word = a group of one) -/
structure InfoTables where
  JUMP : List (List String)
  WEEKDAYS : List (List String)
  MONTHS : List (List String)
  HMS : List (List String)
  AMPM : List (List String)
  UTCZONE : List (List String)
  PERTAIN : List (List String)
  TZOFFSET : List (Token × Int)
  deriving Repr, Inhabited

/-- what an instance sees before `__init__` has run: the class attributes `UTCZONE` (as written) and `TZOFFSET` -/
def infoOfClass (t : InfoTables) : Info :=
  { jump := [], weekdays := [], months := [], hms := [], ampm := [], utczoneKeys := [], pertain := [],
    UTCZONE := t.UTCZONE.flatten.map tk, tzoffsets := t.TZOFFSET, dayfirst := false, yearfirst := false, year := 0, century := 0 }

/-- the stock class -/
def stockTables : InfoTables :=
  { JUMP := Gen.PI_JUMP.map ([·]), WEEKDAYS := Gen.PI_WEEKDAYS, MONTHS := Gen.PI_MONTHS, HMS := Gen.PI_HMS, AMPM := Gen.PI_AMPM,
    UTCZONE := Gen.PI_UTCZONE.map ([·]), PERTAIN := Gen.PI_PERTAIN.map ([·]), TZOFFSET := [] }

/-! ### `_build_tzinfo`: the `tzinfos` argument and what it hands back -/

/-- the object `_build_tzinfo` returns -/
inductive TzObj where
  | data (d : TzData)                       -- the tzinfo instance (or None) the user's `tzinfos` gave, as it is
  | tzstr (s : Token)                       -- `tz.tzstr(s)`
  | fixed (name : Option Token) (n : Int)   -- `tz.tzoffset(name, n)`
  deriving Repr, DecidableEq, Inhabited

/-- `callable(tzinfos)` -/
def tziCallable : TzInfos → Bool
  | .callable _ _ => true
  | _ => false

/-- what a user value is when it arrives: the `raises` marker = the user's function raises ValueError -/
def tziArrive (d : TzData) : R TzData := if d = .raises then .error .ValueError else .ok d

/-- `tzinfos(tzname, tzoffset)` -/
def tziCall (tzi : TzInfos) (name : Option Token) (off : Option Int) : R TzData :=
  match tzi with
  | .callable entries dflt =>
    match lookupKey entries name with
    | some d => tziArrive d
    | none => match dflt with
      | .data d => tziArrive d
      | .echoOffset => match off with | some n => .ok (.int n) | none => .ok .noneVal
  | _ => .error .TypeError

/-- `tzinfos.get(tzname)` -/
def tziGet (tzi : TzInfos) (name : Option Token) : R TzData :=
  match tzi with
  | .mapping entries => tziArrive ((lookupKey entries name).getD .noneVal)
  | _ => .error .AttributeError

def isTzinfoObj : TzData → Bool | .obj _ => true | _ => false
def isText : TzData → Bool | .str _ => true | _ => false
def isInt : TzData → Bool | .int _ => true | _ => false

/-- `tz.tzstr(tzdata)` -/
def mkTzstr (d : TzData) : R TzObj :=
  match d with
  | .str s => (tzstrCtor s).map (fun _ => TzObj.tzstr s)
  | _ => .error .TypeError

/-- `tz.tzoffset(tzname, tzdata)` -/
def mkTzoffset (name : Option Token) (d : TzData) : R TzObj :=
  match d with
  | .int n => if offsetOk n then .ok (.fixed name n) else .error .OverflowError
  | _ => .error .TypeError

/-- the model's descriptor of `naive.replace(tzinfo=<that object>)` for the parsed name -/
def descrOf (name : Option Token) : TzObj → TzDescr
  | .data d => .viaTzinfos d name
  | .tzstr s => .viaTzinfos (.str s) name
  | .fixed nm n => .fixed nm n

/-! ### the datetime `parser.parse` returns, as far as the model speaks about it -/

/-- wall time + what its `tzinfo` is -/
structure ADt where
  dt : DT
  tz : FinalTz
  deriving Repr, DecidableEq, Inhabited

/-- `self._build_tzaware(ret, res, tzinfos)` — NOT translated: the hand model's cascade `PM.buildTzaware` (zone rows put the
    zone; the nothing-found row keeps the datetime; the unknown-name row warns and strips the tzinfo) -/
def buildTzawareStandIn (tznames : List Token) (tzi : TzInfos) (ret : ADt) (res : Res) : R ADt :=
  match buildTzaware tznames tzi res with
  | .ok .naive => .ok ret
  | .ok (.naiveWarn n) => .ok { ret with tz := .noneWarn n }
  | .ok z => .ok { ret with tz := .zone z }
  | .error e => .error e

end PPy
