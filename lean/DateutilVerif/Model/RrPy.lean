/-
  Model/RrPy.lean — run-time support for code translated by harness/translate_rr.py ("RrPy": the fragment of
  Python in which `rrule.__construct_byset`, `rrule.__mod_distance` and the methods of `_iterinfo` are written)
  into Generated/RRuleKernels.lean.

  Every definition here is a NAMED PRIMITIVE of the translator, trusted with the documented Python meaning and
  exercised on every run by the `rrgen.*` differential validation (harness/rrgenlib.py).  The types of the rule
  (`RRule.Rule`), the tables (`Gen.M366MASK` …) and `datetime.time` / sorting (`RRule.mkTime`, `RRule.sortBy`)
  are the ones of the hand model, so that the obligations `Gen.f = RRule.f` (Properties/RRuleGen.lean) type-check
  without conversion.
  No Mathlib (linked into the driver).
-/
import DateutilVerif.Model.RRule

namespace RrPy
open Py (PyErr R)

/-- the slots of `_iterinfo` (all `None` after `__init__`; `none` / `0` / `[]` here: `rebuild` writes every
    year-level slot before reading it on its first call, because `year != None`) -/
structure II where
  lastyear : Option Int := none
  lastmonth : Option Int := none
  yearlen : Int := 0
  nextyearlen : Int := 0
  yearordinal : Int := 0
  yearweekday : Int := 0
  mmask : List Int := []
  mdaymask : List Int := []
  nmdaymask : List Int := []
  wdaymask : List Int := []
  mrange : List Int := []
  wnomask : Option (List Int) := none
  nwdaymask : Option (List Int) := none
  eastermask : Option (List Int) := none
  deriving Repr, DecidableEq, Inhabited

/-- the part of the slots the hand model keeps -/
def II.toInfo (s : II) : RRule.Info :=
  { yearlen := s.yearlen, nextyearlen := s.nextyearlen, yearordinal := s.yearordinal, yearweekday := s.yearweekday,
    mmask := s.mmask, mdaymask := s.mdaymask, nmdaymask := s.nmdaymask, wdaymask := s.wdaymask, mrange := s.mrange,
    wnomask := s.wnomask, nwdaymask := s.nwdaymask, eastermask := s.eastermask }

/-- the slots after a successful `rebuild(year, month)` whose result is `i` in the hand model -/
def II.ofInfo (i : RRule.Info) (ly lm : Option Int) : II :=
  { lastyear := ly, lastmonth := lm,
    yearlen := i.yearlen, nextyearlen := i.nextyearlen, yearordinal := i.yearordinal, yearweekday := i.yearweekday,
    mmask := i.mmask, mdaymask := i.mdaymask, nmdaymask := i.nmdaymask, wdaymask := i.wdaymask, mrange := i.mrange,
    wnomask := i.wnomask, nwdaymask := i.nwdaymask, eastermask := i.eastermask }

/-- `int(b)` / a bool used in arithmetic -/
def b2i (b : Bool) : Int := if b then 1 else 0

/-- `L[i] = v` with Python's negative-index wrap-around and `IndexError` -/
def setItem {α} (l : List α) (i : Int) (v : α) : R (List α) :=
  let n : Int := l.length
  let j := if i < 0 then i + n else i
  if j < 0 ∨ j ≥ n then .error .IndexError else .ok (l.set j.toNat v)

/-- `L[i] = v` on a slot that may hold `None` (`TypeError`: 'NoneType' object does not support item assignment) -/
def setItemO {α} (l : Option (List α)) (i : Int) (v : α) : R (Option (List α)) :=
  match l with
  | none => .error .TypeError
  | some l =>
    match setItem l i v with
    | .ok l' => .ok (some l')
    | .error e => .error e

/-- `L[i]` on a slot that may hold `None` -/
def getItemO {α} (l : Option (List α)) (i : Int) : R α :=
  match l with
  | none => .error .TypeError
  | some l => Py.getIdx l i

/-- `for x in L` on a slot that may hold `None` (`TypeError`: 'NoneType' object is not iterable) -/
def iterO {α} (l : Option (List α)) : R (List α) :=
  match l with
  | none => .error .TypeError
  | some l => .ok l

/-- `x in L` on a slot that may hold `None` (`TypeError`: argument of type 'NoneType' is not iterable) -/
def inO (x : Int) (l : Option (List Int)) : R Bool :=
  match l with
  | none => .error .TypeError
  | some l => .ok (l.contains x)

/-- `a, b = L` (`ValueError`: not enough / too many values to unpack) -/
def unpack2 {α} (l : List α) : R (α × α) :=
  match l with
  | [a, b] => .ok (a, b)
  | _ => .error .ValueError

/-- `divmod(a, b)` (`ZeroDivisionError` for `b = 0`) -/
def divmodR (a b : Int) : R (Int × Int) :=
  if b = 0 then .error .ZeroDivisionError else .ok (Py.divmod a b)

/-- `math.gcd(a, b)` -/
def gcd (a b : Int) : Int := ((Int.gcd a b : Nat) : Int)

/-- `s.add(x)` on a set kept as the list of its members in insertion order -/
def setAdd {α} [BEq α] (s : List α) (x : α) : List α := if s.contains x then s else s ++ [x]

/-- `datetime.date(y, m, d)`: the validated triple (`ValueError` outside the calendar) -/
def mkDate (y m d : Int) : R (Int × Int × Int) :=
  if Cal.validDate y m d then .ok (y, m, d) else .error .ValueError

/-- `d.toordinal()` -/
def toordinal (d : Int × Int × Int) : Int := Cal.toOrdinal d.1 d.2.1 d.2.2

/-- `d.weekday()` -/
def weekday (d : Int × Int × Int) : Int := Cal.weekdayOfOrd (Cal.toOrdinal d.1 d.2.1 d.2.2)

/-- `easter.easter(year)`: the translated kernel (`Gen.easter`, method 3) followed by `datetime.date(...)` -/
def easterDate (year : Int) : R (Int × Int × Int) :=
  match Gen.easter year 3 with
  | .error e => .error e
  | .ok e => mkDate e.1 e.2.1 e.2.2

/-- the value of an optional that is known not to be `None` at this point of the code (the translator emits it only inside
    the else-branch of `x is None`, the body of `x is not None`, or after `x` was assigned a value) -/
def the {α} [Inhabited α] (o : Option α) : α := o.getD default

/-- `[v] * n` -/
def repeatL {α} (v : α) (n : Int) : List α := List.replicate n.toNat v

/-- how a translated loop body ends: `return r` inside the loop, or falling through to the next statement with
    the loop-carried variables `s` -/
inductive Flow (ρ σ : Type) where
  | ret (r : ρ)
  | next (s : σ)

end RrPy
