/-
  Model/DtPy.lean — run-time support for code translated from dateutil's time-zone lookup functions by
  harness/translate_dt.py ("DtPy": the IntPy fragment plus naive datetimes, timedeltas, timestamps, transition
  tables and `_ttinfo` objects).

  * a `datetime` is its naive reading in MICROSECONDS since the epoch, its `fold`, and whether `self` is attached
    as its tzinfo (`Dt`); comparisons and differences ignore fold and tzinfo, `datetime + timedelta` resets fold
    (CPython) — `OverflowError` outside 0001..9999 is NOT modelled (as in Model/Zones.lean);
  * a `timedelta` is a number of microseconds (`Int`);
  * `timedelta.total_seconds()` is the exact rational number of seconds, represented in microseconds (`Ts`); an
    `int` compared with it is scaled by 10^6 (float rounding of `total_seconds()` is not modelled);
  * `bisect.bisect_right` is CPython's loop.

  Every definition is a NAMED PRIMITIVE of the translator, trusted with the documented Python meaning and
  exercised on every run by the `tzgen.*` differential validation.  No Mathlib.
-/
import DateutilVerif.Model.Zones

namespace DtPy
open Py

/-- a `datetime.datetime` as the zone code sees it -/
structure Dt where
  us : Int
  fold : Bool := false
  attached : Bool := true
  deriving DecidableEq, Repr, Inhabited

/-- exact seconds in microsecond units (`timedelta.total_seconds()`) -/
abbrev Ts := Int

def M : Int := 1000000

/-- `dt.replace(tzinfo=None)` -/
def naive (d : Dt) : Dt := { d with attached := false }
/-- `dt.replace(tzinfo=self)` -/
def attach (d : Dt) : Dt := { d with attached := true }
/-- `datetime + timedelta` (fold is reset, tzinfo kept) -/
def addTd (d : Dt) (td : Int) : Dt := { d with us := d.us + td, fold := false }
/-- `datetime - datetime` -/
def subDt (a b : Dt) : Int := a.us - b.us
/-- `enfold(dt, fold=f)` -/
def enfold (d : Dt) (f : Int) : Dt := { d with fold := decide (f ≠ 0) }
/-- `getattr(dt, 'fold', 0)` -/
def foldOf (d : Dt) : Int := if d.fold then 1 else 0
/-- `dt.year` -/
def year (d : Dt) : Int := TZ.yearOf (d.us / M)
/-- the module constant `EPOCH` -/
def EPOCH : Dt := { us := 0, fold := false, attached := false }
/-- `timedelta(seconds=n)` for an int -/
def tdSeconds (n : Int) : Int := n * M
/-- `td.total_seconds()` -/
def totalSeconds (td : Int) : Ts := td
/-- an `int` as a timestamp -/
def tsOfInt (n : Int) : Ts := n * M
/-- `int(x)` for a float timestamp: truncation toward zero -/
def intOfTs (t : Ts) : Int := Int.tdiv t M
/-- `int(b)` -/
def b2i (b : Bool) : Int := if b then 1 else 0

/-- `bisect.bisect_right(l, x)` for a list of ints and a timestamp: CPython's loop -/
def bisectGo (l : List Int) (x : Ts) : Nat → Nat → Nat → Nat
  | 0, lo, _ => lo
  | fuel + 1, lo, hi =>
      if lo < hi then
        if x < tsOfInt (l.getD ((lo + hi) / 2) 0) then bisectGo l x fuel lo ((lo + hi) / 2)
        else bisectGo l x fuel ((lo + hi) / 2 + 1) hi
      else lo
def bisectRight (l : List Int) (x : Ts) : Int := (bisectGo l x l.length 0 l.length : Nat)

/-- `l[i]` with Python's negative wrap-around and `IndexError` -/
def lgetR {α} (l : List α) (i : Int) : R α :=
  let j := if i < 0 then i + l.length else i
  if j < 0 then .error .IndexError else
  match l[j.toNat]? with
  | some x => .ok x
  | none => .error .IndexError

/-- attribute access on an object that may be `None` (`AttributeError`) -/
def attr {α} (o : Option α) : R α :=
  match o with
  | some x => .ok x
  | none => .error .AttributeError

/-- `a, b = x` where `x` may be `None` (`TypeError`) -/
def unpack2 {α β} (o : Option (α × β)) : R (α × β) :=
  match o with
  | some p => .ok p
  | none => .error .TypeError

/-- `self.transitions(year)` of a range zone: the model gives naive standard-time seconds -/
def transitions (z : TZ.RangeZone) (y : Int) : Option (Dt × Dt) :=
  (z.transitions y).map fun p => ({ us := p.1 * M, fold := false, attached := false },
                                  { us := p.2 * M, fold := false, attached := false })

/-- the fold-indexed pair `self._trans_list_wall` -/
def wallList (z : TZ.TzFile) (i : Int) : R (List Int) :=
  if i = 0 ∨ i = -2 then .ok z.wall0 else if i = 1 ∨ i = -1 then .ok z.wall1 else .error .IndexError

/-- the wall reading the zone model works on: whole seconds and fold -/
def toWall (d : Dt) : TZ.Wall := { wall := d.us / M, fold := d.fold }

/-- `self.is_ambiguous(dt)` called from `_tzinfo`: dynamic dispatch to a subclass override when there is one -/
def dispatchAmbiguous (z : TZ.GenericZone) (base : Dt → R Bool) (d : Dt) : R Bool :=
  match z.ambiguousOverride with
  | some ov => .ok (ov (toWall d).wall)
  | none => base d

end DtPy
