/-
  Model/FactoryIR.lean — a small statement language for the bodies of the zone-factory methods,
  its flattening into instructions with program counters, and an interpreter `stepIR` over the
  SAME state as the hand-written state machine of Model/Factory.lean.

  `harness/translate_factory.py` reads the ASTs of
      _TzSingleton.__call__, _TzFactory.instance, _TzOffsetFactory.__call__, _TzStrFactory.__call__   (tz/_factories.py)
      GettzFunc.__call__, GettzFunc.set_cache_size, GettzFunc.cache_clear                               (tz/tz.py)
  on every run and emits them as `Stmt` values (Generated/FactoryPrograms.lean); a statement outside
  the fragment below is `Untranslatable` and breaks the tie like for the other translators.
  `C18.program_sim` (Proofs/FactorySim.lean) then shows that interpreting the GENERATED programs is,
  at every pc and on every state, the hand-written `tstep` about which all C18 theorems are stated.

  What stays hand-modelled here (the meaning of the primitives, trusted as before):
    * `WeakValueDictionary.get` = one read; `.setdefault(key, new)` = construct `new`, then a read, then a
      write if the read found nothing; `__setitem__` = one write; replacing the dictionary = all entries gone;
    * `OrderedDict`: `od[k] = od.pop(k, d)` (`touch`), `popitem(last=False)` (drop the oldest), `clear`, `len`;
    * `with lock:` = acquire … release on every exit, including the exceptional one;
    * constructing an object = allocate a new id, then finish `__init__` (two steps), or raise;
    * ghost bookkeeping: the reference is handed to the caller at the `with` exit that precedes the
      `return` (`releasePublish`), epochs, the event log;
    * `gettz.nocache(name)` is entered by its result class (`res`), see Model/GettzResolve.lean;
    * garbage collection (`collect`) and reference drops are steps of the environment, not of a program.

  No Mathlib import.
-/
import DateutilVerif.Model.Factory

namespace Fact.IR

inductive Cmp | gt | ge | lt | le
  deriving DecidableEq, Repr

def Cmp.holds : Cmp → Nat → Nat → Bool
  | .gt, a, b => decide (a > b)
  | .ge, a, b => decide (a ≥ b)
  | .lt, a, b => decide (a < b)
  | .le, a, b => decide (a ≤ b)

/-- which method of the weak dictionary an assignment to `instance` calls -/
inductive WeakMeth | get | setdefault
  deriving DecidableEq, Repr

/-- its second argument: `None`, or a freshly constructed object `cls.instance(...)` -/
inductive Dflt | none | construct
  deriving DecidableEq, Repr

/-- what `len(<strong cache>)` is compared with: the size attribute, or the parameter `size` -/
inductive Bound | sizeField | sizeArg
  deriving DecidableEq, Repr

inductive Stmt
  | computeKey                                   -- `key = (…)`: local, the translator checks its exact form
  | withLock (body : List Stmt)                  -- `with <lock>:`
  | assignWeak (m : WeakMeth) (d : Dflt)         -- `instance = <weak>.<m>(key, <d>)`
  | ifInstNone (body : List Stmt)                -- `if instance is None:`
  | assignNocache                                -- `rv = self.nocache(name=name)`
  | ifCacheable (thn els : List Stmt)            -- `if not (name is None or isinstance(rv, tzlocal_classes) or rv is None):`
  | storeWeak                                    -- `<weak>[name] = rv`
  | strongTouch                                  -- `<strong>[key] = <strong>.pop(key, instance)`
  | ifLen (c : Cmp) (b : Bound) (body : List Stmt)      -- `if len(<strong>) <c> <b>:`
  | whileLen (c : Cmp) (b : Bound) (body : List Stmt)   -- `while len(<strong>) <c> <b>:`
  | popitem (last : Bool)                        -- `<strong>.popitem(last=…)`
  | setSizeField                                 -- `self.__strong_cache_size = size`
  | resetWeak                                    -- `self.__instances = weakref.WeakValueDictionary()`
  | clearStrong                                  -- `<strong>.clear()`
  | retInst                                      -- `return instance` / `return rv`
  | ifSlotNone (body : List Stmt)                -- `if cls.__instance is None:`
  | slotAssignConstruct                          -- `cls.__instance = super(_TzSingleton, cls).__call__()`
  | retSlot                                      -- `return cls.__instance`
  | retConstruct                                 -- `return type.__call__(cls, *args, **kwargs)`
  deriving Repr

abbrev Prog := List Stmt

/-- one instruction of the flattened program -/
inductive Op
  | acquire | weakGet | brInstNone
  | alloc | init | sdRead | sdWrite | getRead
  | nocacheAlloc | nocacheInit | brCacheable | storeWeak
  | touch | brLen (c : Cmp) (b : Bound) | pop (last : Bool)
  | releasePublish | retPublished | release | retPlain | releaseEnd | releaseExc
  | setSize | resetWeak | clearStrong
  | freshAlloc | freshInit | freshRet
  | brSlotNone | slotAlloc | slotInit | slotStore | retSlot
  | skip
  deriving DecidableEq, Repr

/-- instruction + where control goes: `next` (fall through / condition true / no exception), `alt`
(condition false / the constructor raised) -/
structure Node where
  op : Op
  next : Nat
  alt : Nat := 0
  deriving DecidableEq, Repr

mutual
/-- number of instructions a statement flattens to -/
def sizeS : Stmt → Nat
  | .computeKey => 0
  | .withLock body => sizeL body + 2
  | .assignWeak .get .none => 1
  | .assignWeak .get .construct => 3
  | .assignWeak .setdefault .none => 2
  | .assignWeak .setdefault .construct => 4
  | .ifInstNone body => sizeL body + 1
  | .assignNocache => 2
  | .ifCacheable thn els => sizeL thn + sizeL els + 1
  | .storeWeak => 1
  | .strongTouch => 1
  | .ifLen _ _ body => sizeL body + 1
  | .whileLen _ _ body => sizeL body + 1
  | .popitem _ => 1
  | .setSizeField => 1
  | .resetWeak => 1
  | .clearStrong => 1
  | .retInst => 2
  | .ifSlotNone body => sizeL body + 1
  | .slotAssignConstruct => 3
  | .retSlot => 1
  | .retConstruct => 3
def sizeL : List Stmt → Nat
  | [] => 0
  | s :: rest => sizeS s + sizeL rest
end

/-- compile-time context: are we inside `with <lock>:`; index of the exceptional `with` exit;
does the method return a value after the lock (`releasePublish`) or just end (`releaseEnd`) -/
structure Ctx where
  inLock : Bool
  exc : Nat
  isCall : Bool

mutual
/-- flatten statement `s` placed at index `i`, continuing at index `k` -/
def compS (c : Ctx) : Stmt → Nat → Nat → List Node
  | .computeKey, _, _ => []
  | .withLock body, i, k =>
      ⟨.acquire, i + 1, 0⟩ :: compL { c with inLock := true } body (i + 1) (i + 1 + sizeL body)
        ++ [⟨if c.isCall then .releasePublish else .releaseEnd, k, 0⟩]
  | .assignWeak .get .none, _, k => [⟨.weakGet, k, 0⟩]
  | .assignWeak .get .construct, i, k => [⟨.alloc, i + 1, c.exc⟩, ⟨.init, i + 2, 0⟩, ⟨.getRead, k, 0⟩]
  | .assignWeak .setdefault .none, i, k => [⟨.sdRead, i + 1, 0⟩, ⟨.skip, k, 0⟩]
  | .assignWeak .setdefault .construct, i, k =>
      [⟨.alloc, i + 1, c.exc⟩, ⟨.init, i + 2, 0⟩, ⟨.sdRead, i + 3, 0⟩, ⟨.sdWrite, k, 0⟩]
  | .ifInstNone body, i, k => ⟨.brInstNone, i + 1, k⟩ :: compL c body (i + 1) k
  | .assignNocache, i, k => [⟨.nocacheAlloc, i + 1, c.exc⟩, ⟨.nocacheInit, k, 0⟩]
  | .ifCacheable thn els, i, k =>
      ⟨.brCacheable, i + 1, i + 1 + sizeL thn⟩ :: compL c thn (i + 1) k ++ compL c els (i + 1 + sizeL thn) k
  | .storeWeak, _, k => [⟨.storeWeak, k, 0⟩]
  | .strongTouch, _, k => [⟨.touch, k, 0⟩]
  | .ifLen cm b body, i, k => ⟨.brLen cm b, i + 1, k⟩ :: compL c body (i + 1) k
  | .whileLen cm b body, i, k => ⟨.brLen cm b, i + 1, k⟩ :: compL c body (i + 1) i
  | .popitem last, _, k => [⟨.pop last, k, 0⟩]
  | .setSizeField, _, k => [⟨.setSize, k, 0⟩]
  | .resetWeak, _, k => [⟨.resetWeak, k, 0⟩]
  | .clearStrong, _, k => [⟨.clearStrong, k, 0⟩]
  | .retInst, i, _ =>
      if c.inLock then [⟨.release, i + 1, 0⟩, ⟨.retPlain, 0, 0⟩]       -- `return` inside `with`: exit, then return
      else [⟨.retPublished, 0, 0⟩, ⟨.skip, 0, 0⟩]
  | .ifSlotNone body, i, k => ⟨.brSlotNone, i + 1, k⟩ :: compL c body (i + 1) k
  | .slotAssignConstruct, i, k => [⟨.slotAlloc, i + 1, 0⟩, ⟨.slotInit, i + 2, 0⟩, ⟨.slotStore, k, 0⟩]
  | .retSlot, _, _ => [⟨.retSlot, 0, 0⟩]
  | .retConstruct, i, _ => [⟨.freshAlloc, i + 1, i + 2⟩, ⟨.freshInit, i + 2, 0⟩, ⟨.freshRet, 0, 0⟩]
def compL (c : Ctx) : List Stmt → Nat → Nat → List Node
  | [], _, _ => []
  | [s], i, k => compS c s i k
  | s :: rest, i, k => compS c s i (i + sizeS s) ++ compL c rest (i + sizeS s) k
end

/-- the flattened method: its statements, then the exceptional `with` exit -/
def compile (isCall : Bool) (p : Prog) : List Node :=
  compL { inLock := false, exc := sizeL p, isCall := isCall } p 0 (sizeL p) ++ [⟨.releaseExc, 0, 0⟩]

/-- the methods the state machine runs -/
inductive Meth | lruCall | gettzCall | setSize | clear | single | fresh
  deriving DecidableEq, Repr

/-- the translated sources of one factory kind (tzoffset or tzstr for `lruCall`) -/
structure Programs where
  lruCall : Prog
  gettzCall : Prog
  setSize : Prog
  clear : Prog
  single : Prog
  fresh : Prog

def code (P : Programs) : Meth → List Node
  | .lruCall => compile true P.lruCall
  | .gettzCall => compile true P.gettzCall
  | .setSize => compile false P.setSize
  | .clear => compile false P.clear
  | .single => compile true P.single
  | .fresh => compile true P.fresh

/-- layout: the pc of the hand-written machine that instruction `i` of a method corresponds to -/
def enc : Meth → Nat → Pc
  | .lruCall, i => [Pc.lAcq, .lGet, .lTest, .lAlloc, .lInit, .lSdRead, .lSdWrite, .xTouch, .xLen, .xEvict, .xRel, .xRet,
                    .idle, .xRelX].getD i .idle
  | .gettzCall, i => [Pc.gAcq, .gGet, .gTest, .gAlloc, .gInit, .gCheck, .gStore, .gRelE, .gRetE, .xTouch, .xLen, .xEvict,
                      .xRel, .xRet, .idle, .xRelX].getD i .idle
  | .setSize, i => [Pc.sAcq, .sSet, .sLoop, .sPop, .sRel].getD i .idle
  | .clear, i => [Pc.cAcq, .cWeak, .cStrong, .cRel].getD i .idle
  | .single, i => [Pc.uTest, .uAlloc, .uInit, .uStore, .uRet].getD i .idle
  | .fresh, i => [Pc.fAlloc, .fInit, .fRet].getD i .idle

/-- … and back (the shared tail `xTouch …` belongs to the call method of the factory kind) -/
def dec (kd : Kind) : Pc → Option (Meth × Nat)
  | .idle => none
  | .lAcq => some (.lruCall, 0) | .lGet => some (.lruCall, 1) | .lTest => some (.lruCall, 2)
  | .lAlloc => some (.lruCall, 3) | .lInit => some (.lruCall, 4) | .lSdRead => some (.lruCall, 5)
  | .lSdWrite => some (.lruCall, 6)
  | .xTouch => some (if kd = .gettz then (.gettzCall, 9) else (.lruCall, 7))
  | .xLen => some (if kd = .gettz then (.gettzCall, 10) else (.lruCall, 8))
  | .xEvict => some (if kd = .gettz then (.gettzCall, 11) else (.lruCall, 9))
  | .xRel => some (if kd = .gettz then (.gettzCall, 12) else (.lruCall, 10))
  | .xRet => some (if kd = .gettz then (.gettzCall, 13) else (.lruCall, 11))
  | .xRelX => some (if kd = .gettz then (.gettzCall, 15) else (.lruCall, 13))
  | .gAcq => some (.gettzCall, 0) | .gGet => some (.gettzCall, 1) | .gTest => some (.gettzCall, 2)
  | .gAlloc => some (.gettzCall, 3) | .gInit => some (.gettzCall, 4) | .gCheck => some (.gettzCall, 5)
  | .gStore => some (.gettzCall, 6) | .gRelE => some (.gettzCall, 7) | .gRetE => some (.gettzCall, 8)
  | .sAcq => some (.setSize, 0) | .sSet => some (.setSize, 1) | .sLoop => some (.setSize, 2)
  | .sPop => some (.setSize, 3) | .sRel => some (.setSize, 4)
  | .cAcq => some (.clear, 0) | .cWeak => some (.clear, 1) | .cStrong => some (.clear, 2) | .cRel => some (.clear, 3)
  | .fAlloc => some (.fresh, 0) | .fInit => some (.fresh, 1) | .fRet => some (.fresh, 2)
  | .uTest => some (.single, 0) | .uAlloc => some (.single, 1) | .uInit => some (.single, 2)
  | .uStore => some (.single, 3) | .uRet => some (.single, 4)

def Bound.val (b : Bound) (g : Glob) (th : Thread) : Nat :=
  match b with
  | .sizeField => g.cap
  | .sizeArg => th.arg

/-- the meaning of one instruction (`e` = the layout of the method it belongs to) -/
def exec (e : Nat → Pc) (n : Node) (kd : Kind) (res : Key → Res) (t : Tid) (g : Glob) (th : Thread) :
    Option (Glob × Thread) :=
  match n.op with
  | .acquire => if g.lock = none then some ({ g with lock := some t }, { th with pc := e n.next }) else none
  | .weakGet => some (g, { th with inst := g.weak th.key, pc := e n.next })
  | .brInstNone => some (g, { th with pc := if th.inst.isNone then e n.next else e n.alt })
  | .alloc =>
    if res th.key = .raises then some (g, { th with pc := e n.alt })
    else some ({ g with next := g.next + 1 }, { th with tmp := some g.next, pc := e n.next })
  | .init =>
    match th.tmp with
    | some i => some ({ g with inited := i :: g.inited }, { th with pc := e n.next })
    | none => none
  | .sdRead => some (g, { th with seen := g.weak th.key, pc := e n.next })
  | .sdWrite =>
    match th.tmp with
    | some i =>
      match th.seen with
      | some j => some (g, { th with inst := some j, tmp := none, seen := none, pc := e n.next })
      | none => some ({ g with weak := upd g.weak th.key (some i) },
                      { th with inst := some i, tmp := none, seen := none, pc := e n.next })
    | none => none
  | .getRead =>           -- `<weak>.get(key, <new>)`: the entry if present, else the new object — NOT stored
    match th.tmp with
    | some i => some (g, { th with inst := (g.weak th.key).orElse (fun _ => some i), tmp := none, pc := e n.next })
    | none => none
  | .nocacheAlloc =>
    match res th.key with
    | .none => some (g, { th with inst := none, pc := e (n.next + 1) })
    | .raises => some (g, { th with pc := e n.alt })
    | .shared sl =>
      match g.shared.lookup sl with
      | some i => some (g, { th with inst := some i, pc := e (n.next + 1) })
      | none => some ({ g with next := g.next + 1 }, { th with tmp := some g.next, pc := e n.next })
    | _ => some ({ g with next := g.next + 1 }, { th with tmp := some g.next, pc := e n.next })
  | .nocacheInit =>
    match th.tmp with
    | some i =>
      some ({ g with inited := i :: g.inited,
                     shared := match (res th.key).slot? with | some sl => (sl, i) :: g.shared | none => g.shared },
            { th with inst := some i, tmp := none, pc := e n.next })
    | none => none
  | .brCacheable =>
    some (g, { th with pc := if res th.key = .zone ∨ (res th.key).slot?.isSome then e n.next else e n.alt })
  | .storeWeak =>
    match th.inst with
    | some i => some ({ g with weak := upd g.weak th.key (some i) }, { th with pc := e n.next })
    | none => none
  | .touch =>
    match th.inst with
    | some i => some ({ g with strong := touch g.strong th.key i }, { th with pc := e n.next })
    | none => none
  | .brLen c b => some (g, { th with pc := if c.holds g.strong.length (b.val g th) then e n.next else e n.alt })
  | .pop last =>
    if last then (match g.strong.reverse with
                  | [] => none
                  | _ :: rest => some ({ g with strong := rest.reverse }, { th with pc := e n.next }))
    else (match g.strong with
          | [] => none
          | _ :: rest => some ({ g with strong := rest }, { th with pc := e n.next }))
  | .releasePublish =>
    match th.inst with
    | some i =>
      some ({ g with lock := none,
                     held := g.held ++ [{ key := th.key, id := i, ep := g.epoch, owner := t, seq := th.nret }] },
            { th with pc := e n.next, nret := th.nret + 1 })
    | none => none
  | .retPublished =>
    some ({ g with log := g.log ++ [{ tid := t, key := th.key, val := th.inst, cached := true }] },
          { th with pc := .idle, inst := none })
  | .release => some ({ g with lock := none }, { th with pc := e n.next })
  | .retPlain =>
    some ({ g with log := g.log ++ [{ tid := t, key := th.key, val := th.inst, cached := false }] },
          { th with pc := .idle, inst := none })
  | .releaseEnd => some ({ g with lock := none }, { th with pc := .idle })
  | .releaseExc =>
    some ({ g with lock := none,
                   log := g.log ++ [{ tid := t, key := th.key, val := none, cached := false, exc := true }] },
          { th with pc := .idle, inst := none, tmp := none, seen := none })
  | .setSize => some ({ g with cap := th.arg }, { th with pc := e n.next })
  | .resetWeak => some ({ g with weak := fun _ => none, epoch := g.epoch + 1 }, { th with pc := e n.next })
  | .clearStrong => some ({ g with strong := [] }, { th with pc := e n.next })
  | .freshAlloc =>
    if res th.key = .raises then
      some ({ g with log := g.log ++ [{ tid := t, key := th.key, val := none, cached := false, exc := true }] },
            { th with pc := .idle, tmp := none })
    else if kd = .gettz ∧ res th.key = .none then some (g, { th with tmp := none, pc := e n.alt })
    else
      match (if kd = .gettz then ((res th.key).slot?.bind fun sl => g.shared.lookup sl) else none) with
      | some i => some (g, { th with tmp := some i, pc := e n.alt })
      | none => some ({ g with next := g.next + 1 }, { th with tmp := some g.next, pc := e n.next })
  | .freshInit =>
    match th.tmp with
    | some i =>
      some ({ g with inited := i :: g.inited,
                     shared := match (if kd = .gettz then (res th.key).slot? else none) with
                               | some sl => (sl, i) :: g.shared | none => g.shared },
            { th with pc := e n.next })
    | none => none
  | .freshRet =>
    some ({ g with log := g.log ++ [{ tid := t, key := th.key, val := th.tmp, cached := false }] },
          { th with pc := .idle, tmp := none })
  | .brSlotNone => some (g, { th with pc := if g.single.isNone then e n.next else e n.alt })
  | .slotAlloc => some ({ g with next := g.next + 1 }, { th with tmp := some g.next, pc := e n.next })
  | .slotInit =>
    match th.tmp with
    | some i => some ({ g with inited := i :: g.inited }, { th with pc := e n.next })
    | none => none
  | .slotStore =>
    match th.tmp with
    | some i => some ({ g with single := some i }, { th with tmp := none, pc := e n.next })
    | none => none
  | .retSlot =>
    match g.single with
    | some i =>
      some ({ g with held := g.held ++ [{ key := th.key, id := i, ep := g.epoch, owner := t, seq := th.nret }],
                     log := g.log ++ [{ tid := t, key := th.key, val := some i, cached := true }] },
            { th with pc := .idle, nret := th.nret + 1 })
    | none => none
  | .skip => none

/-- one statement of thread `t`, read off the translated programs -/
def stepIR (P : Programs) (kd : Kind) (res : Key → Res) (t : Tid) (g : Glob) (th : Thread) : Option (Glob × Thread) :=
  match th.pc with
  | .idle =>
    -- which method a script operation calls (the harness's side: `cls(…)`, `.instance`, `set_cache_size`, `cache_clear`)
    match th.todo with
    | [] => none
    | .call k :: rest =>
        some (g, { th with key := k, todo := rest, inst := none, tmp := none,
                           pc := match kd with
                                 | .lru => enc .lruCall 0 | .gettz => enc .gettzCall 0 | .single => enc .single 0 })
    | .fresh k :: rest =>
        some (g, { th with key := k, todo := rest, inst := none, tmp := none, pc := enc .fresh 0 })
    | .setSize n :: rest =>
        if kd = .gettz then some (g, { th with arg := n, todo := rest, pc := enc .setSize 0 })
        else some (g, { th with todo := rest })
    | .clear :: rest =>
        if kd = .gettz then some (g, { th with todo := rest, pc := enc .clear 0 })
        else some (g, { th with todo := rest })
  | pc =>
    match dec kd pc with
    | none => none
    | some (m, i) =>
      match (code P m)[i]? with
      | none => none
      | some n => exec (enc m) n kd res t g th


/-- the machine whose thread statements are read off the translated programs -/
def stepState (P : Programs) (kd : Kind) (res : Key → Res) (s : State) : Label → Option State
  | .thr t =>
    match s.ths[t]? with
    | none => none
    | some th =>
      match stepIR P kd res t s.g th with
      | none => none
      | some (g', th') => some { g := g', ths := s.ths.set t th' }
  | l => step kd res s l


/-- reachability of the machine that runs the translated programs -/
inductive ReachableIR (P : Programs) (kd : Kind) (res : Key → Res) (s0 : State) : State → Prop
  | init : ReachableIR P kd res s0 s0
  | step {s s' : State} {l : Label} : ReachableIR P kd res s0 s → stepState P kd res s l = some s' →
      ReachableIR P kd res s0 s'

end Fact.IR
