/-
  Model/ICal.lean — `tz.tzical`: the VTIMEZONE line parser (`_parse_rfc`, `_parse_offset`,
  `get`), component selection (`_tzicalvtz._find_comp/_find_compdt` with its ten-entry cache)
  and the generic `_tzinfo.fromutc/_fold_status/is_ambiguous` machinery on top of it.

  * Text is a `List Char` restricted to ASCII in the correspondence (Python's `splitlines`,
    `rstrip`, `strip`, `upper` and `int()` are modelled for ASCII; their Unicode extensions are
    outside the model and named in the trusted base).
  * A component's recurrence (`rrulestr` of its DTSTART/RRULE/RDATE lines) is NOT modelled here:
    the parser returns the collected lines, and `findComp` works over each component's sorted
    list of onsets (naive wall-clock seconds).  "This RRULE text has these onsets" is C13 ∘ C01.
  No Mathlib import.
-/
import DateutilVerif.Base.Py

namespace ICal

/-! ### ASCII string primitives -/

def isSpace (c : Char) : Bool :=
  c == ' ' || c == '\t' || c == '\n' || c == '\r' || c.toNat == 11 || c.toNat == 12 ||
  (28 ≤ c.toNat && c.toNat ≤ 31)

def isLineBreak (c : Char) : Bool :=
  c == '\n' || c == '\r' || c.toNat == 11 || c.toNat == 12 || (28 ≤ c.toNat && c.toNat ≤ 30)

/-- `str.splitlines()` (ASCII boundaries; `\r\n` is one boundary) -/
def splitLinesAux : List Char → List Char → List (List Char) → List (List Char)
  | [], cur, acc => (if cur.isEmpty then acc else cur.reverse :: acc).reverse
  | '\r' :: '\n' :: cs, cur, acc => splitLinesAux cs [] (cur.reverse :: acc)
  | c :: cs, cur, acc =>
      if isLineBreak c then splitLinesAux cs [] (cur.reverse :: acc) else splitLinesAux cs (c :: cur) acc

def splitLines (s : List Char) : List (List Char) := splitLinesAux s [] []

def rstrip (s : List Char) : List Char := (s.reverse.dropWhile isSpace).reverse
def strip (s : List Char) : List Char := rstrip (s.dropWhile isSpace)

def upper (s : List Char) : List Char :=
  s.map (fun c => if 'a' ≤ c ∧ c ≤ 'z' then Char.ofNat (c.toNat - 32) else c)

/-- `s.split(sep)` for a one-character separator -/
def splitOnChar (sep : Char) (s : List Char) : List (List Char) :=
  let rec go : List Char → List Char → List (List Char) → List (List Char)
    | [], cur, acc => (cur.reverse :: acc).reverse
    | c :: cs, cur, acc => if c == sep then go cs [] (cur.reverse :: acc) else go cs (c :: cur) acc
  go s [] []

/-- `s.split(':', 1)` unpacked into two names: ValueError unless there is a `:` -/
def splitColon1 (s : List Char) : Option (List Char × List Char) :=
  let rec go : List Char → List Char → Option (List Char × List Char)
    | [], _ => none
    | c :: cs, cur => if c == ':' then some (cur.reverse, cs) else go cs (c :: cur)
  go s []

def isDigit (c : Char) : Bool := '0' ≤ c ∧ c ≤ '9'

/-- digits with single underscores between digits → value -/
def digitsUnderscore : List Char → Option Nat
  | [] => none
  | c :: cs =>
    if !isDigit c then none else
    let rec go : List Char → Nat → Bool → Option Nat
      | [], acc, lastUnd => if lastUnd then none else some acc
      | d :: ds, acc, lastUnd =>
        if isDigit d then go ds (acc * 10 + (d.toNat - '0'.toNat)) false
        else if d == '_' && !lastUnd then go ds acc true
        else none
    go cs (c.toNat - '0'.toNat) false

/-- Python `int(str)` on ASCII: surrounding whitespace, optional sign, digits with single
    underscores between digits; `none` = ValueError -/
def pyInt (s : List Char) : Option Int :=
  match strip s with
  | '+' :: r => (digitsUnderscore r).map (fun n => (n : Int))
  | '-' :: r => (digitsUnderscore r).map (fun n => -(n : Int))
  | r => (digitsUnderscore r).map (fun n => (n : Int))

/-! ### `_parse_offset` -/

def parseOffset (s0 : List Char) : Py.R Int :=
  let s := strip s0
  match s with
  | [] => .error .ValueError
  | c :: rest =>
    let (signal, s) : Int × List Char := if c == '+' then (1, rest) else if c == '-' then (-1, rest) else (1, s)
    let int (x : List Char) : Py.R Int := match pyInt x with | some v => .ok v | none => .error .ValueError
    if s.length == 4 then do
      let h ← int (s.take 2); let m ← int (s.drop 2)
      .ok ((h * 3600 + m * 60) * signal)
    else if s.length == 6 then do
      let h ← int (s.take 2); let m ← int ((s.drop 2).take 2); let sec ← int (s.drop 4)
      .ok ((h * 3600 + m * 60 + sec) * signal)
    else .error .ValueError

/-! ### `_parse_rfc` -/

structure Comp where
  tzoffsetfrom : Int
  tzoffsetto : Int
  isdst : Bool
  tzname : Option (List Char)
  rrulelines : List (List Char)
  deriving DecidableEq, Repr, Inhabited

structure VTz where
  tzid : List Char
  comps : List Comp
  deriving DecidableEq, Repr, Inhabited

/-- the unfolding loop over `lines` -/
def unfold (lines : List (List Char)) : List (List Char) :=
  (lines.foldl (fun (acc : List (List Char)) (raw : List Char) =>
    let line := rstrip raw
    match line, acc with
    | [], _ => acc
    | ' ' :: rest, prev :: acc' => (prev ++ rest) :: acc'
    | _, _ => raw :: acc) []).reverse

structure PState where
  vtz : List VTz := []            -- self._vtz in insertion order (later duplicates overwrite)
  tzid : Option (List Char) := none
  comps : List Comp := []
  invtz : Bool := false
  comptype : Option (List Char) := none
  founddtstart : Bool := false
  tzoffsetfrom : Option Int := none
  tzoffsetto : Option Int := none
  rrulelines : List (List Char) := []
  tzname : Option (List Char) := none
  deriving DecidableEq, Repr, Inhabited

/-- what `_parse_rfc` sees of `rrule.rrulestr("\n".join(lines), compatible=True, ignoretz=True, cache=True)`: the call may
    raise (a malformed rule; since fix D-C01-interval also a rule whose INTERVAL is below 1, which used to load and then made every
    lookup spin forever); nothing of the rule set it returns is read by `_parse_rfc` (the list is the `_interval`s of its rules,
    kept for the translator's representation of the object).  The recurrence itself is C13 ∘ C01. -/
abbrev RRuleLib := List (List Char) → Py.R (List Int)

/-- the library that accepts every group of lines (the driver's `ical.parse`: the harness asks the real
    `rrulestr` about the groups afterwards, see `rruleCalls`) -/
def acceptAll : RRuleLib := fun _ => .ok []

/-- `rr = rrulestr(lines)`, called only when there are lines -/
def compRules (lib : RRuleLib) (lines : List (List Char)) : Py.R Unit :=
  if lines.isEmpty then .ok () else
  match lib lines with
  | .error e => .error e
  | .ok _ => .ok ()

def lit (x : String) : List Char := x.toList

/-- dict assignment `self._vtz[tzid] = …` keeping insertion order -/
def putVtz (vs : List VTz) (v : VTz) : List VTz :=
  if vs.any (·.tzid == v.tzid) then vs.map (fun w => if w.tzid == v.tzid then v else w) else vs ++ [v]

def truthy (o : Option (List Char)) : Bool := match o with | some (_ :: _) => true | _ => false

/-- `BEGIN:<value>` inside a VTIMEZONE: opens a component and resets every per-component local -/
def beginComp (st : PState) (value : List Char) : Py.R PState :=
  if value == lit "STANDARD" || value == lit "DAYLIGHT" then
    .ok { st with comptype := some value, founddtstart := false, tzoffsetfrom := none,
                  tzoffsetto := none, rrulelines := [], tzname := none }
  else .error .ValueError

/-- `END:VTIMEZONE` -/
def closeZone (st : PState) : Py.R PState :=
  if truthy st.comptype then .error .ValueError
  else if !truthy st.tzid then .error .ValueError
  else if st.comps.isEmpty then .error .ValueError
  else .ok { st with vtz := putVtz st.vtz { tzid := st.tzid.getD [], comps := st.comps }, invtz := false }

/-- `END:<comptype>` -/
def closeComp (lib : RRuleLib) (st : PState) (value : List Char) : Py.R PState :=
  if !st.founddtstart then .error .ValueError else
  match st.tzoffsetfrom, st.tzoffsetto with
  | some f, some t =>
    match compRules lib st.rrulelines with
    | .error e => .error e
    | .ok _ =>
      let c : Comp := Comp.mk f t (value == lit "DAYLIGHT") st.tzname st.rrulelines
      .ok { st with comps := st.comps ++ [c], comptype := none }
  | _, _ => .error .ValueError

/-- a property line inside a component -/
def compProp (st : PState) (line name : List Char) (parms : List (List Char)) (value : List Char) : Py.R PState :=
  if name == lit "DTSTART" then
    if parms.all (· == lit "VALUE=DATE-TIME") then
      .ok { st with rrulelines := st.rrulelines ++ [line], founddtstart := true }
    else .error .ValueError
  else if name == lit "RRULE" || name == lit "RDATE" || name == lit "EXRULE" || name == lit "EXDATE" then
    .ok { st with rrulelines := st.rrulelines ++ [line] }
  else if name == lit "TZOFFSETFROM" then
    if !parms.isEmpty then .error .ValueError else
      match parseOffset value with
      | .ok v => .ok { st with tzoffsetfrom := some v }
      | .error e => .error e
  else if name == lit "TZOFFSETTO" then
    if !parms.isEmpty then .error .ValueError else
      match parseOffset value with
      | .ok v => .ok { st with tzoffsetto := some v }
      | .error e => .error e
  else if name == lit "TZNAME" then
    if !parms.isEmpty then .error .ValueError else .ok { st with tzname := some value }
  else if name == lit "COMMENT" then .ok st
  else .error .ValueError

/-- a property line of the VTIMEZONE itself -/
def zoneProp (st : PState) (name : List Char) (parms : List (List Char)) (value : List Char) : Py.R PState :=
  if name == lit "TZID" then
    if !parms.isEmpty then .error .ValueError else .ok { st with tzid := some value }
  else if name == lit "TZURL" || name == lit "LAST-MODIFIED" || name == lit "COMMENT" then .ok st
  else .error .ValueError

/-- the body of the line loop once the line is split into the upper-cased property name, its parameters and the value -/
def stepCore (lib : RRuleLib) (st : PState) (line name : List Char) (parms : List (List Char)) (value : List Char) :
    Py.R PState :=
  if st.invtz then
    if name == lit "BEGIN" then beginComp st value
    else if name == lit "END" then
      if value == lit "VTIMEZONE" then closeZone st
      else if some value == st.comptype then closeComp lib st value
      else .error .ValueError
    else if truthy st.comptype then compProp st line name parms value
    else zoneProp st name parms value
  else if name == lit "BEGIN" && value == lit "VTIMEZONE" then
    .ok { st with tzid := none, comps := [], invtz := true }      -- per-zone locals reset: nothing leaks from the zone before
  else .ok st

def stepLineW (lib : RRuleLib) (st : PState) (line : List Char) : Py.R PState :=
  if line.isEmpty then .ok st else
  match splitColon1 line with
  | none => .error .ValueError                       -- `name, value = line.split(':', 1)`
  | some (name0, value) =>
    let parms0 := splitOnChar ';' name0
    stepCore lib st line (upper (parms0.headD [])) (parms0.drop 1) value

/-- the line step with a recurrence library that accepts everything -/
def stepLine (st : PState) (line : List Char) : Py.R PState := stepLineW acceptAll st line

/-- `tzical._parse_rfc(text)` with the recurrence library as a parameter: `self._vtz` at the end -/
def parseRfcW (lib : RRuleLib) (text : List Char) : Py.R (List VTz) :=
  let lines := splitLines text
  if lines.isEmpty then .error .ValueError else
  match (unfold lines).foldlM (stepLineW lib) ({} : PState) with
  | .ok st => .ok st.vtz
  | .error e => .error e

/-- `tzical._parse_rfc(text)` up to (not including) `rrulestr` of each component's lines -/
def parseRfc (text : List Char) : Py.R (List VTz) := parseRfcW acceptAll text

/-- ghost view: the recurrence-line groups handed to `rrulestr`, in order: a component was closed exactly when
    the component list grew by one, and the group is that component's collected lines -/
def rruleCalls (text : List Char) : List (List (List Char)) :=
  let r := (unfold (splitLines text)).foldl (fun (acc : Option PState × List (List (List Char))) line =>
    match acc.1 with
    | none => acc
    | some st =>
      match stepLine st line with
      | .ok st' => (some st', if st'.comps.length == st.comps.length + 1 then acc.2 ++ [st.rrulelines] else acc.2)
      | .error _ => (none, acc.2)) (some ({} : PState), [])
  match r.1 with
  | some _ => r.2
  | none => []

/-- `tzical.get(tzid)`: index of the zone, `.ok none` = `None` (unknown id) -/
def get (vs : List VTz) (tzid : Option (List Char)) : Py.R (Option Nat) :=
  match tzid with
  | none =>
    if vs.length == 0 then .error .ValueError
    else if vs.length > 1 then .error .ValueError
    else .ok (some 0)
  | some t => .ok (vs.findIdx? (·.tzid == t))

/-! ### component selection -/

/-- a component as `_find_comp` sees it: offsets and the sorted list of its onsets
    (naive wall-clock seconds; `rrule.before(dt, inc=True)` = last onset ≤ dt) -/
structure ZComp where
  tzoffsetfrom : Int
  tzoffsetto : Int
  isdst : Bool
  onsets : List Int
  deriving DecidableEq, Repr, Inhabited

def ZComp.diff (c : ZComp) : Int := c.tzoffsetto - c.tzoffsetfrom

/-- last element ≤ x of a sorted list -/
def lastLE (l : List Int) (x : Int) : Option Int :=
  l.foldl (fun acc o => if o ≤ x then some o else acc) none

/-- `_find_compdt` -/
def findCompdt (c : ZComp) (w : Int) (fold : Bool) : Option Int :=
  lastLE c.onsets (if c.diff < 0 && fold then w - c.diff else w)

/-- one iteration of the selection loop: keep the strictly later onset -/
def selStep (w : Int) (fold : Bool) (acc : Option (Int × Nat)) (ck : ZComp × Nat) : Option (Int × Nat) :=
  match findCompdt ck.1 w fold, acc with
  | some d, none => some (d, ck.2)
  | some d, some (bd, bi) => if bd < d then some (d, ck.2) else some (bd, bi)
  | none, acc => acc

/-- the selection loop of `_find_comp` (uncached): index into `comps` -/
def findCompIdx (comps : List ZComp) (w : Int) (fold : Bool) : Nat :=
  if comps.length == 1 then 0 else
  match comps.zipIdx.foldl (selStep w fold) none with
  | some (_, i) => i
  | none =>
    match comps.findIdx? (fun c => !c.isdst) with
    | some i => i
    | none => 0

/-- the ten-entry cache as explicit state: most recent first -/
abbrev Cache := List ((Int × Bool) × Nat)

def findCompCached (comps : List ZComp) (cache : Cache) (w : Int) (fold : Bool) : Nat × Cache :=
  if comps.length == 1 then (0, cache) else
  match cache.find? (fun e => e.1 == (w, fold)) with
  | some e => (e.2, cache)
  | none =>
    let i := findCompIdx comps w fold
    let cache := ((w, fold), i) :: cache
    (i, if cache.length > 10 then cache.dropLast else cache)

def utcoffset (comps : List ZComp) (w : Int) (fold : Bool) : Int :=
  (comps.getD (findCompIdx comps w fold) default).tzoffsetto

def dst (comps : List ZComp) (w : Int) (fold : Bool) : Int :=
  let c := comps.getD (findCompIdx comps w fold) default
  if c.isdst then c.diff else 0

/-! ### the generic `_tzinfo` machinery over `utcoffset/dst : wall × fold → Int` -/

structure Generic where
  utcoffset : Int → Bool → Int
  dst : Int → Bool → Int

/-- `_tzinfo.is_ambiguous` -/
def Generic.isAmbiguous (g : Generic) (w : Int) : Bool := g.utcoffset w false != g.utcoffset w true

/-- `_tzinfo.fromutc`: UTC seconds → (wall seconds, fold) -/
def Generic.fromutc (g : Generic) (t : Int) : Int × Bool :=
  let dtoff := g.utcoffset t false
  let dtdst := g.dst t false
  let delta := dtoff - dtdst
  let w1 := t + delta
  let wall := w1 + g.dst w1 true
  let fold := if g.isAmbiguous wall then decide (wall - t = g.utcoffset t false - g.dst t false) else false
  (wall, fold)

def generic (comps : List ZComp) : Generic := { utcoffset := utcoffset comps, dst := dst comps }

end ICal
