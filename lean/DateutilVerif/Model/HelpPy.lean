/-
  Model/HelpPy.lean — named primitives of the "HelpPy" translator (harness/translate_tzhelp.py), which re-translates from
  tz/tz.py on every run the module-level PEP 495 helpers (`datetime_exists`, `datetime_ambiguous`, `resolve_imaginary`,
  `_get_supported_offset`) and the methods of the fixed zones `tzutc` / `tzoffset` into Generated/TzHelpKernels.lean.

  * a zone OBJECT is an identity (`is`), its `ZoneOps` (utcoffset / fromutc / is_ambiguous as the helper models of
    Model/Zones.lean see them), its `dst()` and whether it defines `is_ambiguous` at all; identity 0 is the constant `UTC`;
  * a datetime is its wall reading in whole seconds (microseconds ride along unchanged and are not modelled), its fold and
    its tzinfo (a zone object or None);
  * `x.astimezone(tz)` is CPython's: `x` itself when `x.tzinfo is tz`, else `tz.fromutc((x - x.utcoffset()).replace(tzinfo=tz))`;
    for a naive `x` CPython uses the system zone — outside the model (reported as `NotImplemented`);
  * `other` of a fixed zone's `__eq__` is a `Fact.Zone` (the cross-type table of C18); `NotImplemented` is `Fact.Tri.ni`.
  No Mathlib.
-/
import DateutilVerif.Model.Zones
import DateutilVerif.Model.Factory

namespace HelpPy
open Py TZ

structure Zone where
  id : Nat
  ops : ZoneOps
  dst : Wall → R Int
  hasIsAmbiguous : Bool := true

/-- the module constant `UTC` -/
def UTC : Zone :=
  { id := 0, dst := fun _ => .ok 0,
    ops := { utcoffset := fun _ => .ok 0, fromutc := fun t => .ok ⟨t, false⟩, isAmbiguous := fun _ => .ok false } }

structure HDt where
  wall : Int
  fold : Bool := false
  tz : Option Zone := none

/-- `dt.replace(tzinfo=…)` (keeps fold) -/
def replaceTz (d : HDt) (z : Option Zone) : HDt := { d with tz := z }
/-- `enfold(dt, fold=f)` -/
def enfold (d : HDt) (f : Int) : HDt := { d with fold := decide (f ≠ 0) }
/-- `x.astimezone(tz)` -/
def astimezone (x : HDt) (t : Zone) : R HDt :=
  match x.tz with
  | none => .error .NotImplemented
  | some z =>
    if z.id = t.id then .ok x else
    match z.ops.utcoffset ⟨x.wall, x.fold⟩ with
    | .error e => .error e
    | .ok o =>
      match t.ops.fromutc (x.wall - o) with
      | .error e => .error e
      | .ok r => .ok { wall := r.wall, fold := r.fold, tz := some t }
/-- `x.utcoffset()` / `x.dst()`: None for a naive datetime -/
def utcoffset (x : HDt) : R (Option Int) :=
  match x.tz with
  | none => .ok none
  | some z => (z.ops.utcoffset ⟨x.wall, x.fold⟩).map some
def dst (x : HDt) : R (Option Int) :=
  match x.tz with
  | none => .ok none
  | some z => (z.dst ⟨x.wall, x.fold⟩).map some
/-- `getattr(tz, 'is_ambiguous', None) is not None` -/
def hasIsAmbiguous (z : Zone) : Bool := z.hasIsAmbiguous
/-- `tz.is_ambiguous(dt)` -/
def callIsAmbiguous (z : Zone) (d : HDt) : R Bool :=
  if z.hasIsAmbiguous then z.ops.isAmbiguous d.wall else .error .AttributeError
/-- `datetime + timedelta` (fold reset, tzinfo kept) -/
def addTd (d : HDt) (td : Int) : HDt := { d with wall := d.wall + td, fold := false }

/-- a fixed zone object: `_name`, `_offset` (seconds) -/
structure Fixed where
  name : Option (List UInt8)
  offset : Int
  deriving DecidableEq, Repr

/-- the `offset` argument of `tzoffset(name, offset)`: a number of seconds or a timedelta -/
inductive OffArg
  | num (seconds : Int)
  | td (seconds : Int)
  deriving DecidableEq, Repr

/-- `offset.total_seconds()`: AttributeError on a number -/
def totalSeconds : OffArg → R OffArg
  | .td s => .ok (.num s)
  | .num _ => .error .AttributeError
/-- a number where a number is required (`timedelta(seconds=<timedelta>)` is a TypeError) -/
def needNum : OffArg → R Int
  | .num s => .ok s
  | .td _ => .error .TypeError

/-- `isinstance(other, tzutc)` / `isinstance(other, tzoffset)` -/
def isTzutc : Fact.Zone → Bool
  | .utc => true
  | _ => false
def isTzoffset : Fact.Zone → Bool
  | .offset _ _ => true
  | _ => false
/-- `other._offset` -/
def offsetOf : Fact.Zone → R Int
  | .offset _ o => .ok o
  | _ => .error .AttributeError

/-! ### tzlocal: the `time` module is an input -/

/-- the values `tzlocal.__init__` reads from the `time` module (set by the C library from TZ at `tzset`) -/
structure TimeMod where
  timezone : Int
  altzone : Int
  daylight : Int
  tzname : String × String
  deriving Repr

/-- a `tzlocal` object: `_std_offset`, `_dst_offset`, `_dst_saved` (seconds), `_hasdst`, `_tznames` -/
structure Local where
  stdOffset : Int
  dstOffset : Int
  dstSaved : Int
  hasdst : Bool
  tznames : String × String
  deriving DecidableEq, Repr

def isTzlocal : Fact.Zone → Bool
  | .loc _ _ _ _ => true
  | _ => false
/-- `other._std_offset` / `other._dst_offset` / `other._name` -/
def locStd : Fact.Zone → R Int
  | .loc s _ _ _ => .ok s
  | _ => .error .AttributeError
def locDst : Fact.Zone → R Int
  | .loc _ d _ _ => .ok d
  | _ => .error .AttributeError
def nameOfZone : Fact.Zone → R String
  | .offset n _ => .ok n
  | _ => .error .AttributeError

end HelpPy
