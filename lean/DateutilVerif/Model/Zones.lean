/-
  Model/Zones.lean — the tzinfo classes of src/dateutil/tz/tz.py and tz/_common.py on `Int`
  seconds since the epoch, for UTC instants and for naive wall-clock readings alike.

  `_datetime_to_timestamp(dt)` is `(dt.replace(tzinfo=None) - EPOCH).total_seconds()`; every
  table entry it is compared with is an integer, and for an integer `a` and `0 ≤ f < 1`:
  `s + f < a ↔ s < a` and `a ≤ s + f ↔ a ≤ s`.  Adding an offset leaves the sub-second part
  untouched.  So microseconds are irrelevant to all zone logic and the model works on whole
  seconds (the harness probes with and without microseconds).

  * `bisectRight` is CPython's `bisect.bisect_right` loop (also on unsorted lists);
  * `TzFile` lookups: `_find_last_transition`, `_get_ttinfo`, `fromutc`, `is_ambiguous`,
    `utcoffset/dst/tzname` (the code after the D-C04 repair);
  * fixed zones (`tzutc`, `tzoffset`);
  * `RangeZone` = `tzrangebase` over an abstract yearly transition function (reused by
    tzrange/tzstr models elsewhere);
  * `GenericZone` = `_tzinfo._fromutc/_fold_status/is_ambiguous` over abstract
    `utcoffset/dst` (tzlocal, tzical);
  * `datetime_exists`, `datetime_ambiguous`, `resolve_imaginary` over a zone interface `ZoneOps`.
-/
import DateutilVerif.Model.TZif
import DateutilVerif.Base.Calendar

namespace TZ
open Py

/-! ### bisect -/

/-- CPython `bisect_right` loop: `while lo < hi: mid = (lo+hi)//2; if x < a[mid]: hi = mid else: lo = mid+1` -/
def bisectGo (l : List Int) (x : Int) : Nat → Nat → Nat → Nat
  | 0, lo, _ => lo
  | fuel + 1, lo, hi =>
      if lo < hi then
        if x < l.getD ((lo + hi) / 2) 0 then bisectGo l x fuel lo ((lo + hi) / 2)
        else bisectGo l x fuel ((lo + hi) / 2 + 1) hi
      else lo

def bisectRight (l : List Int) (x : Int) : Nat := bisectGo l x l.length 0 l.length

/-- `self._trans_list_wall[self._fold(dt)]` -/
def wallOf (z : TzFile) (fold : Bool) : List Int := if fold then z.wall1 else z.wall0

/-! ### tzfile -/

/-- a wall-clock reading: seconds since the epoch of the naive datetime, and its fold -/
structure Wall where
  wall : Int
  fold : Bool
  deriving DecidableEq, Repr, Inhabited

/-- `_find_last_transition(dt, in_utc=True)` -/
def findLastUtc (z : TzFile) (t : Int) : Option Int :=
  if z.transList.isEmpty then none else some ((bisectRight z.utc t : Int) - 1)

/-- `_find_last_transition(dt)` (= `_resolve_ambiguous_time`): the list of the datetime's fold -/
def findLastWall (z : TzFile) (w : Wall) : Option Int :=
  if z.transList.isEmpty then none else some ((bisectRight (wallOf z w.fold) w.wall : Int) - 1)

/-- `_get_ttinfo(idx)`; `none` models Python's `None` -/
def getTtinfo (z : TzFile) : Option Int → Option TType
  | none => z.std
  | some idx =>
      if idx + 1 ≥ z.transList.length then z.std
      else if idx < 0 then z.before
      else z.tts[idx.toNat]?

/-- `_offset_before(idx)` -/
def offsetBefore (z : TzFile) (idx : Int) : Option Int :=
  if idx > 0 then (z.tts[(idx - 1).toNat]?).map (·.off) else z.before.map (·.off)

/-- `is_ambiguous(dt, idx)`; `idx = none` is the public call -/
def isAmbiguousIdx (z : TzFile) (w : Int) (idx : Option Int) : Bool :=
  if z.transList.isEmpty then false else
  let go (i : Int) : Bool :=
    if i < 0 then false else
    match z.wall1[i.toNat]?, z.wall0[i.toNat]?, offsetBefore z i, z.tts[i.toNat]? with
    | some w1, some w0, some ob, some tt => decide (w1 ≤ w) && decide (w < w0) && decide (ob > tt.off)
    | _, _, _, _ => false
  match idx with
  | some i => go i
  | none =>
      let i1 : Int := (bisectRight z.wall1 w : Int) - 1
      let i0 : Int := (bisectRight z.wall0 w : Int) - 1
      if i1 == i0 then false else go i1

def isAmbiguous (z : TzFile) (w : Int) : Bool := isAmbiguousIdx z w none

/-- `tzfile.fromutc`: `AttributeError` when there is no type at all (`tti` is `None`) -/
def fromutc (z : TzFile) (t : Int) : R Wall :=
  let idx := findLastUtc z t
  match getTtinfo z idx with
  | none => .error .AttributeError
  | some tti =>
      let w := t + tti.off
      .ok { wall := w, fold := isAmbiguousIdx z w idx }

/-- `_find_ttinfo(dt)` -/
def findTtinfo (z : TzFile) (w : Wall) : Option TType := getTtinfo z (findLastWall z w)

/-- `utcoffset(dt)` in seconds -/
def utcoffset (z : TzFile) (w : Wall) : R Int :=
  match z.std with
  | none => .ok 0
  | some _ => match findTtinfo z w with
    | some tt => .ok tt.off
    | none => .error .AttributeError

/-- `dst(dt)` in seconds -/
def dst (z : TzFile) (w : Wall) : R Int :=
  match z.dst with
  | none => .ok 0
  | some _ => match findTtinfo z w with
    | some tt => .ok (if tt.isdst == 0 then 0 else tt.dstoff)
    | none => .error .AttributeError

/-- `tzname(dt)`; `none` = Python `None` -/
def tzname (z : TzFile) (w : Wall) : R (Option (List UInt8)) :=
  match z.std with
  | none => .ok none
  | some _ => match findTtinfo z w with
    | some tt => .ok (some tt.abbr)
    | none => .error .AttributeError

/-- `aware.astimezone(UTC)`: wall − utcoffset -/
def toUtc (z : TzFile) (w : Wall) : R Int := do
  let o ← utcoffset z w
  pure (w.wall - o)

/-- `tzfile.__eq__` -/
def tzEq (a b : TzFile) : Bool :=
  a.transList == b.transList && a.tts == b.tts && a.ttinfoList == b.ttinfoList

/-! ### a zone as seen by the module-level helpers -/

structure ZoneOps where
  utcoffset : Wall → R Int
  fromutc : Int → R Wall
  /-- `tz.is_ambiguous(dt)` when the zone defines it -/
  isAmbiguous : Int → R Bool

def TzFile.ops (z : TzFile) : ZoneOps :=
  { utcoffset := TZ.utcoffset z, fromutc := TZ.fromutc z, isAmbiguous := fun w => .ok (TZ.isAmbiguous z w) }

/-- `datetime_exists(dt, tz)`: survive `dt.replace(tzinfo=tz).astimezone(UTC).astimezone(tz)` -/
def datetimeExists (z : ZoneOps) (w : Wall) : R Bool := do
  let o ← z.utcoffset w
  let rt ← z.fromutc (w.wall - o)
  pure (rt.wall == w.wall)

/-- `datetime_ambiguous(dt, tz)` for zones with an `is_ambiguous` that does not raise -/
def datetimeAmbiguous (z : ZoneOps) (w : Wall) : R Bool := z.isAmbiguous w.wall

/-- `resolve_imaginary(dt)` (after the D-C05g repair): the gap width is measured by a round trip through UTC,
    `dt_rt = dt.astimezone(UTC).astimezone(dt.tzinfo)` — `dt.utcoffset()` with dt's own fold, then `fromutc` — and
    `dt += abs(naive(dt_rt) - naive(dt))`; `datetime + timedelta` resets fold to 0 -/
def resolveImaginary (z : ZoneOps) (w : Wall) : R Wall := do
  if ← datetimeExists z w then pure w else
  let o ← z.utcoffset w
  let rt ← z.fromutc (w.wall - o)
  pure { wall := w.wall + Py.iabs (rt.wall - w.wall), fold := false }

/-- `datetime_exists(dt, tz=None)` / `datetime_ambiguous(dt, tz=None)` with both arguments as the code
    takes them: `dtZone` = the zone attached to `dt` (`none` for a naive datetime), `tzArg` = the
    explicit `tz` argument.  The explicit zone wins; with neither, `ValueError`.  In either case only
    the wall reading and fold of `dt` are used (`dt.replace(tzinfo=None)` / `dt.replace(tzinfo=tz)`). -/
def resolveZoneArg (dtZone tzArg : Option ZoneOps) : R ZoneOps :=
  match tzArg with
  | some z => .ok z
  | none => match dtZone with
    | some z => .ok z
    | none => .error .ValueError

def datetimeExistsArgs (dtZone tzArg : Option ZoneOps) (w : Wall) : R Bool := do
  let z ← resolveZoneArg dtZone tzArg
  datetimeExists z w

def datetimeAmbiguousArgs (dtZone tzArg : Option ZoneOps) (w : Wall) : R Bool := do
  let z ← resolveZoneArg dtZone tzArg
  datetimeAmbiguous z w

/-- `resolve_imaginary(dt)`: a naive datetime is returned unchanged -/
def resolveImaginaryArgs (dtZone : Option ZoneOps) (w : Wall) : R Wall :=
  match dtZone with
  | none => .ok w
  | some z => resolveImaginary z w

/-! ### fixed zones -/

/-- `tzutc` is `tzoffset(_, 0)`; sub-minute offsets are kept (Python ≥ 3.6) -/
structure FixedZone where
  off : Int
  name : Option (List UInt8)
  deriving DecidableEq, Repr

namespace FixedZone
def utcoffset (z : FixedZone) (_ : Wall) : Int := z.off
def dst (_ : FixedZone) (_ : Wall) : Int := 0
/-- `dt + self._offset` keeps the fold of `dt` (always 0 on the `astimezone` path) -/
def fromutc (z : FixedZone) (t : Int) : Wall := { wall := t + z.off, fold := false }
def isAmbiguous (_ : FixedZone) (_ : Int) : Bool := false
def toUtc (z : FixedZone) (w : Wall) : Int := w.wall - z.utcoffset w
def ops (z : FixedZone) : ZoneOps :=
  { utcoffset := fun w => .ok (z.utcoffset w), fromutc := fun t => .ok (z.fromutc t),
    isAmbiguous := fun w => .ok (z.isAmbiguous w) }
end FixedZone

/-! ### tzrangebase -/

/-- calendar year of a naive timestamp (`dt.year`) -/
def yearOf (s : Int) : Int := (Cal.fromOrdinal (Py.fdiv s 86400 + 719163)).1

/-- `tzrangebase`: offsets, `hasdst`, and `transitions(year)` as naive *standard-time*
    timestamps `(dston, dstoff)`; `none` = `None` -/
structure RangeZone where
  stdOff : Int
  dstOff : Int
  hasdst : Bool
  transitions : Int → Option (Int × Int)
  stdAbbr : List UInt8 := []
  dstAbbr : List UInt8 := []

namespace RangeZone

/-- `_dst_base_offset` -/
def saving (z : RangeZone) : Int := z.dstOff - z.stdOff

/-- `_naive_isdst(dt, transitions)` -/
def naiveIsdst (x : Int) (tr : Int × Int) : Bool :=
  if tr.1 < tr.2 then decide (tr.1 ≤ x) && decide (x < tr.2)
  else !(decide (tr.2 ≤ x) && decide (x < tr.1))

/-- `is_ambiguous(dt)`; unpacking `None` is a `TypeError` -/
def isAmbiguous (z : RangeZone) (w : Int) : R Bool :=
  if !z.hasdst then .ok false else
  match z.transitions (yearOf w) with
  | none => .error .TypeError
  | some (_, e) => .ok (decide (e ≤ w) && decide (w < e + z.saving))

/-- `_isdst(dt)` for a datetime -/
def isdst (z : RangeZone) (w : Wall) : R Bool :=
  if !z.hasdst then .ok false else
  match z.transitions (yearOf w.wall) with
  | none => .ok false
  | some tr =>
      let d := naiveIsdst w.wall tr
      if !d then do
        if ← z.isAmbiguous w.wall then pure (!w.fold) else pure d
      else .ok d

def utcoffset (z : RangeZone) (w : Wall) : R Int := do
  if ← z.isdst w then pure z.dstOff else pure z.stdOff

def dst (z : RangeZone) (w : Wall) : R Int := do
  if ← z.isdst w then pure z.saving else pure 0

def tzname (z : RangeZone) (w : Wall) : R (List UInt8) := do
  if ← z.isdst w then pure z.dstAbbr else pure z.stdAbbr

/-- `fromutc(dt)`: the transitions are looked up by the year of the UTC reading -/
def fromutc (z : RangeZone) (t : Int) : R Wall :=
  match z.transitions (yearOf t) with
  | none => do
      let o ← z.utcoffset { wall := t, fold := false }
      pure { wall := t + o, fold := false }
  | some (on, off) =>
      let d := naiveIsdst t (on - z.stdOff, off - z.stdOff)
      let w := if d then t + z.dstOff else t + z.stdOff
      if d then .ok { wall := w, fold := false } else do
        let a ← z.isAmbiguous w
        pure { wall := w, fold := a }

def toUtc (z : RangeZone) (w : Wall) : R Int := do
  let o ← z.utcoffset w
  pure (w.wall - o)

def ops (z : RangeZone) : ZoneOps :=
  { utcoffset := z.utcoffset, fromutc := z.fromutc, isAmbiguous := z.isAmbiguous }

/-- a concrete instance from a finite table `(year, dston, dstoff)` (driver / examples) -/
def ofTable (stdOff dstOff : Int) (hasdst : Bool) (tbl : List (Int × Int × Int)) : RangeZone :=
  { stdOff, dstOff, hasdst,
    transitions := fun y => (tbl.find? (fun e => e.1 == y)).map (fun e => (e.2.1, e.2.2)) }

end RangeZone

/-! ### `_tzinfo` (tzlocal, tzical) -/

/-- abstract `utcoffset/dst` on (wall, fold); `ambiguous` is the zone's own `is_ambiguous` when it
    overrides the generic one -/
structure GenericZone where
  utcoffset : Wall → Int
  dst : Wall → Int
  ambiguousOverride : Option (Int → Bool) := none

namespace GenericZone

/-- `_tzinfo.is_ambiguous`: the two folds report different offsets -/
def isAmbiguous (z : GenericZone) (w : Int) : Bool :=
  match z.ambiguousOverride with
  | some f => f w
  | none => z.utcoffset ⟨w, false⟩ != z.utcoffset ⟨w, true⟩

/-- `_fromutc(dt)`: CPython's algorithm with `fold=1` for the second `dst()` probe -/
def fromutcWall (z : GenericZone) (t : Int) : Int :=
  let delta := z.utcoffset ⟨t, false⟩ - z.dst ⟨t, false⟩
  let x := t + delta
  x + z.dst ⟨x, true⟩

/-- `_fold_status(dt_utc, dt_wall)` -/
def foldStatus (z : GenericZone) (t w : Int) : Bool :=
  if z.isAmbiguous w then decide (w - t = z.utcoffset ⟨t, false⟩ - z.dst ⟨t, false⟩) else false

def fromutc (z : GenericZone) (t : Int) : Wall :=
  let w := z.fromutcWall t
  { wall := w, fold := z.foldStatus t w }

def toUtc (z : GenericZone) (w : Wall) : Int := w.wall - z.utcoffset w

def ops (z : GenericZone) : ZoneOps :=
  { utcoffset := fun w => .ok (z.utcoffset w), fromutc := fun t => .ok (z.fromutc t),
    isAmbiguous := fun w => .ok (z.isAmbiguous w) }

end GenericZone

/-- `tzlocal` when the C library follows a yearly POSIX rule: `time.localtime(u).tm_isdst` is
    "u is between the two transitions", with the rule given as for `RangeZone` (naive standard
    time).  `_naive_is_dst(dt)` asks `localtime(timestamp + time.timezone)`. -/
def localNaiveIsdst (z : RangeZone) (w : Int) : Bool :=
  match z.transitions (yearOf w) with
  | none => false
  | some tr => RangeZone.naiveIsdst w tr

/-- `tzlocal.is_ambiguous` -/
def localIsAmbiguous (z : RangeZone) (w : Int) : Bool :=
  !localNaiveIsdst z w && (localNaiveIsdst z w != localNaiveIsdst z (w - z.saving))

/-- `tzlocal._isdst` -/
def localIsdst (z : RangeZone) (w : Wall) : Bool :=
  if !z.hasdst then false
  else if localIsAmbiguous z w.wall then !w.fold
  else localNaiveIsdst z w.wall

/-- `tzlocal` as a `GenericZone` -/
def localZone (z : RangeZone) : GenericZone :=
  { utcoffset := fun w => if localIsdst z w then z.dstOff else z.stdOff,
    dst := fun w => if localIsdst z w then z.saving else 0,
    ambiguousOverride := some (localIsAmbiguous z) }

end TZ
