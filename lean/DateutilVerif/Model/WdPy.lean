/-
  Model/WdPy.lean — `dateutil._common.weekday` (src/dateutil/_common.py): the objects MO … SU, `MO(+1)`, `weekday(2, -3)`
  that relativedelta stores in its `weekday` field and rrule / rrulestr in BYDAY.

  * runtime support of the "WdPy" translator (harness/translate_wd.py → Generated/WdOps.lean): the object as the pair of its
    two slots, the operand of `__eq__`, truthiness of an Optional int, `"%s(%+d)" % (s, n)`;
  * the hand model of the methods (`call`, `eq`, `ne`, `hashKey`, `repr`, `initRR`), proved equal to the translation in
    Properties/C16.lean (`gen_weekday_eq_model`).

  `__eq__` / `__hash__` of a weekday are STRICT in `n` (`MO != MO(+1)`, `MO(0) != MO`): the identification of n absent / 0 / 1
  lives in `relativedelta.__eq__` / `__hash__` (RDM.wdEq / hashKey), not here.  No Mathlib import.
-/
import DateutilVerif.Base.Py

namespace WdPy

/-- a weekday object: `(weekday, n)` — the type of relativedelta's `weekday` field -/
abbrev Wd := Int × Option Int

/-- the right operand of `__eq__` / `__ne__`: a weekday object, or any object without the attributes `weekday` / `n`
    (None, an int, a string …: reading them raises AttributeError) -/
inductive Other where
  | wd (w : Wd)
  | noAttr
  deriving DecidableEq, Repr, Inhabited

/-- truthiness of an Optional int -/
def truthy (n : Option Int) : Prop := n ≠ none ∧ n ≠ some 0
instance (n : Option Int) : Decidable (truthy n) := by unfold truthy; exact inferInstance

/-- `"%+d" % n` -/
def fmtSigned (n : Int) : String := (if n < 0 then "-" else "+") ++ toString n.natAbs

/-- `"%s(%+d)" % (s, n)`; `%d` of None is a TypeError -/
def fmtNth (s : String) (n : Option Int) : Py.R String :=
  match n with
  | some v => .ok (s ++ "(" ++ fmtSigned v ++ ")")
  | none => .error .TypeError

def names : List String := ["MO", "TU", "WE", "TH", "FR", "SA", "SU"]

/-! ## hand model -/

/-- `self(n)` for an object of the base class: the value, and whether it is `self` itself (the same object) rather than a new one -/
def call (self : Wd) (n : Option Int) : Wd × Bool := ((self.1, n), decide (n = self.2))

/-- `self == other` -/
def eq (self : Wd) (other : Other) : Bool :=
  match other with
  | .wd o => decide (self = o)
  | .noAttr => false

def ne (self : Wd) (other : Other) : Bool := !(eq self other)

/-- the tuple handed to `hash` -/
def hashKey (self : Wd) : Int × Option Int := self

/-- `repr(self)`: the bare name when n is None or 0, else `NAME(±n)`; IndexError outside −7..6 -/
def repr (self : Wd) : Py.R String :=
  if self.1 < -7 ∨ self.1 ≥ 7 then .error .IndexError
  else
    let s := names.getD (if self.1 < 0 then self.1 + 7 else self.1).toNat ""
    match self.2 with
    | none => .ok s
    | some v => if v = 0 then .ok s else .ok (s ++ "(" ++ fmtSigned v ++ ")")

/-- `rrule.weekday(wkday, n)`: n == 0 is rejected -/
def initRR (wkday : Int) (n : Option Int) : Py.R Wd :=
  if n = some 0 then .error .ValueError else .ok (wkday, n)

/-- `self(n)` for an object of class `rrule.weekday` (`self.__class__` is the subclass): a NEW object with n == 0 is rejected,
    the object itself is returned for its own n (even 0 could not occur: no such object exists) -/
def callRR (self : Wd) (n : Option Int) : Py.R (Wd × Bool) :=
  if n = self.2 then .ok (self, true) else if n = some 0 then .error .ValueError else .ok ((self.1, n), false)

end WdPy
