/-
  Model/RRule.lean — executable model of `dateutil.rrule.rrule` (src/dateutil/rrule.py):
  `rrule.__init__` → `construct`, `_iterinfo.rebuild` → `rebuild`, the day/time sets, the
  BY-filter, BYSETPOS selection, emission with until/dtstart/count, and the period advance of
  `rrule._iter` for all seven frequencies.  The model follows the code that exists: Python's
  negative-index wrap-around and `IndexError` on the computed masks (`setIdx`/`Py.getIdx`), the
  `None` returned by `__mod_distance` (a `TypeError` at the unpacking site), the `ValueError`s
  of `datetime.time(...)`/`date.fromordinal(...)`.
  The month / month-day / weekday tables are the *dumped* ones (`Gen.M366MASK` …), never re-typed.
  No Mathlib import (linked into the driver).
-/
import DateutilVerif.Model.RRuleTypes
import DateutilVerif.Generated.Tables
import DateutilVerif.Generated.Easter

namespace RRule
open Py (PyErr)

/-! ### small Python helpers -/

/-- insertion into a list sorted by `lt` (after the last element that is `lt`-smaller) -/
def insertBy {α} (lt : α → α → Bool) (x : α) : List α → List α
  | [] => [x]
  | y :: ys => if lt y x then y :: insertBy lt x ys else x :: y :: ys

/-- `sorted(l)` for a strict order `lt` -/
def sortBy {α} (lt : α → α → Bool) (l : List α) : List α := l.foldr (insertBy lt) []

/-- `x not in acc → acc.append(x)` over a list: first occurrences, order kept (`set(l)` content) -/
def dedup {α} [BEq α] : List α → List α → List α
  | acc, [] => acc.reverse
  | acc, x :: xs => if acc.contains x then dedup acc xs else dedup (x :: acc) xs

def ltInt (a b : Int) : Bool := a < b
def ltPair (a b : Int × Int) : Bool := a.1 < b.1 || (a.1 == b.1 && a.2 < b.2)
/-- a wall time `(hour, minute, second)` -/
abbrev HMS := Int × Int × Int
def ltHMS (a b : HMS) : Bool :=
  a.1 < b.1 || (a.1 == b.1 && (a.2.1 < b.2.1 || (a.2.1 == b.2.1 && a.2.2 < b.2.2)))

/-- `tuple(sorted(set(l)))` -/
def sortedSet (l : List Int) : List Int := sortBy ltInt (dedup [] l)

/-- `L[i] = v` with Python's negative-index wrap-around and `IndexError`. -/
def setIdx (l : List Int) (i : Int) (v : Int) : Py.R (List Int) :=
  let n : Int := l.length
  let j := if i < 0 then i + n else i
  if j < 0 ∨ j ≥ n then .error .IndexError else .ok (l.set j.toNat v)

/-- `datetime.time(h, m, s)`: `ValueError` outside 0..23 / 0..59 / 0..59 -/
def mkTime (h m s : Int) : Py.R HMS :=
  if 0 ≤ h ∧ h ≤ 23 ∧ 0 ≤ m ∧ m ≤ 59 ∧ 0 ≤ s ∧ s ≤ 59 then .ok (h, m, s) else .error .ValueError

/-! ### the normalised rule (`self._xxx` after `__init__`) -/

structure Rule where
  freq : Int
  interval : Int
  wkst : Int
  dtstart : DT
  tz : Int
  count : Option Int
  untilDT : Option DT
  bysetpos : Option (List Int)
  bymonth : Option (List Int)
  bymonthday : List Int
  bynmonthday : List Int
  byyearday : Option (List Int)
  byeaster : Option (List Int)
  byweekno : Option (List Int)
  byweekday : Option (List Int)
  bynweekday : Option (List (Int × Int))
  byhour : Option (List Int)
  byminute : Option (List Int)
  bysecond : Option (List Int)
  timeset : Option (List HMS)
  deriving Repr, DecidableEq, Inhabited

/-- `rrule.__construct_byset(start, byxxx, base)`: the members reachable from `start` in steps of
    `interval` modulo `base`; `ValueError` when none is. -/
def constructByset (interval start : Int) (byxxx : List Int) (base : Int) : Py.R (List Int) :=
  let g : Int := (Int.gcd interval base : Nat)
  let cset := dedup [] (byxxx.filter (fun num => g == 1 || Py.fmod (num - start) g == 0))
  if cset.isEmpty then .error .ValueError else .ok cset

/-- `datetime.time(...)` over a list of wall times, in order (the first failure escapes) -/
def checkTimes : List HMS → Py.R (List HMS)
  | [] => .ok []
  | t :: ts =>
    match mkTime t.1 t.2.1 t.2.2 with
    | .error e => .error e
    | .ok t' =>
      match checkTimes ts with
      | .error e => .error e
      | .ok l => .ok (t' :: l)

/-- `for hour in hs: for minute in ms: for second in ss` -/
def productHMS (hs ms ss : List Int) : List HMS :=
  hs.flatMap fun h => ms.flatMap fun m => ss.map fun s => (h, m, s)

/-- the triple loop building `self._timeset` (each `datetime.time(...)` may raise), then `.sort()` -/
def buildTimeset (hs ms ss : List Int) : Py.R (List HMS) :=
  match checkTimes (productHMS hs ms ss) with
  | .ok l => .ok (sortBy ltHMS l)
  | .error e => .error e

def validBysetpos (l : List Int) : Bool := l.all (fun p => !(p == 0 || !(-366 ≤ p && p ≤ 366)))

/-- lines 491-503: every position must be in −366..−1 or 1..366 -/
def normBysetpos (a : Args) : Py.R (Option (List Int)) :=
  match a.bysetpos with
  | none => .ok none
  | some l => if validBysetpos l then .ok (some l) else .error .ValueError

/-- line 508: none of byweekno / byyearday / bymonthday / byweekday / byeaster was given -/
def noDayParts (a : Args) : Bool :=
  a.byweekno.isNone && a.byyearday.isNone && a.bymonthday.isNone && a.byweekday.isNone && a.byeaster.isNone

/-- `self._bymonth` (with the YEARLY default `dtstart.month`) -/
def bymonthOf (a : Args) : Option (List Int) :=
  (if noDayParts a && a.freq == 0 && a.bymonth.isNone then some [a.dtstart.m] else a.bymonth).map sortedSet

/-- the `bymonthday` argument after the YEARLY / MONTHLY default `dtstart.day` -/
def monthdayArg (a : Args) : Option (List Int) :=
  if noDayParts a && (a.freq == 0 || a.freq == 1) then some [a.dtstart.d] else a.bymonthday

/-- `self._bymonthday`: the positive members -/
def bymonthdayOf (a : Args) : List Int :=
  match monthdayArg a with
  | none => []
  | some l => sortBy ltInt ((dedup [] l).filter (· > 0))

/-- `self._bynmonthday`: the negative members -/
def bynmonthdayOf (a : Args) : List Int :=
  match monthdayArg a with
  | none => []
  | some l => sortBy ltInt ((dedup [] l).filter (· < 0))

/-- the `byweekday` argument after the WEEKLY default `dtstart.weekday()` -/
def weekdayArg (a : Args) : Option (List (Int × Int)) :=
  if noDayParts a && a.freq == 2 then some [(a.dtstart.weekday, 0)] else a.byweekday

/-- plain members: ints, `MO`, and every `MO(n)` when `freq > MONTHLY` -/
def plainWeekdays (a : Args) (l : List (Int × Int)) : List Int :=
  dedup [] ((l.filter (fun w => w.2 == 0 || a.freq > 1)).map (·.1))

def nthWeekdays (a : Args) (l : List (Int × Int)) : List (Int × Int) :=
  dedup [] (l.filter (fun w => !(w.2 == 0 || a.freq > 1)))

/-- `self._byweekday` -/
def byweekdayOf (a : Args) : Option (List Int) :=
  match weekdayArg a with
  | none => none
  | some l => if (plainWeekdays a l).isEmpty then none else some (sortBy ltInt (plainWeekdays a l))

/-- `self._bynweekday` -/
def bynweekdayOf (a : Args) : Option (List (Int × Int)) :=
  match weekdayArg a with
  | none => none
  | some l =>
    if (plainWeekdays a l).isEmpty then some (sortBy ltPair (nthWeekdays a l))
    else if (nthWeekdays a l).isEmpty then none
    else some (sortBy ltPair (nthWeekdays a l))

/-- byhour / byminute / bysecond (lines 629-689): default from dtstart below the unit's own
    frequency, reachability filter at the unit's own frequency, plain sorted set otherwise -/
def normUnit (freq lvl interval start : Int) (arg : Option (List Int)) (base : Int) : Py.R (Option (List Int)) :=
  match arg with
  | none => .ok (if freq < lvl then some [start] else none)
  | some l =>
    if freq == lvl then
      match constructByset interval start l base with
      | .ok c => .ok (some (sortBy ltInt c))
      | .error e => .error e
    else .ok (some (sortedSet l))

/-- `self._timeset` (lines 691-702): `None` for the sub-daily frequencies -/
def timesetOf (a : Args) (byhour byminute bysecond : Option (List Int)) : Py.R (Option (List HMS)) :=
  if a.freq ≥ 4 then .ok none else
    match buildTimeset (byhour.getD []) (byminute.getD []) (bysecond.getD []) with
    | .ok t => .ok (some t)
    | .error e => .error e

/-- `rrule.__init__` (lines 432-702) after the INTERVAL check. -/
def constructBody (a : Args) : Py.R Rule := do
  let bysetpos ← normBysetpos a
  let byhour ← normUnit a.freq 4 a.interval a.dtstart.hh a.byhour 24
  let byminute ← normUnit a.freq 5 a.interval a.dtstart.mm a.byminute 60
  let bysecond ← normUnit a.freq 6 a.interval a.dtstart.ss a.bysecond 60
  let timeset ← timesetOf a byhour byminute bysecond
  pure { freq := a.freq, interval := a.interval,
         wkst := a.wkst.getD 0,                     -- calendar.firstweekday() is pinned to 0
         dtstart := { a.dtstart with us := 0 }, tz := a.tz, count := a.count, untilDT := a.untilDT,
         bysetpos, bymonth := bymonthOf a, bymonthday := bymonthdayOf a, bynmonthday := bynmonthdayOf a,
         byyearday := a.byyearday.map sortedSet,
         byeaster := a.byeaster.map (sortBy ltInt),     -- tuple(sorted(byeaster)): duplicates kept
         byweekno := a.byweekno.map sortedSet,
         byweekday := byweekdayOf a, bynweekday := bynweekdayOf a,
         byhour, byminute, bysecond, timeset }

/-- `rrule.__init__`: `if interval < 1: raise ValueError("interval must be a positive integer")` (fix D-C01-interval;
    RFC 5545: INTERVAL is a positive integer), then the normalisation. -/
def construct (a : Args) : Py.R Rule :=
  if a.interval < 1 then .error .ValueError else constructBody a

/-- `if wkst is None: self._wkst = calendar.firstweekday()`: the week start the constructor works with, given the
    PROCESS-WIDE first weekday `fwd` (`calendar.setfirstweekday`), which the code reads exactly when `wkst` is
    not supplied -/
def resolveW (fwd : Int) (a : Args) : Args := { a with wkst := some (a.wkst.getD fwd) }

/-- `rrule.__init__` with the ambient first weekday as an explicit input.  `construct` is the case `fwd = 0`
    (the interpreter's default, `calendar.firstweekday()` without any `setfirstweekday`), see
    `constructW_zero`. -/
def constructW (fwd : Int) (a : Args) : Py.R Rule := construct (resolveW fwd a)

/-- `self._original_rule` together with the scalar attributes, i.e. the keyword arguments that
    `rrule.replace()` (with no overrides) passes to the constructor again:
    `{interval, count, dtstart, freq, until, wkst} ∪ _original_rule`.  A BY part is `none` when its key
    is absent or `None` in `_original_rule` (not supplied, or taken from dtstart); otherwise it is the
    normalised tuple (`byweekday`: the plain weekdays followed by the nth ones; `bymonthday`: the
    positive members followed by the negative ones; `byhour` … after the reachability filter). -/
def origArgs (a : Args) (r : Rule) : Args :=
  { freq := r.freq, dtstart := r.dtstart, tz := r.tz, interval := r.interval, wkst := some r.wkst,
    count := r.count, untilDT := r.untilDT,
    bysetpos := if truthy r.bysetpos then r.bysetpos else none,
    bymonth := if noDayParts a && a.freq == 0 && a.bymonth.isNone then none else r.bymonth,
    bymonthday := if noDayParts a && (a.freq == 0 || a.freq == 1) then none
                  else a.bymonthday.map (fun _ => r.bymonthday ++ r.bynmonthday),
    byyearday := r.byyearday, byeaster := r.byeaster, byweekno := r.byweekno,
    byweekday := if noDayParts a && a.freq == 2 then none
                 else a.byweekday.map (fun _ => (r.byweekday.getD []).map (fun w => (w, 0)) ++ r.bynweekday.getD []),
    byhour := a.byhour.bind (fun _ => r.byhour),
    byminute := a.byminute.bind (fun _ => r.byminute),
    bysecond := a.bysecond.bind (fun _ => r.bysecond) }

/-! ### `_iterinfo` -/

structure Info where
  yearlen : Int
  nextyearlen : Int
  yearordinal : Int
  yearweekday : Int
  mmask : List Int
  mdaymask : List Int
  nmdaymask : List Int
  wdaymask : List Int
  mrange : List Int
  wnomask : Option (List Int)
  nwdaymask : Option (List Int)
  eastermask : Option (List Int)
  deriving Repr, DecidableEq, Inhabited

/-- the `for j in range(7): mask[i] = 1; i += 1; if wdaymask[i] == wkst: break` loop -/
def markWeek (wdaymask : List Int) (wkst : Int) : Nat → List Int → Int → Py.R (List Int)
  | 0, mask, _ => .ok mask
  | n + 1, mask, i =>
    match setIdx mask i 1 with
    | .error e => .error e
    | .ok mask' =>
      match Py.getIdx wdaymask (i + 1) with
      | .error e => .error e
      | .ok w => if w == wkst then .ok mask' else markWeek wdaymask wkst n mask' (i + 1)

/-- one BYWEEKNO member of the loop at lines 1171-1186 -/
def wnoStep (wdaymask : List Int) (wkst no1wkst numweeks back : Int) (mask : List Int) (n0 : Int) :
    Py.R (List Int) :=
  let n := if n0 < 0 then n0 + numweeks + 1 else n0
  if ¬ (0 < n ∧ n ≤ numweeks) then .ok mask
  else
    let i := if n > 1 then no1wkst + (n - 1) * 7 - back else no1wkst
    markWeek wdaymask wkst 7 mask i

/-- `lnumweeks` (lines 1203-1216, after the fix of D-C01f): the number of weeks of last year, or −1 -/
def lnumweeksOf (wkst : Int) (byweekno : List Int) (year yearlen yearweekday no1wkst : Int) : Int :=
  if !(byweekno.contains (-1)) then
    let lyearlen : Int := 365 + (if Cal.isLeap (year - 1) then 1 else 0)
    -- (self.yearweekday - lyearlen) % 7: no date(year-1, 1, 1), which does not exist for year 1
    let lyearweekday := Py.fmod (yearweekday - lyearlen) 7
    let lno1wkst := Py.fmod (7 - lyearweekday + wkst) 7
    if lno1wkst ≥ 4 then
      52 + Py.fdiv (Py.fmod (lyearlen + Py.fmod (lyearweekday - wkst) 7) 7) 4
    else
      52 + Py.fdiv (Py.fmod (yearlen - no1wkst) 7) 4
  else -1

/-- `rebuild`, lines 1157-1222: the week-number mask -/
def buildWnomask (wkst : Int) (byweekno : List Int) (year yearlen yearweekday : Int)
    (wdaymask : List Int) : Py.R (List Int) :=
  let mask0 : List Int := List.replicate (yearlen + 7).toNat 0
  let firstwkst := Py.fmod (7 - yearweekday + wkst) 7
  let no1wkst := if firstwkst ≥ 4 then 0 else firstwkst
  let wyearlen := if firstwkst ≥ 4 then yearlen + Py.fmod (yearweekday - wkst) 7 else yearlen - firstwkst
  let numweeks := Py.fdiv wyearlen 7 + Py.fdiv (Py.fmod wyearlen 7) 4
  let back := if no1wkst ≠ firstwkst then 7 - firstwkst else 0
  match byweekno.foldlM (wnoStep wdaymask wkst no1wkst numweeks back) mask0 with
  | .error e => .error e
  | .ok mask1 =>
    -- next year's week 1, when it starts inside this year
    match (if byweekno.contains 1 ∧ no1wkst + numweeks * 7 - back < yearlen
           then markWeek wdaymask wkst 7 mask1 (no1wkst + numweeks * 7 - back) else .ok mask1) with
    | .error e => .error e
    | .ok mask2 =>
      -- the days before the first week start, which belong to last year's last week
      if no1wkst ≠ 0 ∧ byweekno.contains (lnumweeksOf wkst byweekno year yearlen yearweekday no1wkst) then
        (intRange 0 no1wkst).foldlM (fun mask i => setIdx mask i 1) mask2
      else .ok mask2

/-- one `(wday, n)` of the nth-weekday loop inside a `(first, last)` range (last already −1) -/
def markNth (wdaymask : List Int) (first last : Int) (mask : List Int) (wn : Int × Int) : Py.R (List Int) :=
  let wday := wn.1
  let n := wn.2
  if n < 0 then
    let i := last + (n + 1) * 7
    if i < first then .ok mask
    else match Py.getIdx wdaymask i with
      | .error e => .error e
      | .ok w =>
        let i' := i - Py.fmod (w - wday) 7
        if first ≤ i' ∧ i' ≤ last then setIdx mask i' 1 else .ok mask
  else
    let i := first + (n - 1) * 7
    if i > last then .ok mask
    else match Py.getIdx wdaymask i with
      | .error e => .error e
      | .ok w =>
        let i' := i + Py.fmod (7 - w + wday) 7
        if first ≤ i' ∧ i' ≤ last then setIdx mask i' 1 else .ok mask

/-- `rebuild`, lines 1224-1253 -/
def buildNwdaymask (r : Rule) (yearlen : Int) (mrange wdaymask : List Int) (month : Int) :
    Py.R (Option (List Int)) :=
  match r.bynweekday with
  | some (nw0 :: nws) => do
    let nwl := nw0 :: nws
    let ranges : List (List Int) ←
      if r.freq == 0 then
        if truthy r.bymonth then
          (r.bymonth.getD []).mapM (fun m => Py.slice mrange (some (m - 1)) (some (m + 1)) none)
        else pure [[0, yearlen]]
      else if r.freq == 1 then do
        let s ← Py.slice mrange (some (month - 1)) (some (month + 1)) none
        pure [s]
      else pure []
    if ranges.isEmpty then pure none
    else
      let mask0 : List Int := List.replicate yearlen.toNat 0
      let mask ← ranges.foldlM (fun mask rg =>
        match rg with
        | [first, last] => nwl.foldlM (markNth wdaymask first (last - 1)) mask
        | _ => throw PyErr.ValueError) mask0      -- `for first, last in ranges` unpacking
      pure (some mask)
  | _ => pure none

/-- `rebuild`, lines 1255-1259 -/
def buildEastermask (byeaster : List Int) (year yearlen yearordinal : Int) : Py.R (List Int) := do
  let mask0 : List Int := List.replicate (yearlen + 7).toNat 0
  let e ← Gen.easter year 3
  if ¬ Cal.validDate e.1 e.2.1 e.2.2 then throw PyErr.ValueError
  let eyday := Cal.toOrdinal e.1 e.2.1 e.2.2 - yearordinal
  byeaster.foldlM (fun mask off => setIdx mask (eyday + off) 1) mask0

/-- the year-level fields of `rebuild` (lines 1134-1152), before the computed masks -/
def baseInfo (year : Int) : Info :=
  let leap := Cal.isLeap year
  { yearlen := if leap then 366 else 365,
    nextyearlen := if Cal.isLeap (year + 1) then 366 else 365,
    yearordinal := Cal.toOrdinal year 1 1,
    yearweekday := Cal.weekdayOfOrd (Cal.toOrdinal year 1 1),
    mmask := if leap then Gen.M366MASK else Gen.M365MASK,
    mdaymask := if leap then Gen.MDAY366MASK else Gen.MDAY365MASK,
    nmdaymask := if leap then Gen.NMDAY366MASK else Gen.NMDAY365MASK,
    wdaymask := Gen.WDAYMASK.drop (Cal.weekdayOfOrd (Cal.toOrdinal year 1 1)).toNat,   -- WDAYMASK[wday:]
    mrange := if leap then Gen.M366RANGE else Gen.M365RANGE,
    wnomask := none, nwdaymask := none, eastermask := none }

def wnomaskOf (r : Rule) (year : Int) (b : Info) : Py.R (Option (List Int)) :=
  match r.byweekno with
  | some (w :: ws) =>
    match buildWnomask r.wkst (w :: ws) year b.yearlen b.yearweekday b.wdaymask with
    | .ok m => .ok (some m)
    | .error e => .error e
  | _ => .ok none

def eastermaskOf (r : Rule) (year : Int) (b : Info) : Py.R (Option (List Int)) :=
  match r.byeaster with
  | some (e :: es) =>
    match buildEastermask (e :: es) year b.yearlen b.yearordinal with
    | .ok m => .ok (some m)
    | .error e => .error e
  | _ => .ok none

/-- `_iterinfo.rebuild(year, month)`.  The implementation caches on `(lastyear, lastmonth)`; every
    mask is a function of `(rule, year, month)` and is recomputed whenever either changes, so the
    model is the pure function.  Order of evaluation (and so of the exception that escapes):
    `date(year, 1, 1)`, week-number mask, nth-weekday mask, easter mask. -/
def rebuild (r : Rule) (year month : Int) : Py.R Info :=
  if year < 1 ∨ year > 9999 then .error .ValueError       -- datetime.date(year, 1, 1)
  else
    match wnomaskOf r year (baseInfo year) with
    | .error e => .error e
    | .ok wno =>
      match buildNwdaymask r (baseInfo year).yearlen (baseInfo year).mrange (baseInfo year).wdaymask month with
      | .error e => .error e
      | .ok nwd =>
        match eastermaskOf r year (baseInfo year) with
        | .error e => .error e
        | .ok em => .ok { baseInfo year with wnomask := wno, nwdaymask := nwd, eastermask := em }

/-! ### the iteration cursor -/

structure Cursor where
  year : Int
  month : Int
  day : Int
  hour : Int
  minute : Int
  second : Int
  weekday : Int
  deriving Repr, DecidableEq, Inhabited

structure State where
  cur : Cursor
  info : Info
  timeset : List HMS
  count : Option Int
  deriving Repr, DecidableEq, Inhabited

inductive Status where
  | countReached | untilPassed | maxYear | error (e : PyErr) | outOfFuel
  deriving Repr, DecidableEq, Inhabited

def Status.name : Status → String
  | .countReached => "stop count" | .untilPassed => "stop until" | .maxYear => "stop maxyear"
  | .error e => "err " ++ e.name | .outOfFuel => "fuel"

/-- the end of the `wdayset` loop: `dset[i] = i; i += 1; if wdaymask[i] == wkst: break` (7 rounds) -/
def wdaysetEnd (info : Info) (wkst : Int) : Nat → Int → Py.R Int
  | 0, i => .ok i
  | n + 1, i =>
    if i < 0 ∨ i ≥ info.yearlen + 7 then .error .IndexError            -- dset[i] = i
    else match Py.getIdx info.wdaymask (i + 1) with
      | .error e => .error e
      | .ok w => if w == wkst then .ok (i + 1) else wdaysetEnd info wkst n (i + 1)

/-- `getdayset(year, month, day)` as the list `dayset[start:end]` -/
def dayset (r : Rule) (info : Info) (c : Cursor) : Py.R (List Int) :=
  if r.freq == 0 then .ok (intRange 0 info.yearlen)
  else if r.freq == 1 then
    match Py.getIdx info.mrange (c.month - 1), Py.getIdx info.mrange c.month with
    | .ok s, .ok e => .ok (intRange s e)
    | .error e, _ => .error e
    | _, .error e => .error e
  else if ¬ Cal.validDate c.year c.month c.day then .error .ValueError      -- datetime.date(y, m, d)
  else
    let i := Cal.toOrdinal c.year c.month c.day - info.yearordinal
    if r.freq == 2 then
      match wdaysetEnd info r.wkst 7 i with
      | .ok e => .ok (intRange i e)
      | .error e => .error e
    else if i < 0 ∨ i ≥ info.yearlen then .error .IndexError              -- dset[i] = i
    else .ok [i]

/-- `a or b` on possibly-raising operands -/
def orR (a : Py.R Bool) (b : Unit → Py.R Bool) : Py.R Bool :=
  match a with
  | .ok true => .ok true
  | .ok false => b ()
  | .error e => .error e

/-- `cond and not mask[i]` for an optional 0/1 mask -/
def maskMiss (cond : Bool) (mask : Option (List Int)) (i : Int) : Py.R Bool :=
  if cond then
    match mask with
    | none => .error .TypeError                  -- `None[i]`
    | some m => match Py.getIdx m i with
      | .ok v => .ok (v == 0)
      | .error e => .error e
  else .ok false

/-- the condition of lines 840-852: `true` = the day is removed from the set -/
def dayFiltered (r : Rule) (info : Info) (i : Int) : Py.R Bool :=
  orR (if truthy r.bymonth then
         match Py.getIdx info.mmask i with
         | .ok m => .ok (!(memO m r.bymonth))
         | .error e => .error e
       else .ok false) fun _ =>
  orR (maskMiss (truthy r.byweekno) info.wnomask i) fun _ =>
  orR (if truthy r.byweekday then
         match Py.getIdx info.wdaymask i with
         | .ok w => .ok (!(memO w r.byweekday))
         | .error e => .error e
       else .ok false) fun _ =>
  orR (match info.nwdaymask with
       | some (x :: xs) => (match Py.getIdx (x :: xs) i with
          | .ok v => .ok (v == 0)
          | .error e => .error e)
       | _ => .ok false) fun _ =>
  orR (maskMiss (truthy r.byeaster) info.eastermask i) fun _ =>
  orR (if !r.bymonthday.isEmpty || !r.bynmonthday.isEmpty then
         match Py.getIdx info.mdaymask i with
         | .error e => .error e
         | .ok md =>
           if r.bymonthday.contains md then .ok false
           else match Py.getIdx info.nmdaymask i with
             | .error e => .error e
             | .ok nmd => .ok (!(r.bynmonthday.contains nmd))
       else .ok false) fun _ =>
  (if truthy r.byyearday then
     .ok ((i < info.yearlen && !(memO (i + 1) r.byyearday) && !(memO (-info.yearlen + i) r.byyearday)) ||
          (i ≥ info.yearlen && !(memO (i + 1 - info.yearlen) r.byyearday) &&
            !(memO (-info.nextyearlen + i - info.yearlen) r.byyearday)))
   else .ok false)

/-- the filter loop: the surviving entries of `dayset[start:end]` and the `filtered` flag -/
def filterDays (r : Rule) (info : Info) : List Int → Py.R (List Int × Bool)
  | [] => .ok ([], false)
  | i :: is =>
    match dayFiltered r info i with
    | .error e => .error e
    | .ok f =>
      match filterDays r info is with
      | .error e => .error e
      | .ok (l, fl) => if f then .ok (l, true) else .ok (i :: l, fl)

/-- `date.fromordinal(n)`: `ValueError` outside 1..3652059 -/
def checkOrd (n : Int) : Py.R Int :=
  if 1 ≤ n ∧ n ≤ Cal.maxOrdinal then .ok n else .error .ValueError

/-- `until and res > until` -/
def afterUntil (r : Rule) (x : Inst) : Bool :=
  match r.untilDT with
  | some u => x.micros > u.toMicros
  | none => false

/-- the emission loop over the sorted results of one period: until / dtstart / count.
    Returns the yielded values, the terminal status if the generator returned, the new count. -/
def emit (r : Rule) : List Inst → Option Int → List Inst × Option Status × Option Int
  | [], c => ([], none, c)
  | x :: xs, c =>
    if afterUntil r x then ([], some .untilPassed, c)
    else if x.micros ≥ r.dtstart.toMicros then
      match c with
      | some n =>
        if n - 1 < 0 then ([], some .countReached, some (n - 1))
        else
          let rest := emit r xs (some (n - 1))
          (x :: rest.1, rest.2.1, rest.2.2)
      | none =>
        let rest := emit r xs none
        (x :: rest.1, rest.2.1, rest.2.2)
    else emit r xs c

/-- BYSETPOS: one position → the selected result, `none` when the `IndexError` is swallowed -/
def selectPos (yearordinal : Int) (days : List Int) (timeset : List HMS) (pos : Int) : Py.R (Option Inst) :=
  let T : Int := timeset.length
  let dp := if pos < 0 then Py.divmod pos T else Py.divmod (pos - 1) T
  match Py.getIdx days dp.1, Py.getIdx timeset dp.2 with
  | .ok i, .ok t =>
    match checkOrd (yearordinal + i) with
    | .ok o => .ok (some { ord := o, h := t.1, m := t.2.1, s := t.2.2 })
    | .error e => .error e
  | _, _ => .ok none

def ltInst (a b : Inst) : Bool := a.secs < b.secs

/-- lines 859-874: the loop over `bysetpos` accumulating `poslist` without duplicates -/
def poslistLoop (yearordinal : Int) (days : List Int) (timeset : List HMS) : List Int → List Inst → Py.R (List Inst)
  | [], acc => .ok acc
  | pos :: ps, acc =>
    match selectPos yearordinal days timeset pos with
    | .error e => .error e
    | .ok (some res) => poslistLoop yearordinal days timeset ps (if acc.contains res then acc else acc ++ [res])
    | .ok none => poslistLoop yearordinal days timeset ps acc

/-- lines 857-875: `poslist` (de-duplicated, sorted) -/
def buildPoslist (yearordinal : Int) (days : List Int) (timeset : List HMS) (bysetpos : List Int) :
    Py.R (List Inst) :=
  match poslistLoop yearordinal days timeset bysetpos [] with
  | .ok l => .ok (sortBy ltInst l)
  | .error e => .error e

/-- lines 889-905 without the emission tests: days × timeset in order, up to the first
    `fromordinal` failure -/
def expandDays (yearordinal : Int) (timeset : List HMS) : List Int → List Inst × Option PyErr
  | [] => ([], none)
  | i :: is =>
    match checkOrd (yearordinal + i) with
    | .error e => ([], some e)
    | .ok o =>
      let rest := expandDays yearordinal timeset is
      (timeset.map (fun t => ({ ord := o, h := t.1, m := t.2.1, s := t.2.2 } : Inst)) ++ rest.1, rest.2)

/-! ### timesets of the sub-daily frequencies -/

def htimeset (r : Rule) (hour : Int) : Py.R (List HMS) :=
  buildTimeset [hour] (r.byminute.getD []) (r.bysecond.getD [])

def mtimeset (r : Rule) (hour minute : Int) : Py.R (List HMS) :=
  buildTimeset [hour] [minute] (r.bysecond.getD [])

def stimeset (hour minute second : Int) : Py.R (List HMS) := do
  let t ← mkTime hour minute second
  pure [t]

def gettimeset (r : Rule) (hour minute second : Int) : Py.R (List HMS) :=
  if r.freq == 4 then htimeset r hour
  else if r.freq == 5 then mtimeset r hour minute
  else stimeset hour minute second

/-- `__mod_distance(value, byxxx, base)`; `none` = the function falls off its loop (returns None) -/
def modDistance (interval : Int) (byxxx : List Int) (base : Int) : Nat → Int → Int → Option (Int × Int)
  | 0, _, _ => none
  | n + 1, acc, value =>
    let dm := Py.divmod (value + interval) base
    let acc' := acc + dm.1
    if byxxx.contains dm.2 then some (acc', dm.2) else modDistance interval byxxx base n acc' dm.2

/-! ### period advance -/

/-- lines 1024-1037, the `while day > daysinmonth` loop; `none` = `return` at MAXYEAR -/
def rollDays : Nat → Int → Int → Int → Option (Int × Int × Int)
  | 0, y, m, d => some (y, m, d)
  | n + 1, y, m, d =>
    if d > Cal.daysInMonth y m then
      let d' := d - Cal.daysInMonth y m
      let m' := m + 1
      if m' == 13 then
        if y + 1 > 9999 then none else rollDays n (y + 1) 1 d'
      else rollDays n y m' d'
    else some (y, m, d)

/-- `if fixday and day > 28: …` -/
def fixDay (r : Rule) (st : State) (fixday : Bool) : Except Status State :=
  let c := st.cur
  if fixday && c.day > 28 then
    if c.day > Cal.daysInMonth c.year c.month then
      match rollDays c.day.toNat c.year c.month c.day with
      | none => .error .maxYear
      | some (y, m, d) =>
        match rebuild r y m with
        | .error e => .error (.error e)
        | .ok info => .ok { st with cur := { c with year := y, month := m, day := d }, info := info }
    else .ok st
  else .ok st

/-- the MINUTELY reachability loop (lines 960-979): state `(minute, hour, day, fixday)` -/
def minutelyLoop (r : Rule) : Nat → Int → Int → Int → Bool → Except Status (Int × Int × Int × Bool)
  | 0, _, _, _, _ => .error (.error .ValueError)
  | n + 1, minute, hour, day, fixday =>
    let step : Option (Int × Int) :=
      if truthy r.byminute then modDistance r.interval (r.byminute.getD []) 60 60 0 minute
      else some (Py.divmod (minute + r.interval) 60)
    match step with
    | none => .error (.error .TypeError)
    | some (nhours, minute') =>
      let dh := Py.divmod (hour + nhours) 24
      let day' := if dh.1 ≠ 0 then day + dh.1 else day
      let fixday' := if dh.1 ≠ 0 then true else fixday
      if !(truthy r.byhour) || memO dh.2 r.byhour then .ok (minute', dh.2, day', fixday')
      else minutelyLoop r n minute' dh.2 day' fixday'

/-- the SECONDLY reachability loop (lines 994-1015): state `(second, minute, hour, day, fixday)` -/
def secondlyLoop (r : Rule) : Nat → Int → Int → Int → Int → Bool →
    Except Status (Int × Int × Int × Int × Bool)
  | 0, _, _, _, _, _ => .error (.error .ValueError)
  | n + 1, second, minute, hour, day, fixday =>
    let step : Option (Int × Int) :=
      if truthy r.bysecond then modDistance r.interval (r.bysecond.getD []) 60 60 0 second
      else some (Py.divmod (second + r.interval) 60)
    match step with
    | none => .error (.error .TypeError)
    | some (nminutes, second') =>
      let dm := Py.divmod (minute + nminutes) 60
      let hour1 := if dm.1 ≠ 0 then hour + dm.1 else hour
      let dh := if dm.1 ≠ 0 then Py.divmod hour1 24 else (0, hour1)
      let hour' := dh.2
      let day' := if dm.1 ≠ 0 ∧ dh.1 ≠ 0 then day + dh.1 else day
      let fixday' := if dm.1 ≠ 0 ∧ dh.1 ≠ 0 then true else fixday
      if (!(truthy r.byhour) || memO hour' r.byhour) &&
         (!(truthy r.byminute) || memO dm.2 r.byminute) &&
         (!(truthy r.bysecond) || memO second' r.bysecond) then .ok (second', dm.2, hour', day', fixday')
      else secondlyLoop r n second' dm.2 hour' day' fixday'

def liftR {α} (x : Py.R α) : Except Status α :=
  match x with
  | .ok v => .ok v
  | .error e => .error (.error e)

/-- "Handle frequency and interval" (lines 907-1037) -/
def advance (r : Rule) (st : State) (filtered : Bool) : Except Status State :=
  let c := st.cur
  if r.freq == 0 then
    let year := c.year + r.interval
    if year > 9999 then .error .maxYear
    else match rebuild r year c.month with
      | .error e => .error (.error e)
      | .ok info => .ok { st with cur := { c with year := year }, info := info }
  else if r.freq == 1 then
    let month := c.month + r.interval
    if month > 12 then
      let dm := Py.divmod month 12
      let month' := if dm.2 == 0 then 12 else dm.2
      let year' := if dm.2 == 0 then c.year + dm.1 - 1 else c.year + dm.1
      if year' > 9999 then .error .maxYear
      else match rebuild r year' month' with
        | .error e => .error (.error e)
        | .ok info => .ok { st with cur := { c with year := year', month := month' }, info := info }
    else match rebuild r c.year month with
      | .error e => .error (.error e)
      | .ok info => .ok { st with cur := { c with month := month }, info := info }
  else if r.freq == 2 then
    let day := if r.wkst > c.weekday then c.day + (-(c.weekday + 1 + (6 - r.wkst)) + r.interval * 7)
               else c.day + (-(c.weekday - r.wkst) + r.interval * 7)
    fixDay r { st with cur := { c with day := day, weekday := r.wkst } } true
  else if r.freq == 3 then
    fixDay r { st with cur := { c with day := c.day + r.interval } } true
  else if r.freq == 4 then
    let hour0 := if filtered then c.hour + Py.fdiv (23 - c.hour) r.interval * r.interval else c.hour
    let step : Option (Int × Int) :=
      if truthy r.byhour then modDistance r.interval (r.byhour.getD []) 24 24 0 hour0
      else some (Py.divmod (hour0 + r.interval) 24)
    match step with
    | none => .error (.error .TypeError)
    | some (ndays, hour) =>
      let day := if ndays ≠ 0 then c.day + ndays else c.day
      match gettimeset r hour c.minute c.second with
      | .error e => .error (.error e)
      | .ok ts => fixDay r { st with cur := { c with day := day, hour := hour }, timeset := ts } (ndays ≠ 0)
  else if r.freq == 5 then
    let minute0 := if filtered then c.minute + Py.fdiv (1439 - (c.hour * 60 + c.minute)) r.interval * r.interval
                   else c.minute
    let reps := (Py.fdiv 1440 ((Int.gcd r.interval 1440 : Nat) : Int)).toNat
    match minutelyLoop r reps minute0 c.hour c.day false with
    | .error s => .error s
    | .ok (minute, hour, day, fixday) =>
      match gettimeset r hour minute c.second with
      | .error e => .error (.error e)
      | .ok ts => fixDay r { st with cur := { c with day := day, hour := hour, minute := minute }, timeset := ts } fixday
  else if r.freq == 6 then
    let second0 := if filtered then
        c.second + Py.fdiv (86399 - (c.hour * 3600 + c.minute * 60 + c.second)) r.interval * r.interval
      else c.second
    let reps := (Py.fdiv 86400 ((Int.gcd r.interval 86400 : Nat) : Int)).toNat
    match secondlyLoop r reps second0 c.minute c.hour c.day false with
    | .error s => .error s
    | .ok (second, minute, hour, day, fixday) =>
      match gettimeset r hour minute second with
      | .error e => .error (.error e)
      | .ok ts => fixDay r { st with cur := { c with day := day, hour := hour, minute := minute, second := second },
                                     timeset := ts } fixday
  else .error (.error .KeyError)

/-! ### one period, and the iteration -/

/-- the results of the period at `st` (sorted), or the exception raised while computing them;
    `pending` = a `fromordinal` failure met after the listed results (non-BYSETPOS branch) -/
def periodResults (r : Rule) (st : State) : Py.R (List Inst × Option PyErr × Bool) :=
  match dayset r st.info st.cur with
  | .error e => .error e
  | .ok ds =>
    match filterDays r st.info ds with
    | .error e => .error e
    | .ok (days, filtered) =>
      if truthy r.bysetpos && !st.timeset.isEmpty then
        match buildPoslist st.info.yearordinal days st.timeset (r.bysetpos.getD []) with
        | .error e => .error e
        | .ok l => .ok (l, none, filtered)
      else
        let x := expandDays st.info.yearordinal st.timeset days
        .ok (x.1, x.2, filtered)

/-- one turn of the `while True` loop: the yielded values and either the next state or the
    terminal status -/
def step (r : Rule) (st : State) : List Inst × Except Status State :=
  match periodResults r st with
  | .error e => ([], .error (.error e))
  | .ok (cands, pending, filtered) =>
    let em := emit r cands st.count
    match em.2.1 with
    | some s => (em.1, .error s)
    | none =>
      match pending with
      | some e => (em.1, .error (.error e))
      | none => (em.1, advance r { st with count := em.2.2 } filtered)

/-- the state before the first period (lines 784-832) -/
def init (r : Rule) : Py.R State := do
  let d := r.dtstart
  let info ← rebuild r d.y d.m
  let timeset ←
    if r.freq < 4 then pure (r.timeset.getD [])
    else if (r.freq ≥ 4 && truthy r.byhour && !(memO d.hh r.byhour)) ||
            (r.freq ≥ 5 && truthy r.byminute && !(memO d.mm r.byminute)) ||
            (r.freq ≥ 6 && truthy r.bysecond && !(memO d.ss r.bysecond)) then pure []
    else gettimeset r d.hh d.mm d.ss
  pure { cur := { year := d.y, month := d.m, day := d.d, hour := d.hh, minute := d.mm, second := d.ss,
                  weekday := d.weekday },
         info, timeset, count := r.count }

/-- `fuel` periods from `st` -/
def run (r : Rule) : Nat → State → List Inst × Status
  | 0, _ => ([], .outOfFuel)
  | n + 1, st =>
    match step r st with
    | (out, .error s) => (out, s)
    | (out, .ok st') =>
      let rest := run r n st'
      (out ++ rest.1, rest.2)

/-- the values yielded during the first `fuel` periods, and how the generator ended -/
def iter (r : Rule) (fuel : Nat) : List Inst × Status :=
  match init r with
  | .error e => ([], .error e)
  | .ok st => run r fuel st

def iterDT (r : Rule) (fuel : Nat) : List DT × Status :=
  let x := iter r fuel
  (x.1.map Inst.toDT, x.2)

end RRule
