/-
  Model/Cache.lean — `rrulebase.__iter__` and `rrulebase._iter_cached` (rrule.py 105-149) as a
  state machine at statement granularity, for any number of iterators / query threads over one
  cached rule.

  The underlying recurrence (`self._iter()`, i.e. `self._cache_gen`) is an arbitrary finite list
  `src`; `next(gen)` at position `genPos` returns `src[genPos]`, and at the end publishes
  `self._len = total` and raises StopIteration (rrule.py 871-906, 1424).

  Program counters are the source lines (numbering of the file as modelled; the harness
  normalises real line numbers relative to the `def` line):

      105 def __iter__(self):                       124 def _iter_cached(self):
      106     if self._cache_complete:              125     i = 0
      107         return iter(self._cache)          126     gen = self._cache_gen
      108     elif self._cache is None:             127     cache = self._cache
      109         return self._iter()               128     acquire = self._cache_lock.acquire
      110     else:                                 129     release = self._cache_lock.release
      111         return self._iter_cached()        130     while gen:
                                                    131         if i == len(cache):
                                                    132             acquire()
                                                    133             try:
                                                    134                 if self._cache_complete and cache is self._cache:
                                                    135                     break
                                                    136                 try:
                                                    137                     for j in range(10):
                                                    138                         cache.append(advance_iterator(gen))
                                                    139                 except StopIteration:
                                                                                gen = None
                                                                                if cache is self._cache:
                                                    140                             self._cache_gen = None
                                                    141                             self._cache_complete = True
                                                    142                     break
                                                                        except Exception:
                                                                            if i == len(cache):
                                                                                raise
                                                    143             finally:
                                                    144                 release()
                                                    145         yield cache[i]
                                                    146         i += 1
                                                    147     while i < len(cache):
                                                    148         yield cache[i]
                                                    149         i += 1

  (Listing of the repaired file: pending_fixes/D-C11-genraise.diff + D-C10-stale.diff.  The unnumbered statements are
  folded into the step before them: they touch only locals, the lock, or compare `cache is self._cache`, which is
  constantly true for the iterators of THIS machine — one generation of the object; an iterator of an invalidated
  generation runs on that generation's own machine and never writes the object's flags: Model/RRuleSet.lean.)

  One `step` = one line event of CPython's tracer: the thread executes the statement it is
  paused at and pauses at the next one.  `acquire()` (line 132) is enabled only when the lock is
  free.  A thread is a *consumer* described by a `Queries.Query`: after every yielded value it
  may drop its iterator (`Queries.stops`), and query methods first look at `_cache_complete`
  (`count`: at `_len`) — the fast paths.
-/
import DateutilVerif.Model.Queries

namespace Cache
open Queries Py

abbrev Tid := Nat

inductive PC where
  | start                  -- thread not started
  | entry                  -- first line of the query method: `if self._cache_complete:` / `if self._len is None:`
  | l106 | l107 | l108 | l111
  | listIter               -- iterating `iter(self._cache)` (no shared state touched any more)
  | l125 | l126 | l127 | l128 | l129 | l130 | l131 | l132 | l133 | l134 | l135 | l136
  | l137 | l138 | l139 | l140 | l141 | l142 | l144 | l145 | l146 | l147 | l148 | l149
  | done
  deriving DecidableEq, Repr, Inhabited

def PC.line : PC → Nat
  | .start => 0 | .entry => 1 | .l106 => 106 | .l107 => 107 | .l108 => 108 | .l111 => 111
  | .listIter => 2 | .l125 => 125 | .l126 => 126 | .l127 => 127 | .l128 => 128 | .l129 => 129
  | .l130 => 130 | .l131 => 131 | .l132 => 132 | .l133 => 133 | .l134 => 134 | .l135 => 135
  | .l136 => 136 | .l137 => 137 | .l138 => 138 | .l139 => 139 | .l140 => 140 | .l141 => 141
  | .l142 => 142 | .l144 => 144 | .l145 => 145 | .l146 => 146 | .l147 => 147 | .l148 => 148
  | .l149 => 149 | .done => 3

/-- lines executed while holding the lock (after `acquire()` returned, up to and including `release()`) -/
def PC.inCrit : PC → Bool
  | .l133 | .l134 | .l135 | .l136 | .l137 | .l138 | .l139 | .l140 | .l141 | .l142 | .l144 => true
  | _ => false

/-- the state shared by all iterators of one rule -/
structure Shared where
  src : List Int            -- what `self._iter()` yields (ghost)
  cache : List Int          -- `self._cache`
  complete : Bool           -- `self._cache_complete`
  genPos : Nat              -- how many values `self._cache_gen` has produced
  genNone : Bool            -- `self._cache_gen is None`
  lock : Option Tid         -- owner of `self._cache_lock`
  len : Option Nat          -- `self._len`
  endErr : Option PyErr := none   -- (ghost) how the underlying generator ends after yielding all of `src`: `none` = StopIteration
                                  -- (publishing `_len`), `some E` = it raises E (and, being a `_restartable`, raises E again
                                  -- whenever it is asked for that value again)
  deriving DecidableEq, Repr, Inhabited

/-- one iterator / query thread -/
structure Iter where
  q : Query
  pc : PC := .start
  i : Nat := 0              -- local `i`
  j : Nat := 0              -- appends done in the current `for j in range(10)`
  hasGen : Bool := false    -- local `gen` is not None
  brk : Bool := false       -- the `finally` at 144 was entered through a `break`
  yielded : List Int := []  -- values received by the consumer so far
  pending : List Int := []  -- rest of the list iterator (line 107 path)
  res : Option Res := none  -- the consumer's answer, once finished
  crash : Option PyErr := none   -- an exception escaped (IndexError at 145/148, TypeError at 147)
  deriving DecidableEq, Repr, Inhabited

structure State where
  sh : Shared
  its : List Iter
  deriving DecidableEq, Repr, Inhabited

/-- the consumer's answer when its iterator is exhausted or dropped after `ys`;
    `count()` returns `self._len` -/
def answer (sh : Shared) (q : Query) (ys : List Int) : Res :=
  match q with
  | .count => match sh.len with | some n => .nat n | none => .val none
  | _ => gen q ys

def finish (sh : Shared) (it : Iter) : Iter :=
  { it with pc := .done, res := some (answer sh it.q it.yielded) }

/-- the consumer receives `x` (a `yield`), then either drops the iterator or asks for more -/
def receive (sh : Shared) (it : Iter) (x : Int) (next : PC) : Iter :=
  let it' := { it with yielded := it.yielded ++ [x] }
  if stops it'.q it'.yielded then finish sh it' else { it' with pc := next }

def crashWith (it : Iter) (e : PyErr) : Iter :=
  { it with pc := .done, crash := some e, res := some (.err e) }

/-- the test on the first line of a query method: `self._cache_complete` (`count`: `self._len is not None`) -/
def entryKnown (sh : Shared) : Query → Bool
  | .count => sh.len.isSome
  | _ => sh.complete

/-- the answer on the fast path -/
def entryRes (sh : Shared) : Query → Res
  | .count => answer sh .count []
  | q => fast q sh.cache

/-- the generator's own exception E reaches the consumer (it is the consumer's RESULT, exactly as on an uncached
    object; `crash` stays reserved for exceptions the caching code itself would cause) -/
def raiseTo (it : Iter) (e : PyErr) : Iter :=
  { it with pc := .done, res := some (.err e) }

/-- line 138, `cache.append(advance_iterator(gen))`, with its three outcomes: the next value; StopIteration with
    `self._len = total` published (rrule.py `_iter`, last statement); or the generator raises E.  In the last case
    (repaired code) `_restartable.__next__` has replaced the dead generator by a fresh one at the same position, so
    nothing of the shared state changes, and `except Exception: if i == len(cache): raise` (lines 143-147 of the
    repaired file) either lets E escape through the `finally` (release + raise: ONE step here — the handler
    touches only locals and the lock) or, when this fill has already produced the value the consumer asked for,
    falls through to the `finally` like a completed batch: the error is reported when position `len(cache)` itself
    is requested. -/
def step138 (sh : Shared) (it : Iter) : Option (Shared × Iter) :=
  match sh.src[sh.genPos]? with
  | some x => some ({ sh with cache := sh.cache ++ [x], genPos := sh.genPos + 1 },
                    { it with j := it.j + 1, pc := .l137 })
  | none =>
    match sh.endErr with
    | none => some ({ sh with len := some sh.genPos }, { it with pc := .l139 })
    | some e =>
      if it.i == sh.cache.length then some ({ sh with lock := none }, raiseTo it e)
      else some (sh, { it with brk := false, pc := .l144 })

/-- one statement of thread `t`; `none` = not enabled (blocked in `acquire()`, or finished) -/
def stepIter (sh : Shared) (t : Tid) (it : Iter) : Option (Shared × Iter) :=
  match it.pc with
  | .start => some (sh, { it with pc := if hasEntryCheck it.q then .entry else .l106 })
  | .entry =>
    -- `if self._cache_complete: return self._cache[item]` …  /  count: `if self._len is None`
    some (sh, if entryKnown sh it.q then { it with pc := .done, res := some (entryRes sh it.q) }
              else { it with pc := .l106 })
  | .l106 => some (sh, { it with pc := if sh.complete then .l107 else .l108 })
  | .l107 =>
    let it' := { it with pending := sh.cache }
    some (sh, if stops it.q [] then finish sh it' else { it' with pc := .listIter })
  | .l108 => some (sh, { it with pc := .l111 })          -- `self._cache is None` is false on a cached rule
  | .l111 =>
    -- the generator object is created; a consumer that never calls next() drops it unstarted
    some (sh, if stops it.q [] then finish sh it else { it with pc := .l125 })
  | .listIter =>
    some (sh, match it.pending with
              | [] => finish sh it
              | x :: rest => receive sh { it with pending := rest } x .listIter)
  | .l125 => some (sh, { it with i := 0, pc := .l126 })
  | .l126 => some (sh, { it with hasGen := !sh.genNone, pc := .l127 })
  | .l127 => some (sh, { it with pc := .l128 })
  | .l128 => some (sh, { it with pc := .l129 })
  | .l129 => some (sh, { it with pc := .l130 })
  | .l130 => some (sh, { it with pc := if it.hasGen then .l131 else .l147 })
  | .l131 => some (sh, { it with pc := if it.i == sh.cache.length then .l132 else .l145 })
  | .l132 =>
    match sh.lock with
    | some _ => none
    | none => some ({ sh with lock := some t }, { it with pc := .l133 })
  | .l133 => some (sh, { it with pc := .l134 })
  | .l134 => some (sh, { it with pc := if sh.complete then .l135 else .l136 })
  | .l135 => some (sh, { it with brk := true, pc := .l144 })
  | .l136 => some (sh, { it with j := 0, pc := .l137 })
  | .l137 => some (sh, if it.j < 10 then { it with pc := .l138 } else { it with brk := false, pc := .l144 })
  | .l138 => step138 sh it
  | .l139 => some (sh, { it with pc := .l140 })
  | .l140 => some ({ sh with genNone := true }, { it with hasGen := false, pc := .l141 })
  | .l141 => some ({ sh with complete := true }, { it with pc := .l142 })
  | .l142 => some (sh, { it with brk := true, pc := .l144 })
  | .l144 => some ({ sh with lock := none }, { it with pc := if it.brk then .l147 else .l145 })
  | .l145 =>
    some (sh, match sh.cache[it.i]? with
              | some x => receive sh it x .l146
              | none => crashWith it .IndexError)
  | .l146 => some (sh, { it with i := it.i + 1, pc := .l130 })
  | .l147 =>
    -- `while i < len(cache):` (since the repair of D-C10-stale; `i < self._len` before: TypeError when `_len` is None)
    some (sh, if it.i < sh.cache.length then { it with pc := .l148 } else finish sh it)
  | .l148 =>
    some (sh, match sh.cache[it.i]? with
              | some x => receive sh it x .l149
              | none => crashWith it .IndexError)
  | .l149 => some (sh, { it with i := it.i + 1, pc := .l147 })
  | .done => none

def step (s : State) (t : Tid) : Option State :=
  match s.its[t]? with
  | none => none
  | some it =>
    match stepIter s.sh t it with
    | none => none
    | some (sh', it') => some { sh := sh', its := s.its.set t it' }

def initShared (src : List Int) (endErr : Option PyErr := none) : Shared :=
  { src := src, cache := [], complete := false, genPos := 0, genNone := false, lock := none, len := none, endErr := endErr }

/-- a fresh cached rule over `src` (its generator ending by StopIteration, or by raising `endErr`) and one (not yet
    started) thread per query -/
def init (src : List Int) (qs : List Query) (endErr : Option PyErr := none) : State :=
  { sh := initShared src endErr, its := qs.map (fun q => { q := q }) }

/-- run a schedule; a scheduled thread that is not enabled does nothing -/
def run (s : State) : List Tid → State
  | [] => s
  | t :: ts => run ((step s t).getD s) ts

/-- strict execution: every scheduled thread must be enabled -/
def exec (s : State) : List Tid → Option State
  | [] => some s
  | t :: ts => match step s t with
    | none => none
    | some s' => exec s' ts

def finished (s : State) (t : Tid) : Bool :=
  match s.its[t]? with
  | some it => it.pc == .done
  | none => true

/-! ### the program BEFORE fix a459cd4 (for contrast; Properties/C11.lean)

        if i == len(cache):
            acquire()
            if self._cache_complete:
                break                      # <- leaves the loop with the lock held
            try:
                for j in range(10):
                    cache.append(advance_iterator(gen))
            except StopIteration:
                self._cache_gen = gen = None
                self._cache_complete = True
                break                      # <- leaves the loop with the lock held
            release()

    i.e. the two `break`s (lines 135 and 142 of the numbering above) go straight to the tail loop
    (line 147) without passing through `release()`. -/

def stepIterOld (sh : Shared) (t : Tid) (it : Iter) : Option (Shared × Iter) :=
  match it.pc with
  | .l135 => some (sh, { it with pc := .l147 })
  | .l142 => some (sh, { it with pc := .l147 })
  | _ => stepIter sh t it

def stepOld (s : State) (t : Tid) : Option State :=
  match s.its[t]? with
  | none => none
  | some it =>
    match stepIterOld s.sh t it with
    | none => none
    | some (sh', it') => some { sh := sh', its := s.its.set t it' }

def runOld (s : State) : List Tid → State
  | [] => s
  | t :: ts => runOld ((stepOld s t).getD s) ts

/-- some thread is unfinished and no thread can move (w.r.t. a given step function) -/
def deadlocked (stepf : State → Tid → Option State) (s : State) : Bool :=
  (List.range s.its.length).any (fun t => !finished s t) &&
  (List.range s.its.length).all (fun t => (stepf s t).isNone)

/-! ### a generator that raises (former finding D-C11-genraise, repaired in /repo)

`endErr = some E`: the underlying generator yields all of `src` and then raises E (not StopIteration).  An UNCACHED
object raises E in every operation that asks for one value more than `src`; a cached one does the same
(Properties/C11.lean: `finished_answer` under any interleaving, `genraise_history` for histories of calls). -/

/-- the same query on an UNCACHED object whose generator raises E after `src`: the consumer (`for x in self._iter()`)
    gets the values one by one and E after the last, unless it has dropped the iterator before -/
def genRaising (q : Query) (src : List Int) (e : PyErr) : Res :=
  if (List.range (src.length + 1)).any (fun n => stops q (src.take n)) then gen q src else .err e

end Cache
