import DateutilVerif.Properties.C07
#print axioms C07.isoparse_render
#print axioms C07.isoparse_render_entry
#print axioms C07.parse_isodate_render
#print axioms C07.parse_isotime_render
#print axioms C07.parse_tzstr_render
#print axioms C07.weekdate_inverts_isocalendar
#print axioms C07.ordinaldate_inverts_yday
#print axioms C07.isoparse_inverts_datetime
#print axioms C07.fraction_truncates
#print axioms C07.fraction_extra_ignored
#print axioms C07.isoYear_in_range
#print axioms C07.parse_tzstr_render_gen
#print axioms C07.parse_isodate_scan_render_gen
#print axioms C07.isoparse_render_gen
#print axioms C07.isoparse_inverts_datetime_gen
#print axioms C07.parse_isotime_scan_render_gen
#print axioms C07.input_kinds_equivalent
