import DateutilVerif.Properties.C07
#print axioms C07.placeholder
