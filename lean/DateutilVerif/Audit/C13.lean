import DateutilVerif.Properties.C13
#print axioms C13.placeholder
