import DateutilVerif.Properties.C09
#print axioms C09.diff_loop_terminates
#print axioms C09.diff_inverse
#print axioms C09.diff_only_relative
#print axioms C09.diff_normalised
#print axioms C09.diff_largest_shift
#print axioms C09.diff_self_empty
#print axioms C09.diff_inverse_distinct_objects_partial
#print axioms C09.diff_inverse_distinct_objects_counterexample
#print axioms C09.gen_initDiff_eq_model
#print axioms C09.diff_loop_terminates_gen
#print axioms C09.diff_inverse_gen
#print axioms C09.diff_normalised_gen
#print axioms C09.diff_largest_shift_gen
