import DateutilVerif.Properties.C17
#print axioms C17.placeholder
