import DateutilVerif.Properties.C17
#print axioms C17.cache_transparent
#print axioms C17.cache_step
#print axioms C17.select_two
#print axioms C17.before_first_onset
#print axioms C17.ical_eq_range_cycle
#print axioms C17.get_semantics
#print axioms C17.parse_offset_empty
#print axioms C17.yearly_rule_occ
#print axioms C17.onsets_of_yearly_rule
#print axioms C17.ical_eq_tzstr_partial
#print axioms C17.parse_offset_bad_length
