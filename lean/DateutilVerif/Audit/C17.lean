import DateutilVerif.Properties.C17
import DateutilVerif.Properties.TzObjGen   -- translator tie (wt-iso): obligations about the re-translated tzical functions
#print axioms C17.cache_transparent
#print axioms C17.cache_step
#print axioms C17.select_two
#print axioms C17.before_first_onset
#print axioms C17.ical_eq_range_cycle
#print axioms C17.get_semantics
#print axioms C17.parse_offset_empty
#print axioms C17.yearly_rule_occ
#print axioms C17.onsets_of_yearly_rule
#print axioms C17.ical_eq_tzstr_partial
#print axioms C17.parse_offset_bad_length
#print axioms C17.gen_eq_model_parse_offset
#print axioms C17.gen_eq_model_find_compdt
#print axioms C17.gen_eq_model_find_comp
#print axioms C17.gen_eq_model_find_comp_idx
#print axioms C17.gen_eq_model_utcoffset
#print axioms C17.gen_eq_model_dst
#print axioms C17.cache_step_gen
#print axioms C17.gen_eq_model_tzname
