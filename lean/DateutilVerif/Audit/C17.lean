import DateutilVerif.Properties.C17
import DateutilVerif.Properties.C17Malformed   -- the translated `_parse_rfc` and the malformed classes
import DateutilVerif.Properties.TzObjGen   -- translator tie (wt-iso): obligations about the re-translated tzical functions
#print axioms C17.cache_transparent
#print axioms C17.cache_step
#print axioms C17.select_two
#print axioms C17.before_first_onset
#print axioms C17.ical_eq_range_cycle
#print axioms C17.get_semantics
#print axioms C17.parse_offset_empty
#print axioms C17.yearly_rule_occ
#print axioms C17.onsets_of_yearly_rule
#print axioms C17.ical_eq_tzstr_partial
#print axioms C17.parse_offset_bad_length
#print axioms C17.gen_eq_model_parse_offset
#print axioms C17.gen_eq_model_find_compdt
#print axioms C17.gen_eq_model_find_comp
#print axioms C17.gen_eq_model_find_comp_idx
#print axioms C17.gen_eq_model_utcoffset
#print axioms C17.gen_eq_model_dst
#print axioms C17.cache_step_gen
#print axioms C17.gen_eq_model_tzname
#print axioms C17.gen_eq_model_parse_rfc_line
#print axioms C17.gen_unfold_terminates
#print axioms C17.gen_eq_model_parse_rfc
#print axioms C17.parse_rfc_errors_ValueError
#print axioms C17.malformed_no_colon
#print axioms C17.malformed_zone_end
#print axioms C17.malformed_component_end
#print axioms C17.malformed_mismatched_end
#print axioms C17.malformed_unknown_component
#print axioms C17.malformed_unknown_property_in_component
#print axioms C17.malformed_unknown_property_in_zone
#print axioms C17.malformed_property_parameter
#print axioms C17.malformed_bad_rrule
#print axioms C17.zone_state_does_not_leak
#print axioms C17.component_state_does_not_leak
#print axioms C17.component_without_dtstart
