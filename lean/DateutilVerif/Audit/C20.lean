import DateutilVerif.Properties.C20
#print axioms C20.isoparse_sound
#print axioms C20.isoparse_entry_sound
#print axioms C20.isoparse_accepts_iff
#print axioms C20.parse_isodate_sound
#print axioms C20.parse_isotime_sound
#print axioms C20.parse_tzstr_sound
#print axioms C20.isoparse_errors_ValueError
#print axioms C20.isoparse_entry_errors_ValueError
#print axioms C20.non_ascii_rejected
#print axioms C20.parse_isodate_errors_ValueError
#print axioms C20.parse_isotime_errors_ValueError
#print axioms C20.parse_tzstr_errors_ValueError
#print axioms C20.sep_exact
#print axioms C20.fields_are_digits
