import DateutilVerif.Properties.C20
#print axioms C20.placeholder
