import DateutilVerif.Properties.C10
#print axioms C10.stub
