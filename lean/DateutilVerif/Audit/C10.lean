import DateutilVerif.Properties.C10
#print axioms C10.rset_iter_eq_spec
#print axioms C10.rset_iter_sorted
#print axioms C10.rset_len
#print axioms C10.history_inv
#print axioms C10.history_inv_any
#print axioms C10.history_inv_dropped
