import DateutilVerif.Properties.C10
#print axioms C10.rset_iter_eq_spec
#print axioms C10.rset_iter_sorted
#print axioms C10.rset_len
#print axioms C10.history_inv
#print axioms C10.history_inv_any
#print axioms C10.history_inv_dropped
#print axioms C10.gen_invalidate_eq_model
#print axioms C10.gen_invalidate_uncached
#print axioms C10.gen_rset_iter_eq_model
#print axioms C10.rset_iter_eq_spec_source
#print axioms C10.gen_genitem_eq_model
#print axioms C10.gen_mutators_eq_model
#print axioms C10.gen_base_init_eq_model
