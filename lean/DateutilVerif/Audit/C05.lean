import DateutilVerif.Properties.C05
#print axioms C05.placeholder
