import DateutilVerif.Properties.C05
#print axioms C05.mem_pre_iff
#print axioms C05.pre_card_le_two
#print axioms C05.ambiguous_iff
#print axioms C05.fold_irrelevant
#print axioms C05.exists_iff
#print axioms C05.fold_selects
#print axioms C05.fold_distinguishes
#print axioms C05.resolve_imaginary_of_exists
#print axioms C05.resolve_imaginary_gap
#print axioms C05.fromutc_spec
#print axioms C05.exists_of_preimage
#print axioms C05.preimage_of_exists
#print axioms C05.two_pre_iff
#print axioms C05.explicit_tz_wins
