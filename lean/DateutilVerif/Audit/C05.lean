import DateutilVerif.Properties.C05
import DateutilVerif.Properties.TzObjGen   -- translator tie (wt-iso): tzlocal
import DateutilVerif.Properties.TzGen   -- translator tie (wt-iso): obligations about the re-translated lookup functions
import DateutilVerif.Properties.TzHelpGen   -- translator tie for the module-level helpers (wt-tzfile)
#print axioms C05.mem_pre_iff
#print axioms C05.pre_card_le_two
#print axioms C05.ambiguous_iff
#print axioms C05.fold_irrelevant
#print axioms C05.exists_iff
#print axioms C05.fold_selects
#print axioms C05.fold_distinguishes
#print axioms C05.resolve_imaginary_of_exists
#print axioms C05.resolve_imaginary_gap
#print axioms C05.fromutc_spec
#print axioms C05.exists_of_preimage
#print axioms C05.preimage_of_exists
#print axioms C05.two_pre_iff
-- translator tie (wt-iso): Gen.* (Generated/TzKernels.lean) = model, and `_gen` twins
#print axioms C05.gen_eq_model_is_ambiguous
#print axioms C05.gen_eq_model_is_ambiguous_idx
#print axioms C05.gen_eq_model_offset_before
#print axioms C05.gen_eq_model_range_is_ambiguous
#print axioms C05.gen_eq_model_range_isdst
#print axioms C05.gen_eq_model_naive_isdst
#print axioms C05.ambiguous_iff_gen
#print axioms C05.gen_eq_model_tzinfo_is_ambiguous
#print axioms C05.gen_eq_model_tzinfo_fold_status
#print axioms C05.explicit_tz_wins
#print axioms C05.gen_eq_model_tzlocal_is_ambiguous
#print axioms C05.gen_eq_model_tzlocal_isdst
-- translator tie for the helpers (wt-tzfile): Gen.datetimeExists / datetimeAmbiguous / resolveImaginary (Generated/TzHelpKernels.lean) = helper models
#print axioms C05.gen_datetime_exists_eq_model
#print axioms C05.gen_datetime_ambiguous_eq_model
#print axioms C05.gen_datetime_ambiguous_fallback
#print axioms C05.gen_resolve_imaginary_eq_model
#print axioms C05.gen_datetime_exists_utc
#print axioms C05.exists_iff_helper
#print axioms C05.exists_iff_helper_aware
#print axioms C05.ambiguous_iff_helper
#print axioms C05.resolve_imaginary_gap_helper
#print axioms C05.resolve_imaginary_of_exists_helper
