import DateutilVerif.Properties.C02
#print axioms C02.convertyear_window
#print axioms C02.convertyear_century
#print axioms C02.adjustAmpm_table
#print axioms C02.lex_render_iso
#print axioms C02.parse_render_iso
#print axioms C02.parse_render_iso_offsets
#print axioms C02.parse_render_compact
#print axioms C02.parse_render_monthname
#print axioms C02.parse_render_ampm
#print axioms C02.parse_render_hms_letters
#print axioms C02.convertyear_window_inv
#print axioms C02.parse_render_numeric
#print axioms C02.proved_templates_have_theorems
#print axioms C02.offDescr_carries_offset
#print axioms C02.offDescr_local_iff
#print axioms C02.offDescr_zero_object
#print axioms C02.parse_render_compact_fraction
