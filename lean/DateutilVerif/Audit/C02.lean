import DateutilVerif.Properties.C02
#print axioms C02.convertyear_window
#print axioms C02.convertyear_century
#print axioms C02.adjustAmpm_table
