import DateutilVerif.Properties.C02
import DateutilVerif.Properties.ParserGen
#print axioms C02.convertyear_window
#print axioms C02.convertyear_century
#print axioms C02.adjustAmpm_table
#print axioms C02.lex_render_iso
#print axioms C02.parse_render_iso
#print axioms C02.parse_render_iso_offsets
#print axioms C02.parse_render_compact
#print axioms C02.parse_render_monthname
#print axioms C02.parse_render_ampm
#print axioms C02.parse_render_hms_letters
#print axioms C02.convertyear_window_inv
#print axioms C02.parse_render_numeric
#print axioms C02.proved_templates_have_theorems
#print axioms C02.offDescr_carries_offset
#print axioms C02.offDescr_local_iff
#print axioms C02.parse_render_compact_fraction
#print axioms ParserGen.gen_eq_model_ymd_append_str
#print axioms ParserGen.gen_eq_model_ymd_append_decimal
#print axioms ParserGen.gen_eq_model_ymd_append_int
#print axioms ParserGen.gen_eq_model_ymd_could_be_day
#print axioms ParserGen.gen_eq_model_ymd_resolve_from_stridxs
#print axioms ParserGen.gen_eq_model_ymd_resolve_ymd
