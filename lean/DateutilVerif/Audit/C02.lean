import DateutilVerif.Properties.C02
#print axioms C02.placeholder
