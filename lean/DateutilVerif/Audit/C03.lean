import DateutilVerif.Properties.C03
#print axioms C03.applyTo_eq_spec
#print axioms C03.monthShift_facts
#print axioms C03.month_shift_never_spills
#print axioms C03.weekday_fixed_point
#print axioms C03.weekday_minimal
#print axioms C03.sub_eq_add_neg
#print axioms C03.radd_eq_add
#print axioms C03.promotion_iff_hasTime
#print axioms C03.errors_only_out_of_range
#print axioms C03.yearday366_witness
#print axioms C03.yearday_spec_partial
#print axioms C03.nlyearday_spec
#print axioms C03.yearday366_defect
#print axioms C03.C08bridge_applyDelta
#print axioms C03.C08bridge_J
#print axioms C03.C08bridge_N
