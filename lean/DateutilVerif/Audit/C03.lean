import DateutilVerif.Properties.C03
#print axioms C03.stub
