import DateutilVerif.Properties.C08
import DateutilVerif.Properties.C08Abbr   -- fix D-C08b: accepted strings have letter abbreviations
import DateutilVerif.Properties.C08NoRule   -- strings without a rule part: the default-rule branch of tzstr._delta
import DateutilVerif.Properties.C08Pure   -- one object, many calls: answers are a function of the constructor arguments and the query
import DateutilVerif.Properties.TzGen   -- translator tie (wt-iso): obligations about the re-translated lookup functions
import DateutilVerif.Properties.TzObjGen   -- translator tie (wt-iso): tzrange/tzstr construction
#print axioms C08.rule_instant
#print axioms C08.transitions_eq_posix_partial
#print axioms C08.no_dst_part_is_fixed
#print axioms C08.weekdayJump_first_bounds
#print axioms C08.tokens_partition
#print axioms C08.gmt_plus_h
#print axioms C08.parse_M_rule
#print axioms C08.parse_J_rule
#print axioms C08.parse_N_rule
#print axioms C08.parse_rule_hour
#print axioms C08.range_transitions
#print axioms C08.tzstr_posix_partial
#print axioms C08.tzstr_posix_midyear_partial
#print axioms C08.tzrange_eq_tzstr
#print axioms C08.tzstr_render_partial
#print axioms C08.tzstr_string_posix_partial
-- translator tie (wt-iso): Gen.* (Generated/TzKernels.lean) = model, and `_gen` twins
#print axioms C08.gen_eq_model_naive_isdst
#print axioms C08.gen_eq_model_isdst
#print axioms C08.gen_eq_model_is_ambiguous
#print axioms C08.gen_eq_model_utcoffset
#print axioms C08.gen_eq_model_dst
#print axioms C08.gen_eq_model_tzname
#print axioms C08.gen_eq_model_fromutc
#print axioms C08.gen_eq_model_dst_base_offset
#print axioms C08.tzstr_render
#print axioms C08.tzstr_string_posix
#print axioms C08.gen_eq_model_tzrange_init
#print axioms C08.gen_eq_model_tzstr_delta
#print axioms C08.gen_eq_model_transitions
#print axioms C08.gen_eq_model_zone_eq
#print axioms C08.gen_eq_model_tzstr_init
#print axioms C08.parse_weekday_has_week
#print axioms C08.gen_eq_model_tzlocal_naive_is_dst
#print axioms C08.gen_eq_model_tzlocal_isdst
#print axioms C08.gen_eq_model_tzlocal_utcoffset
#print axioms C08.gen_eq_model_tzlocal_tzname
#print axioms C08.range_answers_pure
#print axioms C08.tzstr_answers_pure
#print axioms C08.same_arguments_same_answers
#print axioms C08.default_rule_delta
#print axioms C08.default_end_seconds
#print axioms C08.tzstr_norule_zone
#print axioms C08.tzstr_norule_posix
#print axioms C08.abbr_run_is_letters
#print axioms C08.tzstr_abbr_letters
#print axioms C08.norule_parse_table_uu
#print axioms C08.norule_parse_table_mm
#print axioms C08.tzstr_norule_hours
