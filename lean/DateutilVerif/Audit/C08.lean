import DateutilVerif.Properties.C08
#print axioms C08.rule_instant
#print axioms C08.transitions_eq_posix_partial
#print axioms C08.no_dst_part_is_fixed
#print axioms C08.weekdayJump_first_bounds
