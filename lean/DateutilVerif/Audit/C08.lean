import DateutilVerif.Properties.C08
#print axioms C08.placeholder
