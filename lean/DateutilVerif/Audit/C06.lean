import DateutilVerif.Properties.C06
import DateutilVerif.Properties.TzGen   -- translator tie (wt-iso): obligations about the re-translated lookup functions
import DateutilVerif.Properties.TzifGen   -- translator tie for the reader (wt-tzfile): tzfile._read_tzfile re-translated
#print axioms C06.lookup_exact
#print axioms C06.typeAt_before_first
#print axioms C06.before_first
#print axioms C06.dst_zero_on_standard
#print axioms C06.decode_encode
#print axioms C06.eq_of_same_data
#print axioms C06.eq_same_answers
-- translator tie (wt-iso): Gen.* (Generated/TzKernels.lean) = model, and `_gen` twins
#print axioms C06.gen_eq_model_find_ttinfo
#print axioms C06.gen_eq_model_utcoffset
#print axioms C06.gen_eq_model_dst
#print axioms C06.gen_eq_model_tzname
#print axioms C06.gen_eq_model_fromutc
#print axioms C06.lookup_exact_gen
-- translator tie for the READER (wt-tzfile): Gen.readTzfile* (Generated/TzifKernels.lean) = decode / build
#print axioms C06.gen_eq_model_read_tzfile_decode
#print axioms C06.gen_eq_model_read_tzfile_build
#print axioms C06.gen_eq_model_read_tzfile
#print axioms C06.read_tzfile_ok
#print axioms C06.read_tzfile_error
#print axioms C06.decode_encode_gen
#print axioms C06.lookup_exact_read_gen
