import DateutilVerif.Properties.C06
#print axioms C06.lookup_exact
#print axioms C06.typeAt_before_first
#print axioms C06.before_first
#print axioms C06.dst_zero_on_standard
