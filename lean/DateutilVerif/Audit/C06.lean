import DateutilVerif.Properties.C06
#print axioms C06.placeholder
