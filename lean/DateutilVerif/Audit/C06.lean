import DateutilVerif.Properties.C06
import DateutilVerif.Properties.TzGen   -- translator tie (wt-iso): obligations about the re-translated lookup functions
#print axioms C06.lookup_exact
#print axioms C06.typeAt_before_first
#print axioms C06.before_first
#print axioms C06.dst_zero_on_standard
#print axioms C06.decode_encode
#print axioms C06.eq_of_same_data
#print axioms C06.eq_same_answers
-- translator tie (wt-iso): Gen.* (Generated/TzKernels.lean) = model, and `_gen` twins
#print axioms C06.gen_eq_model_find_ttinfo
#print axioms C06.gen_eq_model_utcoffset
#print axioms C06.gen_eq_model_dst
#print axioms C06.gen_eq_model_tzname
#print axioms C06.gen_eq_model_fromutc
#print axioms C06.lookup_exact_gen
