import DateutilVerif.Properties.C06
#print axioms C06.lookup_exact
#print axioms C06.typeAt_before_first
#print axioms C06.before_first
#print axioms C06.dst_zero_on_standard
#print axioms C06.decode_encode
#print axioms C06.eq_of_same_data
#print axioms C06.eq_same_answers
