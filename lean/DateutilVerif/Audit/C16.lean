import DateutilVerif.Properties.C16
#print axioms C16.fix_bounds
#print axioms C16.fix_preserves_total
#print axioms C16.fix_sign_preserving
#print axioms C16.fix_of_normalised
#print axioms C16.fix_idempotent
#print axioms C16.every_op_normalised
#print axioms C16.mk_fields_id
#print axioms C16.eq_refl
#print axioms C16.eq_symm
#print axioms C16.eq_trans
#print axioms C16.eq_hash
#print axioms C16.neg_neg
#print axioms C16.add_neg_no_relative
#print axioms C16.bool_iff_no_field
#print axioms C16.eq_applyTo
#print axioms C16.mulInt_total
