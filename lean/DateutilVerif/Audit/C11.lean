import DateutilVerif.Properties.C11
#print axioms C11.stub
