import DateutilVerif.Properties.C11
#print axioms C11.inv_step
#print axioms C11.reachable_run
#print axioms C11.safety
#print axioms C11.no_deadlock
#print axioms C11.progress
#print axioms C11.exec_bound
#print axioms C11.finished_answer
#print axioms C11.all_complete
#print axioms C11.nested_no_deadlock_partial
#print axioms C11.nested_all_complete_partial
#print axioms C11.nested_init_fresh
#print axioms C11.nested_no_deadlock_init
#print axioms C11.nested_progress_partial
#print axioms C11.nested_exec_bound
#print axioms C11.specE_eq_uncached
#print axioms C11.genraise_history
