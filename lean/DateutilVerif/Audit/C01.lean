import DateutilVerif.Properties.C01
#print axioms C01.emit_nil
