import DateutilVerif.Properties.C04
import DateutilVerif.Properties.TzObjGen   -- translator tie (wt-iso): tzlocal
import DateutilVerif.Properties.TzGen   -- translator tie (wt-iso): obligations about the re-translated lookup functions
import DateutilVerif.Properties.TzFixedGen   -- translator tie for tzutc / tzoffset (wt-tzfile)
#print axioms C04.roundtrip
#print axioms C04.inj
#print axioms C04.offset_in_force
#print axioms C04.roundtrip_fixed
#print axioms C04.inj_fixed
#print axioms C04.offset_in_force_fixed
#print axioms C04.roundtrip_range_general
#print axioms C04.roundtrip_range
#print axioms C04.roundtrip_notrans
#print axioms C04.roundtrip_range_partial
#print axioms C04.roundtrip_range_norule
#print axioms C04.roundtrip_generic
#print axioms C04.generic_ambiguous
#print axioms C04.roundtrip_tzical_cycle
#print axioms C04.roundtrip_tzlocal
#print axioms C04.tzlocal_window_north
#print axioms C04.tzlocal_window_south
-- translator tie (wt-iso): Gen.* (Generated/TzKernels.lean) = model, and `_gen` twins
#print axioms C04.gen_eq_model_datetime_to_timestamp
#print axioms C04.gen_eq_model_find_last_transition
#print axioms C04.gen_eq_model_get_ttinfo
#print axioms C04.gen_eq_model_fromutc
#print axioms C04.gen_eq_model_utcoffset
#print axioms C04.gen_eq_model_range_fromutc
#print axioms C04.gen_eq_model_range_utcoffset
#print axioms C04.roundtrip_gen
#print axioms C04.gen_eq_model_tzinfo_fromutc
#print axioms C04.gen_eq_model_tzlocal_utcoffset
#print axioms C04.gen_eq_model_validate_fromutc_inputs
#print axioms C04.gen_eq_model_fromutc_decorated
#print axioms C04.gen_eq_model_tzfile_fromutc_decorated
-- translator tie for the fixed zones (wt-tzfile): Gen.tzutc_* / tzoffset_* (Generated/TzFixedKernels.lean) = FixedZone
#print axioms C04.gen_eq_model_get_supported_offset
#print axioms C04.gen_tzoffset_init_eq_model
#print axioms C04.gen_tzoffset_methods_eq_model
#print axioms C04.gen_tzutc_methods_eq_model
#print axioms C04.roundtrip_fixed_gen
