import DateutilVerif.Properties.C04
#print axioms C04.roundtrip
#print axioms C04.inj
#print axioms C04.offset_in_force
#print axioms C04.roundtrip_fixed
#print axioms C04.inj_fixed
#print axioms C04.offset_in_force_fixed
#print axioms C04.roundtrip_range_general
#print axioms C04.roundtrip_range
#print axioms C04.roundtrip_notrans
#print axioms C04.roundtrip_range_partial
#print axioms C04.roundtrip_range_norule
#print axioms C04.roundtrip_generic
#print axioms C04.generic_ambiguous
#print axioms C04.roundtrip_tzical_cycle
#print axioms C04.roundtrip_tzlocal
#print axioms C04.tzlocal_window_north
#print axioms C04.tzlocal_window_south
