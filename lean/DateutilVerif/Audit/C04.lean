import DateutilVerif.Properties.C04
#print axioms C04.placeholder
