import DateutilVerif.Properties.C15
#print axioms C15.placeholder
