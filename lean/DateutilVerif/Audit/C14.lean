import DateutilVerif.Properties.C14
import DateutilVerif.Properties.ParserGen
#print axioms C14.parse_total
#print axioms C14.parse_total_default
#print axioms C14.parseResult_total
#print axioms C14.default_info_wf
#print axioms C14.inner_parse_never_raises
#print axioms C14.lex_terminates
#print axioms C14.lex_output_bounded
#print axioms C14.parse_terminates
#print axioms C14.parse_pure
#print axioms C14.token_list_written_only_by_sign_flip
#print axioms C14.parse_bad_tzstring_is_ParserError
#print axioms C14.build_tzaware_bad_tzstring_ValueError
#print axioms C14.parse_raising_callable_is_ParserError
#print axioms C14.tzstring_query_raises
#print axioms ParserGen.gen_eq_model_ymd_append_str
#print axioms ParserGen.gen_eq_model_ymd_append_decimal
#print axioms ParserGen.gen_eq_model_ymd_append_int
#print axioms ParserGen.gen_eq_model_ymd_could_be_day
#print axioms ParserGen.gen_eq_model_ymd_resolve_from_stridxs
#print axioms ParserGen.gen_eq_model_ymd_resolve_ymd
