import DateutilVerif.Properties.C14
#print axioms C14.lex_total
