import DateutilVerif.Properties.C18
#print axioms C18.unique_live_partial
#print axioms C18.unique_live_lru
#print axioms C18.identity_while_referenced
#print axioms C18.no_half_built
#print axioms C18.fresh_constructors
#print axioms C18.set_size_only_retention
#print axioms C18.clear_only_retention_partial
#print axioms C18.strong_within_capacity
#print axioms C18.lock_discipline
#print axioms C18.no_deadlock
#print axioms C18.always_returns
#print axioms C18.variant_decreases
#print axioms C18.singleton_unique_partial
#print axioms C18.eq_refl
#print axioms C18.eq_symm
#print axioms C18.copy_equal
#print axioms C18.eq_same_offsets_fixed_partial
