import DateutilVerif.Properties.C18
import DateutilVerif.Properties.TzFixedEqGen   -- translator tie for tzutc / tzoffset __eq__ and class facts (wt-tzfile)
import DateutilVerif.Properties.C18Resolve
import DateutilVerif.Properties.C18Init   -- translated metaclass constructors = the initial state of the factory machine
#print axioms C18.program_sim
#print axioms C18.program_sim_machine
#print axioms C18.reachable_translated
#print axioms C18.unique_live_lru_source
#print axioms C18.unique_live_partial
#print axioms C18.unique_live_lru
#print axioms C18.identity_while_referenced
#print axioms C18.no_half_built
#print axioms C18.fresh_constructors_partial
#print axioms C18.shared_constructor
#print axioms C18.set_size_only_retention
#print axioms C18.clear_only_retention_partial
#print axioms C18.strong_within_capacity
#print axioms C18.strong_retains
#print axioms C18.lock_discipline
#print axioms C18.no_raising_statement
#print axioms C18.exception_releases_lock
#print axioms C18.no_deadlock
#print axioms C18.always_returns
#print axioms C18.variant_decreases
#print axioms C18.singleton_unique_partial
#print axioms C18.eq_refl
#print axioms C18.eq_symm
#print axioms C18.eq_same_offsets_fixed_partial
#print axioms C18.resolve_unnamed
#print axioms C18.resolve_uses_TZ
#print axioms C18.resolve_local_first_wins
#print axioms C18.resolve_local_fallback
#print axioms C18.resolve_local_results
#print axioms C18.resolve_named
#print axioms C18.resolve_absolute
#print axioms C18.resolve_search_path_wins
#print axioms C18.candidate_direct
#print axioms C18.candidate_underscore
#print axioms C18.resolve_fallthrough
#print axioms C18.fallback_order
#print axioms C18.resolve_tzstr
#print axioms C18.resolve_utc_constant
#print axioms C18.resolve_none_iff
#print axioms C18.resolve_raises_only_on_unreadable_file
#print axioms C18.gettz_caches_exactly
#print axioms C18.gen_nocache_eq_resolve
#print axioms C18.gen_nocache_loops
#print axioms C18.gen_nocache_uses_TZ
-- copies and pickles: the reduce / rebuild model (wt-tzfile)
#print axioms C18.reduce_roundtrip_dict
#print axioms C18.reduce_roundtrip_eq
#print axioms C18.reduce_total
-- translator tie for the fixed zones' __eq__ rows and class-level facts (wt-tzfile)
#print axioms C18.gen_tzutc_eq_eq_model
#print axioms C18.gen_tzoffset_eq_eq_model
#print axioms C18.fixed_class_facts
#print axioms C18.gen_tzlocal_eq_eq_model
#print axioms C18.gen_tzlocal_init_eq_model
#print axioms C18.tzlocal_init_no_daylight
#print axioms C18.factory_init_is_initState
#print axioms C18.factory_init_fields
#print axioms C18.singleton_init_empty
