import DateutilVerif.Properties.C18
#print axioms C18.eq_refl
#print axioms C18.eq_symm
#print axioms C18.copy_equal
#print axioms C18.eq_same_offsets_fixed_partial
