import DateutilVerif.Properties.C12
#print axioms C12.getitem_index
#print axioms C12.getitem_slice
#print axioms C12.contains_iff
#print axioms C12.count_eq_length
#print axioms C12.after_spec
#print axioms C12.before_spec
#print axioms C12.between_spec
#print axioms C12.xafter_spec
#print axioms C12.gen_eq_spec
#print axioms C12.fast_eq_spec
#print axioms C12.query_cache_independent
#print axioms C12.early_exit_sound
#print axioms C12.replace_spec
#print axioms C12.replace_named_only
#print axioms C12.replace_nothing
