import DateutilVerif.Properties.C19
#print axioms C19.western_eq_mjb
#print axioms C19.julian_eq_meeus
#print axioms C19.orthodox_eq
#print axioms C19.bad_method
#print axioms C19.good_method_ok
