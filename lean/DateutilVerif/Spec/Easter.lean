/-
  Spec/Easter.lean — independent statements of the three Easter computations,
  written from the literature (Meeus, *Astronomical Algorithms*, ch. 8), not from
  dateutil's code.
-/
import DateutilVerif.Base.Calendar

namespace Spec

/-- Meeus/Jones/Butcher "anonymous Gregorian" algorithm: (month, day) of Easter Sunday. -/
def mjb (y : Int) : Int × Int :=
  let a := y % 19
  let b := y / 100
  let c := y % 100
  let d := b / 4
  let e := b % 4
  let f := (b + 8) / 25
  let g := (b - f + 1) / 3
  let h := (19 * a + b - d - g + 15) % 30
  let i := c / 4
  let k := c % 4
  let l := (32 + 2 * e + 2 * i - h - k) % 7
  let m := (a + 11 * h + 22 * l) / 451
  ((h + l - 7 * m + 114) / 31, (h + l - 7 * m + 114) % 31 + 1)

/-- Meeus' Julian-calendar Easter: (month, day) in the Julian calendar. -/
def meeusJulian (y : Int) : Int × Int :=
  let a := y % 4
  let b := y % 7
  let c := y % 19
  let d := (19 * c + 15) % 30
  let e := (2 * a + 4 * b - d + 34) % 7
  ((d + e + 114) / 31, (d + e + 114) % 31 + 1)

/-- leap years of the Julian calendar -/
def julianIsLeap (y : Int) : Bool := y % 4 == 0

/-- proleptic-Gregorian ordinal (0001-01-01 Gregorian = 1) of a Julian-calendar date.
    Julian 0001-01-01 is Gregorian 0000-12-30, i.e. ordinal −1. -/
def julianToOrdinal (y m d : Int) : Int :=
  (y - 1) * 365 + (y - 1) / 4 + (Cal.dbmTable m + (if m > 2 && julianIsLeap y then 1 else 0)) + d - 2

/-- the Gregorian (y, m, d) of a Julian-calendar date -/
def julianToGregorian (y m d : Int) : Int × Int × Int := Cal.fromOrdinal (julianToOrdinal y m d)

/-- weekday (Mon=0) of a Julian-calendar date -/
def julianWeekday (y m d : Int) : Int := Cal.weekdayOfOrd (julianToOrdinal y m d)

end Spec
