/-
  Spec/RRule.lean — the RFC 5545 recurrence set, written from the RFC text with calendar
  functions only (`Cal.*`, `Spec.mjb` for Easter).  Nothing here looks at masks, cursors or the
  normalised rule of the model: the specification reads the *argument set* `RRule.Args`.

  * `periodIndex a t`   — how many FREQ-periods after the period of DTSTART the instant `t` lies
  * `byOk a t`          — every supplied BYxxx part (or the DTSTART default) admits `t`
  * `cand a k`          — the instants of the `k`-th selected period (`k·INTERVAL` periods after the
                          start's) that satisfy `byOk`, in increasing order
  * `sel a k`           — BYSETPOS applied to `cand a k`
  * `occ a n`           — the recurrence set restricted to the first `n` selected periods: not before
                          DTSTART, cut after COUNT items / at the last instant ≤ UNTIL
  * `window a lo hi max`— the same set restricted to dates `lo..hi` (ordinals), computed without
                          visiting the periods of days that fail the date-level parts (executable oracle;
                          not proved equal to `occ`: cross-checked against it for all seven frequencies in
                          every run of the check)

  One reading of the RFC is fixed here on purpose, and it is the library's documented one: the values
  "derived from DTSTART" (RFC 5545 §3.3.10) are filled in only when NONE of BYWEEKNO / BYYEARDAY / BYMONTHDAY /
  BYDAY / BYEASTER is supplied (`noDayParts`: month and month day for YEARLY, month day for MONTHLY, weekday
  for WEEKLY).  So YEARLY with BYWEEKNO and no BYDAY means all seven days of the listed weeks, not DTSTART's
  weekday as some other implementations read it.  Everything else is calendar arithmetic only.
-/
import DateutilVerif.Model.RRuleTypes
import DateutilVerif.Spec.Easter

namespace Spec.RRule
open _root_.RRule (Args Inst intRange)

/-! ### defaults taken from the start -/

def wkst (a : Args) : Int := a.wkst.getD 0

/-- no BYWEEKNO / BYYEARDAY / BYMONTHDAY / BYDAY / BYEASTER was supplied -/
def noDayParts (a : Args) : Bool :=
  a.byweekno.isNone && a.byyearday.isNone && a.bymonthday.isNone && a.byweekday.isNone && a.byeaster.isNone

/-- the months admitted (`[]` = every month) -/
def months (a : Args) : List Int :=
  match a.bymonth with
  | some l => l
  | none => if noDayParts a && a.freq == 0 then [a.dtstart.m] else []

def monthdays (a : Args) : List Int :=
  if noDayParts a && (a.freq == 0 || a.freq == 1) then [a.dtstart.d] else a.bymonthday.getD []

def weekdays (a : Args) : List (Int × Int) :=
  if noDayParts a && a.freq == 2 then [(a.dtstart.weekday, 0)] else a.byweekday.getD []

/-- admitted hours in increasing order -/
def hours (a : Args) : List Int :=
  match a.byhour with
  | some l => (intRange 0 24).filter (fun h => l.contains h)
  | none => if a.freq < 4 then [a.dtstart.hh] else intRange 0 24

def minutes (a : Args) : List Int :=
  match a.byminute with
  | some l => (intRange 0 60).filter (fun m => l.contains m)
  | none => if a.freq < 5 then [a.dtstart.mm] else intRange 0 60

def seconds (a : Args) : List Int :=
  match a.bysecond with
  | some l => (intRange 0 60).filter (fun s => l.contains s)
  | none => if a.freq < 6 then [a.dtstart.ss] else intRange 0 60

/-! ### calendar notions of the RFC -/

/-- first day of the week (starting on weekday `w`) containing the date `ord` -/
def weekStart (w ord : Int) : Int := ord - (Cal.weekdayOfOrd ord - w) % 7

/-- first day of week 1 of year `y`: the first week with at least four days in `y` -/
def week1Start (w y : Int) : Int :=
  let jan1 := Cal.toOrdinal y 1 1
  let off := (Cal.weekdayOfOrd jan1 - w) % 7          -- days of that week lying in the previous year
  if 7 - off ≥ 4 then jan1 - off else jan1 - off + 7

/-- week number of the date and the number of weeks of its week-year -/
def weekOf (w ord : Int) : Int × Int :=
  let y := (Cal.fromOrdinal ord).1
  let wy := if ord ≥ week1Start w (y + 1) then y + 1 else if ord ≥ week1Start w y then y else y - 1
  let s := week1Start w wy
  ((ord - s) / 7 + 1, (week1Start w (wy + 1) - s) / 7)

def easterOrd (y : Int) : Int := Cal.toOrdinal y (Spec.mjb y).1 (Spec.mjb y).2

/-- `n`-th (`n>0` from the start, `n<0` from the end) occurrence of its weekday inside the month
    (MONTHLY, or YEARLY with BYMONTH) or inside the year -/
def nthOk (a : Args) (ord y m n : Int) : Bool :=
  let inMonth := a.freq == 1 || (a.freq == 0 && !(months a).isEmpty)
  let first := if inMonth then Cal.toOrdinal y m 1 else Cal.toOrdinal y 1 1
  let last := if inMonth then Cal.toOrdinal y m (Cal.daysInMonth y m) else Cal.toOrdinal y 12 31
  if n > 0 then (ord - first) / 7 + 1 == n else -((last - ord) / 7 + 1) == n

/-- the date-level BYxxx parts -/
def dateOk (a : Args) (ord : Int) : Bool :=
  let ymd := Cal.fromOrdinal ord
  let y := ymd.1
  let m := ymd.2.1
  let d := ymd.2.2
  let ylen := Cal.daysInYear y
  let yd := ord - Cal.toOrdinal y 1 1 + 1
  let mlen := Cal.daysInMonth y m
  let wd := Cal.weekdayOfOrd ord
  ((months a).isEmpty || (months a).contains m) &&
  ((monthdays a).isEmpty || (monthdays a).contains d || (monthdays a).contains (d - mlen - 1)) &&
  (match a.byyearday with
   | some (x :: xs) => (x :: xs).contains yd || (x :: xs).contains (yd - ylen - 1)
   | _ => true) &&
  (match a.byweekno with
   | some (x :: xs) => let wn := weekOf (wkst a) ord
                       (x :: xs).contains wn.1 || (x :: xs).contains (wn.1 - wn.2 - 1)
   | _ => true) &&
  ((weekdays a).isEmpty ||
    (weekdays a).any (fun wn => wn.1 == wd && (wn.2 == 0 || a.freq > 1 || nthOk a ord y m wn.2))) &&
  (match a.byeaster with
   | some (x :: xs) => (x :: xs).contains (ord - easterOrd y)
   | _ => true)

/-- every BYxxx part admits the instant -/
def byOk (a : Args) (t : Inst) : Bool :=
  dateOk a t.ord && (hours a).contains t.h && (minutes a).contains t.m && (seconds a).contains t.s

/-! ### periods -/

def startOrd (a : Args) : Int := a.dtstart.ordinal

/-- index of the FREQ-unit containing `(ord, h, m, s)` on an absolute scale -/
def unitIndex (a : Args) (ord h m s : Int) : Int :=
  if a.freq == 0 then (Cal.fromOrdinal ord).1
  else if a.freq == 1 then (Cal.fromOrdinal ord).1 * 12 + ((Cal.fromOrdinal ord).2.1 - 1)
  else if a.freq == 2 then (weekStart (wkst a) ord - weekStart (wkst a) 0) / 7
  else if a.freq == 3 then ord
  else if a.freq == 4 then ord * 24 + h
  else if a.freq == 5 then (ord * 24 + h) * 60 + m
  else ((ord * 24 + h) * 60 + m) * 60 + s

/-- number of FREQ-periods between the period containing the start and the one containing `t` -/
def periodIndex (a : Args) (t : Inst) : Int :=
  if a.freq == 2 then (weekStart (wkst a) t.ord - weekStart (wkst a) (startOrd a)) / 7
  else unitIndex a t.ord t.h t.m t.s - unitIndex a (startOrd a) a.dtstart.hh a.dtstart.mm a.dtstart.ss

/-- `t` lies in a period a whole multiple of INTERVAL periods after the start's -/
def onGrid (a : Args) (t : Inst) : Bool := 0 ≤ periodIndex a t && periodIndex a t % a.interval == 0

/-- the days `[lo, hi)` and the fixed hour / minute / second of the period `p` periods after the start's -/
def periodSpan (a : Args) (p : Int) : Int × Int × Option Int × Option Int × Option Int :=
  let s := a.dtstart
  if a.freq == 0 then
    let y := s.y + p
    (Cal.toOrdinal y 1 1, Cal.toOrdinal (y + 1) 1 1, none, none, none)
  else if a.freq == 1 then
    let mi := s.y * 12 + (s.m - 1) + p
    let y := mi / 12
    let m := mi % 12 + 1
    (Cal.toOrdinal y m 1, Cal.toOrdinal y m 1 + Cal.daysInMonth y m, none, none, none)
  else if a.freq == 2 then
    let w := weekStart (wkst a) (startOrd a) + 7 * p
    (w, w + 7, none, none, none)
  else if a.freq == 3 then
    (startOrd a + p, startOrd a + p + 1, none, none, none)
  else if a.freq == 4 then
    let u := startOrd a * 24 + s.hh + p
    (u / 24, u / 24 + 1, some (u % 24), none, none)
  else if a.freq == 5 then
    let u := (startOrd a * 24 + s.hh) * 60 + s.mm + p
    (u / 1440, u / 1440 + 1, some (u / 60 % 24), some (u % 60), none)
  else
    let u := ((startOrd a * 24 + s.hh) * 60 + s.mm) * 60 + s.ss + p
    (u / 86400, u / 86400 + 1, some (u / 3600 % 24), some (u / 60 % 60), some (u % 60))

def restrict (l : List Int) : Option Int → List Int
  | none => l
  | some v => l.filter (· == v)

/-- the admitted wall times of a period, increasing -/
def timesOf (a : Args) (fh fm fs : Option Int) : List (Int × Int × Int) :=
  (restrict (hours a) fh).flatMap fun h => (restrict (minutes a) fm).flatMap fun m =>
    (restrict (seconds a) fs).map fun s => (h, m, s)

/-- candidates of the period `p` periods after the start's (any `p`), increasing -/
def candAt (a : Args) (p : Int) : List Inst :=
  let sp := periodSpan a p
  let ts := timesOf a sp.2.2.1 sp.2.2.2.1 sp.2.2.2.2
  ((intRange sp.1 sp.2.1).filter (dateOk a)).flatMap fun ord =>
    ts.map fun t => ({ ord := ord, h := t.1, m := t.2.1, s := t.2.2 } : Inst)

/-- candidates of the `k`-th selected period -/
def cand (a : Args) (k : Int) : List Inst := candAt a (k * a.interval)

def insertInst (x : Inst) : List Inst → List Inst
  | [] => [x]
  | y :: ys => if y.secs < x.secs then y :: insertInst x ys else if y.secs == x.secs then y :: ys else x :: y :: ys

/-- BYSETPOS: 1-based positions, negative from the end; each instant once, increasing -/
def selOf (a : Args) (c : List Inst) : List Inst :=
  match a.bysetpos with
  | some (p :: ps) =>
    ((p :: ps).filterMap (fun pos =>
        if pos > 0 then c[(pos - 1).toNat]?
        else if pos < 0 ∧ (c.length : Int) + pos ≥ 0 then c[((c.length : Int) + pos).toNat]?
        else none)).foldr insertInst []
  | _ => c

def sel (a : Args) (k : Int) : List Inst := selOf a (cand a k)

/-! ### the recurrence set -/

def startMicros (a : Args) : Int := ({ a.dtstart with us := 0 } : DT).toMicros

/-- cut state: items emitted so far (count), finished flag -/
structure Cut where
  out : List Inst        -- reversed
  n : Int
  done : Bool

def afterUntil (a : Args) (x : Inst) : Bool :=
  match a.untilDT with
  | some u => decide (x.micros > u.toMicros)
  | none => false

def countDone (a : Args) (n : Int) : Bool :=
  match a.count with
  | some cnt => decide (n ≥ cnt)
  | none => false

/-- feed one instant (in increasing order) through the DTSTART / UNTIL / COUNT rules; keep it in
    the output when its date lies in `lo..hi` -/
def push (a : Args) (lo hi : Int) (c : Cut) (x : Inst) : Cut :=
  if c.done then c
  else if afterUntil a x then { c with done := true }     -- the instants arrive in increasing order
  else if x.micros < startMicros a then c
  else if countDone a c.n then { c with done := true }
  else if x.ord > hi then { c with done := true }
  else { out := if lo ≤ x.ord then x :: c.out else c.out, n := c.n + 1, done := false }

/-- the recurrence set restricted to the first `n` selected periods (the mathematical definition) -/
def occ (a : Args) (n : Nat) : List Inst :=
  let c := (List.range n).foldl (fun c (k : Nat) => (sel a (k : Int)).foldl (push a 0 Cal.maxOrdinal) c)
    { out := [], n := 0, done := false }
  c.out.reverse

/-! ### executable window -/

def unitsPerDay (a : Args) : Int :=
  if a.freq == 3 then 1 else if a.freq == 4 then 24 else if a.freq == 5 then 1440 else 86400

/-- loop over selected periods `k, k+1, …` while the period starts not after `hi` (freq ≤ WEEKLY) -/
def goPeriods (a : Args) (lo hi : Int) (maxItems : Nat) : Nat → Int → Cut → Cut
  | 0, _, c => c
  | f + 1, k, c =>
    if c.done || c.out.length ≥ maxItems then c
    else if (periodSpan a (k * a.interval)).1 > hi then c
    else goPeriods a lo hi maxItems f (k + 1) ((sel a k).foldl (push a lo hi) c)

/-- the selected periods of day `ord` that can have candidates (freq ≥ DAILY), increasing `k`:
    either the admitted hour / (hour, minute) / (hour, minute, second) keys that fall on the
    INTERVAL grid, or the grid points of the day — whichever list is shorter -/
def dayKs (a : Args) (ord : Int) : List Int :=
  let U := unitsPerDay a
  let base := unitIndex a (startOrd a) a.dtstart.hh a.dtstart.mm a.dtstart.ss
  let offLo := ord * U - base                       -- unit offsets of this day: [offLo, offLo + U)
  let nkeys : Int :=
    if a.freq == 3 then 1 else if a.freq == 4 then (hours a).length
    else if a.freq == 5 then (hours a).length * (minutes a).length
    else (hours a).length * (minutes a).length * (seconds a).length
  if nkeys * a.interval ≤ U then
    let keys : List Int :=
      if a.freq == 3 then [0] else if a.freq == 4 then hours a
      else if a.freq == 5 then (hours a).flatMap fun h => (minutes a).map fun m => h * 60 + m
      else (hours a).flatMap fun h => (minutes a).flatMap fun m => (seconds a).map fun s => (h * 60 + m) * 60 + s
    keys.filterMap fun key =>
      let u := offLo + key
      if u ≥ 0 ∧ u % a.interval == 0 then some (u / a.interval) else none
  else
    let k0 := if offLo ≤ 0 then 0 else (offLo + a.interval - 1) / a.interval
    let k1 := if offLo + U ≤ 0 then 0 else (offLo + U + a.interval - 1) / a.interval
    intRange k0 k1

def goKs (a : Args) (lo hi : Int) (maxItems : Nat) : List Int → Cut → Cut
  | [], c => c
  | k :: ks, c =>
    if c.done || c.out.length ≥ maxItems then c
    else goKs a lo hi maxItems ks ((sel a k).foldl (push a lo hi) c)

/-- loop over the days `ord, ord+1, …, hi` (freq ≥ DAILY); days failing `dateOk` have no candidates -/
def goDays (a : Args) (lo hi : Int) (maxItems : Nat) : Nat → Int → Cut → Cut
  | 0, _, c => c
  | f + 1, ord, c =>
    if c.done || c.out.length ≥ maxItems || ord > hi then c
    else if !(dateOk a ord) then goDays a lo hi maxItems f (ord + 1) c
    else goDays a lo hi maxItems f (ord + 1) (goKs a lo hi maxItems (dayKs a ord) c)

/-- the recurrence set on the dates `lo..hi` (at most about `maxItems` items), and whether the set
    is known to end inside the window (COUNT reached / UNTIL passed).  With COUNT the enumeration
    starts at DTSTART, so `lo` only filters the output then. -/
def window (a : Args) (lo hi : Int) (maxItems : Nat) : List Inst × Bool :=
  let c0 : Cut := { out := [], n := 0, done := false }
  let lo' := if a.count.isSome then startOrd a else max lo (startOrd a)
  let c :=
    if a.interval < 1 then c0
    else if a.freq ≤ 2 then
      let loInst : Inst := { ord := lo', h := 0, m := 0, s := 0 }
      let k0 := max 0 (periodIndex a loInst / a.interval)
      goPeriods a lo hi maxItems (hi - lo' + 400).toNat k0 c0
    else
      goDays a lo hi maxItems (hi - lo' + 2).toNat lo' c0
  (c.out.reverse, c.done)

end Spec.RRule
