/-
  Spec/RRuleSupported.lean — `Supported`: the explicit, decidable description of the argument sets for
  which `iter_eq_spec` is a theorem (Properties/C01.lean, `iter_eq_spec_supported_partial`): the union of
  the proved families.  Executable (driver op `rrule.supported`), so that every run of the check can say
  which fraction of its sampled rules lies under an exactness theorem.
-/
import DateutilVerif.Model.RRule
import DateutilVerif.Spec.RRule

namespace RRule

inductive Family where
  | daily | weekly | yearlyMonthly | monthlyNth | yearlyNth | yearlyBymonthNth | yearlyEaster | yearlyWeekno
  | monthlyWeekno | weeklyWeekno
  | hourly | hourlyByhour | minutely | minutelyByminute | minutelyByhour | minutelyByhm | secondly | secondlyByhm | secondlyBysecond
  | dailyE | hourlyE | hourlyByhourE | minutelyE | minutelyByminuteE | minutelyByhourE | minutelyByhmE
  | secondlyE | secondlyByhmE | secondlyBysecondE | monthlyEaster | weeklyEaster
  | monthlyNthWeekno | yearlyNthWeekno | yearlyBymonthNthWeekno
  | monthlyNthEaster | yearlyNthEaster | yearlyBymonthNthEaster | yearlyWeeknoEaster
  deriving Repr, DecidableEq, Inhabited

def Family.name : Family → String
  | .daily => "daily" | .weekly => "weekly" | .yearlyMonthly => "yearly_monthly" | .monthlyNth => "monthly_nth"
  | .yearlyNth => "yearly_nth" | .yearlyBymonthNth => "yearly_bymonth_nth" | .yearlyEaster => "yearly_easter"
  | .yearlyWeekno => "yearly_weekno" | .monthlyWeekno => "monthly_weekno" | .weeklyWeekno => "weekly_weekno" | .hourly => "hourly" | .hourlyByhour => "hourly_byhour"
  | .minutely => "minutely" | .minutelyByminute => "minutely_byminute" | .minutelyByhour => "minutely_byhour" | .minutelyByhm => "minutely_byhour_byminute" | .secondly => "secondly"
  | .secondlyByhm => "secondly_byhour_byminute" | .secondlyBysecond => "secondly_bysecond"
  | .dailyE => "daily_easter" | .hourlyE => "hourly_easter" | .hourlyByhourE => "hourly_byhour_easter"
  | .minutelyE => "minutely_easter" | .minutelyByminuteE => "minutely_byminute_easter"
  | .minutelyByhourE => "minutely_byhour_easter" | .minutelyByhmE => "minutely_byhour_byminute_easter"
  | .secondlyE => "secondly_easter" | .secondlyByhmE => "secondly_byhour_byminute_easter"
  | .secondlyBysecondE => "secondly_bysecond_easter" | .monthlyEaster => "monthly_easter" | .weeklyEaster => "weekly_easter"
  | .monthlyNthWeekno => "monthly_nth_weekno" | .yearlyNthWeekno => "yearly_nth_weekno"
  | .yearlyBymonthNthWeekno => "yearly_bymonth_nth_weekno"
  | .monthlyNthEaster => "monthly_nth_easter" | .yearlyNthEaster => "yearly_nth_easter"
  | .yearlyBymonthNthEaster => "yearly_bymonth_nth_easter" | .yearlyWeeknoEaster => "yearly_weekno_easter"

def Family.all : List Family :=
  [.daily, .weekly, .yearlyMonthly, .monthlyNth, .yearlyNth, .yearlyBymonthNth, .yearlyEaster, .yearlyWeekno,
   .monthlyWeekno, .weeklyWeekno,
   .hourly, .hourlyByhour, .minutely, .minutelyByminute, .minutelyByhour, .minutelyByhm, .secondly, .secondlyByhm, .secondlyBysecond,
   .dailyE, .hourlyE, .hourlyByhourE, .minutelyE, .minutelyByminuteE, .minutelyByhourE, .minutelyByhmE,
   .secondlyE, .secondlyByhmE, .secondlyBysecondE, .monthlyEaster, .weeklyEaster,
   .monthlyNthWeekno, .yearlyNthWeekno, .yearlyBymonthNthWeekno,
   .monthlyNthEaster, .yearlyNthEaster, .yearlyBymonthNthEaster, .yearlyWeeknoEaster]

/-- the optional list is given, non-empty, and satisfies `P` -/
def someWith {α} (o : Option (List α)) (P : List α → Prop) : Prop :=
  match o with
  | some l => l ≠ [] ∧ P l
  | none => False

instance {α} [DecidableEq α] (o : Option (List α)) (P : List α → Prop) [∀ l, Decidable (P l)] :
    Decidable (someWith o P) := by
  unfold someWith; split <;> exact inferInstance

/-- INTERVAL ≥ 1, a valid start, no zero in BYMONTHDAY -/
def baseOk (a : Args) : Prop :=
  1 ≤ a.interval ∧ a.dtstart.Valid ∧ ∀ x ∈ a.bymonthday.getD [], x ≠ 0

instance (a : Args) : Decidable (baseOk a) := by unfold baseOk; exact inferInstance

def plainDays (a : Args) : Prop := ∀ w ∈ a.byweekday.getD [], w.2 = 0
instance (a : Args) : Decidable (plainDays a) := by unfold plainDays; exact inferInstance

def nthDays (a : Args) : Prop :=
  someWith a.byweekday (fun l => ∀ w ∈ l, (0 ≤ w.1 ∧ w.1 ≤ 6) ∧ w.2 ≠ 0)
instance (a : Args) : Decidable (nthDays a) := by unfold nthDays; exact inferInstance

def minutesOk (a : Args) : Prop := ∀ x ∈ a.byminute.getD [], 0 ≤ x ∧ x ≤ 59
def secondsOk (a : Args) : Prop := ∀ x ∈ a.bysecond.getD [], 0 ≤ x ∧ x ≤ 59
instance (a : Args) : Decidable (minutesOk a) := by unfold minutesOk; exact inferInstance
instance (a : Args) : Decidable (secondsOk a) := by unfold secondsOk; exact inferInstance

def untilOk (a : Args) : Prop :=
  match a.untilDT with
  | some u => Spec.RRule.startMicros a ≤ u.toMicros
  | none => True
instance (a : Args) : Decidable (untilOk a) := by unfold untilOk; split <;> exact inferInstance

/-- the complement of D-C01c on a BYWEEKNO list -/
def wnoOk (wl : List Int) : Prop :=
  ((52 ∈ wl ∨ 53 ∈ wl) → -1 ∈ wl) ∧ ((-52 ∈ wl ∨ -53 ∈ wl) → 1 ∈ wl)
instance (wl : List Int) : Decidable (wnoOk wl) := by unfold wnoOk; exact inferInstance

/-- BYWEEKNO absent, or on the complement of D-C01c with a week start 0..6 (FREQ ≥ DAILY) -/
def wArgOk (a : Args) : Prop :=
  a.byweekno = none ∨ (someWith a.byweekno wnoOk ∧ 0 ≤ a.wkst.getD 0 ∧ a.wkst.getD 0 ≤ 6)
instance (a : Args) : Decidable (wArgOk a) := by unfold wArgOk; exact inferInstance

/-- MINUTELY with BYHOUR: some minute of the grid (orbit of the start under `+INTERVAL`, which repeats after at most
    1440 steps) falls in a listed hour — what a `__construct_byset`-style search over the grid would find.  On the
    complement the rule is empty and `_iter` raises ValueError at the first `next()` (allowed by the property). -/
def reachableHourM (a : Args) : Prop :=
  (List.range 1440).any (fun j =>
    (a.byhour.getD []).contains ((a.dtstart.hh * 60 + a.dtstart.mm + (j : Int) * a.interval) / 60 % 24)) = true
instance (a : Args) : Decidable (reachableHourM a) := by unfold reachableHourM; exact inferInstance

/-- SECONDLY with BYHOUR and / or BYMINUTE (no BYSECOND): some second of the grid (orbit of the start under `+INTERVAL`,
    which repeats after at most 86400 steps) falls in a listed hour (when BYHOUR is given) and a listed minute (when
    BYMINUTE is given).  On the complement the recurrence set is empty and `_iter` raises ValueError at the first `next()`. -/
def reachableS (a : Args) : Prop :=
  (List.range 86400).any (fun j =>
    (a.byhour.isNone || (a.byhour.getD []).contains
      (((a.dtstart.hh * 60 + a.dtstart.mm) * 60 + a.dtstart.ss + (j : Int) * a.interval) / 3600 % 24)) &&
    (a.byminute.isNone || (a.byminute.getD []).contains
      (((a.dtstart.hh * 60 + a.dtstart.mm) * 60 + a.dtstart.ss + (j : Int) * a.interval) / 60 % 60))) = true
instance (a : Args) : Decidable (reachableS a) := by unfold reachableS; exact inferInstance

/-- an absent BY list allows every value -/
def listedO (o : Option (List Int)) (x : Int) : Bool := o.isNone || (o.getD []).contains x

/-- hour, minute and second all pass their (optional) BY lists -/
def listed3 (a : Args) (h m s : Int) : Bool :=
  listedO a.byhour h && listedO a.byminute m && listedO a.bysecond s

/-- SECONDLY with BYSECOND (BYHOUR, BYMINUTE optional): some second of the grid (orbit of the start under `+INTERVAL`,
    which repeats after at most 86400 steps) has listed hour, minute and second.  With `a.bysecond = none` this is
    `reachableS a`.  On the complement the recurrence set is empty (and `_iter` raises ValueError at the first `next()`). -/
def reachableSS (a : Args) : Prop :=
  (List.range 86400).any (fun j =>
    listed3 a
      (((a.dtstart.hh * 60 + a.dtstart.mm) * 60 + a.dtstart.ss + (j : Int) * a.interval) / 3600 % 24)
      (((a.dtstart.hh * 60 + a.dtstart.mm) * 60 + a.dtstart.ss + (j : Int) * a.interval) / 60 % 60)
      (((a.dtstart.hh * 60 + a.dtstart.mm) * 60 + a.dtstart.ss + (j : Int) * a.interval) % 60)) = true
instance (a : Args) : Decidable (reachableSS a) := by unfold reachableSS; exact inferInstance

/-- MINUTELY with BYMINUTE (BYHOUR optional): some minute of the grid (orbit of the start under `+INTERVAL`, which repeats
    after at most 1440 steps) has a listed hour and a listed minute -/
def reachableMM (a : Args) : Prop :=
  (List.range 1440).any (fun j =>
    listedO a.byhour ((a.dtstart.hh * 60 + a.dtstart.mm + (j : Int) * a.interval) / 60 % 24) &&
    listedO a.byminute ((a.dtstart.hh * 60 + a.dtstart.mm + (j : Int) * a.interval) % 60)) = true
instance (a : Args) : Decidable (reachableMM a) := by unfold reachableMM; exact inferInstance

/-- BYEASTER given, non-empty, on the complement of D-C01d -/
def easterOk (a : Args) : Prop := someWith a.byeaster (fun el => ∀ o ∈ el, -80 ≤ o ∧ o ≤ 250)
instance (a : Args) : Decidable (easterOk a) := by unfold easterOk; exact inferInstance

/-- the common part of the BYEASTER-below-YEARLY families: INTERVAL ≥ 1, valid start, no zero in BYMONTHDAY, no BYWEEKNO,
    BYEASTER −80..250 -/
def ebaseOk (a : Args) : Prop := baseOk a ∧ a.byweekno = none ∧ easterOk a
instance (a : Args) : Decidable (ebaseOk a) := by unfold ebaseOk; exact inferInstance

/-- a BY list is absent or given and non-empty -/
def optNonempty (o : Option (List Int)) : Prop := o = none ∨ someWith o (fun _ => True)
instance (o : Option (List Int)) : Decidable (optNonempty o) := by unfold optNonempty; exact inferInstance

/-- **the families with an exactness theorem** -/
def SupportedBy (a : Args) : Family → Prop
  | .daily => a.freq = 3 ∧ baseOk a ∧ wArgOk a ∧ a.byeaster = none
  | .weekly => a.freq = 2 ∧ baseOk a ∧ a.byweekno = none ∧ a.byeaster = none ∧
      (a.bysetpos = none ∨ Cal.weekdayOfOrd (Spec.RRule.startOrd a) = a.wkst.getD 0) ∧
      (0 ≤ a.wkst.getD 0 ∧ a.wkst.getD 0 ≤ 6) ∧ untilOk a
  | .yearlyMonthly => (a.freq = 0 ∨ a.freq = 1) ∧ baseOk a ∧ a.byweekno = none ∧ a.byeaster = none ∧ plainDays a
  | .monthlyNth => a.freq = 1 ∧ baseOk a ∧ a.byweekno = none ∧ a.byeaster = none ∧ nthDays a
  | .yearlyNth => a.freq = 0 ∧ baseOk a ∧ a.byweekno = none ∧ a.byeaster = none ∧ a.bymonth = none ∧ nthDays a
  | .yearlyBymonthNth => a.freq = 0 ∧ baseOk a ∧ a.byweekno = none ∧ a.byeaster = none ∧
      someWith a.bymonth (fun lm => ∀ m ∈ lm, 1 ≤ m ∧ m ≤ 12) ∧ nthDays a
  | .yearlyEaster => a.freq = 0 ∧ baseOk a ∧ a.byweekno = none ∧ plainDays a ∧
      someWith a.byeaster (fun el => ∀ o ∈ el, -80 ≤ o ∧ o ≤ 250)
  | .yearlyWeekno => a.freq = 0 ∧ baseOk a ∧ a.byeaster = none ∧ plainDays a ∧
      (0 ≤ a.wkst.getD 0 ∧ a.wkst.getD 0 ≤ 6) ∧ someWith a.byweekno wnoOk
  | .monthlyWeekno => a.freq = 1 ∧ baseOk a ∧ a.byeaster = none ∧ plainDays a ∧
      (0 ≤ a.wkst.getD 0 ∧ a.wkst.getD 0 ≤ 6) ∧ someWith a.byweekno wnoOk
  | .weeklyWeekno => a.freq = 2 ∧ baseOk a ∧ a.byeaster = none ∧ someWith a.byweekno wnoOk ∧
      (a.bysetpos = none ∨ Cal.weekdayOfOrd (Spec.RRule.startOrd a) = a.wkst.getD 0) ∧
      (0 ≤ a.wkst.getD 0 ∧ a.wkst.getD 0 ≤ 6) ∧ untilOk a
  | .hourly => a.freq = 4 ∧ baseOk a ∧ wArgOk a ∧ a.byeaster = none ∧ a.byhour = none ∧
      minutesOk a ∧ secondsOk a
  | .hourlyByhour => a.freq = 4 ∧ baseOk a ∧ wArgOk a ∧ a.byeaster = none ∧
      someWith a.byhour (fun l => ∀ x ∈ l, 0 ≤ x ∧ x ≤ 23) ∧ minutesOk a ∧ secondsOk a
  | .minutely => a.freq = 5 ∧ baseOk a ∧ wArgOk a ∧ a.byeaster = none ∧ a.byhour = none ∧
      a.byminute = none ∧ secondsOk a
  | .minutelyByminute => a.freq = 5 ∧ baseOk a ∧ wArgOk a ∧ a.byeaster = none ∧ a.byhour = none ∧
      someWith a.byminute (fun l => ∀ x ∈ l, 0 ≤ x ∧ x ≤ 59) ∧ secondsOk a
  | .minutelyByhour => a.freq = 5 ∧ baseOk a ∧ wArgOk a ∧ a.byeaster = none ∧
      someWith a.byhour (fun _ => True) ∧ a.byminute = none ∧ secondsOk a ∧ reachableHourM a
  | .minutelyByhm => a.freq = 5 ∧ baseOk a ∧ wArgOk a ∧ a.byeaster = none ∧ optNonempty a.byhour ∧
      a.byminute ≠ none ∧ secondsOk a ∧ reachableMM a
  | .secondly => a.freq = 6 ∧ baseOk a ∧ wArgOk a ∧ a.byeaster = none ∧ a.byhour = none ∧
      a.byminute = none ∧ a.bysecond = none
  | .secondlyByhm => a.freq = 6 ∧ baseOk a ∧ wArgOk a ∧ a.byeaster = none ∧ optNonempty a.byhour ∧
      optNonempty a.byminute ∧ a.bysecond = none ∧ reachableS a
  | .secondlyBysecond => a.freq = 6 ∧ baseOk a ∧ wArgOk a ∧ a.byeaster = none ∧ optNonempty a.byhour ∧
      optNonempty a.byminute ∧ a.bysecond ≠ none ∧ reachableSS a

  | .dailyE => a.freq = 3 ∧ ebaseOk a
  | .hourlyE => a.freq = 4 ∧ ebaseOk a ∧ a.byhour = none ∧ minutesOk a ∧ secondsOk a
  | .hourlyByhourE => a.freq = 4 ∧ ebaseOk a ∧ someWith a.byhour (fun l => ∀ x ∈ l, 0 ≤ x ∧ x ≤ 23) ∧ minutesOk a ∧ secondsOk a
  | .minutelyE => a.freq = 5 ∧ ebaseOk a ∧ a.byhour = none ∧ a.byminute = none ∧ secondsOk a
  | .minutelyByminuteE => a.freq = 5 ∧ ebaseOk a ∧ a.byhour = none ∧
      someWith a.byminute (fun l => ∀ x ∈ l, 0 ≤ x ∧ x ≤ 59) ∧ secondsOk a
  | .minutelyByhourE => a.freq = 5 ∧ ebaseOk a ∧ someWith a.byhour (fun _ => True) ∧ a.byminute = none ∧ secondsOk a ∧
      reachableHourM a
  | .minutelyByhmE => a.freq = 5 ∧ ebaseOk a ∧ optNonempty a.byhour ∧ a.byminute ≠ none ∧ secondsOk a ∧ reachableMM a
  | .secondlyE => a.freq = 6 ∧ ebaseOk a ∧ a.byhour = none ∧ a.byminute = none ∧ a.bysecond = none
  | .secondlyByhmE => a.freq = 6 ∧ ebaseOk a ∧ optNonempty a.byhour ∧ optNonempty a.byminute ∧ a.bysecond = none ∧
      reachableS a
  | .secondlyBysecondE => a.freq = 6 ∧ ebaseOk a ∧ optNonempty a.byhour ∧ optNonempty a.byminute ∧ a.bysecond ≠ none ∧
      reachableSS a
  | .monthlyEaster => a.freq = 1 ∧ ebaseOk a ∧ plainDays a
  | .weeklyEaster => a.freq = 2 ∧ baseOk a ∧ a.byweekno = none ∧
      someWith a.byeaster (fun el => ∀ o ∈ el, -74 ≤ o ∧ o ≤ 250) ∧
      (a.bysetpos = none ∨ Cal.weekdayOfOrd (Spec.RRule.startOrd a) = a.wkst.getD 0) ∧
      (0 ≤ a.wkst.getD 0 ∧ a.wkst.getD 0 ≤ 6) ∧ untilOk a
  | .monthlyNthWeekno => a.freq = 1 ∧ baseOk a ∧ a.byeaster = none ∧ nthDays a ∧
      (0 ≤ a.wkst.getD 0 ∧ a.wkst.getD 0 ≤ 6) ∧ someWith a.byweekno wnoOk
  | .yearlyNthWeekno => a.freq = 0 ∧ baseOk a ∧ a.byeaster = none ∧ a.bymonth = none ∧ nthDays a ∧
      (0 ≤ a.wkst.getD 0 ∧ a.wkst.getD 0 ≤ 6) ∧ someWith a.byweekno wnoOk
  | .yearlyBymonthNthWeekno => a.freq = 0 ∧ baseOk a ∧ a.byeaster = none ∧
      someWith a.bymonth (fun lm => ∀ m ∈ lm, 1 ≤ m ∧ m ≤ 12) ∧ nthDays a ∧
      (0 ≤ a.wkst.getD 0 ∧ a.wkst.getD 0 ≤ 6) ∧ someWith a.byweekno wnoOk
  | .monthlyNthEaster => a.freq = 1 ∧ ebaseOk a ∧ nthDays a
  | .yearlyNthEaster => a.freq = 0 ∧ ebaseOk a ∧ a.bymonth = none ∧ nthDays a
  | .yearlyBymonthNthEaster => a.freq = 0 ∧ ebaseOk a ∧ someWith a.bymonth (fun lm => ∀ m ∈ lm, 1 ≤ m ∧ m ≤ 12) ∧ nthDays a
  | .yearlyWeeknoEaster => a.freq = 0 ∧ baseOk a ∧ plainDays a ∧ (0 ≤ a.wkst.getD 0 ∧ a.wkst.getD 0 ≤ 6) ∧
      someWith a.byweekno wnoOk ∧ easterOk a

instance (a : Args) (f : Family) : Decidable (SupportedBy a f) := by
  cases f <;> (unfold SupportedBy; exact inferInstance)

/-- the first family (in the order of `Family.all`) that covers the argument set -/
def family (a : Args) : Option Family := Family.all.find? (fun f => decide (SupportedBy a f))

/-- **`Supported`**: some exactness theorem applies -/
def Supported (a : Args) : Prop := ∃ f, SupportedBy a f

/-- how many periods of the specification `n` turns of the generator's loop may correspond to -/
def Family.periodsPerTurn : Family → Nat
  | .hourly => 24 | .hourlyByhour => 48 | .minutely => 1440 | .minutelyByminute => 1500 | .minutelyByhour => 2880 | .minutelyByhm => 2880 | .secondly => 86400
  | .secondlyByhm => 172800 | .secondlyBysecond => 172800
  | .hourlyE => 24 | .hourlyByhourE => 48 | .minutelyE => 1440 | .minutelyByminuteE => 1500 | .minutelyByhourE => 2880
  | .minutelyByhmE => 2880 | .secondlyE => 86400 | .secondlyByhmE => 172800 | .secondlyBysecondE => 172800 | _ => 1

/-- the first `n` turns stay inside datetime's range (for BYEASTER: inside 1583..4099) -/
def inRange (a : Args) (f : Family) (n : Nat) : Prop :=
  match f with
  | .daily => Spec.RRule.startOrd a + n * a.interval ≤ Cal.maxOrdinal
  | .weekly | .weeklyWeekno => Spec.RRule.weekStart (a.wkst.getD 0) (Spec.RRule.startOrd a) + 7 * (n * a.interval) + 7 ≤ Cal.maxOrdinal + 1
  | .yearlyMonthly => (a.freq = 0 → a.dtstart.y + n * a.interval ≤ 9999) ∧
      (a.freq = 1 → (a.dtstart.y * 12 + (a.dtstart.m - 1) + n * a.interval) / 12 ≤ 9999)
  | .monthlyNth | .monthlyWeekno | .monthlyNthWeekno => (a.dtstart.y * 12 + (a.dtstart.m - 1) + n * a.interval) / 12 ≤ 9999
  | .yearlyNth | .yearlyBymonthNth | .yearlyWeekno | .yearlyNthWeekno | .yearlyBymonthNthWeekno => a.dtstart.y + n * a.interval ≤ 9999
  | .yearlyEaster => 1583 ≤ a.dtstart.y ∧ a.dtstart.y + n * a.interval ≤ 4099
  | .hourly => Spec.RRule.startOrd a * 24 + a.dtstart.hh + (24 * n + 1) * a.interval + 23 < (Cal.maxOrdinal + 1) * 24
  | .hourlyByhour =>
      Spec.RRule.startOrd a * 24 + a.dtstart.hh + (48 * n + 24) * a.interval + 23 < (Cal.maxOrdinal + 1) * 24
  | .minutely => (Spec.RRule.startOrd a * 24 + a.dtstart.hh) * 60 + a.dtstart.mm + (1440 * n + 1) * a.interval + 1439 <
      (Cal.maxOrdinal + 1) * 1440
  | .minutelyByminute =>
      (Spec.RRule.startOrd a * 24 + a.dtstart.hh) * 60 + a.dtstart.mm + (1500 * n + 60) * a.interval + 1439 <
      (Cal.maxOrdinal + 1) * 1440
  | .minutelyByhour | .minutelyByhm =>
      (Spec.RRule.startOrd a * 24 + a.dtstart.hh) * 60 + a.dtstart.mm + (2880 * n + 1440) * a.interval + 1439 <
      (Cal.maxOrdinal + 1) * 1440
  | .secondly => ((Spec.RRule.startOrd a * 24 + a.dtstart.hh) * 60 + a.dtstart.mm) * 60 + a.dtstart.ss +
      (86400 * n + 1) * a.interval + 86399 < (Cal.maxOrdinal + 1) * 86400
  | .secondlyByhm | .secondlyBysecond => ((Spec.RRule.startOrd a * 24 + a.dtstart.hh) * 60 + a.dtstart.mm) * 60 + a.dtstart.ss +
      (172800 * n + 86400) * a.interval + 86399 < (Cal.maxOrdinal + 1) * 86400
  | .dailyE => 1583 ≤ a.dtstart.y ∧ Spec.RRule.startOrd a + n * a.interval ≤ Cal.toOrdinal 4099 12 31
  | .hourlyE => 1583 ≤ a.dtstart.y ∧
      Spec.RRule.startOrd a * 24 + a.dtstart.hh + (24 * n + 1) * a.interval + 23 < (Cal.toOrdinal 4099 12 31 + 1) * 24
  | .hourlyByhourE => 1583 ≤ a.dtstart.y ∧
      Spec.RRule.startOrd a * 24 + a.dtstart.hh + (48 * n + 24) * a.interval + 23 < (Cal.toOrdinal 4099 12 31 + 1) * 24
  | .minutelyE => 1583 ≤ a.dtstart.y ∧
      (Spec.RRule.startOrd a * 24 + a.dtstart.hh) * 60 + a.dtstart.mm + (1440 * n + 1) * a.interval + 1439 < (Cal.toOrdinal 4099 12 31 + 1) * 1440
  | .minutelyByminuteE => 1583 ≤ a.dtstart.y ∧
      (Spec.RRule.startOrd a * 24 + a.dtstart.hh) * 60 + a.dtstart.mm + (1500 * n + 60) * a.interval + 1439 < (Cal.toOrdinal 4099 12 31 + 1) * 1440
  | .minutelyByhourE | .minutelyByhmE => 1583 ≤ a.dtstart.y ∧
      (Spec.RRule.startOrd a * 24 + a.dtstart.hh) * 60 + a.dtstart.mm + (2880 * n + 1440) * a.interval + 1439 < (Cal.toOrdinal 4099 12 31 + 1) * 1440
  | .secondlyE => 1583 ≤ a.dtstart.y ∧ ((Spec.RRule.startOrd a * 24 + a.dtstart.hh) * 60 + a.dtstart.mm) * 60 + a.dtstart.ss +
      (86400 * n + 1) * a.interval + 86399 < (Cal.toOrdinal 4099 12 31 + 1) * 86400
  | .secondlyByhmE | .secondlyBysecondE => 1583 ≤ a.dtstart.y ∧
      ((Spec.RRule.startOrd a * 24 + a.dtstart.hh) * 60 + a.dtstart.mm) * 60 + a.dtstart.ss +
      (172800 * n + 86400) * a.interval + 86399 < (Cal.toOrdinal 4099 12 31 + 1) * 86400
  | .monthlyEaster | .monthlyNthEaster => 1583 ≤ a.dtstart.y ∧ (a.dtstart.y * 12 + (a.dtstart.m - 1) + n * a.interval) / 12 ≤ 4099
  | .weeklyEaster => 1583 ≤ a.dtstart.y ∧
      Spec.RRule.weekStart (a.wkst.getD 0) (Spec.RRule.startOrd a) + 7 * (n * a.interval) + 7 ≤ Cal.toOrdinal 4099 12 31 + 1
  | .yearlyNthEaster | .yearlyBymonthNthEaster | .yearlyWeeknoEaster => 1583 ≤ a.dtstart.y ∧ a.dtstart.y + n * a.interval ≤ 4099

/-- the BYEASTER-below-YEARLY families -/
def Family.isEasterSub : Family → Bool
  | .dailyE | .hourlyE | .hourlyByhourE | .minutelyE | .minutelyByminuteE | .minutelyByhourE | .minutelyByhmE
  | .secondlyE | .secondlyByhmE | .secondlyBysecondE | .monthlyEaster | .weeklyEaster => true
  | _ => false

end RRule
