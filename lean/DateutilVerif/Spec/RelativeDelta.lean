/-
  Spec/RelativeDelta.lean — what the documentation of `relativedelta` promises, written from the
  class docstring and not from the code:

    1. absolute fields (singular) REPLACE the corresponding fields of the operand;
    2. `years` / `months` shift the calendar month: with M = 12·y + (m−1) + 12·years + months the
       result is year M div 12, month M mod 12 + 1, and the day is clipped to the last day of that
       month (the time of day is untouched);
    3. the remaining relative fields (and `leapdays` when the month found is after February of a
       leap year) are added as one exact duration;
    4. `weekday(n)`: the |n|-th day with that weekday on or after (n > 0) / on or before (n < 0)
       the date found — the date itself counts when it already has that weekday.
    A `date` operand becomes a `datetime` exactly when the delta carries time information.

  Errors: a result of steps 1–2 that is not a valid date/time is a ValueError (an OverflowError
  when a field does not even fit a C int), leaving years 1..9999 in steps 3–4 is an OverflowError
  (the behaviour of `datetime`).
  No Mathlib import (linked into the driver; `rd.spec` is the oracle of C03).
-/
import DateutilVerif.Base.Time
import DateutilVerif.Model.RDTypes
import DateutilVerif.Model.RelativeDelta

namespace RDSpec
open RDM (Temporal Kind)

/-- the delta carries time information -/
def hasTimeInfo (d : RD) : Bool :=
  d.hours != 0 || d.minutes != 0 || d.seconds != 0 || d.microseconds != 0 ||
  d.hour.isSome || d.minute.isSome || d.second.isSome || d.microsecond.isSome

/-- shift (y, m, d) by `k` whole months, clipping the day -/
def monthShift (y m d k : Int) : Int × Int × Int :=
  ((12 * y + (m - 1) + k) / 12, (12 * y + (m - 1) + k) % 12 + 1,
   min d (Cal.daysInMonth ((12 * y + (m - 1) + k) / 12) ((12 * y + (m - 1) + k) % 12 + 1)))

/-- the relative fields below months as an exact duration in µs; `leap` = leapdays apply -/
def duration (d : RD) (leap : Bool) : Int :=
  (d.days + (if leap then d.leapdays else 0)) * 86400000000 + d.hours * 3600000000 +
  d.minutes * 60000000 + d.seconds * 1000000 + d.microseconds

/-- days forward from a day with weekday `w` to the first day with weekday `wd` (0 when `w = wd`) -/
def daysToNext (w wd : Int) : Int :=
  match (List.range 7).find? (fun (k : Nat) => (w + (k : Int)) % 7 == wd) with
  | some k => k
  | none => 0

/-- days back from a day with weekday `w` to the last day with weekday `wd` (0 when `w = wd`) -/
def daysToPrev (w wd : Int) : Int :=
  match (List.range 7).find? (fun (k : Nat) => (w - (k : Int)) % 7 == wd) with
  | some k => k
  | none => 0

/-- signed day offset to the |n|-th `wd` on/after (n > 0) or on/before (n < 0) a day with weekday `w` -/
def nthWeekdayOffset (w wd n : Int) : Int :=
  if n > 0 then daysToNext w wd + 7 * (n - 1) else -(daysToPrev w wd + 7 * (-n - 1))

/-- `n` of a weekday: absent (or 0) means +1 -/
def nOf (n : Option Int) : Int :=
  match n with
  | none => 1
  | some v => if v = 0 then 1 else v

/-- steps 1–2: the operand's fields after replacement and month shift `(y, m, dd)` -/
def shiftedDT (d : RD) (t0 : DT) (y m dd : Int) : DT :=
  { y := y, m := m, d := dd, hh := d.hour.getD t0.hh, mm := d.minute.getD t0.mm,
    ss := d.second.getD t0.ss, us := d.microsecond.getD t0.us }

/-- step 3 as an instant (µs): the shifted datetime plus the exact duration -/
def afterDuration (d : RD) (t0 : DT) (y m dd : Int) : Int :=
  (shiftedDT d t0 y m dd).toMicros + duration d (decide (m > 2) && Cal.isLeap y)

/-- step 4 as an instant (µs) -/
def afterWeekday (x2 wd : Int) (n : Option Int) : Int :=
  x2 + nthWeekdayOffset (DT.ofMicros x2).weekday wd (nOf n) * 86400000000

/-- step 4: move to the nth weekday (OverflowError when that leaves years 1..9999) -/
def weekdayStep (wd : Option (Int × Option Int)) (kind : Kind) (x2 : Int) : Py.R Temporal :=
  match wd with
  | none => .ok { kind := kind, t := DT.ofMicros x2 }
  | some (w, n) =>
    if afterWeekday x2 w n < DT.minMicros ∨ afterWeekday x2 w n > DT.maxMicros then .error .OverflowError
    else .ok { kind := kind, t := DT.ofMicros (afterWeekday x2 w n) }

/-- steps 3–4 (and the validation of steps 1–2) once the shifted date `(y, m, dd)` is known -/
def applyShifted (d : RD) (kind : Kind) (t0 : DT) (y m dd : Int) : Py.R Temporal :=
  if ¬ RDM.fitsCInt (shiftedDT d t0 y m dd) then .error .OverflowError   -- CPython: not a C int
  else if ¬ (shiftedDT d t0 y m dd).Valid then .error .ValueError
  else if afterDuration d t0 y m dd < DT.minMicros ∨ afterDuration d t0 y m dd > DT.maxMicros then
    .error .OverflowError
  else weekdayStep d.weekday kind (afterDuration d t0 y m dd)

/-- the documented result of `x + d` -/
def apply (d : RD) (x : Temporal) : Py.R Temporal :=
  let s := monthShift (d.year.getD x.t.y) (d.month.getD x.t.m) (d.day.getD x.t.d) (12 * d.years + d.months)
  applyShifted d (if x.kind = .date ∧ hasTimeInfo d = true then .naive else x.kind) x.t s.1 s.2.1 s.2.2

end RDSpec
