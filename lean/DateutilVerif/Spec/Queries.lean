/-
  Spec/Queries.lean — what a user relies on: every query is the corresponding operation on the
  Python list `L = list(rule)` (Python index/slice semantics of Base/Py.lean, and plain list
  functions).  Independent of the loops and of the cache.
-/
import DateutilVerif.Model.Queries

namespace Queries
open Py

/-- strictly increasing -/
abbrev Sorted (l : List Int) : Prop := l.Pairwise (· < ·)

def cmpAfter (t : Int) (inc : Bool) (x : Int) : Bool := if inc then decide (x ≥ t) else decide (x > t)
def cmpBefore (t : Int) (inc : Bool) (x : Int) : Bool := if inc then decide (x ≤ t) else decide (x < t)

/-- first element greater than (or equal to, with inc) t -/
def firstAfter (L : List Int) (t : Int) (inc : Bool) : Option Int := (L.filter (cmpAfter t inc)).head?
/-- last element less than (or equal to, with inc) t -/
def lastBefore (L : List Int) (t : Int) (inc : Bool) : Option Int := (L.filter (cmpBefore t inc)).getLast?
/-- the sublist strictly (or inclusively) between a and b -/
def sublistBetween (L : List Int) (a b : Int) (inc : Bool) : List Int :=
  L.filter (fun x => cmpAfter a inc x && cmpBefore b inc x)
/-- the first n elements after t (all of them for `None`; none for n ≤ 0) -/
def takeAfter (L : List Int) (t : Int) (n : Option Int) (inc : Bool) : List Int :=
  match n with
  | none => L.filter (cmpAfter t inc)
  | some c => (L.filter (cmpAfter t inc)).take c.toNat

def spec : Query → List Int → Res
  | .iterAll, L => .list L
  | .take k, L => .list (L.take k)
  | .index i, L => .ofR (getIdx L i)
  | .slice a b c, L => .ofRL (Py.slice L a b c)
  | .contains x, L => .bool (decide (x ∈ L))
  | .count, L => .nat L.length
  | .before t inc, L => .val (lastBefore L t inc)
  | .after t inc, L => .val (firstAfter L t inc)
  | .xafter t n inc, L => .list (takeAfter L t n inc)
  | .between a b inc, L => .list (sublistBetween L a b inc)

/-- what a finished consumer must hold: list semantics on `src` when the generator ends normally; what the
    uncached object gives when it raises -/
def specE (q : Query) (src : List Int) : Option PyErr → Res
  | none => spec q src
  | some e => if stops q src then spec q src else .err e


end Queries
