/-
  Spec/RSetHistory.lean — what every observation of an add/iterate/query history of a set object
  must be: list semantics on `setSpec` of the members present at that moment; for a kept
  iterator, the next instants of that sequence.  Plus the two side conditions of `history_inv`:
  member rules yield sorted streams, and no iterator created before a mutator is advanced after it.
-/
import DateutilVerif.Model.RRuleSet
import DateutilVerif.Spec.RRuleSet
import DateutilVerif.Spec.Queries

namespace RSet
open Queries

/-- the specified sequence of a set with members `m` -/
def specL (m : Members) : List Int := setSpec m.inc m.exc

/-- bookkeeping of the specification: members, number of mutators so far, and for every kept
    iterator the number of mutators when it was created and how many instants it has delivered -/
structure Track where
  m : Members := {}
  muts : Nat := 0
  opened : List (Nat × Nat) := []
  deriving Repr, Inhabited

def specStep (tr : Track) : Op → Track × Option Res
  | .addRRule l => ({ tr with m := { tr.m with rrules := tr.m.rrules ++ [l] }, muts := tr.muts + 1 }, none)
  | .addRDate d => ({ tr with m := { tr.m with rdates := tr.m.rdates ++ [d] }, muts := tr.muts + 1 }, none)
  | .addExRule l => ({ tr with m := { tr.m with exrules := tr.m.exrules ++ [l] }, muts := tr.muts + 1 }, none)
  | .addExDate d => ({ tr with m := { tr.m with exdates := tr.m.exdates ++ [d] }, muts := tr.muts + 1 }, none)
  | .q q => (tr, some (spec q (specL tr.m)))
  | .open_ k =>
    let vals := (specL tr.m).take k
    ({ tr with opened := tr.opened ++ [(tr.muts, vals.length)] }, some (.list vals))
  | .resume j k =>
    match tr.opened[j]? with
    | none => (tr, none)
    | some (m0, c) =>
      let vals := ((specL tr.m).drop c).take k
      ({ tr with opened := tr.opened.set j (m0, c + vals.length) }, some (.list vals))

def specOps : Track → List Op → List (Option Res)
  | _, [] => []
  | tr, op :: ops => let (tr', r) := specStep tr op; r :: specOps tr' ops

/-- member rules yield sorted streams (C01) -/
def opSorted : Op → Prop
  | .addRRule l => l.Pairwise (· ≤ ·)
  | .addExRule l => l.Pairwise (· ≤ ·)
  | _ => True

/-- this op does not advance an iterator created before an earlier mutator -/
def opFresh (tr : Track) : Op → Prop
  | .resume j _ => ∀ m0 c, tr.opened[j]? = some (m0, c) → m0 = tr.muts
  | _ => True

/-- the query exists in CPython (`Queries.fits`): when a slice bound exceeds `sys.maxsize` the sequence is no longer
    than `sys.maxsize` — true of every Python sequence — and `islice(rule, k)` has `k ≤ sys.maxsize` -/
def opFits (tr : Track) : Op → Prop
  | .q q => fits q (specL tr.m)
  | _ => True

/-- **no iterator created before a mutator is advanced after it** (the complement of D-C10-stale) -/
def NoStale : Track → List Op → Prop
  | _, [] => True
  | tr, op :: ops => opFresh tr op ∧ NoStale (specStep tr op).1 ops

/-- every query of the history exists in CPython -/
def AllFit : Track → List Op → Prop
  | _, [] => True
  | tr, op :: ops => opFits tr op ∧ AllFit (specStep tr op).1 ops

end RSet
