/-
  Spec/Zones.lean — what the TZif data says, stated without any of the lookup machinery.

  * `typeAt r t`: the type of the last transition `≤ t`; before the first transition the first
    standard type, else type 0 (tzfile(5) / the property statement).
  * `fromutcSpec r t` = `t` + the offset in force at `t`.
  * `pre r w`: the UTC instants whose local reading is `w`, as a finite duplicate-free list
    (every solution of `t + off(t) = w` has the form `w − off` for one of the file's offsets).
  * `encode : Raw → List UInt8`: a version-1 TZif stream, written from tzfile(5).
-/
import DateutilVerif.Model.TZif

namespace Spec
open TZ

/-- type used before the first transition -/
def firstType (r : Raw) : Option TType :=
  match r.types.find? (fun t => t.isdst == 0) with
  | some t => some t
  | none => r.types.head?

/-- the type in force at UTC instant `t` -/
def typeAt (r : Raw) (t : Int) : Option TType :=
  match (r.trans.filter (fun p => p.1 ≤ t)).getLast? with
  | some p => r.types[p.2]?
  | none => firstType r

def offsetAt (r : Raw) (t : Int) : Option Int := (typeAt r t).map (·.off)
def nameAt (r : Raw) (t : Int) : Option (List UInt8) := (typeAt r t).map (·.abbr)

/-- local reading of the UTC instant `t` -/
def fromutcSpec (r : Raw) (t : Int) : Option Int := (offsetAt r t).map (t + ·)

/-- UTC instants that read `w` on the local clock -/
def pre (r : Raw) (w : Int) : List Int :=
  ((r.types.map (fun tt => w - tt.off)).eraseDups).filter (fun t => fromutcSpec r t == some w)

/-- instant of the first / last transition recorded in the data -/
def firstTime (r : Raw) : Option Int := r.trans.head?.map (·.1)
def lastTime (r : Raw) : Option Int := r.trans.getLast?.map (·.1)

/-! ### well-formedness of a transition table -/

/-- amount by which an offset change sets the wall clock back (0 for a forward change) -/
def neg (d : Int) : Int := if d < 0 then -d else 0

/-- `wfGo b l`: `l` = (UTC instant, offset after) of the remaining transitions, `b` the offset in
    force before the first of them.  Consecutive transitions are strictly increasing and the
    wall-clock intervals they repeat do not overlap: the set-backs of two neighbouring transitions
    together are smaller than their distance.  (Forward changes need no condition.) -/
def wfGo : Int → List (Int × Int) → Bool
  | _, [] => true
  | _, [_] => true
  | b, (u0, a0) :: (u1, a1) :: rest =>
      decide (neg (a0 - b) + neg (a1 - a0) < u1 - u0) && wfGo a0 ((u1, a1) :: rest)

/-- (UTC instant, offset after) of every transition -/
def timeline (r : Raw) : List (Int × Int) :=
  r.trans.map (fun p => (p.1, (r.types.getD p.2 default).off))

/-- `WF`: at least one type, valid indices, and a non-overlapping strictly increasing timeline -/
def wf (r : Raw) : Bool :=
  r.ok && !r.types.isEmpty && wfGo ((firstType r).getD default).off (timeline r)

/-- DESIGN's coarser condition, reported for information: every |Δoffset| is smaller than the
    distance to both neighbouring transitions -/
def wfCoarseGo : Int → List (Int × Int) → Bool
  | _, [] => true
  | _, [_] => true
  | b, (u0, a0) :: (u1, a1) :: rest =>
      decide ((a0 - b).natAbs < u1 - u0) && decide ((a1 - a0).natAbs < u1 - u0) &&
      wfCoarseGo a0 ((u1, a1) :: rest)

def wfCoarse (r : Raw) : Bool :=
  r.ok && !r.types.isEmpty && wfCoarseGo ((firstType r).getD default).off (timeline r)

/-! ### encoder (tzfile(5), version 1 block only) -/

def be32 (x : Int) : List UInt8 :=
  let u : Nat := (if x < 0 then x + 4294967296 else x).toNat
  [UInt8.ofNat (u / 16777216 % 256), UInt8.ofNat (u / 65536 % 256), UInt8.ofNat (u / 256 % 256),
   UInt8.ofNat (u % 256)]

def u8 (x : Int) : UInt8 := UInt8.ofNat ((if x < 0 then x + 256 else x).toNat % 256)

/-- abbreviation block: every type's abbreviation followed by NUL, in type order -/
def abbrBlock (ts : List TType) : List UInt8 := ts.flatMap (fun t => t.abbr ++ [0])

/-- start index of each type's abbreviation in `abbrBlock` -/
def abbrIdx : Nat → List TType → List Nat
  | _, [] => []
  | k, t :: rest => k :: abbrIdx (k + t.abbr.length + 1) rest

def encode (r : Raw) : List UInt8 :=
  let n : Int := r.types.length
  magic ++ List.replicate 16 0 ++
  be32 n ++ be32 n ++ be32 0 ++ be32 r.trans.length ++ be32 n ++ be32 (abbrBlock r.types).length ++
  r.trans.flatMap (fun p => be32 p.1) ++
  r.trans.map (fun p => UInt8.ofNat p.2) ++
  (r.types.zip (abbrIdx 0 r.types)).flatMap (fun (t, i) => be32 t.off ++ [u8 t.isdst, UInt8.ofNat i]) ++
  abbrBlock r.types ++
  r.types.map (fun t => if t.isstd then 1 else 0) ++
  r.types.map (fun t => if t.isgmt then 1 else 0)

end Spec
