/-
  Spec/RRuleSet.lean — what a recurrence set means: the strictly increasing list of the instants
  that occur in some inclusion member and in no exclusion member.
-/
import DateutilVerif.Base.Py

namespace RSet

/-- insert into a strictly increasing list, dropping duplicates -/
def insertDedup (x : Int) : List Int → List Int
  | [] => [x]
  | y :: ys => if x < y then x :: y :: ys else if x = y then y :: ys else y :: insertDedup x ys

def sortDedup (l : List Int) : List Int := l.foldr insertDedup []

/-- `setSpec inc exc = sortDedup (inc.join.filter (· ∉ exc.join))` -/
def setSpec (inc exc : List (List Int)) : List Int :=
  sortDedup (inc.flatten.filter (fun x => !(exc.flatten.elem x)))

end RSet
