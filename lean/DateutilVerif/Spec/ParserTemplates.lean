/-
  Spec/ParserTemplates.lean — printers of the hand-written template families of C02 (ISO-like with offsets, compact,
  month-name, 12-hour, NNhNNmNNs, numeric) and what each must parse to (`expect`: which fields come from the text, which
  from the default).  The schema-generated templates are in Spec/ParserTemplatesGen.lean together with the list of all
  proved ids (`PT.provedTemplates`).  Every printer is compared with the Python printer of the same id on every run
  (`parser.tmpl` / `parser.rend` / `parser.render` ops).  No Mathlib.
-/
import DateutilVerif.Base.Time

namespace PT

/-- the ASCII digit of `n % 10` -/
def digitChar (n : Nat) : Char := Char.ofNat (48 + n % 10)

/-- `'%02d' % n` for `n < 100` -/
def pad2 (n : Nat) : List Char := [digitChar (n / 10), digitChar n]

/-- `'%04d' % n` for `n < 10000` -/
def pad4 (n : Nat) : List Char := [digitChar (n / 1000), digitChar (n / 100), digitChar (n / 10), digitChar n]

/-- `'%04d-%02d-%02d' + sep + '%02d:%02d:%02d'` (`sep` = `T` or a space) -/
def renderIso (sep : Char) (t : DT) : List Char :=
  pad4 t.y.toNat ++ ['-'] ++ pad2 t.m.toNat ++ ['-'] ++ pad2 t.d.toNat ++ [sep] ++
  pad2 t.hh.toNat ++ [':'] ++ pad2 t.mm.toNat ++ [':'] ++ pad2 t.ss.toNat

end PT

namespace PT

/-- `'%06d' % n` for `n < 1000000` -/
def pad6 (n : Nat) : List Char :=
  [digitChar (n / 100000), digitChar (n / 10000), digitChar (n / 1000), digitChar (n / 100), digitChar (n / 10), digitChar n]

/-- the offset / zone suffix of a rendering -/
inductive Off where
  | naive                                  -- nothing
  | z (sp : Bool)                          -- `Z` / ` Z`
  | utc                                    -- ` UTC`
  | hh (sp neg : Bool) (h : Nat)           -- `±HH`
  | hhmm (sp neg : Bool) (h m : Nat)       -- `±HHMM`
  | hhcmm (sp neg : Bool) (h m : Nat)      -- `±HH:MM`
  deriving Repr, DecidableEq

def spc (sp : Bool) : List Char := if sp then [' '] else []
def sgn (neg : Bool) : Char := if neg then '-' else '+'

def Off.render : Off → List Char
  | .naive => []
  | .z sp => spc sp ++ ['Z']
  | .utc => [' ', 'U', 'T', 'C']
  | .hh sp neg h => spc sp ++ [sgn neg] ++ pad2 h
  | .hhmm sp neg h m => spc sp ++ [sgn neg] ++ pad2 h ++ pad2 m
  | .hhcmm sp neg h m => spc sp ++ [sgn neg] ++ pad2 h ++ [':'] ++ pad2 m

/-- the offset in seconds the suffix means (`none` = no zone) -/
def Off.seconds : Off → Option Int
  | .naive => none
  | .z _ => some 0
  | .utc => some 0
  | .hh _ neg h => some ((if neg then -1 else 1) * ((h : Int) * 3600))
  | .hhmm _ neg h m => some ((if neg then -1 else 1) * ((h : Int) * 3600 + (m : Int) * 60))
  | .hhcmm _ neg h m => some ((if neg then -1 else 1) * ((h : Int) * 3600 + (m : Int) * 60))

/-- offsets between -23:59 and +23:59 -/
def Off.Dom : Off → Prop
  | .hh _ _ h => h ≤ 23
  | .hhmm _ _ h m => h ≤ 23 ∧ m ≤ 59
  | .hhcmm _ _ h m => h ≤ 23 ∧ m ≤ 59
  | _ => True

/-- the time-of-day part of the ISO-like renderings -/
inductive TimeFmt where
  | hms                                    -- HH:MM:SS
  | frac (comma : Bool) (k : Nat)          -- HH:MM:SS.f… / HH:MM:SS,f… with k fraction digits
  | hm                                     -- HH:MM
  deriving Repr, DecidableEq

def TimeFmt.render (f : TimeFmt) (t : DT) : List Char :=
  match f with
  | .hms => pad2 t.hh.toNat ++ [':'] ++ pad2 t.mm.toNat ++ [':'] ++ pad2 t.ss.toNat
  | .frac comma k => pad2 t.hh.toNat ++ [':'] ++ pad2 t.mm.toNat ++ [':'] ++ pad2 t.ss.toNat ++
      [if comma then ',' else '.'] ++ (pad6 t.us.toNat).take k
  | .hm => pad2 t.hh.toNat ++ [':'] ++ pad2 t.mm.toNat

/-- what parsing must return: the fields the format shows, microseconds cut to the digits shown; `HH:MM`
    names neither seconds nor microseconds, which therefore come from the default (C15) -/
def TimeFmt.expect (f : TimeFmt) (t dflt : DT) : DT :=
  match f with
  | .hms => { t with us := 0 }
  | .frac _ k => { t with us := t.us / 10 ^ (6 - k) * 10 ^ (6 - k) }
  | .hm => { t with ss := dflt.ss, us := dflt.us }

def isoDate (t : DT) : List Char := pad4 t.y.toNat ++ ['-'] ++ pad2 t.m.toNat ++ ['-'] ++ pad2 t.d.toNat

/-- `YYYY-MM-DD<sep><time><offset>` -/
def renderIsoX (sep : Char) (f : TimeFmt) (t : DT) (off : Off) : List Char :=
  isoDate t ++ [sep] ++ f.render t ++ off.render

end PT

namespace PT

/-- the compact all-digit renderings -/
inductive CompactFmt where
  | tHMS       -- YYYYMMDDTHHMMSS
  | nosepHMS   -- YYYYMMDDHHMMSS
  | tHM        -- YYYYMMDDTHHMM
  | date       -- YYYYMMDD
  deriving Repr, DecidableEq

def compactDate (t : DT) : List Char := pad4 t.y.toNat ++ pad2 t.m.toNat ++ pad2 t.d.toNat

def renderCompact (f : CompactFmt) (t : DT) : List Char :=
  match f with
  | .tHMS => compactDate t ++ ['T'] ++ (pad2 t.hh.toNat ++ pad2 t.mm.toNat ++ pad2 t.ss.toNat)
  | .nosepHMS => compactDate t ++ (pad2 t.hh.toNat ++ pad2 t.mm.toNat ++ pad2 t.ss.toNat)
  | .tHM => compactDate t ++ ['T'] ++ (pad2 t.hh.toNat ++ pad2 t.mm.toNat)
  | .date => compactDate t

/-- the date part in front of a compact time with a fraction -/
inductive CFHead where
  | compactT        -- `YYYYMMDDT`
  | isoT            -- `YYYY-MM-DDT`
  | isoSp           -- `YYYY-MM-DD `
  deriving DecidableEq, Repr

def CFHead.render (hd : CFHead) (t : DT) : List Char :=
  match hd with
  | .compactT => compactDate t ++ ['T']
  | .isoT => pad4 t.y.toNat ++ ['-'] ++ pad2 t.m.toNat ++ ['-'] ++ pad2 t.d.toNat ++ ['T']
  | .isoSp => pad4 t.y.toNat ++ ['-'] ++ pad2 t.m.toNat ++ ['-'] ++ pad2 t.d.toNat ++ [' ']

/-- `<date>HHMMSS(.|,)f{k}<offset>`: a compact time with `k` fraction digits (expectation: `TimeFmt.expect (.frac _ k)`) -/
def renderCFrac (hd : CFHead) (comma : Bool) (k : Nat) (t : DT) (off : Off) : List Char :=
  hd.render t ++ (pad2 t.hh.toNat ++ pad2 t.mm.toNat ++ pad2 t.ss.toNat ++ [if comma then ',' else '.'] ++
    (pad6 t.us.toNat).take k ++ off.render)

/-- what parsing must return; fields the text does not name come from the default
    (`HHMMSS` after `T` names the microsecond as 0, the 14-digit form does not) -/
def CompactFmt.expect (f : CompactFmt) (t dflt : DT) : DT :=
  match f with
  | .tHMS => { t with us := 0 }
  | .nosepHMS => { t with us := dflt.us }
  | .tHM => { t with ss := dflt.ss, us := dflt.us }
  | .date => { t with hh := dflt.hh, mm := dflt.mm, ss := dflt.ss, us := dflt.us }

end PT

namespace PT

def MON_ABBR : List (List Char) :=
  ["Jan", "Feb", "Mar", "Apr", "May", "Jun", "Jul", "Aug", "Sep", "Oct", "Nov", "Dec"].map String.toList
def MON_FULL : List (List Char) :=
  ["January", "February", "March", "April", "May", "June", "July", "August", "September", "October", "November",
   "December"].map String.toList
def WD_ABBR : List (List Char) := ["Mon", "Tue", "Wed", "Thu", "Fri", "Sat", "Sun"].map String.toList

/-- `MON[m - 1]`, `MONL[m - 1]`, `WD[w]` -/
def monAbbr (m : Nat) : List Char := MON_ABBR.getD (m - 1) []
def monFull (m : Nat) : List Char := MON_FULL.getD (m - 1) []
def wdAbbr (w : Nat) : List Char := WD_ABBR.getD w []

/-- `'%d' % n` for `n < 100` -/
def dec12 (n : Nat) : List Char := if n < 10 then [digitChar n] else pad2 n
/-- `'%2d' % n` for `n < 100` (space padded) -/
def sp2 (n : Nat) : List Char := if n < 10 then [' ', digitChar n] else pad2 n

def hmsColon (t : DT) : List Char := pad2 t.hh.toNat ++ [':'] ++ pad2 t.mm.toNat ++ [':'] ++ pad2 t.ss.toNat

/-- month-name renderings (`w` = any weekday index 0..6: the parser ignores it when a day is given) -/
inductive MonFmt where
  | ctime (w : Nat)        -- Www Mmm dd HH:MM:SS YYYY      (day space-padded, as C's ctime)
  | rfc2822 (w : Nat)      -- Www, DD Mmm YYYY HH:MM:SS<offset>
  | longDate               -- Month D, YYYY
  | dMonY                  -- D Mon YYYY
  | ddMonY                 -- DD-Mon-YYYY
  deriving Repr, DecidableEq

def renderMon (f : MonFmt) (t : DT) (off : Off) : List Char :=
  match f with
  | .ctime w => wdAbbr w ++ [' '] ++ monAbbr t.m.toNat ++ [' '] ++ sp2 t.d.toNat ++ [' '] ++ hmsColon t ++ [' '] ++ pad4 t.y.toNat
  | .rfc2822 w => wdAbbr w ++ [',', ' '] ++ pad2 t.d.toNat ++ [' '] ++ monAbbr t.m.toNat ++ [' '] ++ pad4 t.y.toNat ++ [' '] ++
      hmsColon t ++ off.render
  | .longDate => monFull t.m.toNat ++ [' '] ++ dec12 t.d.toNat ++ [',', ' '] ++ pad4 t.y.toNat
  | .dMonY => dec12 t.d.toNat ++ [' '] ++ monAbbr t.m.toNat ++ [' '] ++ pad4 t.y.toNat
  | .ddMonY => pad2 t.d.toNat ++ ['-'] ++ monAbbr t.m.toNat ++ ['-'] ++ pad4 t.y.toNat

/-- which fields the text names -/
def MonFmt.expect (f : MonFmt) (t dflt : DT) : DT :=
  match f with
  | .ctime _ => { t with us := 0 }
  | .rfc2822 _ => { t with us := 0 }
  | _ => { t with hh := dflt.hh, mm := dflt.mm, ss := dflt.ss, us := dflt.us }

/-- D-C02 excludes years below 100 wherever the year reaches `_ymd.append` as a Decimal -/
def MonFmt.Dom (f : MonFmt) (t : DT) : Prop :=
  match f with
  | .ctime w => w < 7 ∧ 100 ≤ t.y
  | .rfc2822 w => w < 7 ∧ 100 ≤ t.y
  | .longDate => 100 ≤ t.y
  | .dMonY => 100 ≤ t.y
  | .ddMonY => True

end PT

namespace PT

/-- 12-hour clock: `12` for hours 0 and 12 -/
def h12 (h : Nat) : Nat := if h % 12 = 0 then 12 else h % 12
def apWord (h : Nat) : List Char := if h < 12 then ['A', 'M'] else ['P', 'M']

/-- `YYYY-MM-DD H:MM AM|PM` -/
def renderAmpm (t : DT) : List Char :=
  isoDate t ++ [' '] ++ dec12 (h12 t.hh.toNat) ++ [':'] ++ pad2 t.mm.toNat ++ [' '] ++ apWord t.hh.toNat

/-- `YYYY-MM-DD HHhMMmSSs` -/
def renderHmsLetters (t : DT) : List Char :=
  isoDate t ++ [' '] ++ pad2 t.hh.toNat ++ ['h'] ++ pad2 t.mm.toNat ++ ['m'] ++ pad2 t.ss.toNat ++ ['s']

/-- ctime followed by an offset (after a space): `Www Mmm dd HH:MM:SS YYYY <offset>` -/
def renderCtimeOff (w : Nat) (t : DT) (off : Off) : List Char :=
  renderMon (.ctime w) t .naive ++ off.render

/-- `YYYY-MM-DD HHhMMmSS(.|,)f{k}s<offset>`: the unit notation with `k` fraction digits on the seconds
    (expectation: `TimeFmt.expect (.frac _ k)`; the theorem covers k = 1, 2, 4, 6 — with 3 or 5 digits the token `SS.fff` /
    `SS.fffff` is 6 / 8 characters long and /repo rejects it: known finding D-C02-hms-fraction-token-length) -/
def renderHmsFrac (comma : Bool) (k : Nat) (t : DT) (off : Off) : List Char :=
  isoDate t ++ [' '] ++ pad2 t.hh.toNat ++ ['h'] ++ pad2 t.mm.toNat ++ ['m'] ++
    (pad2 t.ss.toNat ++ [if comma then ',' else '.'] ++ (pad6 t.us.toNat).take k ++ ('s' :: off.render))

end PT

namespace PT

/-- all-numeric dates with `/` (family 7) -/
inductive NumFmt where
  | us      -- MM/DD/YYYY            (no flag)
  | eu      -- DD/MM/YYYY            (dayfirst)
  | yf      -- YYYY/MM/DD            (any yearfirst)
  | us2     -- MM/DD/YY
  | eu2     -- DD/MM/YY              (dayfirst)
  | yf2     -- YY/MM/DD              (yearfirst)
  deriving Repr, DecidableEq

def NumFmt.dayfirst : NumFmt → Bool
  | .eu => true | .eu2 => true | _ => false
def NumFmt.twoDigit : NumFmt → Bool
  | .us2 => true | .eu2 => true | .yf2 => true | _ => false

def renderNum (f : NumFmt) (t : DT) : List Char :=
  let y4 := pad4 t.y.toNat; let y2 := pad2 (t.y.toNat % 100); let m := pad2 t.m.toNat; let d := pad2 t.d.toNat
  match f with
  | .us => m ++ ['/'] ++ d ++ ['/'] ++ y4
  | .eu => d ++ ['/'] ++ m ++ ['/'] ++ y4
  | .yf => y4 ++ ['/'] ++ m ++ ['/'] ++ d
  | .us2 => m ++ ['/'] ++ d ++ ['/'] ++ y2
  | .eu2 => d ++ ['/'] ++ m ++ ['/'] ++ y2
  | .yf2 => y2 ++ ['/'] ++ m ++ ['/'] ++ d

end PT
