/-
  Spec/ParserTemplates.lean — printers of the rendering templates of C02 that have a Lean
  theorem (the all-numeric ISO-like family); the other templates are printed by the harness
  (harness/props/_parser_gen.py) and tied by the correspondence only.
  Compared with the Python printer on every run (`parser.render` op).  No Mathlib.
-/
import DateutilVerif.Base.Time

namespace PT

/-- the ASCII digit of `n % 10` -/
def digitChar (n : Nat) : Char := Char.ofNat (48 + n % 10)

/-- `'%02d' % n` for `n < 100` -/
def pad2 (n : Nat) : List Char := [digitChar (n / 10), digitChar n]

/-- `'%04d' % n` for `n < 10000` -/
def pad4 (n : Nat) : List Char := [digitChar (n / 1000), digitChar (n / 100), digitChar (n / 10), digitChar n]

/-- `'%04d-%02d-%02d' + sep + '%02d:%02d:%02d'` (`sep` = `T` or a space) -/
def renderIso (sep : Char) (t : DT) : List Char :=
  pad4 t.y.toNat ++ ['-'] ++ pad2 t.m.toNat ++ ['-'] ++ pad2 t.d.toNat ++ [sep] ++
  pad2 t.hh.toNat ++ [':'] ++ pad2 t.mm.toNat ++ [':'] ++ pad2 t.ss.toNat

end PT
