/-
  Spec/Posix.lean — POSIX TZ rule semantics (IEEE Std 1003.1, "TZ" environment variable),
  written from the standard, not from dateutil:

  * `Mm.w.d`: day `d` (0 = Sunday) of week `w` of month `m`; week 1 is the first week in which
    day `d` occurs, week 5 the last `d` day of the month;
  * `Jn` (1 ≤ n ≤ 365): Julian day, February 29 is never counted;
  * `n` (0 ≤ n ≤ 365): zero-based day of the year, counting February 29;
  * daylight time starts at the start rule's date + time in local *standard* time and ends at
    the end rule's date + time in local *daylight* time, each year, either hemisphere order.
  Offsets are seconds EAST of UTC (already sign-converted). Instants are seconds since
  0001-01-01T00:00 minus one day (ordinal·86400), UTC.
-/
import DateutilVerif.Base.Calendar

namespace Posix

inductive Rule where
  | M (m w d : Int)
  | J (n : Int)
  | N (n : Int)
  deriving DecidableEq, Repr, Inhabited

/-- proleptic ordinal of the rule's date in year `y` -/
def ruleOrdinal (y : Int) : Rule → Int
  | .M m w d =>
    let first := Cal.toOrdinal y m 1
    let pyd := (d + 6) % 7                         -- POSIX 0 = Sunday → Monday = 0
    let delta := (pyd - Cal.weekdayOfOrd first) % 7
    let day := 1 + delta + 7 * (w - 1)
    let day := if day > Cal.daysInMonth y m then day - 7 else day
    first + day - 1
  | .J n => Cal.toOrdinal y 1 1 + (n - 1) + (if Cal.isLeap y && n ≥ 60 then 1 else 0)
  | .N n => Cal.toOrdinal y 1 1 + n

structure Spec where
  stdOff : Int
  dstOff : Int
  startRule : Rule
  startTime : Int := 7200
  endRule : Rule
  endTime : Int := 7200
  deriving DecidableEq, Repr, Inhabited

/-- UTC instant at which daylight time starts in year `y` -/
def startUtc (s : Spec) (y : Int) : Int := ruleOrdinal y s.startRule * 86400 + s.startTime - s.stdOff
/-- UTC instant at which daylight time ends in year `y` -/
def endUtc (s : Spec) (y : Int) : Int := ruleOrdinal y s.endRule * 86400 + s.endTime - s.dstOff

/-- daylight interval(s) anchored in year `y`: `[start y, end y)` when the start precedes the end,
    else (southern hemisphere) `[start y, end (y+1))` -/
def inDstOfYear (s : Spec) (y : Int) (t : Int) : Bool :=
  if startUtc s y < endUtc s y then decide (startUtc s y ≤ t ∧ t < endUtc s y)
  else decide (startUtc s y ≤ t ∧ t < endUtc s (y + 1))

/-- is daylight time in force at the UTC instant `t`? -/
def isDstAt (s : Spec) (t : Int) : Bool :=
  let y := (Cal.fromOrdinal (t / 86400)).1
  inDstOfYear s (y - 1) t || inDstOfYear s y t || inDstOfYear s (y + 1) t

def offsetAt (s : Spec) (t : Int) : Int := if isDstAt s t then s.dstOff else s.stdOff

end Posix
