/-
  Spec/ParserSentence.lean — the DECIDABLE class of sentences of the C15 sentence theorems: filler words around one rendering.
  No Mathlib (the driver evaluates `fillerWord` and prints the sentence texts for the per-run comparison with the oracle's).
-/
import DateutilVerif.Model.Parser

namespace PM

/-- the stock parserinfo tables (the flags, the year and the century play no role in the table lookups) -/
def stock : Info := Info.default false false 0 0

/-- non-empty, ASCII letters only -/
def isAlphaWord (w : List Char) : Bool :=
  !w.isEmpty && w.all (fun c => decide (c.toNat < 128) && (asciiCls c).isWord && decide (c ≠ '\x00'))

/-- a filler word (decidable): ASCII letters only; not a number to `float()` (`inf`, `nan`, `infinity`); in none of the stock
    parserinfo tables the scan consults (weekday, month, h/m/s unit, AM/PM); and not shaped like a zone abbreviation (at most five
    characters, all of them upper case, or a UTC name) -/
def fillerWord (w : Token) : Bool :=
  isAlphaWord w && !floatOk asciiCls w && (stock.weekdayOf w).isNone && (stock.monthOf w).isNone &&
    (stock.hmsOf w).isNone && (stock.ampmOf w).isNone &&
    !(decide (w.length ≤ 5) && (w.all isAsciiUpper || stock.UTCZONE.contains w))

/-- the characters / tokens of ` w₁ w₂ … wₙ` (each word after one space) behind the rendering -/
def fillerChars (ws : List Token) : List Char := ws.flatMap (fun w => ' ' :: w)
def fillerToks (ws : List Token) : List Token := ws.flatMap (fun w => [[' '], w])

/-- the characters / tokens of `u₁ u₂ … uₙ ` (each word followed by one space) in front of the rendering -/
def leadChars (us : List Token) : List Char := us.flatMap (fun w => w ++ [' '])
def leadToks (us : List Token) : List Token := us.flatMap (fun w => [w, [' ']])

end PM
