/-
  Spec/IsoForms.lean — the ISO-8601 representations the parser documents, as a PRINTER.

  An `IsoForm` is (date form × time form × offset form × separator byte); `render f x` prints
  the numeric fields `x` in that form; `WFields f x` says the fields are in calendar / clock
  range for that form; `denote f x` is the value the representation stands for (fields not
  rendered default to their lowest value, fraction digits beyond microseconds are truncated,
  offset zero is UTC, 24:00 is midnight of the following day).

  `recognise` is the render-inverse used as the C20 oracle: template matching with fixed field
  widths, written independently of the parser model (it enumerates every form and returns
  every denotation, so a string that is a representation in two forms — possible only with
  a digit as the any-character separator — yields both).

  No Mathlib; nothing from Model/ is imported except the value type (Model/IsoTypes.lean).
-/
import DateutilVerif.Base.Py
import DateutilVerif.Base.Calendar
import DateutilVerif.Base.Time
import DateutilVerif.Model.IsoTypes

namespace IsoSpec

abbrev Bytes := List Nat

inductive DateForm where
  | calExt      -- YYYY-MM-DD
  | calBas      -- YYYYMMDD
  | year        -- YYYY
  | yearMonth   -- YYYY-MM
  | weekExtD    -- YYYY-Www-D
  | weekBasD    -- YYYYWwwD
  | weekExt     -- YYYY-Www
  | weekBas     -- YYYYWww
  | ordExt      -- YYYY-DDD
  | ordBas      -- YYYYDDD
  deriving DecidableEq, Repr, Inhabited

inductive TimeForm where
  | none
  | h           -- hh
  | hmExt       -- hh:mm
  | hmBas       -- hhmm
  | hmsExt      -- hh:mm:ss
  | hmsBas      -- hhmmss
  | hmsfExt (comma : Bool)   -- hh:mm:ss.f+  /  hh:mm:ss,f+
  | hmsfBas (comma : Bool)   -- hhmmss.f+    /  hhmmss,f+
  deriving DecidableEq, Repr, Inhabited

inductive OffForm where
  | naive
  | Z | z
  | hh          -- ±HH
  | hhmm        -- ±HHMM
  | hhcmm       -- ±HH:MM
  deriving DecidableEq, Repr, Inhabited

structure IsoForm where
  date : DateForm
  time : TimeForm
  off : OffForm
  sep : Nat            -- the byte between date and time (unused when `time = none`)
  deriving DecidableEq, Repr, Inhabited

/-- the numeric fields of a representation -/
structure Fields where
  year : Nat
  a : Nat := 1          -- month | ISO week | day of year
  b : Nat := 1          -- day of month | ISO weekday
  hh : Nat := 0
  mm : Nat := 0
  ss : Nat := 0
  frac : List Nat := [] -- fraction digits (values 0..9), most significant first
  neg : Bool := false   -- offset sign
  oh : Nat := 0
  om : Nat := 0
  deriving DecidableEq, Repr, Inhabited

/-- a complete date (one a time may follow) -/
def DateForm.complete : DateForm → Bool
  | .calExt | .calBas | .weekExtD | .weekBasD | .ordExt | .ordBas => true
  | _ => false

def TimeForm.hasFrac : TimeForm → Bool
  | .hmsfExt _ | .hmsfBas _ => true
  | _ => false

/-- which combinations exist: an incomplete date stands alone, an offset needs a time -/
def IsoForm.ok (f : IsoForm) : Bool :=
  (f.time == .none && f.off == .naive) || (f.time != .none && f.date.complete)

/-! ### printer -/

def dch (d : Nat) : Nat := 48 + d % 10
def pad1 (n : Nat) : Bytes := [dch n]
def pad2 (n : Nat) : Bytes := [dch (n / 10), dch n]
def pad3 (n : Nat) : Bytes := [dch (n / 100), dch (n / 10), dch n]
def pad4 (n : Nat) : Bytes := [dch (n / 1000), dch (n / 100), dch (n / 10), dch n]

def renderDate : DateForm → Fields → Bytes
  | .calExt, x => pad4 x.year ++ [45] ++ pad2 x.a ++ [45] ++ pad2 x.b
  | .calBas, x => pad4 x.year ++ pad2 x.a ++ pad2 x.b
  | .year, x => pad4 x.year
  | .yearMonth, x => pad4 x.year ++ [45] ++ pad2 x.a
  | .weekExtD, x => pad4 x.year ++ [45, 87] ++ pad2 x.a ++ [45] ++ pad1 x.b
  | .weekBasD, x => pad4 x.year ++ [87] ++ pad2 x.a ++ pad1 x.b
  | .weekExt, x => pad4 x.year ++ [45, 87] ++ pad2 x.a
  | .weekBas, x => pad4 x.year ++ [87] ++ pad2 x.a
  | .ordExt, x => pad4 x.year ++ [45] ++ pad3 x.a
  | .ordBas, x => pad4 x.year ++ pad3 x.a

def fracMark (comma : Bool) : Nat := if comma then 44 else 46

def renderTime : TimeForm → Fields → Bytes
  | .none, _ => []
  | .h, x => pad2 x.hh
  | .hmExt, x => pad2 x.hh ++ [58] ++ pad2 x.mm
  | .hmBas, x => pad2 x.hh ++ pad2 x.mm
  | .hmsExt, x => pad2 x.hh ++ [58] ++ pad2 x.mm ++ [58] ++ pad2 x.ss
  | .hmsBas, x => pad2 x.hh ++ pad2 x.mm ++ pad2 x.ss
  | .hmsfExt c, x => pad2 x.hh ++ [58] ++ pad2 x.mm ++ [58] ++ pad2 x.ss ++ [fracMark c] ++ x.frac.map dch
  | .hmsfBas c, x => pad2 x.hh ++ pad2 x.mm ++ pad2 x.ss ++ [fracMark c] ++ x.frac.map dch

def signByte (neg : Bool) : Nat := if neg then 45 else 43

def renderOff : OffForm → Fields → Bytes
  | .naive, _ => []
  | .Z, _ => [90]
  | .z, _ => [122]
  | .hh, x => [signByte x.neg] ++ pad2 x.oh
  | .hhmm, x => [signByte x.neg] ++ pad2 x.oh ++ pad2 x.om
  | .hhcmm, x => [signByte x.neg] ++ pad2 x.oh ++ [58] ++ pad2 x.om

def render (f : IsoForm) (x : Fields) : Bytes :=
  match f.time with
  | .none => renderDate f.date x
  | t => renderDate f.date x ++ [f.sep] ++ renderTime t x ++ renderOff f.off x

/-! ### denotation -/

export IsoT (Off Value)

/-- number of ISO weeks of ISO year `y` (52 or 53) -/
def isoWeeksInYear (y : Int) : Int := (Cal.isoWeek1Monday (y + 1) - Cal.isoWeek1Monday y) / 7

/-- ordinal of the day a date form denotes -/
def dateOrdinal : DateForm → Fields → Int
  | .calExt, x | .calBas, x => Cal.toOrdinal x.year x.a x.b
  | .year, x => Cal.toOrdinal x.year 1 1
  | .yearMonth, x => Cal.toOrdinal x.year x.a 1
  | .weekExtD, x | .weekBasD, x => Cal.isoWeek1Monday x.year + ((x.a : Int) - 1) * 7 + ((x.b : Int) - 1)
  | .weekExt, x | .weekBas, x => Cal.isoWeek1Monday x.year + ((x.a : Int) - 1) * 7
  | .ordExt, x | .ordBas, x => Cal.toOrdinal x.year 1 1 + ((x.a : Int) - 1)

/-- date fields in range for the form; `strictWeek` = the ISO year really has that week -/
def dateWF (strictWeek : Bool) : DateForm → Fields → Bool
  | .calExt, x | .calBas, x => decide (Cal.ValidDate x.year x.a x.b)
  | .year, x => decide (1 ≤ x.year ∧ x.year ≤ 9999)
  | .yearMonth, x => decide (1 ≤ x.year ∧ x.year ≤ 9999 ∧ 1 ≤ x.a ∧ x.a ≤ 12)
  | .weekExtD, x | .weekBasD, x =>
      decide (1 ≤ x.year ∧ x.year ≤ 9999 ∧ 1 ≤ x.a ∧ x.a ≤ 53 ∧ 1 ≤ x.b ∧ x.b ≤ 7) &&
      (!strictWeek || decide ((x.a : Int) ≤ isoWeeksInYear x.year))
  | .weekExt, x | .weekBas, x =>
      decide (1 ≤ x.year ∧ x.year ≤ 9999 ∧ 1 ≤ x.a ∧ x.a ≤ 53) &&
      (!strictWeek || decide ((x.a : Int) ≤ isoWeeksInYear x.year))
  | .ordExt, x | .ordBas, x =>
      decide (1 ≤ x.year ∧ x.year ≤ 9999 ∧ 1 ≤ x.a ∧ (x.a : Int) ≤ Cal.daysInYear x.year)

/-- microseconds denoted by the fraction digits: the first six, right-padded with zeros -/
def fracMicros (ds : List Nat) : Nat :=
  (ds.take 6).foldl (fun acc d => acc * 10 + d) 0 * 10 ^ (6 - (ds.take 6).length)

def TimeForm.hasM : TimeForm → Bool
  | .none | .h => false
  | _ => true
def TimeForm.hasS : TimeForm → Bool
  | .none | .h | .hmExt | .hmBas => false
  | _ => true

/-- the (hh, mm, ss, µs) a time form shows; components not rendered are 0 -/
def timeShown (t : TimeForm) (x : Fields) : Nat × Nat × Nat × Nat :=
  (if t == .none then 0 else x.hh, if t.hasM then x.mm else 0, if t.hasS then x.ss else 0,
   if t.hasFrac then fracMicros x.frac else 0)

def timeWF (t : TimeForm) (x : Fields) : Bool :=
  let (h, m, s, us) := timeShown t x
  (decide (h ≤ 23 ∧ m ≤ 59 ∧ s ≤ 59) || decide (h = 24 ∧ m = 0 ∧ s = 0 ∧ us = 0)) &&
  (!t.hasFrac || (x.frac != [] && x.frac.all (fun d => decide (d ≤ 9))))

def offWF (o : OffForm) (x : Fields) : Bool :=
  match o with
  | .naive | .Z | .z => true
  | .hh => decide (x.oh ≤ 23)
  | .hhmm | .hhcmm => decide (x.oh ≤ 23 ∧ x.om ≤ 59)

def offDenote (o : OffForm) (x : Fields) : Option Off :=
  match o with
  | .naive => none
  | .Z | .z => some .utc
  | .hh => if x.oh = 0 then some .utc else some (.fixed ((if x.neg then -1 else 1) * ((x.oh : Int) * 3600)))
  | .hhmm | .hhcmm =>
      if x.oh = 0 ∧ x.om = 0 then some .utc
      else some (.fixed ((if x.neg then -1 else 1) * ((x.oh : Int) * 3600 + (x.om : Int) * 60)))

/-- the day and time of day denoted (24:00 = midnight of the following day) -/
def denoteOrdinal (f : IsoForm) (x : Fields) : Int :=
  dateOrdinal f.date x + (if (timeShown f.time x).1 = 24 then 1 else 0)

/-- well-formed fields: the form exists, every field is in range and the denoted day exists -/
def WFieldsB (strictWeek : Bool) (f : IsoForm) (x : Fields) : Bool :=
  f.ok && dateWF strictWeek f.date x && timeWF f.time x && offWF f.off x &&
  decide (1 ≤ denoteOrdinal f x ∧ denoteOrdinal f x ≤ Cal.maxOrdinal)

/-- full-strength field validity (week ≤ number of ISO weeks of the year) -/
def WFields (f : IsoForm) (x : Fields) : Prop := WFieldsB true f x = true
/-- the validity the current code enforces (week 53 admitted for every year: D-C20c) -/
def WFieldsLax (f : IsoForm) (x : Fields) : Prop := WFieldsB false f x = true

def denote (f : IsoForm) (x : Fields) : Value :=
  let (y, m, d) := Cal.fromOrdinal (denoteOrdinal f x)
  let (h, mi, s, us) := timeShown f.time x
  { dt := { y, m, d, hh := if h = 24 then 0 else h, mm := mi, ss := s, us := us },
    off := offDenote f.off x }

/-! ### recogniser (render-inverse) -/

def isDig (b : Nat) : Bool := decide (48 ≤ b ∧ b ≤ 57)

/-- a `w`-digit number at the head of `s` -/
def takeNum (w : Nat) (s : Bytes) : Option (Nat × Bytes) :=
  if s.length ≥ w ∧ (s.take w).all isDig then
    some ((s.take w).foldl (fun acc b => acc * 10 + (b - 48)) 0, s.drop w)
  else none

def takeLit (c : Nat) (s : Bytes) : Option Bytes :=
  match s with
  | b :: r => if b = c then some r else none
  | [] => none

def recogDate (df : DateForm) (s : Bytes) : Option (Fields × Bytes) := do
  let (y, s) ← takeNum 4 s
  match df with
  | .calExt => do
      let s ← takeLit 45 s; let (a, s) ← takeNum 2 s; let s ← takeLit 45 s; let (b, s) ← takeNum 2 s
      pure ({ year := y, a, b }, s)
  | .calBas => do
      let (a, s) ← takeNum 2 s; let (b, s) ← takeNum 2 s
      pure ({ year := y, a, b }, s)
  | .year => pure ({ year := y }, s)
  | .yearMonth => do
      let s ← takeLit 45 s; let (a, s) ← takeNum 2 s
      pure ({ year := y, a }, s)
  | .weekExtD => do
      let s ← takeLit 45 s; let s ← takeLit 87 s; let (a, s) ← takeNum 2 s
      let s ← takeLit 45 s; let (b, s) ← takeNum 1 s
      pure ({ year := y, a, b }, s)
  | .weekBasD => do
      let s ← takeLit 87 s; let (a, s) ← takeNum 2 s; let (b, s) ← takeNum 1 s
      pure ({ year := y, a, b }, s)
  | .weekExt => do
      let s ← takeLit 45 s; let s ← takeLit 87 s; let (a, s) ← takeNum 2 s
      pure ({ year := y, a }, s)
  | .weekBas => do
      let s ← takeLit 87 s; let (a, s) ← takeNum 2 s
      pure ({ year := y, a }, s)
  | .ordExt => do
      let s ← takeLit 45 s; let (a, s) ← takeNum 3 s
      pure ({ year := y, a }, s)
  | .ordBas => do
      let (a, s) ← takeNum 3 s
      pure ({ year := y, a }, s)

/-- fraction: mark, then the maximal run of digits (at least one) -/
def takeFrac (comma : Bool) (s : Bytes) : Option (List Nat × Bytes) := do
  let s ← takeLit (fracMark comma) s
  let ds := s.takeWhile isDig
  if ds = [] then none else pure (ds.map (· - 48), s.drop ds.length)

def recogTime (tf : TimeForm) (x : Fields) (s : Bytes) : Option (Fields × Bytes) :=
  match tf with
  | .none => pure (x, s)
  | .h => do let (h, s) ← takeNum 2 s; pure ({ x with hh := h }, s)
  | .hmExt => do
      let (h, s) ← takeNum 2 s; let s ← takeLit 58 s; let (m, s) ← takeNum 2 s
      pure ({ x with hh := h, mm := m }, s)
  | .hmBas => do
      let (h, s) ← takeNum 2 s; let (m, s) ← takeNum 2 s
      pure ({ x with hh := h, mm := m }, s)
  | .hmsExt => do
      let (h, s) ← takeNum 2 s; let s ← takeLit 58 s; let (m, s) ← takeNum 2 s
      let s ← takeLit 58 s; let (sec, s) ← takeNum 2 s
      pure ({ x with hh := h, mm := m, ss := sec }, s)
  | .hmsBas => do
      let (h, s) ← takeNum 2 s; let (m, s) ← takeNum 2 s; let (sec, s) ← takeNum 2 s
      pure ({ x with hh := h, mm := m, ss := sec }, s)
  | .hmsfExt c => do
      let (h, s) ← takeNum 2 s; let s ← takeLit 58 s; let (m, s) ← takeNum 2 s
      let s ← takeLit 58 s; let (sec, s) ← takeNum 2 s; let (fr, s) ← takeFrac c s
      pure ({ x with hh := h, mm := m, ss := sec, frac := fr }, s)
  | .hmsfBas c => do
      let (h, s) ← takeNum 2 s; let (m, s) ← takeNum 2 s; let (sec, s) ← takeNum 2 s
      let (fr, s) ← takeFrac c s
      pure ({ x with hh := h, mm := m, ss := sec, frac := fr }, s)

def takeSign (s : Bytes) : Option (Bool × Bytes) :=
  match s with
  | b :: r => if b = 45 then some (true, r) else if b = 43 then some (false, r) else none
  | [] => none

def recogOff (o : OffForm) (x : Fields) (s : Bytes) : Option (Fields × Bytes) :=
  match o with
  | .naive => pure (x, s)
  | .Z => do let s ← takeLit 90 s; pure (x, s)
  | .z => do let s ← takeLit 122 s; pure (x, s)
  | .hh => do
      let (n, s) ← takeSign s; let (h, s) ← takeNum 2 s
      pure ({ x with neg := n, oh := h }, s)
  | .hhmm => do
      let (n, s) ← takeSign s; let (h, s) ← takeNum 2 s; let (m, s) ← takeNum 2 s
      pure ({ x with neg := n, oh := h, om := m }, s)
  | .hhcmm => do
      let (n, s) ← takeSign s; let (h, s) ← takeNum 2 s; let s ← takeLit 58 s; let (m, s) ← takeNum 2 s
      pure ({ x with neg := n, oh := h, om := m }, s)

def allDateForms : List DateForm :=
  [.calExt, .calBas, .year, .yearMonth, .weekExtD, .weekBasD, .weekExt, .weekBas, .ordExt, .ordBas]
def allTimeForms : List TimeForm :=
  [.none, .h, .hmExt, .hmBas, .hmsExt, .hmsBas, .hmsfExt false, .hmsfExt true, .hmsfBas false, .hmsfBas true]
def allOffForms : List OffForm := [.naive, .Z, .z, .hh, .hhmm, .hhcmm]

/-- match `s` against one form: the fields if the whole string is that form's rendering -/
def unrender (sepCfg : Option Nat) (df : DateForm) (tf : TimeForm) (o : OffForm) (s : Bytes) :
    Option (IsoForm × Fields) := do
  let (x, s) ← recogDate df s
  if tf == .none then
    if s = [] then pure ({ date := df, time := tf, off := o, sep := 84 }, x) else none
  else
    match s with
    | [] => none
    | c :: s =>
      if sepCfg = none ∨ sepCfg = some c then do
        let (x, s) ← recogTime tf x s
        let (x, s) ← recogOff o x s
        if s = [] then pure ({ date := df, time := tf, off := o, sep := c }, x) else none
      else none

/-- every (form, fields) with `render form fields = s` and well-formed fields -/
def recogniseAll (strictWeek : Bool) (sepCfg : Option Nat) (s : Bytes) : List (IsoForm × Fields) :=
  allDateForms.flatMap fun df => allTimeForms.flatMap fun tf => allOffForms.filterMap fun o =>
    match unrender sepCfg df tf o s with
    | some (f, x) => if WFieldsB strictWeek f x then some (f, x) else none
    | none => none

/-- the values `s` denotes (no duplicates) -/
def recognise (strictWeek : Bool) (sepCfg : Option Nat) (s : Bytes) : List Value :=
  ((recogniseAll strictWeek sepCfg s).map fun p => denote p.1 p.2).eraseDups

/-- the same, readings with a digit as the date/time separator left out (C07 does not demand them:
    they are ambiguous with the basic forms) -/
def recogniseNoDigitSep (strictWeek : Bool) (sepCfg : Option Nat) (s : Bytes) : List Value :=
  (((recogniseAll strictWeek sepCfg s).filter fun p => p.1.time == .none || !isDig p.1.sep).map
    fun p => denote p.1 p.2).eraseDups

/-! ### auxiliary entry points: a date alone, a time (+offset) alone, an offset alone -/

def recogniseDate (strictWeek : Bool) (s : Bytes) : List (Int × Int × Int) :=
  ((recogniseAll strictWeek none s).filterMap fun p =>
    if p.1.time == .none then some (let v := denote p.1 p.2; (v.dt.y, v.dt.m, v.dt.d)) else none).eraseDups

/-- time-of-day values (`hh mm ss us`, 24:00 = 00:00) + offset -/
def recogniseTime (s : Bytes) : List (Nat × Nat × Nat × Nat × Option Off) :=
  (allTimeForms.flatMap fun tf => allOffForms.filterMap fun o =>
    if tf == .none then none else
    match recogTime tf { year := 1 } s with
    | none => none
    | some (x, s) =>
      match recogOff o x s with
      | none => none
      | some (x, s) =>
        if s = [] ∧ timeWF tf x ∧ offWF o x then
          let (h, m, sec, us) := timeShown tf x
          some (if h = 24 then 0 else h, m, sec, us, offDenote o x)
        else none).eraseDups

/-- offsets alone; `zeroAsUtc = false` keeps a zero numeric offset as `fixed 0` -/
def recogniseOff (zeroAsUtc : Bool) (s : Bytes) : List Off :=
  (allOffForms.filterMap fun o =>
    if o == .naive then none else
    match recogOff o { year := 1 } s with
    | none => none
    | some (x, s) =>
      if s = [] ∧ offWF o x then
        match offDenote o x with
        | some .utc => some (if zeroAsUtc || o == .Z || o == .z then .utc else .fixed 0)
        | some v => some v
        | none => none
      else none).eraseDups

end IsoSpec
