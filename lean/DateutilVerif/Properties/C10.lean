import DateutilVerif.Model.RRuleSet
import DateutilVerif.Spec.RRuleSet
namespace C10
theorem stub : True := trivial
end C10
