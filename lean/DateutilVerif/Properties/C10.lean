/-
  Properties/C10.lean — rruleset = ordered (rrules ∪ rdates) \ (exrules ∪ exdates).

  `iter sel inc exc` is `rruleset._iter` (Model/RRuleSet.lean) over inclusion streams `inc` and
  exclusion streams `exc` (finite lists of integers, each sorted, duplicates allowed inside and
  across streams); `sel` is the priority-queue discipline of the two heaps, and the theorems
  hold for EVERY admissible one (index 0 holds some minimal item — all that is assumed of
  `heapq`), hence for heapq's actual tie-breaking.

  * `rset_iter_eq_spec`: the merge loop with `lastdt` duplicate suppression and the exclusion
    cursor advance yields exactly `setSpec inc exc` — strictly increasing, each instant once, the
    instants of some inclusion member and of no exclusion member.  Proof: induction on the
    number of remaining inclusion instants with the invariant "everything below the heap minimum
    has been decided" (`RSet.loop_spec`).
  * `rset_len`: the published `_len` (`total`) is the length of the specification.
  * `history_inv_any`: for EVERY op sequence over addRRule / addRDate / addExRule / addExDate / any
    query (iterPartial k = `.take k`, iterFull, count, between, after, before, index, slice, in,
    xafter) / `open_ k` (create an iterator, take k, KEEP it) / `resume j k`, cache on or off,
    member streams sorted — INCLUDING iterators created before a mutator and advanced after it —
    every observation equals the specification of the members present at that moment (`specOps`:
    list semantics on `setSpec`, for a kept iterator its next k instants), the only observations
    left unspecified being what an iterator created before an earlier mutator ITSELF yields
    (`staleAt`; the property speaks of "every later iteration and query").  This is the statement
    that was FALSE before the repair of D-C10-stale in /repo (pending_fixes/D-C10-stale.diff): a
    stale `_iter_cached` marked the new empty cache complete, a stale `_iter` published its old
    total as `_len`.  In the repaired code an iterator of an invalidated generation runs on its own
    cache list and generator and writes nothing of the object (`cache is self._cache`,
    `generation == self._generation`): in the model it runs on the machine of its own generation
    (`RSet.resumeCached`), and the invariant `Good` is preserved by EVERY op (`good_step_any`).
    An iterator created before a mutator whose body has not started yet belongs to the current
    generation when it is first advanced (model and code alike); `Good.hcg/hdg` keep such
    iterators apart from the ones the bookkeeping follows.
  * `history_inv`: the same with exact equality of ALL observations for histories in which no
    iterator created before a mutator is advanced after it (`NoStale`) — kept: it also pins what
    every kept iterator yields.
    Composition of `rset_iter_eq_spec` (what the generator yields), the invariant of the cache
    machine of C11 run one thread at a time (`Cache.Solo`, `runQuery_spec`, `takeVals_spec`) and
    `C12.gen_eq_spec`/`fast_eq_spec`.
-/
import DateutilVerif.Proofs.RRuleSetSpec
import DateutilVerif.Proofs.CacheGlobal
import DateutilVerif.Proofs.RSetHistoryInv
import DateutilVerif.Generated.RRBaseCache
import DateutilVerif.Proofs.MergePy

namespace C10
open RSet

/-- **rset_iter_eq_spec.** For every admissible heap discipline and all sorted member streams. -/
theorem rset_iter_eq_spec (sel : Sel) (adm : Admissible sel) (inc exc : List (List Int))
    (hinc : ∀ s ∈ inc, s.Pairwise (· ≤ ·)) (hexc : ∀ s ∈ exc, s.Pairwise (· ≤ ·)) :
    iter sel inc exc = setSpec inc exc := by
  unfold iter setSpec
  have ⟨h1, _, _, h4⟩ := loop_spec adm (totalLen inc + 1) (inc.filterMap mkCursor) (exc.filterMap mkCursor) none
    (sorted_mk inc hinc) (sorted_mk exc hexc) (by rw [total_mk]; omega) (fun l hl => by cases hl)
  have ⟨s1, s2⟩ := sortDedup_spec (inc.flatten.filter (fun x => !(exc.flatten.elem x)))
  apply sorted_ext _ _ h1 s1
  intro x
  rw [h4 x, s2 x, mem_elemsOf_mk, mem_elemsOf_mk, List.mem_filter]
  simp [List.elem_eq_mem]

/-- strictly increasing, each instant once -/
theorem rset_iter_sorted (sel : Sel) (adm : Admissible sel) (inc exc : List (List Int))
    (hinc : ∀ s ∈ inc, s.Pairwise (· ≤ ·)) (hexc : ∀ s ∈ exc, s.Pairwise (· ≤ ·)) :
    (iter sel inc exc).Pairwise (· < ·) ∧
    ∀ x, x ∈ iter sel inc exc ↔ (∃ s ∈ inc, x ∈ s) ∧ ¬ ∃ s ∈ exc, x ∈ s := by
  rw [rset_iter_eq_spec sel adm inc exc hinc hexc]
  have ⟨s1, s2⟩ := sortDedup_spec (inc.flatten.filter (fun x => !(exc.flatten.elem x)))
  refine ⟨s1, fun x => ?_⟩
  unfold setSpec
  rw [s2 x, List.mem_filter]
  simp [List.mem_flatten, List.elem_eq_mem]

/-- **rset_len.** `total` (published as `_len` when the generator ends; the cache machine's
    `next(gen)` at the end of `src`) is the number of specified instants. -/
theorem rset_len (sel : Sel) (adm : Admissible sel) (inc exc : List (List Int))
    (hinc : ∀ s ∈ inc, s.Pairwise (· ≤ ·)) (hexc : ∀ s ∈ exc, s.Pairwise (· ≤ ·)) :
    (iter sel inc exc).length = (setSpec inc exc).length := by
  rw [rset_iter_eq_spec sel adm inc exc hinc hexc]

/-- **history_inv.** Every observation of every history that never advances an iterator created
    before a mutator after that mutator equals the specification of the members present at that
    moment — cache on or off, any interleaving of additions, queries, kept and dropped iterators. -/
theorem history_inv (cacheOn : Bool) (ops : List Op) (hsorted : ∀ op ∈ ops, opSorted op)
    (hfresh : NoStale {} ops) (hfit : AllFit {} ops) :
    runOps (newState cacheOn) ops = specOps {} ops :=
  history_good ops (newState cacheOn) {} (good_init cacheOn) hsorted hfresh hfit

/-- **history_inv_any** (`history_inv` without `NoStale`; false before the repair of D-C10-stale).  EVERY history — also
    with iterators created before a mutator and advanced after it, cache on or off: every observation other than what
    such a stale iterator itself yields equals the specification of the members present at that moment. -/
theorem history_inv_any (cacheOn : Bool) (ops : List Op) (hsorted : ∀ op ∈ ops, opSorted op) (hfit : AllFit {} ops) :
    Agree {} ops (runOps (newState cacheOn) ops) (specOps {} ops) :=
  history_good_any ops (newState cacheOn) {} (good_init cacheOn) hsorted hfit

/-! ### the merge loop read from the source

`Gen.genitemInit / genitemNext / genitemCmp / rsetIterProgram` (Generated/RSetMerge.lean) are `rruleset._genitem.__init__`,
`__next__`, the four comparison methods and the generator `rruleset._iter` as `harness/translate_rrbase.py` parses them from
/repo's working tree on every run — the statements in source order, from a strict vocabulary; `heapq.heapify / heapreplace /
heappop` are named primitives with the contract "index 0 holds some minimal item" (`sel`).  `MergePy.runIter` is their meaning. -/

/-- **gen_rset_iter_eq_model.** The translated `_iter` (with the translated `_genitem`) yields exactly the merge model
    `RSet.iter sel inc exc` and counts `total` = its length — for ALL members and EVERY admissible heap discipline. -/
theorem gen_rset_iter_eq_model (sel : Sel) (adm : Admissible sel) (m : Members) :
    MergePy.runIter sel Gen.genitemInit Gen.genitemNext Gen.genitemCmp Gen.rsetIterProgram m =
      some (iter sel m.inc m.exc, (iter sel m.inc m.exc).length) := by
  unfold MergePy.runIter
  have hs : (MergePy.setupOk Gen.rsetIterProgram && Gen.rsetIterProgram.publishesLenGuarded) = true := by decide
  simp only [hs, Bool.not_true, Bool.false_eq_true, ↓reduceIte, MergePy.cursorsOf_eq]
  obtain ⟨s', h1, h2, h3⟩ := MergePy.loop_eq adm (totalLen m.inc + 1) { rl := m.inc.filterMap mkCursor, ex := m.exc.filterMap mkCursor } rfl rfl
  rw [h1]
  simp only [Option.map_some, h2, h3, iter]
  simp

/-- **rset_iter_eq_spec_source.** Hence `rset_iter_eq_spec` holds of the code as written: the translated `_iter` yields the
    ordered set (rrules ∪ rdates) \ (exrules ∪ exdates) of the members, each instant once, and publishes its size. -/
theorem rset_iter_eq_spec_source (sel : Sel) (adm : Admissible sel) (m : Members)
    (hinc : ∀ s ∈ m.inc, s.Pairwise (· ≤ ·)) (hexc : ∀ s ∈ m.exc, s.Pairwise (· ≤ ·)) :
    MergePy.runIter sel Gen.genitemInit Gen.genitemNext Gen.genitemCmp Gen.rsetIterProgram m =
      some (setSpec m.inc m.exc, (setSpec m.inc m.exc).length) := by
  rw [gen_rset_iter_eq_model sel adm m, rset_iter_eq_spec sel adm m.inc m.exc hinc hexc]

/-- `_genitem` as translated: `__init__` is `mkCursor`; `__next__` is `advanceTop` wherever the item sits (`heappop` only when it is at index 0,
    `remove` + `heapify` otherwise); the comparison methods compare `dt` with the operator of their name -/
theorem gen_genitem_eq_model :
    (∀ st, MergePy.runInit Gen.genitemInit st = some (mkCursor st)) ∧
    (∀ c isTop others, (MergePy.runNext Gen.genitemNext c isTop others).map (·.1) = some (advanceTop c others)) ∧
    Gen.genitemCmp = { lt := .lt, gt := .gt, eq := .eq, ne := .ne } := by
  refine ⟨fun st => ?_, fun c isTop others => ?_, rfl⟩
  · cases st <;> simp [MergePy.runInit, Gen.genitemInit, mkCursor]
  · cases h : c.rest <;> cases isTop <;> simp [MergePy.runNext, Gen.genitemNext, advanceTop, h]

-- the obligation distinguishes programs: without the `heapreplace` after advancing the inclusion item the heap stays dirty
example : MergePy.runIter selFirstMin Gen.genitemInit Gen.genitemNext Gen.genitemCmp
            { Gen.rsetIterProgram with body := Gen.rsetIterProgram.body.dropLast } { rrules := [[1, 2]] } = none := by decide
example : MergePy.runIter selFirstMin Gen.genitemInit Gen.genitemNext Gen.genitemCmp Gen.rsetIterProgram
            { rrules := [[1, 2, 5], [2, 3]], rdates := [9, 0], exdates := [3] } = some ([0, 1, 2, 5, 9], 5) := by decide

/-- **gen_mutators_eq_model.** `rruleset.rrule / rdate / exrule / exdate` as translated (each `@_invalidates_cache`, body
    `self._<list>.append(x)`) with the translated decorator (`rv = f(…); self._invalidate_cache(); return rv`): each appends its
    argument to ITS OWN member list and `_invalidate_cache()` runs after the append — what `RSet.applyOp` does for the four
    mutator ops (`invalidate st { m with <list> := <list> ++ [x] }`); `rruleset.__init__` calls the base initialiser and starts
    from four empty lists (`newState`). -/
theorem gen_mutators_eq_model (m : Members) :
    (∀ l, MergePy.runMutRule Gen.invalidatesDecorator Gen.rsetMutators .rrule m l = some ({ m with rrules := m.rrules ++ [l] }, true)) ∧
    (∀ l, MergePy.runMutRule Gen.invalidatesDecorator Gen.rsetMutators .exrule m l = some ({ m with exrules := m.exrules ++ [l] }, true)) ∧
    (∀ d, MergePy.runMutDate Gen.invalidatesDecorator Gen.rsetMutators .rdate m d = some ({ m with rdates := m.rdates ++ [d] }, true)) ∧
    (∀ d, MergePy.runMutDate Gen.invalidatesDecorator Gen.rsetMutators .exdate m d = some ({ m with exdates := m.exdates ++ [d] }, true)) ∧
    Gen.rsetInit = { callsBaseInit := true, emptyLists := [.rrule, .rdate, .exrule, .exdate] } :=
  ⟨fun _ => rfl, fun _ => rfl, fun _ => rfl, fun _ => rfl, rfl⟩

/-- **gen_base_init_eq_model.** `rrulebase.__init__` as translated, with the translated `_invalidate_cache`: `cache=True` gives
    the fresh machine `Cache.initShared` (`newState true`: the generation counter is 1 — it is only ever compared for equality),
    `cache=False` an object without cache list, `_cache_complete` False, `_len` None, generation 0. -/
theorem gen_base_init_eq_model (o : CachePy.Obj) (src : List Int) (e : Option Py.PyErr) :
    CachePy.runInitObj src e Gen.invalidateProgram true Gen.baseInitProgram o =
      some { cached := true, sh := Cache.initShared src e, generation := 1 } ∧
    CachePy.runInitObj src e Gen.invalidateProgram false Gen.baseInitProgram o =
      some { cached := false, sh := { o.sh with complete := false, len := none }, generation := 0 } := by
  constructor <;> simp [CachePy.runInitObj, CachePy.chooseBranch, Gen.baseInitProgram, CachePy.runFlat, CachePy.runI, CachePy.runIL,
    Gen.invalidateProgram, Cache.initShared]

/-- **gen_invalidate_eq_model.** `rrulebase._invalidate_cache` as translated from the source (`Gen.invalidateProgram`,
    meaning `CachePy.runIL`) on a cached object, whatever its state: a fresh cache list, `_cache_complete` False, a fresh
    (`_restartable`) generator over the members as they are now, lock released, `_len` None, generation counter + 1 — exactly
    the fresh machine `Cache.initShared` that `RSet.invalidate` installs after every mutator (the previous generation is
    pushed on `old`, whose length is the generation counter). -/
theorem gen_invalidate_eq_model (o : CachePy.Obj) (src : List Int) (e : Option Py.PyErr) (hc : o.cached = true) :
    CachePy.runIL src e Gen.invalidateProgram o =
      some { cached := true, sh := Cache.initShared src e, generation := o.generation + 1 } := by
  simp [Gen.invalidateProgram, CachePy.runIL, CachePy.runI, hc, Cache.initShared]

/-- … and on an uncached object only the generation counter and `_len` change -/
theorem gen_invalidate_uncached (o : CachePy.Obj) (src : List Int) (e : Option Py.PyErr) (hc : o.cached = false) :
    CachePy.runIL src e Gen.invalidateProgram o = some { o with sh := { o.sh with len := none }, generation := o.generation + 1 } := by
  simp [Gen.invalidateProgram, CachePy.runIL, CachePy.runI, hc]

example : (invalidate (newState true) { rrules := [[1, 2]] }).cur.sh = Cache.initShared (Members.src { rrules := [[1, 2]] }) := rfl

/-- in particular for histories whose iterators are all dropped at once (iterPartial k = `.take k`) -/
theorem history_inv_dropped (cacheOn : Bool) (ops : List Op) (hsorted : ∀ op ∈ ops, opSorted op)
    (hq : ∀ op ∈ ops, ∀ j k, op ≠ .resume j k) (hfit : AllFit {} ops) :
    runOps (newState cacheOn) ops = specOps {} ops := by
  refine history_inv cacheOn ops hsorted ?_ hfit
  have : ∀ (tr : Track) (ops : List Op), (∀ op ∈ ops, ∀ j k, op ≠ .resume j k) → NoStale tr ops := by
    intro tr ops
    induction ops generalizing tr with
    | nil => intro _; trivial
    | cons op ops ih =>
      intro h
      refine ⟨?_, ih _ (fun o ho => h o (by simp [ho]))⟩
      cases op with
      | resume j k => exact absurd rfl (h _ (by simp) j k)
      | _ => trivial
  exact this {} ops hq

-- non-vacuity: coinciding occurrences in several members, an exclusion that exhausts first
example : iter selFirstMin [[0, 5, 5, 9], [1, 5, 7], []] [[5], [0, 0]] = [1, 7, 9] := by decide
example : setSpec [[0, 5, 5, 9], [1, 5, 7], []] [[5], [0, 0]] = [1, 7, 9] := by decide
example : Admissible selFirstMin := selFirstMin_adm

-- a history inside the hypothesis: kept iterators advanced only before the next mutator
example : runOps (newState true) [.addRRule [0, 1, 2, 3], .open_ 2, .q (.index 1), .resume 0 1, .addRDate 9, .open_ 0,
                                  .resume 1 3, .q .count] =
          specOps {} [.addRRule [0, 1, 2, 3], .open_ 2, .q (.index 1), .resume 0 1, .addRDate 9, .open_ 0,
                      .resume 1 3, .q .count] := by decide

/-- the former witness of D-C10-stale (cache on): 13 daily instants, an iterator that has taken one, `rdate(20)`, the stale
    iterator run to its end; then `list(s)` and `count()`.  Before the repair the model gave `[]` and 13 -/
def staleWitness : List Op :=
  [.addRRule [0, 1, 2, 3, 4, 5, 6, 7, 8, 9, 10, 11, 12], .open_ 1, .addRDate 20, .resume 0 100, .q .iterAll, .q .count]

-- now: the stale iterator yields the remaining 12 instants of the OLD sequence, and the set is intact
example : (runOps (newState true) staleWitness).drop 3 =
    [some (.list [1, 2, 3, 4, 5, 6, 7, 8, 9, 10, 11, 12]), some (.list [0, 1, 2, 3, 4, 5, 6, 7, 8, 9, 10, 11, 12, 20]), some (.nat 14)] := by decide
example : (specOps {} staleWitness).drop 4 =
    [some (.list [0, 1, 2, 3, 4, 5, 6, 7, 8, 9, 10, 11, 12, 20]), some (.nat 14)] := by decide
example : ¬ NoStale {} staleWitness := by
  intro h
  have h4 : (1 : Nat) = 2 := h.2.2.2.1 1 1 rfl
  omega
example : staleAt (specStep (specStep (specStep {} staleWitness[0]).1 staleWitness[1]).1 staleWitness[2]).1 (.resume 0 100) = true := by decide
-- cache off: the stale generator no longer publishes its old total
example : (runOps (newState false) [.addRRule [0, 1, 2], .open_ 1, .addRDate 20, .resume 0 100, .q .count]).getLast?
          = some (some (.nat 4)) := by decide
-- cache on, generator already exhausted before the mutator: the stale iterator ends quietly (was TypeError `i < None`)
example : (runOps (newState true) [.addRRule [0, 1, 2], .open_ 1, .q .iterAll, .addRDate 20, .resume 0 100, .q .iterAll]).drop 4
          = [some (.list [1, 2]), some (.list [0, 1, 2, 20])] := by decide
-- an iterator created before a mutator but not yet started belongs to the new generation
example : (runOps (newState true) [.addRRule [0, 1, 2], .open_ 0, .addRDate 20, .resume 0 100, .q .count]).drop 3
          = [some (.list [0, 1, 2, 20]), some (.nat 4)] := by decide

end C10
