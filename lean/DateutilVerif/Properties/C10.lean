/-
  Properties/C10.lean — rruleset = ordered (rrules ∪ rdates) \ (exrules ∪ exdates).

  `iter sel inc exc` is `rruleset._iter` (Model/RRuleSet.lean) over inclusion streams `inc` and
  exclusion streams `exc` (finite lists of integers, each sorted, duplicates allowed inside and
  across streams); `sel` is the priority-queue discipline of the two heaps, and the theorems
  hold for EVERY admissible one (index 0 holds some minimal item — all that is assumed of
  `heapq`), hence for heapq's actual tie-breaking.

  * `rset_iter_eq_spec`: the merge loop with `lastdt` duplicate suppression and the exclusion
    cursor advance yields exactly `setSpec inc exc` — strictly increasing, each instant once, the
    instants of some inclusion member and of no exclusion member.  Proof: induction on the
    number of remaining inclusion instants with the invariant "everything below the heap minimum
    has been decided" (`RSet.loop_spec`).
  * `rset_len`: the published `_len` (`total`) is the length of the specification.
  * `history_inv_any`: for EVERY op sequence over addRRule / addRDate / addExRule / addExDate / any
    query (iterPartial k = `.take k`, iterFull, count, between, after, before, index, slice, in,
    xafter) / `open_ k` (create an iterator, take k, KEEP it) / `resume j k`, cache on or off,
    member streams sorted — INCLUDING iterators created before a mutator and advanced after it —
    every observation equals the specification of the members present at that moment (`specOps`:
    list semantics on `setSpec`, for a kept iterator its next k instants), the only observations
    left unspecified being what an iterator created before an earlier mutator ITSELF yields
    (`staleAt`; the property speaks of "every later iteration and query").  This is the statement
    that was FALSE before the repair of D-C10-stale in /repo (pending_fixes/D-C10-stale.diff): a
    stale `_iter_cached` marked the new empty cache complete, a stale `_iter` published its old
    total as `_len`.  In the repaired code an iterator of an invalidated generation runs on its own
    cache list and generator and writes nothing of the object (`cache is self._cache`,
    `generation == self._generation`): in the model it runs on the machine of its own generation
    (`RSet.resumeCached`), and the invariant `Good` is preserved by EVERY op (`good_step_any`).
    An iterator created before a mutator whose body has not started yet belongs to the current
    generation when it is first advanced (model and code alike); `Good.hcg/hdg` keep such
    iterators apart from the ones the bookkeeping follows.
  * `history_inv`: the same with exact equality of ALL observations for histories in which no
    iterator created before a mutator is advanced after it (`NoStale`) — kept: it also pins what
    every kept iterator yields.
    Composition of `rset_iter_eq_spec` (what the generator yields), the invariant of the cache
    machine of C11 run one thread at a time (`Cache.Solo`, `runQuery_spec`, `takeVals_spec`) and
    `C12.gen_eq_spec`/`fast_eq_spec`.
-/
import DateutilVerif.Proofs.RRuleSetSpec
import DateutilVerif.Proofs.CacheGlobal
import DateutilVerif.Proofs.RSetHistoryInv

namespace C10
open RSet

/-- **rset_iter_eq_spec.** For every admissible heap discipline and all sorted member streams. -/
theorem rset_iter_eq_spec (sel : Sel) (adm : Admissible sel) (inc exc : List (List Int))
    (hinc : ∀ s ∈ inc, s.Pairwise (· ≤ ·)) (hexc : ∀ s ∈ exc, s.Pairwise (· ≤ ·)) :
    iter sel inc exc = setSpec inc exc := by
  unfold iter setSpec
  have ⟨h1, _, _, h4⟩ := loop_spec adm (totalLen inc + 1) (inc.filterMap mkCursor) (exc.filterMap mkCursor) none
    (sorted_mk inc hinc) (sorted_mk exc hexc) (by rw [total_mk]; omega) (fun l hl => by cases hl)
  have ⟨s1, s2⟩ := sortDedup_spec (inc.flatten.filter (fun x => !(exc.flatten.elem x)))
  apply sorted_ext _ _ h1 s1
  intro x
  rw [h4 x, s2 x, mem_elemsOf_mk, mem_elemsOf_mk, List.mem_filter]
  simp [List.elem_eq_mem]

/-- strictly increasing, each instant once -/
theorem rset_iter_sorted (sel : Sel) (adm : Admissible sel) (inc exc : List (List Int))
    (hinc : ∀ s ∈ inc, s.Pairwise (· ≤ ·)) (hexc : ∀ s ∈ exc, s.Pairwise (· ≤ ·)) :
    (iter sel inc exc).Pairwise (· < ·) ∧
    ∀ x, x ∈ iter sel inc exc ↔ (∃ s ∈ inc, x ∈ s) ∧ ¬ ∃ s ∈ exc, x ∈ s := by
  rw [rset_iter_eq_spec sel adm inc exc hinc hexc]
  have ⟨s1, s2⟩ := sortDedup_spec (inc.flatten.filter (fun x => !(exc.flatten.elem x)))
  refine ⟨s1, fun x => ?_⟩
  unfold setSpec
  rw [s2 x, List.mem_filter]
  simp [List.mem_flatten, List.elem_eq_mem]

/-- **rset_len.** `total` (published as `_len` when the generator ends; the cache machine's
    `next(gen)` at the end of `src`) is the number of specified instants. -/
theorem rset_len (sel : Sel) (adm : Admissible sel) (inc exc : List (List Int))
    (hinc : ∀ s ∈ inc, s.Pairwise (· ≤ ·)) (hexc : ∀ s ∈ exc, s.Pairwise (· ≤ ·)) :
    (iter sel inc exc).length = (setSpec inc exc).length := by
  rw [rset_iter_eq_spec sel adm inc exc hinc hexc]

/-- **history_inv.** Every observation of every history that never advances an iterator created
    before a mutator after that mutator equals the specification of the members present at that
    moment — cache on or off, any interleaving of additions, queries, kept and dropped iterators. -/
theorem history_inv (cacheOn : Bool) (ops : List Op) (hsorted : ∀ op ∈ ops, opSorted op)
    (hfresh : NoStale {} ops) (hfit : AllFit {} ops) :
    runOps (newState cacheOn) ops = specOps {} ops :=
  history_good ops (newState cacheOn) {} (good_init cacheOn) hsorted hfresh hfit

/-- **history_inv_any** (`history_inv` without `NoStale`; false before the repair of D-C10-stale).  EVERY history — also
    with iterators created before a mutator and advanced after it, cache on or off: every observation other than what
    such a stale iterator itself yields equals the specification of the members present at that moment. -/
theorem history_inv_any (cacheOn : Bool) (ops : List Op) (hsorted : ∀ op ∈ ops, opSorted op) (hfit : AllFit {} ops) :
    Agree {} ops (runOps (newState cacheOn) ops) (specOps {} ops) :=
  history_good_any ops (newState cacheOn) {} (good_init cacheOn) hsorted hfit

/-- in particular for histories whose iterators are all dropped at once (iterPartial k = `.take k`) -/
theorem history_inv_dropped (cacheOn : Bool) (ops : List Op) (hsorted : ∀ op ∈ ops, opSorted op)
    (hq : ∀ op ∈ ops, ∀ j k, op ≠ .resume j k) (hfit : AllFit {} ops) :
    runOps (newState cacheOn) ops = specOps {} ops := by
  refine history_inv cacheOn ops hsorted ?_ hfit
  have : ∀ (tr : Track) (ops : List Op), (∀ op ∈ ops, ∀ j k, op ≠ .resume j k) → NoStale tr ops := by
    intro tr ops
    induction ops generalizing tr with
    | nil => intro _; trivial
    | cons op ops ih =>
      intro h
      refine ⟨?_, ih _ (fun o ho => h o (by simp [ho]))⟩
      cases op with
      | resume j k => exact absurd rfl (h _ (by simp) j k)
      | _ => trivial
  exact this {} ops hq

-- non-vacuity: coinciding occurrences in several members, an exclusion that exhausts first
example : iter selFirstMin [[0, 5, 5, 9], [1, 5, 7], []] [[5], [0, 0]] = [1, 7, 9] := by decide
example : setSpec [[0, 5, 5, 9], [1, 5, 7], []] [[5], [0, 0]] = [1, 7, 9] := by decide
example : Admissible selFirstMin := selFirstMin_adm

-- a history inside the hypothesis: kept iterators advanced only before the next mutator
example : runOps (newState true) [.addRRule [0, 1, 2, 3], .open_ 2, .q (.index 1), .resume 0 1, .addRDate 9, .open_ 0,
                                  .resume 1 3, .q .count] =
          specOps {} [.addRRule [0, 1, 2, 3], .open_ 2, .q (.index 1), .resume 0 1, .addRDate 9, .open_ 0,
                      .resume 1 3, .q .count] := by decide

/-- the former witness of D-C10-stale (cache on): 13 daily instants, an iterator that has taken one, `rdate(20)`, the stale
    iterator run to its end; then `list(s)` and `count()`.  Before the repair the model gave `[]` and 13 -/
def staleWitness : List Op :=
  [.addRRule [0, 1, 2, 3, 4, 5, 6, 7, 8, 9, 10, 11, 12], .open_ 1, .addRDate 20, .resume 0 100, .q .iterAll, .q .count]

-- now: the stale iterator yields the remaining 12 instants of the OLD sequence, and the set is intact
example : (runOps (newState true) staleWitness).drop 3 =
    [some (.list [1, 2, 3, 4, 5, 6, 7, 8, 9, 10, 11, 12]), some (.list [0, 1, 2, 3, 4, 5, 6, 7, 8, 9, 10, 11, 12, 20]), some (.nat 14)] := by decide
example : (specOps {} staleWitness).drop 4 =
    [some (.list [0, 1, 2, 3, 4, 5, 6, 7, 8, 9, 10, 11, 12, 20]), some (.nat 14)] := by decide
example : ¬ NoStale {} staleWitness := by
  intro h
  have h4 : (1 : Nat) = 2 := h.2.2.2.1 1 1 rfl
  omega
example : staleAt (specStep (specStep (specStep {} staleWitness[0]).1 staleWitness[1]).1 staleWitness[2]).1 (.resume 0 100) = true := by decide
-- cache off: the stale generator no longer publishes its old total
example : (runOps (newState false) [.addRRule [0, 1, 2], .open_ 1, .addRDate 20, .resume 0 100, .q .count]).getLast?
          = some (some (.nat 4)) := by decide
-- cache on, generator already exhausted before the mutator: the stale iterator ends quietly (was TypeError `i < None`)
example : (runOps (newState true) [.addRRule [0, 1, 2], .open_ 1, .q .iterAll, .addRDate 20, .resume 0 100, .q .iterAll]).drop 4
          = [some (.list [1, 2]), some (.list [0, 1, 2, 20])] := by decide
-- an iterator created before a mutator but not yet started belongs to the new generation
example : (runOps (newState true) [.addRRule [0, 1, 2], .open_ 0, .addRDate 20, .resume 0 100, .q .count]).drop 3
          = [some (.list [0, 1, 2, 20]), some (.nat 4)] := by decide

end C10
