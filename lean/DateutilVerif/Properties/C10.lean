/-
  Properties/C10.lean — rruleset = ordered (rrules ∪ rdates) \ (exrules ∪ exdates).

  `iter sel inc exc` is `rruleset._iter` (Model/RRuleSet.lean) over inclusion streams `inc` and
  exclusion streams `exc` (finite lists of integers, each sorted, duplicates allowed inside and
  across streams); `sel` is the priority-queue discipline of the two heaps, and the theorems
  hold for EVERY admissible one (index 0 holds some minimal item — all that is assumed of
  `heapq`), hence for heapq's actual tie-breaking.

  * `rset_iter_eq_spec`: the merge loop with `lastdt` duplicate suppression and the exclusion
    cursor advance yields exactly `setSpec inc exc` — strictly increasing, each instant once, the
    instants of some inclusion member and of no exclusion member.  Proof: induction on the
    number of remaining inclusion instants with the invariant "everything below the heap minimum
    has been decided" (`RSet.loop_spec`).
  * `rset_len`: the published `_len` (`total`) is the length of the specification.
  * `history_members`: after any sequence of mutators and queries the generator of the set
    object is the one of the members present at that moment (every mutator invalidates).

  Not proved (kept visible; see ASSUMPTIONS/known finding D-C10-stale):
    history_inv : ∀ ops, every observation of `runOps (newState c) ops` equals
                  `spec q (setSpec members-at-that-moment)`
  The pieces are proved — `rset_iter_eq_spec` (what the generator yields), `C11.finished_answer`
  (a consumer that finishes on the cache machine holds `spec q src`, any schedule), `C12.gen_eq_spec`
  (cache off) — but their composition over the run-to-completion function `RSet.soloRun` is not
  formalised; `history_members` is the `_partial` statement that is.
-/
import DateutilVerif.Proofs.RRuleSetSpec
import DateutilVerif.Proofs.CacheGlobal

namespace C10
open RSet

/-- **rset_iter_eq_spec.** For every admissible heap discipline and all sorted member streams. -/
theorem rset_iter_eq_spec (sel : Sel) (adm : Admissible sel) (inc exc : List (List Int))
    (hinc : ∀ s ∈ inc, s.Pairwise (· ≤ ·)) (hexc : ∀ s ∈ exc, s.Pairwise (· ≤ ·)) :
    iter sel inc exc = setSpec inc exc := by
  unfold iter setSpec
  have ⟨h1, _, _, h4⟩ := loop_spec adm (totalLen inc + 1) (inc.filterMap mkCursor) (exc.filterMap mkCursor) none
    (sorted_mk inc hinc) (sorted_mk exc hexc) (by rw [total_mk]; omega) (fun l hl => by cases hl)
  have ⟨s1, s2⟩ := sortDedup_spec (inc.flatten.filter (fun x => !(exc.flatten.elem x)))
  apply sorted_ext _ _ h1 s1
  intro x
  rw [h4 x, s2 x, mem_elemsOf_mk, mem_elemsOf_mk, List.mem_filter]
  simp [List.elem_eq_mem]

/-- strictly increasing, each instant once -/
theorem rset_iter_sorted (sel : Sel) (adm : Admissible sel) (inc exc : List (List Int))
    (hinc : ∀ s ∈ inc, s.Pairwise (· ≤ ·)) (hexc : ∀ s ∈ exc, s.Pairwise (· ≤ ·)) :
    (iter sel inc exc).Pairwise (· < ·) ∧
    ∀ x, x ∈ iter sel inc exc ↔ (∃ s ∈ inc, x ∈ s) ∧ ¬ ∃ s ∈ exc, x ∈ s := by
  rw [rset_iter_eq_spec sel adm inc exc hinc hexc]
  have ⟨s1, s2⟩ := sortDedup_spec (inc.flatten.filter (fun x => !(exc.flatten.elem x)))
  refine ⟨s1, fun x => ?_⟩
  unfold setSpec
  rw [s2 x, List.mem_filter]
  simp [List.mem_flatten, List.elem_eq_mem]

/-- **rset_len.** `total` (published as `_len` when the generator ends; the cache machine's
    `next(gen)` at the end of `src`) is the number of specified instants. -/
theorem rset_len (sel : Sel) (adm : Admissible sel) (inc exc : List (List Int))
    (hinc : ∀ s ∈ inc, s.Pairwise (· ≤ ·)) (hexc : ∀ s ∈ exc, s.Pairwise (· ≤ ·)) :
    (iter sel inc exc).length = (setSpec inc exc).length := by
  rw [rset_iter_eq_spec sel adm inc exc hinc hexc]

/-- the generator attached to the set object after a history is the one of the current members -/
def Fresh (st : RSetState) : Prop := st.sh.src = st.m.src

theorem soloRun_src (s : Cache.State) (fuel : Nat) : (soloRun s fuel).sh.src = s.sh.src := by
  induction fuel generalizing s with
  | zero => rfl
  | succ fuel ih =>
    unfold soloRun
    cases h : Cache.step s 0 with
    | none => rfl
    | some s' =>
      simp only []
      rw [ih s']
      obtain ⟨it, sh', it', hit, hst, rfl⟩ := Cache.step_eq h
      -- a step never changes the ghost `src`
      unfold Cache.stepIter at hst
      split at hst <;> (try split at hst) <;>
        first
          | (simp only [Option.some.injEq, Prod.mk.injEq] at hst; obtain ⟨rfl, _⟩ := hst; rfl)
          | cases hst

theorem runUncached_src (sh : Cache.Shared) (q : Queries.Query) : (runUncached sh q).1.src = sh.src := by
  unfold runUncached
  simp only []
  (repeat' split) <;> rfl

/-- **history_members (`history_inv_partial`).** Every mutator invalidates: after any history, the
    (cached or uncached) generator state of the set object refers to the members present now. -/
theorem history_members (st : RSetState) (op : Op) (h : Fresh st) : Fresh (applyOp st op).1 := by
  unfold Fresh at *
  cases op with
  | addRRule l => rfl
  | addRDate d => rfl
  | addExRule l => rfl
  | addExDate d => rfl
  | q q =>
    simp only [applyOp]
    split
    · simp only [runQuery]
      rw [soloRun_src]; exact h
    · rw [runUncached_src]; exact h

-- non-vacuity: coinciding occurrences in several members, an exclusion that exhausts first
example : iter selFirstMin [[0, 5, 5, 9], [1, 5, 7], []] [[5], [0, 0]] = [1, 7, 9] := by decide
example : setSpec [[0, 5, 5, 9], [1, 5, 7], []] [[5], [0, 0]] = [1, 7, 9] := by decide
example : Admissible selFirstMin := selFirstMin_adm

end C10
