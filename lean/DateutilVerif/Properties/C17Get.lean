/-
  Properties/C17Get.lean — C17: "several zones are addressable by TZID, a single zone is returned without naming it", over the source
  translations of `tzical.get` / `tzical.keys` (Generated/TzRfcKernels.lean, harness/translate_rfc.py) and of the constructors
  `_tzicalvtzcomp.__init__` / `_tzicalvtz.__init__`; plus `tzrangebase.__ne__`, `tzrangebase.__init__`, `_tzinfo._fold`.

  * `tzical_get_spec` — exactly the sentence, for the dict `_parse_rfc` leaves behind (keys pairwise distinct: `parse_keys_nodup`):
    every zone is returned under its own TZID; an unknown TZID gives None; without a TZID a single zone is returned, and no zone or
    more than one zone raise ValueError — nothing else is ever raised;
  * `parse_keys_nodup` — for every text and library, the TZIDs of the zones the translated/modelled parser registers are pairwise
    distinct (a later VTIMEZONE with the same TZID replaces the earlier one);
  * `gen_eq_model_get` — the translated `get` equals the hand model `ICal.get` (which answers with the index of the zone);
  * `keys_are_tzids`, `get_after_parse` — `keys()` lists exactly the TZIDs, and each of them gets its zone;
  * `comp_init_spec` — the component object: offsets as timedeltas, `tzoffsetdiff = tzoffsetto - tzoffsetfrom` (what `ICal.ZComp.diff` is),
    OverflowError exactly outside the timedelta range; `vtz_init_cache_empty` — a new zone starts with both cache lists empty (the
    initial state of `cache_transparent` / `cache_step_gen`);
  * `tzrange_ne_spec` — `a != b` is the negation of `a == b` for range zones; `tzrangebase_is_abstract`; `fold_is_fold`.
-/
import DateutilVerif.Properties.C17Malformed

namespace C17
open ICal ICalRfc Py

theorem find_of_findIdx (l : List VTz) (p : VTz → Bool) : (l.findIdx? p).bind (fun i => l[i]?) = l.find? p := by
  induction l with
  | nil => rfl
  | cons a t ih =>
    simp only [List.findIdx?_cons, List.find?_cons]
    cases h : p a
    · simp only [Bool.false_eq_true, if_false]
      rw [← ih]
      cases t.findIdx? p <;> simp
    · simp

/-- the translated `tzical.get` is the model's `get` (which names the zone by its index) -/
theorem gen_eq_model_get (vtz : List VTz) (tzid : Option (List Char)) :
    Gen.tzical_get vtz tzid = (ICal.get vtz tzid).map (fun o => o.bind (fun i => vtz[i]?)) := by
  unfold Gen.tzical_get ICal.get
  cases tzid with
  | some t =>
    simp only [reduceCtorEq, if_false, bind_ok, RfcPy.dictGet, Except.map, Option.bind]
    rw [← find_of_findIdx]; rfl
  | none =>
    cases vtz with
    | nil => simp [Except.bind, Except.map]
    | cons a rest =>
      cases rest with
      | nil => simp [Except.bind, Except.map, RfcPy.firstKey, RfcPy.dictGet]
      | cons b r =>
        have : ((a :: b :: r).length : Int) > 1 := by simp; omega
        have h0 : ¬ (((a :: b :: r).length : Int) = 0) := by simp; omega
        simp only [if_true, this, h0, if_false, Except.bind, Except.map]
        simp

theorem find_self_of_nodup (l : List VTz) (h : (l.map (·.tzid)).Nodup) (v : VTz) (hv : v ∈ l) :
    l.find? (fun w => w.tzid == v.tzid) = some v := by
  induction l with
  | nil => cases hv
  | cons a t ih =>
    simp only [List.map_cons, List.nodup_cons] at h
    rcases List.mem_cons.mp hv with rfl | hm
    · simp
    · have hne : a.tzid ≠ v.tzid := by
        intro e; exact h.1 (by rw [e]; exact List.mem_map_of_mem hm)
      simp only [List.find?_cons, beq_iff_eq, hne, ↓reduceIte]
      have : (a.tzid == v.tzid) = false := by simpa using hne
      simp only [this]
      exact ih h.2 hm

/-- **the property's sentence**, for a zone dict with pairwise distinct TZIDs (which is what the parser leaves: `parse_keys_nodup`):
    several zones are addressable by TZID, a single zone is returned without naming it; an unknown TZID gives `None`; asking without a
    TZID when there is no zone or more than one raises ValueError -/
theorem tzical_get_spec (vtz : List VTz) (hk : (vtz.map (·.tzid)).Nodup) :
    (∀ v ∈ vtz, Gen.tzical_get vtz (some v.tzid) = .ok (some v)) ∧
    (∀ t, (∀ v ∈ vtz, v.tzid ≠ t) → Gen.tzical_get vtz (some t) = .ok none) ∧
    (∀ v, vtz = [v] → Gen.tzical_get vtz none = .ok (some v)) ∧
    (vtz = [] → Gen.tzical_get vtz none = .error .ValueError) ∧
    (vtz.length > 1 → Gen.tzical_get vtz none = .error .ValueError) := by
  refine ⟨?_, ?_, ?_, ?_, ?_⟩
  · intro v hv
    simp only [Gen.tzical_get, reduceCtorEq, if_false, bind_ok, RfcPy.dictGet]
    rw [find_self_of_nodup vtz hk v hv]
  · intro t ht
    simp only [Gen.tzical_get, reduceCtorEq, if_false, bind_ok, RfcPy.dictGet]
    congr 1
    rw [List.find?_eq_none]
    intro w hw
    simpa using ht w hw
  · intro v e; subst e
    simp [Gen.tzical_get, Except.bind, RfcPy.firstKey, RfcPy.dictGet]
  · intro e; subst e
    simp [Gen.tzical_get, Except.bind]
  · intro hl
    have h1 : ((vtz.length : Nat) : Int) > 1 := by omega
    have h0 : ¬ (((vtz.length : Nat) : Int) = 0) := by omega
    simp [Gen.tzical_get, Except.bind, h1, h0]

/-- `get` raises nothing but ValueError -/
theorem get_errors_ValueError (vtz : List VTz) (tzid : Option (List Char)) (e : PyErr)
    (h : Gen.tzical_get vtz tzid = .error e) : e = .ValueError := by
  cases tzid with
  | some t => simp [Gen.tzical_get, Except.bind] at h
  | none =>
    cases vtz with
    | nil => simp [Gen.tzical_get, Except.bind] at h; exact h.symm
    | cons a rest =>
      cases rest with
      | nil => simp [Gen.tzical_get, Except.bind, RfcPy.firstKey] at h
      | cons b r =>
        have h1 : ((a :: b :: r).length : Int) > 1 := by simp; omega
        have h0 : ¬ (((a :: b :: r).length : Int) = 0) := by simp; omega
        simp only [Gen.tzical_get, if_true, h1, h0, if_false, Except.bind] at h
        cases h; rfl

/-! ### the dict the parser leaves has pairwise distinct keys -/

theorem putVtz_keys_nodup (vs : List VTz) (v : VTz) (h : (vs.map (·.tzid)).Nodup) : ((putVtz vs v).map (·.tzid)).Nodup := by
  unfold putVtz
  split
  · have : (vs.map (fun w => if (w.tzid == v.tzid) = true then v else w)).map (·.tzid) = vs.map (·.tzid) := by
      rw [List.map_map]
      apply List.map_congr_left
      intro w _
      by_cases hw : (w.tzid == v.tzid) = true
      · simp only [Function.comp, hw, if_true]; exact (beq_iff_eq.mp hw).symm
      · simp [Function.comp, hw]
    rw [this]; exact h
  · rename_i hn
    simp only [List.map_append, List.map_cons, List.map_nil]
    rw [List.nodup_append]
    refine ⟨h, by simp, ?_⟩
    intro a ha b hb
    simp only [List.mem_singleton] at hb
    subst hb
    intro e
    apply hn
    simp only [List.any_eq_true, beq_iff_eq]
    obtain ⟨w, hw, hwe⟩ := List.mem_map.mp ha
    exact ⟨w, hw, by rw [hwe, e]⟩

def KeysOK (st : PState) : Prop := (st.vtz.map (·.tzid)).Nodup

theorem compProp_keeps_vtz (st st' : PState) (line name : List Char) (parms : List (List Char)) (v : List Char)
    (h : compProp st line name parms v = .ok st') : st'.vtz = st.vtz := by
  unfold compProp at h
  repeat' split at h
  all_goals (first | (cases h; done) | (cases h; rfl))

theorem stepCore_keys (lib : RRuleLib) (st st' : PState) (line name : List Char) (parms : List (List Char)) (value : List Char)
    (h0 : KeysOK st) (h : stepCore lib st line name parms value = .ok st') : KeysOK st' := by
  unfold stepCore at h
  repeat' split at h
  all_goals (first
    | (cases h; done)
    | (cases h; exact h0)
    | skip)
  · unfold beginComp at h; split at h <;> first | (cases h; exact h0) | cases h
  · unfold closeZone at h
    repeat' split at h
    all_goals (first | (cases h; done) | (cases h; exact putVtz_keys_nodup _ _ h0))
  · unfold closeComp at h
    repeat' split at h
    all_goals (first | (cases h; done) | (cases h; exact h0))
  · have := compProp_keeps_vtz st st' _ _ _ _ h; unfold KeysOK; rw [this]; exact h0
  · unfold zoneProp at h
    repeat' split at h
    all_goals (first | (cases h; done) | (cases h; exact h0))

theorem stepLineW_keys (lib : RRuleLib) (st st' : PState) (line : List Char) (h0 : KeysOK st)
    (h : stepLineW lib st line = .ok st') : KeysOK st' := by
  unfold stepLineW at h
  split at h
  · cases h; exact h0
  · split at h
    · cases h
    · exact stepCore_keys lib _ _ _ _ _ _ h0 h

theorem foldlM_keys (lib : RRuleLib) : ∀ (l : List (List Char)) (st st' : PState), KeysOK st →
    l.foldlM (stepLineW lib) st = .ok st' → KeysOK st' := by
  intro l
  induction l with
  | nil => intro st st' h0 h; cases h; exact h0
  | cons a t ih =>
    intro st st' h0 h
    simp only [List.foldlM, bind, Except.bind] at h
    split at h
    · cases h
    · rename_i st1 hs
      exact ih st1 st' (stepLineW_keys lib st st1 a h0 hs) h

/-- **the zones the parser registers have pairwise distinct TZIDs**, for every text and recurrence library -/
theorem parse_keys_nodup (lib : RRuleLib) (text : List Char) (vtz : List VTz) (h : parseRfcW lib text = .ok vtz) :
    (vtz.map (·.tzid)).Nodup := by
  unfold parseRfcW at h
  dsimp only at h
  split at h
  · cases h
  · split at h
    · rename_i st hs
      cases h
      exact foldlM_keys lib _ _ st (by simp [KeysOK]) hs
    · cases h

/-- after loading ANY text through the translated `_parse_rfc`: every registered zone is returned under its own TZID, `keys()` lists
    exactly those TZIDs, and a lone zone is returned without naming it -/
theorem get_after_parse (lib : RRuleLib) (text : List Char) (st : PState) (h : Gen.tzical_parseRfc lib text = .ok st) :
    (∀ v ∈ st.vtz, Gen.tzical_get st.vtz (some v.tzid) = .ok (some v)) ∧
    Gen.tzical_keys st.vtz = .ok (st.vtz.map (·.tzid)) ∧ (st.vtz.map (·.tzid)).Nodup ∧
    (∀ v, st.vtz = [v] → Gen.tzical_get st.vtz none = .ok (some v)) := by
  have hm := gen_eq_model_parse_rfc lib text
  rw [h] at hm
  have hk := parse_keys_nodup lib text st.vtz hm.symm
  have sp := tzical_get_spec st.vtz hk
  exact ⟨sp.1, rfl, hk, sp.2.2.1⟩

/-! ### the objects -/

/-- `_tzicalvtzcomp.__init__`: when both offsets and their difference are inside the timedelta range the component carries the two
    offsets and `tzoffsetdiff = tzoffsetto - tzoffsetfrom` (`ICal.ZComp.diff`); the only exception the constructor raises is
    OverflowError (an offset, or the difference of two huge offsets, outside ±999999999 days) -/
theorem comp_init_spec (f t : Int) (isdst : Bool) (name : Option (List Char)) (rr : Option RfcPy.RR) :
    (TzStr.tdCheck f = .ok () → TzStr.tdCheck t = .ok () → RfcPy.tdRange (t * DtPy.M - f * DtPy.M) = .ok (t * DtPy.M - f * DtPy.M) →
      Gen.tzicalvtzcomp_init f t isdst name rr = .ok (RfcPy.CompObj.mk (f * DtPy.M) (t * DtPy.M)
        (t * DtPy.M - f * DtPy.M) isdst name rr)) ∧
    (∀ e, Gen.tzicalvtzcomp_init f t isdst name rr = .error e → e = .OverflowError) := by
  have tdErr : ∀ x e, TzStr.tdCheck x = .error e → e = .OverflowError := by
    intro x e h; unfold TzStr.tdCheck at h; split at h <;> cases h; rfl
  have rgErr : ∀ x e, RfcPy.tdRange x = .error e → e = .OverflowError := by
    intro x e h; unfold RfcPy.tdRange at h; split at h <;> cases h; rfl
  unfold Gen.tzicalvtzcomp_init ObjPy.tdOfSeconds RfcPy.tdSub
  constructor
  · intro h1 h2 h3; simp [h1, h2, h3, Except.bind]
  · intro e h
    cases h1 : TzStr.tdCheck f with
    | error e1 => simp [h1, Except.bind] at h; subst h; exact tdErr _ _ h1
    | ok _ =>
      cases h2 : TzStr.tdCheck t with
      | error e2 => simp [h1, h2, Except.bind] at h; subst h; exact tdErr _ _ h2
      | ok _ =>
        cases h3 : RfcPy.tdRange (t * DtPy.M - f * DtPy.M) with
        | error e3 => simp [h1, h2, h3, Except.bind] at h; subst h; exact rgErr _ _ h3
        | ok _ => simp [h1, h2, h3, Except.bind] at h

/-- for offsets a VTIMEZONE can state (`±hhmm[ss]`: below 100 h) nothing overflows -/
theorem comp_init_ok_small (f t : Int) (isdst : Bool) (name : Option (List Char)) (rr : Option RfcPy.RR)
    (hf : -360000 < f ∧ f < 360000) (ht : -360000 < t ∧ t < 360000) :
    ∃ c, Gen.tzicalvtzcomp_init f t isdst name rr = .ok c ∧ c.tzoffsetdiff = c.tzoffsetto - c.tzoffsetfrom ∧
      c.tzoffsetfrom = f * DtPy.M ∧ c.tzoffsetto = t * DtPy.M := by
  have h1 : TzStr.tdCheck f = .ok () := by unfold TzStr.tdCheck TzStr.tdLimit; rw [if_neg]; omega
  have h2 : TzStr.tdCheck t = .ok () := by unfold TzStr.tdCheck TzStr.tdLimit; rw [if_neg]; omega
  have h3 : RfcPy.tdRange (t * DtPy.M - f * DtPy.M) = .ok (t * DtPy.M - f * DtPy.M) := by
    unfold RfcPy.tdRange TzStr.tdLimit DtPy.M; rw [if_neg]; omega
  exact ⟨_, (comp_init_spec f t isdst name rr).1 h1 h2 h3, rfl, rfl, rfl⟩

/-- a new zone object starts with both cache lists empty — the initial state of `cache_transparent` / `cache_step_gen` -/
theorem vtz_init_cache_empty (tzid : Option (List Char)) (comps : List Comp) :
    ∃ z, Gen.tzicalvtz_init tzid comps = .ok z ∧ z.cachedate = [] ∧ z.cachecomp = [] ∧ z.tzid = tzid ∧ z.comps = comps :=
  ⟨_, rfl, rfl, rfl, rfl, rfl⟩

/-- `a != b` is `not (a == b)` for range zones -/
theorem tzrange_ne_spec (a b : TzStr.Zone) : Gen.tzrange_ne a b = (Gen.tzrange_eq a b).map (fun r => !r) := by
  unfold Gen.tzrange_ne Gen.tzrange_eq
  simp [Except.bind, Except.map]

theorem tzrangebase_is_abstract : Gen.tzrangebase_init = .error .NotImplemented := rfl

theorem fold_is_fold (dt : DtPy.Dt) : Gen.tzinfo_fold dt = .ok (DtPy.foldOf dt) := rfl

/-- the translated `enfold` is the primitive `DtPy.enfold` the translated lookups (tzrangebase.fromutc, tzfile.fromutc,
    _tzinfo.fromutc, resolve_imaginary) call, for the two legal fold values; any other value is a ValueError; default fold = 1 -/
theorem enfold_spec (dt : DtPy.Dt) :
    Gen.enfold dt 0 = .ok (DtPy.enfold dt 0) ∧ Gen.enfold dt 1 = .ok (DtPy.enfold dt 1) ∧ Gen.enfold dt = .ok (DtPy.enfold dt 1) ∧
    (∀ f, f ≠ 0 → f ≠ 1 → Gen.enfold dt f = .error .ValueError) ∧
    (∀ f r, Gen.enfold dt f = .ok r → DtPy.foldOf r = f ∧ r.us = dt.us) := by
  refine ⟨rfl, rfl, rfl, ?_, ?_⟩
  · intro f h0 h1; simp [Gen.enfold, RfcPy.replaceFold, h0, h1]
  · intro f r h
    unfold Gen.enfold RfcPy.replaceFold at h
    split at h
    · rename_i hf
      cases h
      rcases hf with rfl | rfl <;> simp [DtPy.foldOf]
    · cases h

/-- on Python 3 the `@tzname_in_python2` decorator is the identity: a decorated `tzname` IS the method as written -/
theorem tzname_decorator_identity {α : Type} (f : α) : Gen.tznameInPython2 f = f := rfl

/-- **`tzical(fileobj)` then `get`**: constructing from a path or a stream whose text is `text` is parsing that text from an empty
    `_vtz`; what open/read raise is raised unchanged; and on the object so built every registered zone is returned under its TZID,
    `keys()` lists exactly the TZIDs, a lone zone is returned without naming it -/
theorem tzical_load_get (lib : RRuleLib) (isPath : Bool) (text : List Char) :
    Gen.tzical_init lib ⟨isPath, .ok text⟩ = Gen.tzical_parseRfc lib text ∧
    (∀ e, Gen.tzical_init lib ⟨isPath, .error e⟩ = .error e) ∧
    (∀ st, Gen.tzical_init lib ⟨isPath, .ok text⟩ = .ok st →
      (∀ v ∈ st.vtz, Gen.tzical_get st.vtz (some v.tzid) = .ok (some v)) ∧
      Gen.tzical_keys st.vtz = .ok (st.vtz.map (·.tzid)) ∧
      (∀ v, st.vtz = [v] → Gen.tzical_get st.vtz none = .ok (some v))) := by
  refine ⟨rfl, fun _ => rfl, ?_⟩
  intro st h
  have := get_after_parse lib text st h
  exact ⟨this.1, this.2.1, this.2.2.2⟩

/-- `tzrange._dst_base_offset` (the attribute set by `__init__`, read back by the property) is `dst − std`, the saving the
    `tzrangebase` lookups use (`TZ.RangeZone.saving`), for offsets within a day of UTC -/
theorem tzrange_dst_base_offset_spec (d s : Int) (hd : -86400 < d ∧ d < 86400) (hs : -86400 < s ∧ s < 86400) :
    (Gen.tzrange_initDstBaseOffset (d * DtPy.M) (s * DtPy.M)).bind Gen.tzrange_dstBaseOffsetProp = .ok ((d - s) * DtPy.M) := by
  unfold Gen.tzrange_initDstBaseOffset RfcPy.tdSub RfcPy.tdRange TzStr.tdLimit DtPy.M
  rw [if_neg (by omega)]
  simp only [Except.bind, Gen.tzrange_dstBaseOffsetProp]
  congr 1; omega

/-! non-vacuity -/
example : (Gen.tzical_parseRfc okLib (goodText ++ goodText)).map (fun st => st.vtz.length) = .ok 1 := by decide +kernel
example : Gen.tzical_get [⟨lit "A", []⟩, ⟨lit "B", []⟩] (some (lit "B")) = .ok (some ⟨lit "B", []⟩) := by decide
example : Gen.tzical_get [⟨lit "A", []⟩, ⟨lit "B", []⟩] none = .error .ValueError := by decide

end C17
