/-
  Properties/TzFixedEqGen.lean — obligations that tie C18's cross-type `__eq__` table to the CURRENT source of `tzutc.__eq__` and
  `tzoffset.__eq__` (re-translated on every run into Generated/TzFixedKernels.lean), and the class-level facts
  `__hash__ = None`, `__reduce__ = object.__reduce__` (the premise of Model/Reduce.lean's default path), `__ne__ = not __eq__`.
-/
import DateutilVerif.Properties.C18
import DateutilVerif.Generated.TzFixedKernels

set_option linter.unusedSimpArgs false
set_option linter.unusedVariables false

open Py HelpPy

namespace C18
open Fact

/-- **gen_tzutc_eq_eq_model.** `tzutc.__eq__(other)` is the row of the cross-type table, for every kind of operand. -/
theorem gen_tzutc_eq_eq_model (o : Fact.Zone) : Gen.tzutc_eq o = .ok (eqMethod .utc o) := by
  cases o <;> simp [Gen.tzutc_eq, eqMethod, isTzutc, isTzoffset, offsetOf, Tri.ofBool, bind, Except.bind, pure, Except.pure]

/-- **gen_tzoffset_eq_eq_model.** `tzoffset.__eq__(other)` is the row of the cross-type table (the name is not compared). -/
theorem gen_tzoffset_eq_eq_model (z : Fixed) (n : String) (o : Fact.Zone) :
    Gen.tzoffset_eq z o = .ok (eqMethod (.offset n z.offset) o) := by
  cases o <;> simp [Gen.tzoffset_eq, eqMethod, isTzutc, isTzoffset, offsetOf, Tri.ofBool, bind, Except.bind, pure, Except.pure]

/-- **fixed_class_facts.** Read off the class bodies: the three classes (`tzutc`, `tzoffset`, `tzlocal`) set `__hash__ = None` (unhashable), keep
    `__reduce__ = object.__reduce__` (so pickling and copying follow Model/Reduce.lean's default path) and define
    `__ne__` as the negation of `__eq__`. -/
theorem fixed_class_facts :
    Gen.tzutc_hashIsNone = true ∧ Gen.tzutc_reduceIsObjectReduce = true ∧ Gen.tzutc_neIsNotEq = true ∧
    Gen.tzoffset_hashIsNone = true ∧ Gen.tzoffset_reduceIsObjectReduce = true ∧ Gen.tzoffset_neIsNotEq = true ∧
    Gen.tzlocal_hashIsNone = true ∧ Gen.tzlocal_reduceIsObjectReduce = true ∧ Gen.tzlocal_neIsNotEq = true :=
  ⟨rfl, rfl, rfl, rfl, rfl, rfl, rfl, rfl, rfl⟩

/-- **gen_tzlocal_eq_eq_model.** `tzlocal.__eq__(other)` is the row of the cross-type table: another tzlocal by its two
    offsets; `tzutc` / a `tzoffset` only when the local zone has no DST, by name and standard offset. -/
theorem gen_tzlocal_eq_eq_model (z : Local) (o : Fact.Zone) :
    Gen.tzlocal_eq z o = .ok (eqMethod (.loc z.stdOffset z.dstOffset z.hasdst z.tznames.1) o) := by
  cases o with
  | loc sd dd hd n0 =>
      by_cases h1 : z.stdOffset = sd <;> by_cases h2 : z.dstOffset = dd <;>
        simp [Gen.tzlocal_eq, eqMethod, isTzlocal, locStd, locDst, Tri.ofBool, bind, Except.bind, pure, Except.pure, h1, h2]
  | offset n off =>
      by_cases h1 : z.hasdst = false <;> by_cases h2 : z.tznames.1 = n <;> by_cases h3 : z.stdOffset = off <;>
        simp [Gen.tzlocal_eq, eqMethod, isTzutc, isTzoffset, isTzlocal, offsetOf, nameOfZone, Tri.ofBool, bind, Except.bind, pure,
          Except.pure, h1, h2, h3]
  | utc => simp [Gen.tzlocal_eq, eqMethod, isTzutc, isTzlocal, Tri.ofBool, bind, Except.bind, pure, Except.pure]
  | file d => simp [Gen.tzlocal_eq, eqMethod, isTzutc, isTzoffset, isTzlocal, bind, Except.bind, pure, Except.pure]
  | range p => simp [Gen.tzlocal_eq, eqMethod, isTzutc, isTzoffset, isTzlocal, bind, Except.bind, pure, Except.pure]
  | str p s px => simp [Gen.tzlocal_eq, eqMethod, isTzutc, isTzoffset, isTzlocal, bind, Except.bind, pure, Except.pure]

/-- **gen_tzlocal_init_eq_model.** `tzlocal()` reads the process zone from the `time` module: standard offset `-time.timezone`,
    daylight offset `-time.altzone` when `time.daylight` (else the standard one), their difference, whether it is non-zero,
    and the two names. -/
theorem gen_tzlocal_init_eq_model (tm : TimeMod) :
    Gen.tzlocal_init tm = .ok
      { stdOffset := -tm.timezone,
        dstOffset := if tm.daylight = 0 then -tm.timezone else -tm.altzone,
        dstSaved := (if tm.daylight = 0 then -tm.timezone else -tm.altzone) - -tm.timezone,
        hasdst := ((if tm.daylight = 0 then -tm.timezone else -tm.altzone) - -tm.timezone) != 0,
        tznames := tm.tzname } := by
  unfold Gen.tzlocal_init
  by_cases h : tm.daylight = 0 <;> simp [h, bind, Except.bind, pure, Except.pure]

/-- a tzlocal built without daylight time has no DST and equal offsets (so it can equal `tzutc` / a `tzoffset`) -/
theorem tzlocal_init_no_daylight (tm : TimeMod) (h : tm.daylight = 0) :
    ∃ z, Gen.tzlocal_init tm = .ok z ∧ z.hasdst = false ∧ z.dstOffset = z.stdOffset := by
  refine ⟨_, gen_tzlocal_init_eq_model tm, ?_, ?_⟩ <;> simp [h]

example : Gen.tzoffset_eq ⟨none, 3600⟩ (.offset "x" 3600) = .ok .t := by decide
example : Gen.tzutc_eq (.offset "x" 1) = .ok .f ∧ Gen.tzutc_eq (.file 0) = .ok .ni := by decide

end C18
