/-
  Properties/TzFixedEqGen.lean — obligations that tie C18's cross-type `__eq__` table to the CURRENT source of `tzutc.__eq__` and
  `tzoffset.__eq__` (re-translated on every run into Generated/TzFixedKernels.lean), and the class-level facts
  `__hash__ = None`, `__reduce__ = object.__reduce__` (the premise of Model/Reduce.lean's default path), `__ne__ = not __eq__`.
-/
import DateutilVerif.Properties.C18
import DateutilVerif.Generated.TzFixedKernels

set_option linter.unusedSimpArgs false
set_option linter.unusedVariables false

open Py HelpPy

namespace C18
open Fact

/-- **gen_tzutc_eq_eq_model.** `tzutc.__eq__(other)` is the row of the cross-type table, for every kind of operand. -/
theorem gen_tzutc_eq_eq_model (o : Fact.Zone) : Gen.tzutc_eq o = .ok (eqMethod .utc o) := by
  cases o <;> simp [Gen.tzutc_eq, eqMethod, isTzutc, isTzoffset, offsetOf, Tri.ofBool, bind, Except.bind, pure, Except.pure]

/-- **gen_tzoffset_eq_eq_model.** `tzoffset.__eq__(other)` is the row of the cross-type table (the name is not compared). -/
theorem gen_tzoffset_eq_eq_model (z : Fixed) (n : String) (o : Fact.Zone) :
    Gen.tzoffset_eq z o = .ok (eqMethod (.offset n z.offset) o) := by
  cases o <;> simp [Gen.tzoffset_eq, eqMethod, isTzutc, isTzoffset, offsetOf, Tri.ofBool, bind, Except.bind, pure, Except.pure]

/-- **fixed_class_facts.** Read off the class bodies: both classes set `__hash__ = None` (unhashable), keep
    `__reduce__ = object.__reduce__` (so pickling and copying follow Model/Reduce.lean's default path) and define
    `__ne__` as the negation of `__eq__`. -/
theorem fixed_class_facts :
    Gen.tzutc_hashIsNone = true ∧ Gen.tzutc_reduceIsObjectReduce = true ∧ Gen.tzutc_neIsNotEq = true ∧
    Gen.tzoffset_hashIsNone = true ∧ Gen.tzoffset_reduceIsObjectReduce = true ∧ Gen.tzoffset_neIsNotEq = true :=
  ⟨rfl, rfl, rfl, rfl, rfl, rfl⟩

example : Gen.tzoffset_eq ⟨none, 3600⟩ (.offset "x" 3600) = .ok .t := by decide
example : Gen.tzutc_eq (.offset "x" 1) = .ok .f ∧ Gen.tzutc_eq (.file 0) = .ok .ni := by decide

end C18
