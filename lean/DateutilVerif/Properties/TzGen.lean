/-
  Properties/TzGen.lean — obligations that tie C04 / C05 / C06 / C08 to the CURRENT source of the time-zone lookup
  code: every function of tz/tz.py (`tzfile` lookups, `_datetime_to_timestamp`) and tz/_common.py (`tzrangebase`)
  that the hand model Model/Zones.lean mirrors is re-translated from /repo on every run (harness/translate_dt.py →
  Generated/TzKernels.lean, `Gen.*`) and proved EQUAL to the model function here (`gen_eq_model_<function>`), for all
  zones and all datetimes WITH microseconds (`TzGen.D s f fold att`: naive reading `s` seconds + `f` µs, `0 ≤ f < 10^6`);
  the central property theorems are restated about the translated functions (`…_gen`).  A behaviour-changing edit of
  one of these functions breaks the translation (named construct) or the obligation named after it.
-/
import DateutilVerif.Properties.C04
import DateutilVerif.Properties.C05
import DateutilVerif.Properties.C06
import DateutilVerif.Proofs.TzGenEq
import DateutilVerif.Proofs.TzGenEqRange
import DateutilVerif.Proofs.TzGenEqGeneric
import DateutilVerif.Proofs.ZonesBuild

open TZ Spec Py DtPy TzGen

/-! ### C04 — UTC → local → UTC -/
namespace C04

theorem gen_eq_model_datetime_to_timestamp (d : Dt) : Gen.datetimeToTimestamp d = .ok d.us := ts_eq d

theorem gen_eq_model_find_last_transition (z : TzFile) (s f : Int) (fold att : Bool) (h0 : 0 ≤ f) (h1 : f < M) :
    Gen.tzfile_findLastTransition z (D s f fold att) true = .ok (findLastUtc z s) ∧
    Gen.tzfile_findLastTransition z (D s f fold att) false = .ok (findLastWall z ⟨s, fold⟩) :=
  ⟨findLast_utc_eq z s f fold att h0 h1, findLast_wall_eq z s f fold att h0 h1⟩

theorem gen_eq_model_get_ttinfo (r : Raw) (hwf : Spec.wf r = true) (hne : r.trans ≠ []) (c : Nat)
    (hc : c ≤ (build r).utc.length) :
    Gen.tzfile_getTtinfo (build r) (some ((c : Int) - 1)) = .ok (getTtinfo (build r) (some ((c : Int) - 1))) ∧
    Gen.tzfile_getTtinfo (build r) none = .ok (getTtinfo (build r) none) := by
  obtain ⟨b, s, _, _, _, hco, _⟩ := build_coherent r hwf hne
  exact ⟨getTtinfo_some_eq hco c hc, getTtinfo_none_eq⟩

theorem gen_eq_model_fromutc (r : Raw) (hwf : Spec.wf r = true) (hne : r.trans ≠ []) (t f : Int)
    (h0 : 0 ≤ f) (h1 : f < M) :
    Gen.tzfile_fromutc (build r) (D t f false true) = (TZ.fromutc (build r) t).map fun w => D w.wall f w.fold true := by
  obtain ⟨b, s, _, _, _, hco, _⟩ := build_coherent r hwf hne
  exact fromutc_eq hco t f h0 h1

theorem gen_eq_model_utcoffset (r : Raw) (hwf : Spec.wf r = true) (hne : r.trans ≠ []) (s f : Int) (fold att : Bool)
    (h0 : 0 ≤ f) (h1 : f < M) :
    Gen.tzfile_utcoffset (build r) (D s f fold att) = (TZ.utcoffset (build r) ⟨s, fold⟩).map (· * M) := by
  obtain ⟨b, s0, _, _, _, hco, _⟩ := build_coherent r hwf hne
  exact utcoffset_eq hco s f fold att h0 h1

theorem gen_eq_model_range_fromutc (z : RangeZone) (t f : Int) (h0 : 0 ≤ f) (h1 : f < M) :
    Gen.tzrange_fromutc z (D t f false true) = (z.fromutc t).map fun w => D w.wall f w.fold true :=
  range_fromutc_eq z t f h0 h1

theorem gen_eq_model_range_utcoffset (z : RangeZone) (x f : Int) (fold att : Bool) (h0 : 0 ≤ f) (h1 : f < M) :
    Gen.tzrange_utcoffset z (D x f fold att) = (z.utcoffset ⟨x, fold⟩).map (· * M) :=
  range_utcoffset_eq z x f fold att h0 h1

theorem gen_eq_model_tzinfo_fromutc (z : GenericZone) (t f : Int) (att : Bool) (h0 : 0 ≤ f) (h1 : f < M) :
    Gen.tzinfo_fromutcWall z (D t f false att) = .ok (D (z.fromutcWall t) f false att) ∧
    Gen.tzinfo_fromutc z (D t f false att) = .ok (D (z.fromutc t).wall f (z.fromutc t).fold att) :=
  ⟨generic_fromutcWall_eq z t f att h0 h1, generic_fromutc_eq z t f att h0 h1⟩

/-- C04.roundtrip about the TRANSLATED `tzfile.fromutc` / `tzfile.utcoffset`, for instants with microseconds: the
    conversion keeps the microseconds, reports `wall − utc` as the offset, hence converts back to the instant -/
theorem roundtrip_gen (r : Raw) (hwf : Spec.wf r = true) (hne : r.trans ≠ []) (t f : Int) (h0 : 0 ≤ f) (h1 : f < M)
    (hcov : (∃ u, lastTime r = some u ∧ t < u) ∨ LastStd (build r)) :
    ∃ w : Wall, Gen.tzfile_fromutc (build r) (D t f false true) = .ok (D w.wall f w.fold true) ∧
      Gen.tzfile_utcoffset (build r) (D w.wall f w.fold true) = .ok ((w.wall - t) * M) := by
  obtain ⟨w, hf, ho, _⟩ := roundtrip r hwf hne t hcov
  refine ⟨w, ?_, ?_⟩
  · rw [gen_eq_model_fromutc r hwf hne t f h0 h1, hf]; rfl
  · rw [gen_eq_model_utcoffset r hwf hne w.wall f w.fold true h0 h1, ho]; rfl

end C04

/-! ### C05 — ambiguous / imaginary wall times -/
namespace C05

theorem gen_eq_model_is_ambiguous (r : Raw) (hwf : Spec.wf r = true) (hne : r.trans ≠ []) (s f : Int) (fold att : Bool)
    (h0 : 0 ≤ f) (h1 : f < M) :
    Gen.tzfile_isAmbiguous (build r) (D s f fold att) none = .ok (TZ.isAmbiguous (build r) s) := by
  obtain ⟨b, s0, _, _, _, hco, _⟩ := build_coherent r hwf hne
  exact isAmb_none hco s f fold att h0 h1

theorem gen_eq_model_is_ambiguous_idx (r : Raw) (hwf : Spec.wf r = true) (hne : r.trans ≠ []) (s f : Int)
    (fold att : Bool) (h0 : 0 ≤ f) (h1 : f < M) (c : Nat) (hc : c ≤ (build r).utc.length) :
    Gen.tzfile_isAmbiguous (build r) (D s f fold att) (some ((c : Int) - 1)) =
      .ok (isAmbiguousIdx (build r) s (some ((c : Int) - 1))) := by
  obtain ⟨b, s0, _, _, _, hco, _⟩ := build_coherent r hwf hne
  exact isAmb_at hco s f fold att h0 h1 c hc

theorem gen_eq_model_offset_before (r : Raw) (hwf : Spec.wf r = true) (hne : r.trans ≠ []) (i : Nat)
    (hi : i < (build r).utc.length) :
    ∃ v, offsetBefore (build r) (i : Int) = some v ∧ Gen.tzfile_offsetBefore (build r) (i : Int) = .ok v := by
  obtain ⟨b, s0, _, _, _, hco, _⟩ := build_coherent r hwf hne
  exact ⟨_, hco.offsetBefore_eq i hi, offsetBefore_eq hco i hi⟩

theorem gen_eq_model_range_is_ambiguous (z : RangeZone) (x f : Int) (fold att : Bool) (h0 : 0 ≤ f) (h1 : f < M) :
    Gen.tzrange_isAmbiguous z (D x f fold att) = z.isAmbiguous x := range_isAmbiguous_eq z x f fold att h0 h1

theorem gen_eq_model_range_isdst (z : RangeZone) (x f : Int) (fold att : Bool) (h0 : 0 ≤ f) (h1 : f < M) :
    Gen.tzrange_isdst z (D x f fold att) = z.isdst ⟨x, fold⟩ := range_isdst_eq z x f fold att h0 h1

theorem gen_eq_model_naive_isdst (z : RangeZone) (x f : Int) (fold att : Bool) (a b : Int) (h0 : 0 ≤ f) (h1 : f < M) :
    Gen.tzrange_naiveIsdst z (D x f fold att) (Dn a, Dn b) = .ok (RangeZone.naiveIsdst x (a, b)) :=
  naiveIsdst_eq z x f fold att a b h0 h1

theorem gen_eq_model_tzinfo_is_ambiguous (z : GenericZone) (w f : Int) (fold att : Bool) (h0 : 0 ≤ f) (h1 : f < M) :
    Gen.tzinfo_isAmbiguous z (D w f fold att) = .ok (z.utcoffset ⟨w, false⟩ != z.utcoffset ⟨w, true⟩) ∧
    DtPy.dispatchAmbiguous z (Gen.tzinfo_isAmbiguous z) (D w f fold att) = .ok (z.isAmbiguous w) :=
  ⟨generic_isAmbiguous_eq z w f fold att h0 h1, dispatch_eq z w f fold att h0 h1⟩

theorem gen_eq_model_tzinfo_fold_status (z : GenericZone) (t w f : Int) (fw aw au : Bool) (h0 : 0 ≤ f) (h1 : f < M) :
    Gen.tzinfo_foldStatus z (D t f false au) (D w f fw aw) = .ok (DtPy.b2i (z.foldStatus t w)) :=
  generic_foldStatus_eq z t w f fw aw au h0 h1

/-- C05.ambiguous_iff about the TRANSLATED `tzfile.is_ambiguous`: it answers True exactly for wall times with two
    pre-images, whatever the microseconds -/
theorem ambiguous_iff_gen (r : Raw) (hwf : Spec.wf r = true) (hne : r.trans ≠ []) (w f : Int) (fold att : Bool)
    (h0 : 0 ≤ f) (h1 : f < M) :
    Gen.tzfile_isAmbiguous (build r) (D w f fold att) none = .ok true ↔ (Spec.pre r w).length = 2 := by
  rw [gen_eq_model_is_ambiguous r hwf hne w f fold att h0 h1, ← ambiguous_iff r hwf hne w]
  constructor
  · intro h; injection h
  · intro h; rw [h]

end C05

/-! ### C06 — tzfile reports what the data says -/
namespace C06

theorem gen_eq_model_find_ttinfo (r : Raw) (hwf : Spec.wf r = true) (hne : r.trans ≠ []) (s f : Int) (fold att : Bool)
    (h0 : 0 ≤ f) (h1 : f < M) :
    Gen.tzfile_findTtinfo (build r) (D s f fold att) = .ok (findTtinfo (build r) ⟨s, fold⟩) := by
  obtain ⟨b, s0, _, _, _, hco, _⟩ := build_coherent r hwf hne
  exact findTtinfo_eq hco s f fold att h0 h1

theorem gen_eq_model_utcoffset (r : Raw) (hwf : Spec.wf r = true) (hne : r.trans ≠ []) (s f : Int) (fold att : Bool)
    (h0 : 0 ≤ f) (h1 : f < M) :
    Gen.tzfile_utcoffset (build r) (D s f fold att) = (TZ.utcoffset (build r) ⟨s, fold⟩).map (· * M) :=
  C04.gen_eq_model_utcoffset r hwf hne s f fold att h0 h1

theorem gen_eq_model_dst (r : Raw) (hwf : Spec.wf r = true) (hne : r.trans ≠ []) (s f : Int) (fold att : Bool)
    (h0 : 0 ≤ f) (h1 : f < M) :
    Gen.tzfile_dst (build r) (D s f fold att) = (TZ.dst (build r) ⟨s, fold⟩).map (· * M) := by
  obtain ⟨b, s0, _, _, _, hco, _⟩ := build_coherent r hwf hne
  exact dst_eq hco s f fold att h0 h1

theorem gen_eq_model_tzname (r : Raw) (hwf : Spec.wf r = true) (hne : r.trans ≠ []) (s f : Int) (fold att : Bool)
    (h0 : 0 ≤ f) (h1 : f < M) :
    Gen.tzfile_tzname (build r) (D s f fold att) = TZ.tzname (build r) ⟨s, fold⟩ := by
  obtain ⟨b, s0, _, _, _, hco, _⟩ := build_coherent r hwf hne
  exact tzname_eq hco s f fold att h0 h1

theorem gen_eq_model_fromutc (r : Raw) (hwf : Spec.wf r = true) (hne : r.trans ≠ []) (t f : Int)
    (h0 : 0 ≤ f) (h1 : f < M) :
    Gen.tzfile_fromutc (build r) (D t f false true) = (TZ.fromutc (build r) t).map fun w => D w.wall f w.fold true :=
  C04.gen_eq_model_fromutc r hwf hne t f h0 h1

/-- C06.lookup_exact about the TRANSLATED functions: the converted instant shows the offset and abbreviation of the
    type the TZif data puts in force at that instant -/
theorem lookup_exact_gen (r : Raw) (hwf : Spec.wf r = true) (hne : r.trans ≠ []) (t u f : Int) (h0 : 0 ≤ f) (h1 : f < M)
    (hlast : lastTime r = some u) (h2 : t < u) :
    ∃ (w : Wall) (ty : TType), Gen.tzfile_fromutc (build r) (D t f false true) = .ok (D w.wall f w.fold true) ∧
      Spec.typeAt r t = some ty ∧ w.wall = t + ty.off ∧
      Gen.tzfile_utcoffset (build r) (D w.wall f w.fold true) = .ok (ty.off * M) ∧
      Gen.tzfile_tzname (build r) (D w.wall f w.fold true) = .ok (some ty.abbr) := by
  obtain ⟨w, ty, hf, hty, hw, ho, hn⟩ := lookup_exact r hwf t u hlast h2
  refine ⟨w, ty, ?_, hty, hw, ?_, ?_⟩
  · rw [gen_eq_model_fromutc r hwf hne t f h0 h1, hf]; rfl
  · rw [gen_eq_model_utcoffset r hwf hne w.wall f w.fold true h0 h1, ho]; rfl
  · rw [gen_eq_model_tzname r hwf hne w.wall f w.fold true h0 h1, hn]

end C06

/-! ### C08 — tzstr / tzrange follow their yearly rule (the `tzrangebase` lookups) -/
namespace C08

theorem gen_eq_model_naive_isdst (z : RangeZone) (x f : Int) (fold att : Bool) (a b : Int) (h0 : 0 ≤ f) (h1 : f < M) :
    Gen.tzrange_naiveIsdst z (D x f fold att) (Dn a, Dn b) = .ok (RangeZone.naiveIsdst x (a, b)) :=
  naiveIsdst_eq z x f fold att a b h0 h1

theorem gen_eq_model_isdst (z : RangeZone) (x f : Int) (fold att : Bool) (h0 : 0 ≤ f) (h1 : f < M) :
    Gen.tzrange_isdst z (D x f fold att) = z.isdst ⟨x, fold⟩ := range_isdst_eq z x f fold att h0 h1

theorem gen_eq_model_is_ambiguous (z : RangeZone) (x f : Int) (fold att : Bool) (h0 : 0 ≤ f) (h1 : f < M) :
    Gen.tzrange_isAmbiguous z (D x f fold att) = z.isAmbiguous x := range_isAmbiguous_eq z x f fold att h0 h1

theorem gen_eq_model_utcoffset (z : RangeZone) (x f : Int) (fold att : Bool) (h0 : 0 ≤ f) (h1 : f < M) :
    Gen.tzrange_utcoffset z (D x f fold att) = (z.utcoffset ⟨x, fold⟩).map (· * M) :=
  range_utcoffset_eq z x f fold att h0 h1

theorem gen_eq_model_dst (z : RangeZone) (x f : Int) (fold att : Bool) (h0 : 0 ≤ f) (h1 : f < M) :
    Gen.tzrange_dst z (D x f fold att) = (z.dst ⟨x, fold⟩).map (· * M) := range_dst_eq z x f fold att h0 h1

theorem gen_eq_model_tzname (z : RangeZone) (x f : Int) (fold att : Bool) (h0 : 0 ≤ f) (h1 : f < M) :
    Gen.tzrange_tzname z (D x f fold att) = z.tzname ⟨x, fold⟩ := range_tzname_eq z x f fold att h0 h1

theorem gen_eq_model_fromutc (z : RangeZone) (t f : Int) (h0 : 0 ≤ f) (h1 : f < M) :
    Gen.tzrange_fromutc z (D t f false true) = (z.fromutc t).map fun w => D w.wall f w.fold true :=
  range_fromutc_eq z t f h0 h1

theorem gen_eq_model_dst_base_offset (z : RangeZone) : Gen.tzrange_dstBaseOffset z = .ok (z.saving * M) :=
  dstBase_eq z

end C08
