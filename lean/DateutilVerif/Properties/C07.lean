import DateutilVerif.Model.IsoParser
import DateutilVerif.Spec.IsoForms
namespace C07
theorem placeholder : Iso.isDigit 48 = true := by decide
end C07
