/-
  Properties/C07.lean — isoparse inverts every ISO-8601 rendering.

  `IsoSpec.render f x` prints the numeric fields `x` in the form `f` (date form × time form ×
  offset form × separator byte); `IsoSpec.WFields f x` = the form exists and every field is in
  calendar / clock range (strict ISO weeks); `IsoSpec.denote f x` = the datetime it stands for
  (unrendered components lowest, fraction truncated to µs, zero offset = UTC, 24:00 = next
  midnight).  All theorems are about the model `Iso.*` of the current isoparser.py and hold for
  ALL forms, ALL field values and ALL fraction lengths.
-/
import DateutilVerif.Proofs.IsoRender
import DateutilVerif.Proofs.IsoDatetime
import DateutilVerif.Proofs.IsoGenEq
import DateutilVerif.Proofs.IsoGenLoop
import DateutilVerif.Proofs.IsoReview
namespace C07
open Iso IsoSpec Cal

/-- THE INVERSE LAW (full strength): for every form, every well-formed field assignment, EVERY
    separator byte — a digit only being excluded after a basic ordinal date `YYYYDDD`, the one
    date form whose rendering a following digit makes ambiguous (`2014059112` reads as the calendar
    date 2014-05-91) — with the default parser (`cfg = none`) or the parser configured with that
    separator, parsing the rendering returns exactly the denoted datetime. -/
theorem isoparse_render (f : IsoForm) (x : Fields) (cfg : Option Nat)
    (hw : WFields f x) (hsep : f.time ≠ .none → f.date = .ordBas → isDigit f.sep = false)
    (hcfg : cfg = none ∨ cfg = some f.sep) :
    isoparse cfg (render f x) = .ok (denote f x) :=
  isoparse_render_core f x cfg hw hsep hcfg

/-- the same through the public entry `isoparser(sep).isoparse(bytes)` (constructor check of
    `sep` included; bytes input, no ASCII gate) -/
theorem isoparse_render_entry (f : IsoForm) (x : Fields) (hw : WFields f x)
    (hsep : isDigit f.sep = false) (h128 : f.sep < 128) :
    isoparseFull (some [f.sep]) false (render f x) = .ok (denote f x) ∧
    isoparseFull none false (render f x) = .ok (denote f x) := by
  have h1 : mkSep (some [f.sep]) = .ok (some f.sep) := by
    simp [mkSep, hsep]; omega
  constructor
  · simp only [isoparseFull, h1, bind, Except.bind, asciiGate]
    simp [isoparse_render_core f x (some f.sep) hw (fun _ _ => hsep) (Or.inr rfl)]
  · simp only [isoparseFull, mkSep, bind, Except.bind, asciiGate]
    simp [isoparse_render_core f x none hw (fun _ _ => hsep) (Or.inl rfl)]

/-- `parse_isodate` inverts every date form (complete or not) -/
theorem parse_isodate_render (df : DateForm) (x : Fields) (hwf : dateWF true df x = true)
    (hr : dateOrdinal df x ≤ maxOrdinal) :
    parseIsodateEntry (renderDate df x) = .ok (fromOrdinal (dateOrdinal df x)) := by
  have hp := dateOrdinal_pos df x hwf
  have h := parseIsodate_render df x [] hwf hp hr (fun _ => Or.inl rfl) (Or.inr rfl)
  rw [List.append_nil] at h
  have hv := fromOrdinal_valid _ hp hr
  have : validDate (fromOrdinal (dateOrdinal df x)).1 (fromOrdinal (dateOrdinal df x)).2.1
      (fromOrdinal (dateOrdinal df x)).2.2 = true := by simp [validDate, hv]
  simp [parseIsodateEntry, h, bind, Except.bind, this]

/-- `parse_isotime` inverts every time form × offset form (24:00 reads as 00:00) -/
theorem parse_isotime_render (tf : TimeForm) (o : OffForm) (x : Fields) (htf : tf ≠ .none)
    (hw : timeWF tf x = true) (ho : offWF o x = true) :
    parseIsotimeEntry (renderTime tf x ++ renderOff o x) =
      .ok { h := if (timeShown tf x).1 = 24 then 0 else ((timeShown tf x).1 : Int),
            m := (timeShown tf x).2.1, s := (timeShown tf x).2.2.1, us := (timeShown tf x).2.2.2,
            tz := offDenote o x } := by
  have hpt := parseIsotime_render tf x _ _ htf hw (offTail_render o x ho)
  have hw' := hw
  simp only [timeWF, Bool.and_eq_true, Bool.or_eq_true, decide_eq_true_eq] at hw'
  obtain ⟨hrange, hfr⟩ := hw'
  have hus : (timeShown tf x).2.2.2 < 1000000 := by
    simp only [timeShown]
    split
    · rename_i hf
      simp [hf] at hfr
      exact fracMicros_lt _ (fun d hd => by simpa using hfr.2 d hd)
    · omega
  simp only [parseIsotimeEntry, hpt, bind, Except.bind]
  generalize timeShown tf x = ts at *
  obtain ⟨h, mi, s, us⟩ := ts
  simp only [] at hrange hus ⊢
  by_cases h24 : h = 24
  · subst h24
    have hz : mi = 0 ∧ s = 0 ∧ us = 0 := by rcases hrange with g | g <;> omega
    obtain ⟨rfl, rfl, rfl⟩ := hz
    simp
  · have hlt : h ≤ 23 ∧ mi ≤ 59 ∧ s ≤ 59 := by
      rcases hrange with g | g
      · exact g
      · exact absurd g.1 h24
    have : ¬ ((h : Int) = 24) := by omega
    simp only [this, if_false]
    rw [if_pos (by omega)]
    simp [h24]

/-- `parse_tzstr` inverts every offset form, every offset −23:59..+23:59 -/
theorem parse_tzstr_render (o : OffForm) (x : Fields) (v : Off) (hw : offWF o x = true)
    (hv : offDenote o x = some v) : parseTzstr (renderOff o x) true = .ok v :=
  parseTzstr_render o x v hw hv

/-- week dates really invert `date.isocalendar()`: for EVERY valid date the (ISO year, week,
    weekday) it reports denotes that date again, the week exists in that ISO year, and the fields
    are in range — so `isoparse_render` applied to `isocalendar()` output returns the date. -/
theorem weekdate_inverts_isocalendar (y m d : Int) (hv : ValidYMD y m d) :
    isoWeek1Monday (isoCalendar y m d).1 + ((isoCalendar y m d).2.1 - 1) * 7 +
      ((isoCalendar y m d).2.2 - 1) = toOrdinal y m d ∧
    1 ≤ (isoCalendar y m d).2.1 ∧ (isoCalendar y m d).2.1 ≤ 53 ∧
    1 ≤ (isoCalendar y m d).2.2 ∧ (isoCalendar y m d).2.2 ≤ 7 ∧
    (isoCalendar y m d).2.1 ≤ isoWeeksInYear (isoCalendar y m d).1 :=
  weekdate_roundtrip y m d hv

/-- ordinal dates invert `tm_yday` -/
theorem ordinaldate_inverts_yday (y m d : Int) (hv : ValidYMD y m d) :
    toOrdinal y 1 1 + (yday y m d - 1) = toOrdinal y m d ∧ 1 ≤ yday y m d ∧ yday y m d ≤ daysInYear y := by
  have ⟨o1, o2⟩ := ordinal_in_year y m d hv
  have s := daysBeforeYear_succ y
  simp only [toOrdinal_jan, yday]
  unfold toOrdinal at o1 o2 ⊢
  omega

/-- THE INVERSE LAW ON DATETIMES: for every valid datetime `t` (years 1..9999), every complete date
    form (calendar / ISO week / ordinal, basic or extended — the fields shown are `t`'s own
    y-m-d, `isocalendar()` or `tm_yday`), every time form with ANY list of fraction digits, every
    offset form and value, every non-digit separator (default parser or configured with it):
    parsing the rendering returns exactly `t` truncated to the rendered precision, with the offset
    denoted.  `Iso.dtFields` / `Iso.truncDT` are defined in Proofs/IsoDatetime.lean. -/
theorem isoparse_inverts_datetime (t : DT) (ht : t.Valid) (df : DateForm) (hc : df.complete = true)
    (tf : TimeForm) (htf : tf ≠ .none) (frac : List Nat)
    (hfrac : tf.hasFrac = true → frac ≠ [] ∧ ∀ d ∈ frac, d ≤ 9)
    (o : OffForm) (xo : Fields) (how : offWF o xo = true) (sep : Nat) (hsep : df = .ordBas → isDigit sep = false)
    (cfg : Option Nat) (hcfg : cfg = none ∨ cfg = some sep) :
    isoparse cfg (render ⟨df, tf, o, sep⟩ (dtFields df t frac xo)) =
      .ok ⟨truncDT tf frac t, offDenote o xo⟩ :=
  isoparse_inverts_datetime_core t ht df hc tf htf frac hfrac o xo how sep hsep cfg hcfg

/-- rendering the first `k ≤ 6` digits of the microsecond truncates it to that precision … -/
theorem fraction_truncates (us k : Nat) (hus : us < 1000000) (h1 : 1 ≤ k) (h6 : k ≤ 6) :
    fracMicros ((digits6 us).take k) = us - us % 10 ^ (6 - k) :=
  fracMicros_take us k hus h1 h6

/-- … and digits beyond the sixth are ignored (fractions beyond microseconds are truncated) -/
theorem fraction_extra_ignored (us : Nat) (extra : List Nat) (hus : us < 1000000) :
    fracMicros (digits6 us ++ extra) = us :=
  fracMicros_extra us extra hus

/-- the ISO year reported by `isocalendar()` for a date in 0001..9999 is itself in 1..9999, so every
    date has a week-date rendering with a four-digit year -/
theorem isoYear_in_range (y m d : Int) (hv : ValidDate y m d) :
    1 ≤ (isoCalendar y m d).1 ∧ (isoCalendar y m d).1 ≤ 9999 :=
  isoYear_range y m d hv

/-! ### the inverse law for the functions TRANSLATED from isoparser.py on every run (`Gen.*`) -/

/-- the translated `_parse_tzstr` inverts every offset form -/
theorem parse_tzstr_render_gen (o : OffForm) (x : Fields) (v : Off) (hw : offWF o x = true)
    (hv : offDenote o x = some v) : Gen.parseTzstr (renderOff o x) true = .ok v := by
  rw [IsoGen.parseTzstr_eq]; exact parseTzstr_render o x v hw hv

/-- the translated date scanner `_parse_isodate` inverts every date form, with any unread suffix that does not
    start with a digit: it returns the denoted date as components and the length of the rendering as position -/
theorem parse_isodate_scan_render_gen (df : DateForm) (x : Fields) (t : Iso.Bytes)
    (hwf : dateWF true df x = true) (hr : dateOrdinal df x ≤ maxOrdinal)
    (ht : df = .ordBas → TailOK t) (hc : df.complete = true ∨ t = []) :
    Gen.parseIsodate (renderDate df x ++ t) =
      .ok ([.int (fromOrdinal (dateOrdinal df x)).1, .int (fromOrdinal (dateOrdinal df x)).2.1,
            .int (fromOrdinal (dateOrdinal df x)).2.2], ((renderDate df x).length : Int)) := by
  rw [IsoGen.parseIsodate_eq, parseIsodate_render df x t hwf (dateOrdinal_pos df x hwf) hr ht hc]
  simp [Except.map, IsoGen.dateOut]

/-- THE INVERSE LAW for the TRANSLATED `isoparse` (`Gen.isoparse`, re-translated from isoparser.py on every run):
    every form, every well-formed field assignment, default or configured separator -/
theorem isoparse_render_gen (f : IsoForm) (x : Fields) (cfg : Option Nat)
    (hw : WFields f x) (hsep : f.time ≠ .none → f.date = .ordBas → isDigit f.sep = false)
    (hcfg : cfg = none ∨ cfg = some f.sep) :
    Gen.isoparse (cfg.map fun c => [c]) (render f x) = .ok (denote f x) := by
  rw [IsoGen.isoparse_eq]; exact isoparse_render_core f x cfg hw hsep hcfg

/-- the datetime-level inverse law for the translated `isoparse` -/
theorem isoparse_inverts_datetime_gen (t : DT) (ht : t.Valid) (df : DateForm) (hc : df.complete = true)
    (tf : TimeForm) (htf : tf ≠ .none) (frac : List Nat)
    (hfrac : tf.hasFrac = true → frac ≠ [] ∧ ∀ d ∈ frac, d ≤ 9)
    (o : OffForm) (xo : Fields) (how : offWF o xo = true) (sep : Nat) (hsep : df = .ordBas → isDigit sep = false)
    (cfg : Option Nat) (hcfg : cfg = none ∨ cfg = some sep) :
    Gen.isoparse (cfg.map fun c => [c]) (render ⟨df, tf, o, sep⟩ (dtFields df t frac xo)) =
      .ok ⟨truncDT tf frac t, offDenote o xo⟩ := by
  rw [IsoGen.isoparse_eq]
  exact isoparse_inverts_datetime_core t ht df hc tf htf frac hfrac o xo how sep hsep cfg hcfg

/-- the translated `_parse_isotime` (the `while` loop, fuel-bounded) inverts every time form × offset form: it
    returns the raw components `[hh, mm, ss, µs, tz]` the rendering shows -/
theorem parse_isotime_scan_render_gen (tf : TimeForm) (o : OffForm) (x : Fields) (htf : tf ≠ .none)
    (hw : timeWF tf x = true) (ho : offWF o x = true) :
    Gen.parseIsotime (renderTime tf x ++ renderOff o x) =
      .ok (IsoGen.compsOf { h := (timeShown tf x).1, m := (timeShown tf x).2.1, s := (timeShown tf x).2.2.1,
                            us := (timeShown tf x).2.2.2, tz := offDenote o x }) := by
  rw [IsoGen.parseIsotime_eq, parseIsotime_render tf x _ _ htf hw (offTail_render o x ho)]; rfl

/-- the translated body of `parse_isodate` inverts every date form (the value is the date's ordinal) -/
theorem parse_isodate_render_gen (df : DateForm) (x : Fields) (hwf : dateWF true df x = true)
    (hr : dateOrdinal df x ≤ maxOrdinal) :
    Gen.parseIsodateEntry (renderDate df x) = .ok (dateOrdinal df x) := by
  rw [IsoGen.parseIsodateEntry_eq, parse_isodate_render df x hwf hr]
  simp only [Except.map]
  rw [(toOrdinal_fromOrdinal _ (dateOrdinal_pos df x hwf)).1]

/-- the translated body of `parse_isotime` inverts every time form × offset form (24:00 reads as 00:00) -/
theorem parse_isotime_render_gen (tf : TimeForm) (o : OffForm) (x : Fields) (htf : tf ≠ .none)
    (hw : timeWF tf x = true) (ho : offWF o x = true) :
    Gen.parseIsotimeEntry (renderTime tf x ++ renderOff o x) =
      .ok (IsoGen.compsOf
        { h := if (timeShown tf x).1 = 24 then 0 else ((timeShown tf x).1 : Int),
          m := (timeShown tf x).2.1, s := (timeShown tf x).2.2.1, us := (timeShown tf x).2.2.2,
          tz := offDenote o x }) := by
  rw [IsoGen.parseIsotimeEntry_eq, parse_isotime_render tf o x htf hw ho]; rfl

/-- `_parse_tzstr` (model and translated) inverts every offset form for BOTH values of `zero_as_utc`: with
    `zero_as_utc=False` a zero numeric offset stays `tzoffset(None, 0)`, `Z`/`z` are UTC in either mode -/
theorem parse_tzstr_render_any_mode (o : OffForm) (x : Fields) (z : Bool) (ho : o ≠ .naive) (hw : offWF o x = true) :
    parseTzstr (renderOff o x) z = .ok (offValue z o x) ∧
    Gen.parseTzstrEntry (renderOff o x) z = .ok (offValue z o x) := by
  have h := parseTzstr_render_z o x z ho hw
  exact ⟨h, by rw [IsoGen.parseTzstrEntry_eq]; exact h⟩

/-- the datetime-level law with the fraction digits TIED to the microsecond of `t`: the first `k ≤ 6` digits of
    `t.us` are rendered, parsing returns `t` with the microsecond truncated to a multiple of `10^(6-k)` -/
theorem isoparse_inverts_datetime_us (t : DT) (ht : t.Valid) (df : DateForm) (hc : df.complete = true)
    (tf : TimeForm) (htf : tf ≠ .none) (k : Nat) (h1 : 1 ≤ k) (h6 : k ≤ 6)
    (o : OffForm) (xo : Fields) (how : offWF o xo = true) (sep : Nat) (hsep : df = .ordBas → isDigit sep = false)
    (cfg : Option Nat) (hcfg : cfg = none ∨ cfg = some sep) :
    isoparse cfg (render ⟨df, tf, o, sep⟩ (dtFields df t ((digits6 t.us.toNat).take k) xo)) =
      .ok ⟨truncDTk tf k t, offDenote o xo⟩ ∧
    Gen.isoparse (cfg.map fun c => [c]) (render ⟨df, tf, o, sep⟩ (dtFields df t ((digits6 t.us.toNat).take k) xo)) =
      .ok ⟨truncDTk tf k t, offDenote o xo⟩ := by
  have h := Iso.isoparse_inverts_datetime_us t ht df hc tf htf k h1 h6 o xo how sep hsep cfg hcfg
  exact ⟨h, by rw [IsoGen.isoparse_eq]; exact h⟩

/-- … and with all six digits of `t.us` (followed by any further digits) the datetime comes back EXACTLY -/
theorem isoparse_inverts_datetime_exact (t : DT) (ht : t.Valid) (df : DateForm) (hc : df.complete = true)
    (tf : TimeForm) (htf : tf.hasFrac = true) (extra : List Nat) (hex : ∀ d ∈ extra, d ≤ 9)
    (o : OffForm) (xo : Fields) (how : offWF o xo = true) (sep : Nat) (hsep : df = .ordBas → isDigit sep = false)
    (cfg : Option Nat) (hcfg : cfg = none ∨ cfg = some sep) :
    isoparse cfg (render ⟨df, tf, o, sep⟩ (dtFields df t (digits6 t.us.toNat ++ extra) xo)) = .ok ⟨t, offDenote o xo⟩ ∧
    Gen.isoparse (cfg.map fun c => [c]) (render ⟨df, tf, o, sep⟩ (dtFields df t (digits6 t.us.toNat ++ extra) xo)) =
      .ok ⟨t, offDenote o xo⟩ := by
  have h := Iso.isoparse_inverts_datetime_exact t ht df hc tf htf extra hex o xo how sep hsep cfg hcfg
  exact ⟨h, by rw [IsoGen.isoparse_eq]; exact h⟩

/-- a date alone: every valid date, every complete date form fed with the date's own fields -/
theorem isoparse_inverts_date (y m d : Int) (hv : ValidDate y m d) (df : DateForm) (hc : df.complete = true)
    (cfg : Option Nat) :
    isoparse cfg (render ⟨df, .none, .naive, 84⟩ (dateFieldsOf df y m d)) = .ok ⟨{ y, m, d }, none⟩ ∧
    Gen.isoparse (cfg.map fun c => [c]) (render ⟨df, .none, .naive, 84⟩ (dateFieldsOf df y m d)) =
      .ok ⟨{ y, m, d }, none⟩ := by
  have h := Iso.isoparse_inverts_date y m d hv df hc cfg
  exact ⟨h, by rw [IsoGen.isoparse_eq]; exact h⟩

/-- str, bytes and stream inputs are equivalent: for ASCII text every `@_takes_ascii` entry point computes the
    same result whichever way the text arrives (model of `_takes_ascii`; the decorator itself is hand-modelled) -/
theorem input_kinds_equivalent {α} (f : Iso.Bytes → Py.R α) (t : List Nat) (h : ∀ c ∈ t, c < 128) :
    takesAscii f (.str t) = f t ∧ takesAscii f (.bytes t) = f t ∧
    takesAscii f (.streamStr t) = f t ∧ takesAscii f (.streamBytes t) = f t := by
  have : t.any (fun c => decide (c ≥ 128)) = false := by
    rw [List.any_eq_false]; intro c hc; have := h c hc; simp; omega
  simp [takesAscii, this]

/-- the same about the TRANSLATED `_takes_ascii` (`Gen.takesAscii`, re-translated from isoparser.py on every run; the
    only trusted part is the primitive `readAll`: a stream delivers everything from its current position) -/
theorem input_kinds_equivalent_gen {α} (f : Iso.Bytes → Py.R α) (t : List Nat) (h : ∀ c ∈ t, c < 128) :
    Gen.takesAscii f (.str t) = f t ∧ Gen.takesAscii f (.bytes t) = f t ∧
    Gen.takesAscii f (.streamStr t) = f t ∧ Gen.takesAscii f (.streamBytes t) = f t := by
  obtain ⟨h1, h2, h3, h4⟩ := input_kinds_equivalent f t h
  exact ⟨by rw [← h1]; exact IsoGen.takesAscii_eq f (.str t), by rw [← h2]; exact IsoGen.takesAscii_eq f (.bytes t),
    by rw [← h3]; exact IsoGen.takesAscii_eq f (.streamStr t), by rw [← h4]; exact IsoGen.takesAscii_eq f (.streamBytes t)⟩

/-! non-vacuity: concrete forms with well-formed fields -/
example : WFields ⟨.weekExtD, .hmsfExt false, .hhcmm, 84⟩
    { year := 2020, a := 53, b := 4, hh := 23, mm := 59, ss := 59, frac := [1,2,3,4,5,6,7], neg := true, oh := 23, om := 59 } := by
  unfold WFields; decide +kernel
example : WFields ⟨.ordBas, .h, .Z, 32⟩ { year := 2016, a := 366, hh := 24 } := by
  unfold WFields; decide +kernel
example : isoparse none (render ⟨.calExt, .hmExt, .hh, 84⟩ { year := 2014, a := 2, b := 28, hh := 24, oh := 0 })
    = .ok ⟨{ y := 2014, m := 3, d := 1 }, some .utc⟩ := by decide +kernel

end C07
