/-
  C14 — parse() is total: a datetime, ParserError or OverflowError, always terminating.

  The model (`Model/Lexer.lean`, `Model/Parser.lean`) is a total function by construction:
  `lex` is structural recursion on the input, the `while i < len_l` loop is structural
  recursion on the number of indices still to visit, so termination is part of the
  definitions being accepted (`lex_terminates`, `parse_terminates` record it as equations
  that hold for EVERY input, and `lex_output_bounded` bounds the work).
  `parse_total` is the exception-flow theorem: for any character classification (so all of
  Unicode), any options, any default, any string, the outcome is a value, `ParserError` or
  `OverflowError`.  Its proof (Proofs/ParserTotal.lean) goes through every raising site of
  the model: the `(IndexError, ValueError, InvalidOperation)` net of `_parse`, the three
  `assert`s (shown never to fire), `tokens[idx]` in `_recombine_skipped` (shown in range),
  `_build_naive` (ValueError → ParserError, OverflowError propagates), `_build_tzaware`.
-/
import DateutilVerif.Proofs.ParserTotal
import DateutilVerif.Proofs.LexerBound
import DateutilVerif.Proofs.ParserWrites

namespace C14
open PM Py

/-- the three outcomes the property allows -/
def Allowed (r : R Result) : Prop :=
  (∃ x, r = .ok x) ∨ r = .error .ParserError ∨ r = .error .OverflowError

/-- `parser.parse` on an already lexed text -/
theorem parseResult_total (cls : Char → CClass) (info : Info) (hinfo : info.WF) (o : Opts)
    (tznames : List Token) (tzi : TzInfos) (htz : tzi.NoBad) (dflt : DT) (l : List Token) :
    Allowed (parseResult cls info o tznames tzi dflt l) := by
  unfold parseResult
  obtain ⟨r, hr, hwd⟩ := parseTokens_ok cls info hinfo o l
  simp only [bind, Except.bind, hr]
  cases r with
  | none => exact Or.inr (Or.inl rfl)
  | some p =>
    obtain ⟨res, skipped⟩ := p
    dsimp only
    split
    · exact Or.inr (Or.inl rfl)
    · have hb := buildNaive_kinds res dflt (hwd res skipped rfl)
      cases hbn : buildNaive res dflt with
      | error e =>
        rcases hb e hbn with rfl | rfl
        · exact Or.inr (Or.inl rfl)
        · exact Or.inr (Or.inr rfl)
      | ok naive =>
        dsimp only [pure, Except.pure]
        split
        · exact Or.inl ⟨_, rfl⟩
        · have ht := buildTzaware_kinds tznames tzi htz res
          cases htz' : buildTzaware tznames tzi res with
          | error e =>
            rcases ht e htz' with rfl | rfl
            · exact Or.inr (Or.inl rfl)           -- ValueError of `_build_tzaware` is wrapped as ParserError
            · exact Or.inr (Or.inr rfl)
          | ok z => exact Or.inl ⟨_, rfl⟩

/-- **C14 (exception totality)** — for every character classification `cls` (Python's Unicode one in
    particular), every `parserinfo` whose weekday table maps into 0..6, every option combination, every
    `tzinfos` whose values are tzinfo / TZ string / int / None or a callable returning those or raising ValueError
    (`NoBad`: a value of any other type is the designed TypeError) — **malformed TZ strings included** —, every default
    and EVERY string, the model of `parser.parse` returns a value or raises `ParserError` or `OverflowError`: nothing else.
    No hypothesis on the TZ strings is needed since /repo 950345d wraps `_build_tzaware` (`tz.tzstr`'s ValueError becomes
    ParserError; `tzstr_kinds`: C08's model of `tz.tzstr` raises only ValueError or OverflowError).  What the theorem
    covers ends where `parse` (the model) ends: the result descriptor.  `_assign_tzname`'s calls of `tzname()` on the
    zone object are outside it; for a TZ string they are `PM.strNames` (month 13 passes the constructor and raises
    ValueError at that point — inside the same `try`, so ParserError as well), for a tzinfo object they are the caller's. -/
theorem parse_total (cls : Char → CClass) (info : Info) (hinfo : info.WF) (o : Opts)
    (tznames : List Token) (tzi : TzInfos) (htz : tzi.NoBad) (dflt : DT) (s : List Char) :
    Allowed (parse cls info o tznames tzi dflt s) :=
  parseResult_total cls info hinfo o tznames tzi htz dflt (lex cls s)

/-- a malformed TZ string in `tzinfos` is a ParserError (it was a plain `ValueError` before /repo 950345d:
    `tz.tzstr('5')` raises "unknown string format" inside `_build_tzaware`, which `parse()` did not wrap) -/
theorem parse_bad_tzstring_is_ParserError :
    parse asciiCls (Info.default false false 2024 2000) {} [] (.mapping [(some ['X'], .str ['5'])])
      ⟨2003, 9, 25, 0, 0, 0, 0⟩ "10:00 X".toList = .error .ParserError := by decide +kernel

/-- the OLD program (before 950345d), stated on the unwrapped cascade: `_build_tzaware` itself raises ValueError there -/
theorem build_tzaware_bad_tzstring_ValueError :
    buildTzaware [] (.mapping [(some ['X'], .str ['5'])]) { tzname := some ['X'] } = .error .ValueError := by decide +kernel

/-- … and a TZ string the constructor accepts can still raise when `_assign_tzname` asks for `tzname()`: month 13 in a
    rule is only looked at by `transitions(year)` (`calendar.IllegalMonthError`, a ValueError; ParserError after the wrap) -/
theorem tzstring_query_raises :
    tzstrCtor "EST5EDT,M13.1.0,M11.1.0".toList = .ok () ∧
    strNames "EST5EDT,M13.1.0,M11.1.0".toList ⟨2003, 9, 25, 10, 0, 0, 0⟩ = .error .ValueError := by decide +kernel

/-- a tzinfos callable that itself raises ValueError is reported as ParserError too -/
theorem parse_raising_callable_is_ParserError :
    parse asciiCls (Info.default false false 2024 2000) {} [] (.callable [(some ['X'], .raises)] (.data .noneVal))
      ⟨2003, 9, 25, 0, 0, 0, 0⟩ "10:00 X".toList = .error .ParserError := by decide +kernel

/-- the stock `parserinfo` (tables dumped from /repo on every run) satisfies the hypothesis on `info` -/
theorem default_info_wf (df yf : Bool) (year century : Int) : (Info.default df yf year century).WF := by
  unfold Info.WF Info.default
  dsimp only
  decide

/-- `parse_total` for the stock parserinfo: no hypothesis left on `info` -/
theorem parse_total_default (cls : Char → CClass) (df yf : Bool) (year century : Int) (o : Opts)
    (tznames : List Token) (tzi : TzInfos) (htz : tzi.NoBad) (dflt : DT) (s : List Char) :
    Allowed (parse cls (Info.default df yf year century) o tznames tzi dflt s) :=
  parse_total cls _ (default_info_wf df yf year century) o tznames tzi htz dflt s

/-- `_parse` itself never raises (what `parse_total` rests on): the scan's IndexError / ValueError /
    InvalidOperation all become the `(None, None)` return -/
theorem inner_parse_never_raises (cls : Char → CClass) (info : Info) (hinfo : info.WF) (o : Opts) (l : List Token) :
    ∃ r, parseTokens cls info o l = .ok r :=
  let ⟨r, h, _⟩ := parseTokens_ok cls info hinfo o l
  ⟨r, h⟩

/-- (definitional/structural — no content beyond "the model is a total Lean function") termination of the lexer:
    `lex` is defined for every input, one machine step per character (the equations are the definition; nothing
    is assumed about `cls`).  The quantitative statement is `lex_output_bounded`. -/
theorem lex_terminates (cls : Char → CClass) :
    lex cls [] = [] ∧
    ∀ (c : Char) (cs : List Char),
      scan cls LexSt.init (c :: cs) = (step cls LexSt.init c).1 ++ scan cls (step cls LexSt.init c).2 cs :=
  ⟨rfl, fun _ _ => rfl⟩

/-- prompt termination, quantitatively: the tokens contain at most `len(s)` characters in total (every input
    character lands in at most one token, nothing is duplicated), so the token list — over which the scan
    makes one visit per index — is never longer than the input -/
theorem lex_output_bounded (cls : Char → CClass) (s : List Char) :
    ((lex cls s).map List.length).sum ≤ s.length := lex_total_length cls s

/-- (definitional/structural) termination of the scan over tokens: after `len_l` indices the loop has returned
    (`fuel = 0` is reached by structural recursion whatever the steps did).  That the fuel given is enough — every
    step moves the index forward and `i + fuel = len_l` — is in the proof of `parse_total`, not here. -/
theorem parse_terminates (cls : Char → CClass) (info : Info) (fuzzy : Bool) (lenL i skip : Nat) (st : PState) :
    parseLoop cls info fuzzy lenL 0 i skip st = .ok st := rfl

/-- **where state could leak**: `_parse` writes into its token list (the object `_timelex.split` returned) in exactly
    one situation — a token that can be a zone name (upper-case ≤ 5 letters / UTC alias, after an hour, no zone yet)
    followed by `+` or `-`: that sign token is replaced by the opposite sign.  Every other iteration leaves the list
    as it was.  (So a token list shared between calls — a cache, an interned default — changes the second call's
    result exactly for texts of the shape `… NAME±…`; the harness parses that family repeatedly, as the same and as an
    equal str object, and compares every answer with the first one and with this model.) -/
theorem token_list_written_only_by_sign_flip (cls : Char → CClass) (info : Info) (fuzzy : Bool) (lenL i : Nat)
    (st : PState) (r : Nat × PState) (h : parseStep cls info fuzzy lenL i st = .ok r) :
    r.2.l = st.l ∨
    ∃ name sign, st.l[i]? = some name ∧ couldBeTzname info st.res.hour st.res.tzname st.res.tzoffset name = true ∧
      st.l[i + 1]? = some sign ∧ (sign = ['+'] ∨ sign = ['-']) ∧
      r.2.l = st.l.set (i + 1) (if sign = ['+'] then ['-'] else ['+']) :=
  parseStep_writes cls info fuzzy lenL i st r h

/-- (definitional/structural: every Lean function is one) the outcome is a function of the arguments; the "no state left
    behind" clause of the property is NOT this statement but the oracle's statefulness streams (aliasing family,
    same-text-twice, process-zone switches) and `token_list_written_only_by_sign_flip` -/
theorem parse_pure (cls : Char → CClass) (info : Info) (o : Opts) (tznames : List Token) (tzi : TzInfos)
    (dflt : DT) (s₁ s₂ : List Char) (h : s₁ = s₂) :
    parse cls info o tznames tzi dflt s₁ = parse cls info o tznames tzi dflt s₂ := by rw [h]

/-- without the hypothesis on `tzinfos` the only further kind is the designed `TypeError`
    ("Offset must be tzinfo subclass, tz string, or int offset") — so the hypothesis is needed -/
example : parse asciiCls (Info.default false false 2024 2000) {} [] (.mapping [(some ['X'], .bad)])
    ⟨2003, 9, 25, 0, 0, 0, 0⟩ "10:00 X".toList = .error .TypeError := by decide +kernel

/-- a parse that succeeds, one that fails in the scan, one that fails in `_build_naive`, one that overflows -/
example : parse asciiCls (Info.default false false 2024 2000) {} [] .absent ⟨2003, 9, 25, 0, 0, 0, 0⟩
    "2003-09-25T10:49:41".toList = .ok ⟨⟨2003, 9, 25, 10, 49, 41, 0⟩, .naive, none⟩ := by decide +kernel
example : parse asciiCls (Info.default false false 2024 2000) {} [] .absent ⟨2003, 9, 25, 0, 0, 0, 0⟩
    "10:111111111111111111111111111111".toList = .error .ParserError := by decide +kernel
example : parse asciiCls (Info.default false false 2024 2000) {} [] .absent ⟨2003, 9, 25, 0, 0, 0, 0⟩
    "Feb 30".toList = .error .ParserError := by decide +kernel
example : parse asciiCls (Info.default false false 2024 2000) {} [] .absent ⟨9999, 12, 31, 0, 0, 0, 0⟩
    "Monday".toList = .error .OverflowError := by decide +kernel

/- non-vacuity: the hypotheses are met by the stock configuration and a mapping with all four value kinds -/
example : (Info.default false true 2024 2000).WF := default_info_wf _ _ _ _
example : (TzInfos.mapping [(some ['B'], .int (-10800)), (some ['E'], .obj 0), (none, .noneVal), (some ['C'], .str ['X'])]).NoBad := by
  intro p hp; simp at hp; rcases hp with rfl | rfl | rfl | rfl <;> simp
example : TzInfos.absent.NoBad := trivial

end C14
