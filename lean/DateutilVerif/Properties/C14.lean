/- C14 — placeholder, replaced below -/
import DateutilVerif.Model.Parser
namespace C14
theorem lex_total (cls : Char → PM.CClass) (s : List Char) : ∃ l, PM.lex cls s = l := ⟨_, rfl⟩
end C14
