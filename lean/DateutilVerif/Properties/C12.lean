/-
  Properties/C12.lean — recurrence queries agree with the listed sequence.

  `L` is the (arbitrary, finite, strictly increasing) list the recurrence yields; `gen q L` is
  the query evaluated through `iter(self)` with the loops and early exits of rrule.py
  (generator path: cache off, or cache on but not complete); `fast q L` is the query on the
  cache-complete path (`self._cache[...]`, `item in self._cache`, loops over `self._cache`);
  `spec q L` is Python list semantics (`Py.getIdx`, `Py.slice`, list filters).
  All statements are for every list / every argument; sortedness is the only hypothesis and is
  used exactly where the source exits a loop early.

  `replace()`: for the rule `r = construct a` built by C01's constructor model from the arguments `a`,
  `r.replace(**kw)` is the constructor applied to the recorded arguments `origArgs a r` (C01's model
  of `_original_rule` + the scalar attributes, tied to the real object by the `rrule.orig` op) with
  exactly the named parameters overridden (`replace_is_construct_of_recorded_args`,
  `replace_named_only_orig`), and with no keyword it is `r` itself (`replace_nothing_id`, from
  C01's `construct_origArgs`; the literal `bysetpos=()` is the one excluded input — stored as `()`,
  not recorded, rebuilt as `None`: same occurrences, different attribute).  `query.replace` ties
  this to the code from the ORIGINAL constructor arguments.
  Of the six `replace` statements only `replace_nothing_id` has proof content; the others are `rfl`
  and are marked "(definitional)".  NOT proved — the user-level statement
      construct a = .ok r → replace a r kw ≈ construct (merge a kw)
  ("the rule you would have built with the merged ORIGINAL arguments", on the fields that determine the
  occurrences).  It needs `construct (merge (origArgs a r) kw) ≈ construct (merge a kw)`, i.e. that every
  normalisation of the constructor commutes with overriding other keywords (e.g. the byhour
  reachability filter depends on freq/interval; derived weekday / month day on dtstart) — a family of
  `construct_origArgs`-style lemmas per keyword that is not written.  On the implementation this is
  exactly what the oracle checks (`oracle_replace`: `r.replace(**kw)` vs the rule built from the merged
  original keywords, through the instants both yield) and what `query.replace` ties to the model.
-/
import DateutilVerif.Proofs.Queries
import DateutilVerif.Proofs.Islice
import DateutilVerif.Proofs.QueryStops
import DateutilVerif.Model.RRuleReplace
import DateutilVerif.Generated.ReplaceProgram
import DateutilVerif.Proofs.RRuleReplaceOrig

namespace C12
open Queries Py

/-- `rule[i] = L[i]` for every integer index, `IndexError` exactly when `L[i]` raises — both paths. -/
theorem getitem_index (L : List Int) (i : Int) :
    gen (.index i) L = .ofR (getIdx L i) ∧ fast (.index i) L = .ofR (getIdx L i) := by
  refine ⟨?_, rfl⟩
  simp only [gen]
  by_cases h : i ≥ 0
  · rw [if_pos h, nthNext_getIdx L i h]
  · rw [if_neg h]

/-- `rule[a:b:c] = L[a:b:c]` for ALL `a b c ∈ Option Int` — negative, zero (`ValueError` exactly for
    step 0), `None`, and arbitrarily large (bounds above `sys.maxsize` are clamped before `islice`,
    fix a0cc6d1) — on both paths.  `hlen`: the sequence is one that can exist in CPython (no Python
    sequence is longer than `sys.maxsize`; it is only used when a bound exceeds `sys.maxsize`, and the
    model's lists, unlike Python's, are unbounded). -/
theorem getitem_slice (L : List Int) (hlen : (L.length : Int) ≤ maxsize) (a b c : Option Int) :
    gen (.slice a b c) L = .ofRL (Py.slice L a b c) ∧ fast (.slice a b c) L = .ofRL (Py.slice L a b c) :=
  ⟨gen_slice_eq L a b c (Or.inr hlen), rfl⟩

/-- … and with no condition on `L` for bounds up to `sys.maxsize` -/
theorem getitem_slice_small (L : List Int) (a b c : Option Int) (hsmall : small (.slice a b c) = true) :
    gen (.slice a b c) L = .ofRL (Py.slice L a b c) ∧ fast (.slice a b c) L = .ofRL (Py.slice L a b c) :=
  ⟨gen_slice_eq L a b c (Or.inl hsmall), rfl⟩

-- bounds of 2^63 and beyond: clamped, list semantics on both paths (before fix a0cc6d1: ValueError from islice)
example : gen (.slice (some 0) (some 9223372036854775808) none) [0, 1, 2] = .list [0, 1, 2] ∧
          gen (.slice (some 1) none (some 18446744073709551616)) [0, 1, 2] = .list [1] ∧
          gen (.slice (some 9223372036854775808) none none) [0, 1, 2] = .list [] ∧
          fast (.slice (some 0) (some 9223372036854775808) none) [0, 1, 2] = .list [0, 1, 2] := by decide

/-- `x in rule ↔ x ∈ L` — the early exit of the generator path needs sortedness only. -/
theorem contains_iff (L : List Int) (hL : Sorted L) (x : Int) :
    gen (.contains x) L = .bool (decide (x ∈ L)) ∧ fast (.contains x) L = .bool (decide (x ∈ L)) := by
  refine ⟨?_, ?_⟩
  · simp only [gen, containsLoop_eq x L hL]
  · simp [fast, List.elem_eq_mem]

theorem count_eq_length (L : List Int) : gen .count L = .nat L.length ∧ fast .count L = .nat L.length :=
  ⟨rfl, rfl⟩

/-- `after(t, inc)` = first element `> t` (`≥ t` with inc), `None` when absent. -/
theorem after_spec (L : List Int) (t : Int) (inc : Bool) :
    gen (.after t inc) L = .val (firstAfter L t inc) ∧ fast (.after t inc) L = .val (firstAfter L t inc) := by
  simp only [gen, fast, afterLoop_eq, and_self]

/-- `before(t, inc)` = last element `< t` (`≤ t` with inc), `None` when absent. -/
theorem before_spec (L : List Int) (hL : Sorted L) (t : Int) (inc : Bool) :
    gen (.before t inc) L = .val (lastBefore L t inc) ∧ fast (.before t inc) L = .val (lastBefore L t inc) := by
  simp only [gen, fast, beforeLoop_eq t inc L none hL, lastBefore, Option.or_none, and_self]

/-- `between(a, b, inc)` = the sublist strictly (inclusively) between a and b. -/
theorem between_spec (L : List Int) (hL : Sorted L) (a b : Int) (inc : Bool) :
    gen (.between a b inc) L = .list (sublistBetween L a b inc) ∧
    fast (.between a b inc) L = .list (sublistBetween L a b inc) := by
  simp only [gen, fast, betweenLoop_eq a b inc L false hL (by simp), sublistBetween, and_self]

/-- `xafter(t, n, inc)` = the first n elements after t (all for `None`, none for n ≤ 0). -/
theorem xafter_spec (L : List Int) (t : Int) (n : Option Int) (inc : Bool) :
    gen (.xafter t n inc) L = .list (takeAfter L t n inc) ∧
    fast (.xafter t n inc) L = .list (takeAfter L t n inc) := by
  cases n with
  | none => simp only [gen, fast, xafterLoop_none, takeAfter, and_self]
  | some c => simp only [gen, fast, xafterLoop_some t c inc L 0 (by omega), takeAfter, Int.sub_zero, and_self]

/-- every query equals its list specification on the generator path … -/
theorem gen_eq_spec (q : Query) (L : List Int) (hL : Sorted L) (hfits : fits q L) : gen q L = spec q L := by
  cases q with
  | iterAll => rfl
  | take k => simp only [gen, spec, islice_take L k hfits, Res.ofRL]
  | index i => exact (getitem_index L i).1
  | slice a b c => exact gen_slice_eq L a b c hfits
  | contains x => exact (contains_iff L hL x).1
  | count => rfl
  | before t inc => exact (before_spec L hL t inc).1
  | after t inc => exact (after_spec L t inc).1
  | xafter t n inc => exact (xafter_spec L t n inc).1
  | between a b inc => exact (between_spec L hL a b inc).1

/-- … and on the cache-complete path -/
theorem fast_eq_spec (q : Query) (L : List Int) (hL : Sorted L) (hfits : fits q L) : fast q L = spec q L := by
  cases q with
  | iterAll => rfl
  | take k => simp only [fast, spec, islice_take L k hfits, Res.ofRL]
  | index i => exact (getitem_index L i).2
  | slice a b c => rfl
  | contains x => exact (contains_iff L hL x).2
  | count => rfl
  | before t inc => exact (before_spec L hL t inc).2
  | after t inc => exact (after_spec L t inc).2
  | xafter t n inc => exact (xafter_spec L t n inc).2
  | between a b inc => exact (between_spec L hL a b inc).2

/-- answers do not depend on whether the cache-complete fast path or the generator path is taken -/
theorem query_cache_independent (q : Query) (L : List Int) (hL : Sorted L) (hfits : fits q L) :
    gen q L = fast q L := by
  rw [gen_eq_spec q L hL hfits, fast_eq_spec q L hL hfits]

/-- a consumer that dropped its iterator early (after the values `ys`, a prefix of `L`) already has
    the specified answer: the early exits never lose information -/
theorem early_exit_sound (q : Query) (ys zs : List Int) (hL : Sorted (ys ++ zs)) (h : stops q ys = true)
    (hfits : fits q (ys ++ zs)) : gen q ys = spec q (ys ++ zs) := by
  rw [← gen_stops q ys zs h, gen_eq_spec q _ hL hfits]

/-- **replace_spec (definitional: `rfl`).** `r.replace(**kw)` is the constructor applied to the recorded arguments updated
    by the named parameters (rrule.py 772-781: three dict operations and a constructor call). -/
theorem replace_spec (orig : RRule.Args) (kw : RRule.Kw) :
    RRule.replaceFrom orig kw = RRule.construct (RRule.merge orig kw) := rfl

/-- (definitional: `rfl` per field) a rule differing ONLY in the named parameters: every keyword that is not passed keeps the
    recorded value, every keyword that is passed takes the given one -/
theorem replace_named_only (o : RRule.Args) (kw : RRule.Kw) :
    let m := RRule.merge o kw
    m.freq = kw.freq.getD o.freq ∧ m.dtstart = kw.dtstart.getD o.dtstart ∧ m.tz = kw.tz.getD o.tz ∧
    m.interval = kw.interval.getD o.interval ∧ m.wkst = kw.wkst.getD o.wkst ∧ m.count = kw.count.getD o.count ∧
    m.untilDT = kw.untilDT.getD o.untilDT ∧ m.bysetpos = kw.bysetpos.getD o.bysetpos ∧
    m.bymonth = kw.bymonth.getD o.bymonth ∧ m.bymonthday = kw.bymonthday.getD o.bymonthday ∧
    m.byyearday = kw.byyearday.getD o.byyearday ∧ m.byeaster = kw.byeaster.getD o.byeaster ∧
    m.byweekno = kw.byweekno.getD o.byweekno ∧ m.byweekday = kw.byweekday.getD o.byweekday ∧
    m.byhour = kw.byhour.getD o.byhour ∧ m.byminute = kw.byminute.getD o.byminute ∧
    m.bysecond = kw.bysecond.getD o.bysecond :=
  ⟨rfl, rfl, rfl, rfl, rfl, rfl, rfl, rfl, rfl, rfl, rfl, rfl, rfl, rfl, rfl, rfl, rfl⟩

/-- (definitional: `rfl`) `r.replace()` with no keyword re-runs the constructor on the recorded arguments -/
theorem replace_nothing (o : RRule.Args) : RRule.replaceFrom o {} = RRule.construct o := rfl

/-- **replace = construct (recorded args ⊕ kw)** (definitional: `rfl` — the method IS three dict updates
    and a constructor call; the content is in `origArgs` and `replace_nothing_id`), the recorded arguments now being derived from the
    constructor model, not an input: for the rule `r` built from `a`, `r.replace(**kw)` is the
    constructor applied to `origArgs a r` updated by the named parameters. -/
theorem replace_is_construct_of_recorded_args (a : RRule.Args) (r : RRule.Rule) (kw : RRule.Kw) :
    RRule.replace a r kw = RRule.construct (RRule.merge (RRule.origArgs a r) kw) := rfl

/-- `r.replace()` returns a rule equal to `r`, field for field (every argument set except the
    literal `bysetpos=()`). -/
theorem replace_nothing_id (a : RRule.Args) (r : RRule.Rule) (h : RRule.construct a = .ok r)
    (hsp : a.bysetpos ≠ some []) : RRule.replace a r {} = .ok r :=
  RRule.replace_nothing_id a r h hsp

/-- (definitional) **differs only in the named parameters**, phrased on the rule: the arguments `r.replace(**kw)`
    hands to the constructor are those `r.replace()` would hand over (which rebuild `r`, above),
    except that every keyword passed takes the given value. -/
theorem replace_named_only_orig (a : RRule.Args) (r : RRule.Rule) (kw : RRule.Kw) :
    let o := RRule.origArgs a r
    let m := RRule.merge o kw
    RRule.replace a r kw = RRule.construct m ∧
    m.freq = kw.freq.getD o.freq ∧ m.dtstart = kw.dtstart.getD o.dtstart ∧ m.tz = kw.tz.getD o.tz ∧
    m.interval = kw.interval.getD o.interval ∧ m.wkst = kw.wkst.getD o.wkst ∧ m.count = kw.count.getD o.count ∧
    m.untilDT = kw.untilDT.getD o.untilDT ∧ m.bysetpos = kw.bysetpos.getD o.bysetpos ∧
    m.bymonth = kw.bymonth.getD o.bymonth ∧ m.bymonthday = kw.bymonthday.getD o.bymonthday ∧
    m.byyearday = kw.byyearday.getD o.byyearday ∧ m.byeaster = kw.byeaster.getD o.byeaster ∧
    m.byweekno = kw.byweekno.getD o.byweekno ∧ m.byweekday = kw.byweekday.getD o.byweekday ∧
    m.byhour = kw.byhour.getD o.byhour ∧ m.byminute = kw.byminute.getD o.byminute ∧
    m.bysecond = kw.bysecond.getD o.bysecond :=
  ⟨rfl, replace_named_only (RRule.origArgs a r) kw⟩

/-! ### `replace` read from the source

`Gen.replaceProgram` (Generated/ReplaceProgram.lean) is the statement shape of `rrule.replace` as
`harness/translate_replace.py` reads it from /repo's working tree on every run: the keys of the dictionary
literal with the attribute each is filled from, the `update` calls in order, the constructor called.
`ReplacePy.run` gives it its meaning over keyword dictionaries. -/

theorem orElse_getD {α} (e : Option α) (x y : α) : (e.orElse (fun _ => some x)).getD y = e.getD x := by cases e <;> rfl

/-- **replace_eq_construct_partial.**  The method AS TRANSLATED FROM THE SOURCE hands the constructor exactly the
    recorded arguments with the named parameters overridden: for every argument set `a`, rule `r` and keywords `kw`,
    running the translated program on `r`'s attributes, `r`'s `_original_rule` and `kw` and calling the constructor it
    names is `construct (merge (origArgs a r) kw)` — the hand model `RRule.replace` that all theorems above are about.
    With C01's `construct_origArgs` (`replace_nothing_id` above: `merge (origArgs a r) {}` rebuilds `r`) this is "a rule
    differing only in the named parameters" for the code as it stands: a changed key, attribute, order of the
    two `update` calls or constructor breaks THIS obligation (or the translation) on the next run.
    `_partial`: FULL statement = the same with `_original_rule` also read from the source.  What is missing: the
    bookkeeping statements of `rrule.__init__` that fill `_original_rule` (a dozen assignments spread over the
    constructor's branches) are not translated; `ReplacePy.recordedKw` takes them from the hand model
    `RRule.origArgs` (C01), tied to the code by the `query.replace` / `query.replace_rec` / `query.replace_gen`
    correspondence (the last two read `_original_rule` off the real object). -/
theorem replace_eq_construct_partial (a : RRule.Args) (r : RRule.Rule) (kw : RRule.Kw) :
    ReplacePy.replaceGen Gen.replaceProgram a r kw = some (RRule.construct (RRule.merge (RRule.origArgs a r) kw)) ∧
    ReplacePy.replaceGen Gen.replaceProgram a r kw = some (RRule.replace a r kw) := by
  have h : ReplacePy.replaceGen Gen.replaceProgram a r kw = some (RRule.construct (RRule.merge (RRule.origArgs a r) kw)) := by
    unfold ReplacePy.replaceGen
    simp only [Gen.replaceProgram, ReplacePy.run, ReplacePy.literalKw, ReplacePy.setKey, ReplacePy.applyUpdates, ReplacePy.update,
      ReplacePy.recordedKw, ReplacePy.toArgs, beq_self_eq_true, ↓reduceIte, Option.map_some, Option.bind_some,
      Option.orElse_none, Option.orElse_some]
    cases hf : kw.freq <;> cases hd : kw.dtstart <;> cases ht : kw.tz <;>
      simp [RRule.merge, RRule.origArgs, hf, hd, ht]
  exact ⟨h, h⟩

-- the obligation distinguishes programs: with the two `update` calls swapped a recorded BY part would override the keyword passed
example : (ReplacePy.run { Gen.replaceProgram with updates := [.kwargs, .originalRule] } default
            { bymonth := some (some [3]) } { bymonth := some (some [5]) }).map (·.bymonth) = some (some (some [3])) := by decide
example : (ReplacePy.run Gen.replaceProgram default
            { bymonth := some (some [3]) } { bymonth := some (some [5]) }).map (·.bymonth) = some (some (some [5])) := by decide
-- a key filled from the wrong attribute has no meaning
example : ReplacePy.run { Gen.replaceProgram with literal := [(.interval, .attrCount)] } default {} {} = none := by decide

-- a WEEKLY rule without BYDAY does not record its derived weekday: replace(dtstart=…) moves it
example : (do let a : RRule.Args := { freq := 2, dtstart := ⟨2020, 1, 1, 0, 0, 0, 0⟩ }     -- a Wednesday
              let r ← RRule.construct a
              let r' ← RRule.replace a r { dtstart := some ⟨2020, 1, 3, 0, 0, 0, 0⟩ }      -- a Friday
              pure (r.byweekday, r'.byweekday)) = .ok (some [2], some [4]) := by decide +kernel

-- non-vacuity: a concrete sorted list, both paths, negative indices, slices, early exits
example : Sorted [0, 3, 6, 9, 12] := by decide
example : gen (.slice (some 1) none (some 2)) [0, 3, 6, 9, 12] = .list [3, 9] := by decide
example : gen (.slice (some (-2)) none none) [0, 3, 6, 9, 12] = .list [9, 12] := by decide
example : gen (.slice none none (some 0)) [0, 3, 6] = .err .ValueError := by decide
example : gen (.index (-1)) [0, 3, 6] = .val (some 6) := by decide
example : gen (.index 3) [0, 3, 6] = .err .IndexError := by decide
example : gen (.between 3 9 false) [0, 3, 6, 9, 12] = .list [6] := by decide
example : gen (.before 3 true) [0, 3, 6] = .val (some 3) := by decide
example : stops (.contains 4) [0, 3, 6] = true := by decide
-- sortedness is needed: on an unsorted list the early exit of `in` is wrong
example : gen (.contains 1) [3, 1] ≠ spec (.contains 1) [3, 1] := by decide

end C12
