/-
  Properties/C03.lean — date + relativedelta follows the documented replace / shift / clip /
  weekday order.

  `RDM.applyTo` is the line-by-line model of `relativedelta.__add__` (tied to /repo by the
  correspondence run), `RDSpec.apply` the semantics written from the documentation.  The domain of
  the theorems is `RDP.InDomain d`: `d` is what the constructor produces (`Normalised`, i.e. the
  post-condition of the generated `_fix`, theorem C16.fix_bounds), absolute year/month/day are not 0
  (falsy ⇒ ignored by the code; outside the property), an absolute month is a month, the weekday is
  0..6 — and `x.Valid`: any date / naive / aware datetime of years 1..9999.

  Repaired D-C03-yearday366 (the constructor's yearday table, not `__add__`): the full statement
      ∀ y ∈ 1..9999, n ∈ 1..(365|366): date(y,·,·) + relativedelta(yearday=n) = day n of year y
  used to fail for n = 366 in leap years (leapdays = −1 applied after the clip to Dec 31 ⇒ Dec 30).  The
  constructor now sets leapdays = −1 only for 59 < yearday < 366 and `yearday_spec` is proved at full
  strength; `yearday366_nonleap_clips` states what yearday=366 gives in a non-leap year (Dec 31, clipped).
  The model no longer contains the old code, so the former `yearday366_defect*` theorems were deleted
  (the regression is guarded by the harness stream `yearday_366` and by `yearday_spec` itself: restoring
  `if yearday > 59` breaks `gen_initKw_eq_mk`).
-/
import DateutilVerif.Proofs.RDApply
import DateutilVerif.Proofs.RDYearday
import DateutilVerif.Proofs.RDGenEq
import DateutilVerif.Proofs.TzStrBridge
import DateutilVerif.Proofs.TzStr

namespace C03
open RDM RDP

/-- **applyTo_eq_spec.** For every delta of the domain and every valid operand, `x + d` is exactly
    the documented result — same value, or the same exception. -/
theorem applyTo_eq_spec (d : RD) (x : Temporal) (hd : InDomain d) (hx : x.Valid) :
    applyTo d x = RDSpec.apply d x := RDP.applyTo_eq_spec d x hd hx

/-- **month_shift_never_spills (the formula).** The documented month shift lands in a real month, keeps
    the month count, never exceeds the month's length and keeps the day when it fits. -/
theorem monthShift_facts (y m d k : Int) (hm : 1 ≤ m ∧ m ≤ 12) :
    1 ≤ (RDSpec.monthShift y m d k).2.1 ∧ (RDSpec.monthShift y m d k).2.1 ≤ 12 ∧
    12 * (RDSpec.monthShift y m d k).1 + ((RDSpec.monthShift y m d k).2.1 - 1) = 12 * y + (m - 1) + k ∧
    (RDSpec.monthShift y m d k).2.2 ≤ Cal.daysInMonth (RDSpec.monthShift y m d k).1 (RDSpec.monthShift y m d k).2.1 ∧
    (RDSpec.monthShift y m d k).2.2 ≤ d ∧
    (d ≤ Cal.daysInMonth (RDSpec.monthShift y m d k).1 (RDSpec.monthShift y m d k).2.1 →
      (RDSpec.monthShift y m d k).2.2 = d) := by
  unfold RDSpec.monthShift
  simp only []
  omega

/-- **month_shift_never_spills.** A delta of years/months only, applied to any operand, gives the operand
    with year/month set by the total-month formula, the day clipped to that month's length, and the
    time of day (and kind / zone) untouched — whenever the target year is in 1..9999. -/
theorem month_shift_never_spills (r : RD) (x : Temporal) (hr : MonthsOnly r) (hx : x.Valid)
    (hy : 1 ≤ (12 * x.t.y + (x.t.m - 1) + (12 * r.years + r.months)) / 12 ∧
          (12 * x.t.y + (x.t.m - 1) + (12 * r.years + r.months)) / 12 ≤ 9999) :
    applyTo r x = .ok { kind := x.kind, t := shiftDT x.t (12 * r.years + r.months) } ∧
    (shiftDT x.t (12 * r.years + r.months)).hh = x.t.hh ∧ (shiftDT x.t (12 * r.years + r.months)).mm = x.t.mm ∧
    (shiftDT x.t (12 * r.years + r.months)).ss = x.t.ss ∧ (shiftDT x.t (12 * r.years + r.months)).us = x.t.us ∧
    (shiftDT x.t (12 * r.years + r.months)).Valid :=
  ⟨applyTo_months_only r x hr hx hy, rfl, rfl, rfl, rfl, shiftDT_valid _ _ hx.1 hy⟩

/-- **weekday_fixed_point.** `weekday(±1)` (or a bare weekday, or n = 0) leaves a date that already
    falls on that weekday unchanged. -/
theorem weekday_fixed_point (w : Int) (n : Option Int) (ret : DT) (hv : ret.Valid)
    (hn : orInt n 1 = 1 ∨ orInt n 1 = -1) (hw : ret.weekday = w) :
    applyWeekday (some (w, n)) ret = .ok ret := by
  have hj : jumpDays w n ret.weekday = 0 := by
    unfold jumpDays Py.iabs; rw [hw]
    rcases hn with h | h <;> rw [h] <;> simp
  unfold applyWeekday
  simp only [hj]
  unfold DT.addDays DT.addMicros
  have hr := toMicros_range ret hv
  simp only [Int.zero_mul, Int.add_zero]
  rw [if_neg (by omega), DT.ofMicros_toMicros ret hv]

/-- **weekday_minimal.** When the weekday step succeeds the result has that weekday and the same time of
    day; for nth > 0 it is `j0 + 7·(nth−1)` days later where `j0 ∈ 0..6` is the *first* offset with that
    weekday (no day with that weekday in `[ret, ret + j0)`, hence exactly nth−1 of them strictly
    between `ret + j0` and the result… i.e. the nth on or after); mirrored for nth < 0. -/
theorem weekday_minimal (w : Int) (n : Option Int) (ret r : DT) (hv : ret.Valid) (hw : 0 ≤ w ∧ w ≤ 6)
    (h : applyWeekday (some (w, n)) ret = .ok r) :
    r.Valid ∧ r.weekday = w ∧ r.hh = ret.hh ∧ r.mm = ret.mm ∧ r.ss = ret.ss ∧ r.us = ret.us ∧
    (orInt n 1 > 0 → ∃ j0, 0 ≤ j0 ∧ j0 < 7 ∧ Cal.weekdayOfOrd (ret.ordinal + j0) = w ∧
        (∀ i, 0 ≤ i → i < j0 → Cal.weekdayOfOrd (ret.ordinal + i) ≠ w) ∧
        r.ordinal = ret.ordinal + j0 + 7 * (orInt n 1 - 1)) ∧
    (orInt n 1 < 0 → ∃ j0, 0 ≤ j0 ∧ j0 < 7 ∧ Cal.weekdayOfOrd (ret.ordinal - j0) = w ∧
        (∀ i, 0 ≤ i → i < j0 → Cal.weekdayOfOrd (ret.ordinal - i) ≠ w) ∧
        r.ordinal = ret.ordinal - j0 - 7 * (-(orInt n 1) - 1)) := by
  unfold applyWeekday at h
  simp only [] at h
  obtain ⟨hrv, hord, _, h1, h2, h3, h4⟩ := addDays_ok ret r _ hv h
  have hwr := Cal.weekdayOfOrd_range ret.ordinal
  refine ⟨hrv, ?_, h1, h2, h3, h4, ?_, ?_⟩
  · unfold DT.weekday at *
    rw [hord]
    unfold jumpDays Py.iabs Cal.weekdayOfOrd at *
    generalize orInt n 1 = k at *
    split <;> split <;> omega
  · intro hk
    refine ⟨(7 - ret.weekday + w) % 7, by omega, by omega, ?_, ?_, ?_⟩
    · unfold DT.weekday Cal.weekdayOfOrd at *; omega
    · intro i hi0 hi; unfold DT.weekday Cal.weekdayOfOrd at *; omega
    · rw [hord]; unfold jumpDays Py.iabs
      generalize orInt n 1 = k at *
      rw [if_pos hk]; split <;> omega
  · intro hk
    refine ⟨(ret.weekday - w) % 7, by omega, by omega, ?_, ?_, ?_⟩
    · unfold DT.weekday Cal.weekdayOfOrd at *; omega
    · intro i hi0 hi; unfold DT.weekday Cal.weekdayOfOrd at *; omega
    · rw [hord]; unfold jumpDays Py.iabs
      generalize orInt n 1 = k at *
      rw [if_neg (by omega)]; split <;> omega

/-- **sub_eq_add_neg.** `x - d` is `x + (-d)` (this is how `__rsub__` is written), and on a normalised
    delta `-d` negates exactly the relative fields. -/
theorem sub_eq_add_neg (d : RD) (x : Temporal) (hd : Normalised d) :
    rsub d x = applyTo (neg d) x ∧
    neg d = { d with years := -d.years, months := -d.months, days := -d.days, hours := -d.hours,
                     minutes := -d.minutes, seconds := -d.seconds, microseconds := -d.microseconds } :=
  ⟨rfl, neg_of_normalised d hd⟩

/-- **radd_eq_add.** `d + x` and `x + d` are the same computation. -/
theorem radd_eq_add (d : RD) (x : Temporal) : radd d x = applyTo d x := rfl

/-- **promotion_iff_hasTime.** Whenever `x + d` returns, the result is a date iff the operand is a date
    and the delta carries no time information; a datetime operand keeps its kind and zone. -/
theorem promotion_iff_hasTime (d : RD) (x r : Temporal) (hd : Normalised d) (h : applyTo d x = .ok r) :
    r.kind = (if x.kind = .date ∧ RDSpec.hasTimeInfo d = true then .naive else x.kind) ∧
    (x.kind = .date → (r.kind = .naive ↔ RDSpec.hasTimeInfo d = true)) ∧
    (x.kind ≠ .date → r.kind = x.kind) := by
  have hk : r.kind = (promote d x).kind := by
    unfold applyTo applyTail at h
    simp only [bind, Except.bind, pure, Except.pure] at h
    repeat' split at h
    all_goals first | contradiction | (injection h with h; rw [← h])
  rw [promote_kind d x hd] at hk
  refine ⟨hk, ?_, ?_⟩
  · intro hx
    rw [hk]
    by_cases ht : RDSpec.hasTimeInfo d = true <;> simp [hx, ht]
  · intro hx; rw [hk]; simp [hx]

/-- **errors_only_out_of_range.** On the domain the only failures are: a replaced / shifted field out
    of its range (ValueError; OverflowError if it does not even fit a C int), or the duration / weekday
    step leaving years 1..9999 (OverflowError). No AssertionError, TypeError or any other kind. -/
theorem errors_only_out_of_range (d : RD) (x : Temporal) (hd : InDomain d) (hx : x.Valid)
    (e : Py.PyErr) (h : applyTo d x = .error e) :
    let s := RDSpec.monthShift (d.year.getD x.t.y) (d.month.getD x.t.m) (d.day.getD x.t.d) (12 * d.years + d.months)
    let t1 := RDSpec.shiftedDT d x.t s.1 s.2.1 s.2.2
    let x2 := RDSpec.afterDuration d x.t s.1 s.2.1 s.2.2
    (e = .ValueError ∧ ¬ t1.Valid) ∨
    (e = .OverflowError ∧ (fitsCInt t1 = false ∨ x2 < DT.minMicros ∨ x2 > DT.maxMicros ∨
       ∃ w n, d.weekday = some (w, n) ∧
         (RDSpec.afterWeekday x2 w n < DT.minMicros ∨ RDSpec.afterWeekday x2 w n > DT.maxMicros))) := by
  rw [RDP.applyTo_eq_spec d x hd hx] at h
  unfold RDSpec.apply RDSpec.applyShifted at h
  simp only [] at h ⊢
  split at h
  · injection h with h; right; refine ⟨h.symm, Or.inl ?_⟩; simp_all
  · split at h
    · rename_i hv; injection h with h; left; exact ⟨h.symm, hv⟩
    · split at h
      · rename_i hr; injection h with h; right; refine ⟨h.symm, Or.inr ?_⟩
        rcases hr with hr | hr
        · exact Or.inl hr
        · exact Or.inr (Or.inl hr)
      · unfold RDSpec.weekdayStep at h
        split at h
        · contradiction
        · rename_i w n hwd
          split at h
          · rename_i hr; injection h with h; right
            exact ⟨h.symm, Or.inr (Or.inr (Or.inr ⟨w, n, hwd, hr⟩))⟩
          · contradiction


/-- **yearday_spec (full strength).** `x + relativedelta(yearday=y)` is day `y` of `x`'s year (Feb 29 counted), for
    every `y ∈ 1..daysInYear Y` — `y = 366` in leap years included — and every valid operand of any year 1..9999:
    same kind, same time of day, same year, ordinal = Jan 1 + (y − 1). -/
theorem yearday_spec (y : Int) (x : Temporal) (hx : x.Valid) (h1 : 1 ≤ y) (h2 : y ≤ Cal.daysInYear x.t.y) :
    ∃ d res, mk { yearday := some y } = .ok d ∧ applyTo d x = .ok res ∧
      res.kind = x.kind ∧ res.t.Valid ∧ res.t.y = x.t.y ∧
      res.t.ordinal = Cal.toOrdinal x.t.y 1 1 + (y - 1) ∧
      res.t.hh = x.t.hh ∧ res.t.mm = x.t.mm ∧ res.t.ss = x.t.ss ∧ res.t.us = x.t.us := by
  have hinyear : ∀ res : Temporal, res.t.Valid → res.t.ordinal = Cal.toOrdinal x.t.y 1 1 + (y - 1) → res.t.y = x.t.y := by
    intro res hv hord'
    exact year_of_ordinal_in_year res.t x.t.y hv (by rw [hord']; omega) (by
      rw [hord']
      have hs := Cal.daysBeforeYear_succ x.t.y
      have e1 := Cal.daysBeforeMonth_1 x.t.y
      have e2 := Cal.daysBeforeMonth_1 (x.t.y + 1)
      unfold Cal.toOrdinal
      rw [e1, e2, hs]
      unfold Cal.daysInYear at h2 ⊢; split at h2 <;> simp_all <;> omega)
  by_cases h365 : y ≤ 365
  · obtain ⟨m, dd, hl, m1, m12, d1, d2, hsum, hiff⟩ := ydayLookup_spec y h1 h365
    have hmk := mk_yearday y m dd (by omega) hl
    obtain ⟨res, ha, hk, hv, hord, t1, t2, t3, t4⟩ :=
      applyTo_mdl m dd (if 59 < y ∧ y < 366 then -1 else 0) x hx ⟨m1, m12⟩ d1 (by split <;> simp)
    have hle := nlDim_le x.t.y m
    have hmin : min dd (Cal.daysInMonth x.t.y m) = dd := by omega
    rw [hmin] at hord
    have hord' : res.t.ordinal = Cal.toOrdinal x.t.y 1 1 + (y - 1) := by
      rw [hord]
      have e1 : Cal.dbmTable 1 = 0 := by decide
      unfold Cal.toOrdinal Cal.daysBeforeMonth
      rw [e1]
      generalize Cal.dbmTable m = T at *
      generalize Cal.daysBeforeYear x.t.y = B at *
      cases hl : Cal.isLeap x.t.y <;> simp <;> (repeat' split) <;> omega
    exact ⟨_, res, hmk, ha, hk, hv, hinyear res hv hord', hord', t1, t2, t3, t4⟩
  · -- y = 366, hence a leap year: month=12, day=32, NO leap-day correction; the day clips to Dec 31 = day 366
    have hleap : Cal.isLeap x.t.y = true := by
      unfold Cal.daysInYear at h2; split at h2
      · assumption
      · omega
    have hy : y = 366 := by unfold Cal.daysInYear at h2; rw [if_pos hleap] at h2; omega
    subst hy
    have hmk : mk { yearday := some 366 } = .ok (mdl 12 32 0) :=
      mk_yearday 366 12 32 (by decide) (by decide)
    obtain ⟨res, ha, hk, hv, hord, t1, t2, t3, t4⟩ :=
      applyTo_mdl 12 32 0 x hx (by decide) (by decide) (Or.inl rfl)
    have hd : Cal.daysInMonth x.t.y 12 = 31 := by unfold Cal.daysInMonth; simp
    have hord' : res.t.ordinal = Cal.toOrdinal x.t.y 1 1 + (366 - 1) := by
      rw [hord, hd]
      have e1 : Cal.dbmTable 1 = 0 := by decide
      have e12 : Cal.dbmTable 12 = 334 := by decide
      unfold Cal.toOrdinal Cal.daysBeforeMonth
      rw [e1, e12, hleap]
      simp
      omega
    exact ⟨_, res, hmk, ha, hk, hv, hinyear res hv hord', hord', t1, t2, t3, t4⟩

/-- **yearday366_nonleap_clips.** What `yearday=366` gives in a NON-leap year (which has no day 366; the
    documentation is silent): the constructor stores month=12, day=32 and `__add__` clips the day to the end of
    the month, so the result is December 31 = day 365 of that year — the same clipping as `day=31` in a 30-day
    month and as `nlyearday=366`; kind and time of day unchanged. -/
theorem yearday366_nonleap_clips (x : Temporal) (hx : x.Valid) (hl : Cal.isLeap x.t.y = false) :
    ∃ d res, mk { yearday := some 366 } = .ok d ∧ applyTo d x = .ok res ∧
      res.kind = x.kind ∧ res.t.Valid ∧ res.t.y = x.t.y ∧ res.t.m = 12 ∧ res.t.d = 31 ∧
      res.t.hh = x.t.hh ∧ res.t.mm = x.t.mm ∧ res.t.ss = x.t.ss ∧ res.t.us = x.t.us := by
  have hmk : mk { yearday := some 366 } = .ok (mdl 12 32 0) :=
    mk_yearday 366 12 32 (by decide) (by decide)
  obtain ⟨res, ha, hk, hv, hord, t1, t2, t3, t4⟩ :=
    applyTo_mdl 12 32 0 x hx (by decide) (by decide) (Or.inl rfl)
  have hd : Cal.daysInMonth x.t.y 12 = 31 := by unfold Cal.daysInMonth; simp
  rw [hd] at hord
  simp only [ne_eq, not_true_eq_false, false_and, ↓reduceIte, Int.add_zero] at hord
  have h31 : min (32 : Int) 31 = 31 := by decide
  rw [h31] at hord
  have hinj := Cal.toOrdinal_inj res.t.y res.t.m res.t.d x.t.y 12 31 hv.1.2.2
    ⟨by decide, by decide, by decide, by rw [hd]; decide⟩ hord
  exact ⟨_, res, hmk, ha, hk, hv, hinj.1, hinj.2.1, hinj.2.2, t1, t2, t3, t4⟩

/-- **nlyearday_spec.** `x + relativedelta(nlyearday=n)`, `n ∈ 1..365`: the month and day that are day `n`
    of a NON-leap year (Feb 29 is jumped), in `x`'s year — for leap and non-leap years alike.
    Full strength (no exclusion). -/
theorem nlyearday_spec (n : Int) (x : Temporal) (hx : x.Valid) (h1 : 1 ≤ n) (h2 : n ≤ 365) :
    ∃ d res m dd, mk { nlyearday := some n } = .ok d ∧ applyTo d x = .ok res ∧
      res.kind = x.kind ∧ res.t.Valid ∧
      Cal.dbmTable m + dd = n ∧ 1 ≤ m ∧ m ≤ 12 ∧ 1 ≤ dd ∧ dd ≤ nlDim m ∧
      res.t.y = x.t.y ∧ res.t.m = m ∧ res.t.d = dd ∧
      res.t.ordinal = Cal.toOrdinal x.t.y 1 1 + (n - 1) + (if n ≥ 60 ∧ Cal.isLeap x.t.y = true then 1 else 0) ∧
      res.t.hh = x.t.hh ∧ res.t.mm = x.t.mm ∧ res.t.ss = x.t.ss ∧ res.t.us = x.t.us := by
  obtain ⟨m, dd, hl, m1, m12, d1, d2, hsum, hiff⟩ := ydayLookup_spec n h1 h2
  have hmk := mk_nlyearday n m dd (by omega) hl
  obtain ⟨res, ha, hk, hv, hord, t1, t2, t3, t4⟩ := applyTo_mdl m dd 0 x hx ⟨m1, m12⟩ d1 (Or.inl rfl)
  have hle := nlDim_le x.t.y m
  have hmin : min dd (Cal.daysInMonth x.t.y m) = dd := by omega
  rw [hmin] at hord
  simp only [ne_eq, not_true_eq_false, false_and, ↓reduceIte, Int.add_zero] at hord
  have hinj := Cal.toOrdinal_inj res.t.y res.t.m res.t.d x.t.y m dd hv.1.2.2 ⟨m1, m12, d1, by omega⟩ hord
  refine ⟨_, res, m, dd, hmk, ha, hk, hv, hsum, m1, m12, d1, d2, hinj.1, hinj.2.1, hinj.2.2, ?_, t1, t2, t3, t4⟩
  rw [hord]
  have e1 : Cal.dbmTable 1 = 0 := by decide
  unfold Cal.toOrdinal Cal.daysBeforeMonth
  rw [e1]
  generalize Cal.dbmTable m = T at *
  generalize Cal.daysBeforeYear x.t.y = B at *
  cases hl : Cal.isLeap x.t.y <;> simp <;> (repeat' split) <;> omega

/-! ## Bridge to C08: `tzrange.transitions` runs on this model -/

/-- **C08bridge_applyDelta.** C08's `TzStr.applyDelta year D` (its own copy of the fragment of `__add__` used by
    `tzrange.transitions`) equals the C03 model applied to `datetime(year, 1, 1)` and the relativedelta
    `tzstr._delta` builds (`relativedelta(month=, day=, weekday=wd(n), leapdays=, seconds=)`, constructor
    included): the same instant in seconds since ordinal 0, or the same exception — for every year
    1..9999 and every Delta (any month, weekday, n, leapdays, seconds; `day` only has to fit a C int). -/
theorem C08bridge_applyDelta (year : Int) (D : TzStr.Delta) (hy : 1 ≤ year ∧ year ≤ 9999)
    (hday : ∀ v, D.day = some v → -2147483648 ≤ v) :
    TzStr.applyDelta year D = (applyTo (rdOfDelta D) (jan1 year)).map secondsOf :=
  applyDelta_bridge year D hy hday

/-- **C08bridge_J.** Hence C08's `Jn` rule date is a fact about the C03 model: `datetime(y,1,1) +
    relativedelta(nlyearday=n, seconds=s)` is the POSIX `Jn` day of year `y` plus `s` seconds. -/
theorem C08bridge_J (y n secs : Int) (hy1 : 2 ≤ y) (hy2 : y ≤ 9998) (hn1 : 1 ≤ n) (hn2 : n ≤ 365)
    (hs1 : -86400 * 300 ≤ secs) (hs2 : secs < 86400 * 300) :
    ∃ m dd, TzStr.ydayToMonthDay n = .ok (m, dd) ∧
      (applyTo (rdOfDelta { month := some m, day := some dd, seconds := secs }) (jan1 y)).map secondsOf
        = .ok (Posix.ruleOrdinal y (Posix.Rule.J n) * 86400 + secs) := by
  obtain ⟨m, dd, he, ha⟩ := TzStr.apply_J y n secs hy1 hy2 hn1 hn2 hs1 hs2
  obtain ⟨m', dd', he', _, _, d1, _⟩ := TzStr.yday_spec n hn1 hn2
  have e : (m, dd) = (m', dd') := by rw [he] at he'; injection he'
  have edd : dd = dd' := by injection e
  refine ⟨m, dd, he, ?_⟩
  rw [← C08bridge_applyDelta y _ ⟨by omega, by omega⟩ (by intro v hv; simp only [Option.some.injEq] at hv; omega)]
  exact ha

/-- **C08bridge_N.** The same for the zero-based POSIX `n` rule (`relativedelta(yearday=n+1, seconds=s)`),
    `n ∈ 0..364` (n = 365 exists only in leap years and is outside C08's year-independent `ValidRule`; since the
    repair of D-C03-yearday366 it is December 31 there — `yearday_spec` with y = 366). -/
theorem C08bridge_N (y n secs : Int) (hy1 : 2 ≤ y) (hy2 : y ≤ 9998) (hn1 : 0 ≤ n) (hn2 : n ≤ 364)
    (hs1 : -86400 * 300 ≤ secs) (hs2 : secs < 86400 * 300) :
    ∃ m dd, TzStr.ydayToMonthDay (n + 1) = .ok (m, dd) ∧
      (applyTo (rdOfDelta { month := some m, day := some dd, leapdays := (if 59 < n + 1 ∧ n + 1 < 366 then -1 else 0),
                            seconds := secs }) (jan1 y)).map secondsOf
        = .ok (Posix.ruleOrdinal y (Posix.Rule.N n) * 86400 + secs) := by
  obtain ⟨m, dd, he, ha⟩ := TzStr.apply_N y n secs hy1 hy2 hn1 hn2 hs1 hs2
  obtain ⟨m', dd', he', _, _, d1, _⟩ := TzStr.yday_spec (n + 1) (by omega) (by omega)
  have e : (m, dd) = (m', dd') := by rw [he] at he'; injection he'
  have edd : dd = dd' := by injection e
  refine ⟨m, dd, he, ?_⟩
  rw [← C08bridge_applyDelta y _ ⟨by omega, by omega⟩ (by intro v hv; simp only [Option.some.injEq] at hv; omega)]
  exact ha

/-- **C08bridge_N365.** The last zero-based POSIX day, `n = 365`, exists only in leap years.  Since the repair of
    D-C03-yearday366 `tzstr._delta` builds `relativedelta(yearday=366)` = month 12, day 32, NO leap-day correction, and in
    every leap year 2..9998 `datetime(y,1,1) +` that delta `+ s` seconds is the POSIX day `n = 365` (December 31) plus `s`
    — on C08's copy of the `__add__` fragment and (by `C08bridge_applyDelta`) on the C03 model. -/
theorem C08bridge_N365 (y secs : Int) (hy1 : 2 ≤ y) (hy2 : y ≤ 9998) (hl : Cal.isLeap y = true)
    (hs1 : -86400 * 300 ≤ secs) (hs2 : secs < 86400 * 300) :
    TzStr.delta { yday := some 366, time := some secs } false 0 0
      = .ok { month := some 12, day := some 32, leapdays := 0, seconds := secs } ∧
    (applyTo (rdOfDelta { month := some 12, day := some 32, leapdays := 0, seconds := secs }) (jan1 y)).map secondsOf
      = .ok (Posix.ruleOrdinal y (Posix.Rule.N 365) * 86400 + secs) := by
  have he : TzStr.ydayToMonthDay 366 = .ok (12, 32) := by decide
  refine ⟨by simp [TzStr.delta, he, bind, Except.bind, pure, Except.pure], ?_⟩
  rw [← C08bridge_applyDelta y _ ⟨by omega, by omega⟩ (by intro v hv; simp only [Option.some.injEq] at hv; omega)]
  have hd : Cal.daysInMonth y 12 = 31 := by unfold Cal.daysInMonth; simp
  have hv : Cal.ValidYMD y 12 31 := ⟨by omega, by omega, by omega, by rw [hd]; omega⟩
  have mg := TzStr.ordinal_margin y 12 31 hy1 hy2 hv
  have e1 : Cal.dbmTable 1 = 0 := by decide
  have e12 : Cal.dbmTable 12 = 334 := by decide
  have hord : Cal.toOrdinal y 12 31 = Cal.toOrdinal y 1 1 + 365 := by
    unfold Cal.toOrdinal Cal.daysBeforeMonth
    rw [e1, e12, hl]; simp; omega
  unfold TzStr.applyDelta TzStr.baseInstant
  have h31 : min (31 : Int) 32 = 31 := by decide
  rw [if_neg (by omega)]
  simp only [show ((12 : Int) != 0) = true from rfl, show ((32 : Int) != 0) = true from rfl, if_true,
    show ((0 : Int) != 0) = false from rfl, Bool.false_and, Bool.false_eq_true, if_false, Int.add_zero]
  rw [if_neg (by omega)]
  simp only [hd, h31]
  rw [if_neg (by omega)]
  have hin : TzStr.inRange (Cal.toOrdinal y 12 31 * 86400 + secs) = true := by
    unfold TzStr.inRange Cal.maxOrdinal at *
    simp only [decide_eq_true_eq]; omega
  rw [if_pos hin]
  simp only [TzStr.weekdayStep]
  unfold Posix.ruleOrdinal
  rw [hord]

/-! ## `_gen` twins: the same statements about the definitions RE-TRANSLATED from /repo on this run

`Gen.addDt / Gen.raddDt / Gen.rsubDt / Gen.neg` (Generated/RDOps.lean) are produced by harness/translate_rd.py from
the working tree's `__add__` (date/datetime branch), `__radd__`, `__rsub__`, `__neg__` on every run; the primitives
they call are the named CPython operations of Model/RDPy.lean.  `RDG.addDt_eq` proves the translation EQUAL to the
hand model, so every theorem above transfers; an edit of `__add__` that changes behaviour breaks `gen_addDt_eq_model`
(or the translation). -/

/-- **gen_addDt_eq_model.** The translated `__add__` (operand a date / datetime) is the model `applyTo`. -/
theorem gen_addDt_eq_model (d : RD) (x : Temporal) : Gen.addDt d x = applyTo d x := RDG.addDt_eq d x

/-- **applyTo_eq_spec_gen.** The translated `__add__` gives exactly the documented result. -/
theorem applyTo_eq_spec_gen (d : RD) (x : Temporal) (hd : InDomain d) (hx : x.Valid) :
    Gen.addDt d x = RDSpec.apply d x := by
  rw [RDG.addDt_eq]; exact RDP.applyTo_eq_spec d x hd hx

theorem month_shift_never_spills_gen (r : RD) (x : Temporal) (hr : MonthsOnly r) (hx : x.Valid)
    (hy : 1 ≤ (12 * x.t.y + (x.t.m - 1) + (12 * r.years + r.months)) / 12 ∧
          (12 * x.t.y + (x.t.m - 1) + (12 * r.years + r.months)) / 12 ≤ 9999) :
    Gen.addDt r x = .ok { kind := x.kind, t := shiftDT x.t (12 * r.years + r.months) } := by
  rw [RDG.addDt_eq]; exact applyTo_months_only r x hr hx hy

/-- **sub_eq_add_neg_gen.** The translated `__rsub__` is the translated `__add__` of the translated `__neg__`
    (read off the source, not assumed), and the translated `__neg__` negates exactly the relative fields. -/
theorem sub_eq_add_neg_gen (d : RD) (x : Temporal) (hd : Normalised d) :
    Gen.rsubDt d x = (Gen.neg d).bind (fun nd => Gen.addDt nd x) ∧
    Gen.neg d = .ok { d with years := -d.years, months := -d.months, days := -d.days, hours := -d.hours,
                             minutes := -d.minutes, seconds := -d.seconds, microseconds := -d.microseconds } := by
  constructor
  · rw [RDG.rsubDt_eq, RDG.neg_eq]
    show rsub d x = Gen.addDt (neg d) x
    rw [RDG.addDt_eq]; rfl
  · rw [RDG.neg_eq, neg_of_normalised d hd]

/-- **radd_eq_add_gen.** The translated `__radd__` is the translated `__add__`. -/
theorem radd_eq_add_gen (d : RD) (x : Temporal) : Gen.raddDt d x = Gen.addDt d x := by
  rw [RDG.raddDt_eq, RDG.addDt_eq]; rfl

theorem promotion_iff_hasTime_gen (d : RD) (x r : Temporal) (hd : Normalised d) (h : Gen.addDt d x = .ok r) :
    r.kind = (if x.kind = .date ∧ RDSpec.hasTimeInfo d = true then .naive else x.kind) := by
  rw [RDG.addDt_eq] at h
  exact (promotion_iff_hasTime d x r hd h).1

theorem errors_only_out_of_range_gen (d : RD) (x : Temporal) (hd : InDomain d) (hx : x.Valid)
    (e : Py.PyErr) (h : Gen.addDt d x = .error e) : e = .ValueError ∨ e = .OverflowError := by
  rw [RDG.addDt_eq] at h
  rcases errors_only_out_of_range d x hd hx e h with h' | h'
  · exact Or.inl h'.1
  · exact Or.inr h'.1

/-- **gen_initKw_eq_mk.** The keyword constructor re-translated from `__init__` on this run (yearday / nlyearday
    scan, weekday coercion, `_fix`) IS the model `mk`, for every keyword set and every outcome (value, ValueError,
    IndexError). -/
theorem gen_initKw_eq_mk (kw : Kw) : Gen.initKw kw = mk kw := RDG.initKw_eq kw

/-- **yearday_spec_gen.** `yearday_spec` (full strength) about the translated constructor and the translated `__add__`. -/
theorem yearday_spec_gen (y : Int) (x : Temporal) (hx : x.Valid) (h1 : 1 ≤ y) (h2 : y ≤ Cal.daysInYear x.t.y) :
    ∃ d res, Gen.initKw { yearday := some y } = .ok d ∧ Gen.addDt d x = .ok res ∧
      res.kind = x.kind ∧ res.t.Valid ∧ res.t.y = x.t.y ∧
      res.t.ordinal = Cal.toOrdinal x.t.y 1 1 + (y - 1) ∧
      res.t.hh = x.t.hh ∧ res.t.mm = x.t.mm ∧ res.t.ss = x.t.ss ∧ res.t.us = x.t.us := by
  simpa only [RDG.initKw_eq, RDG.addDt_eq] using yearday_spec y x hx h1 h2

/-- **yearday366_nonleap_clips_gen.** -/
theorem yearday366_nonleap_clips_gen (x : Temporal) (hx : x.Valid) (hl : Cal.isLeap x.t.y = false) :
    ∃ d res, Gen.initKw { yearday := some 366 } = .ok d ∧ Gen.addDt d x = .ok res ∧
      res.kind = x.kind ∧ res.t.Valid ∧ res.t.y = x.t.y ∧ res.t.m = 12 ∧ res.t.d = 31 ∧
      res.t.hh = x.t.hh ∧ res.t.mm = x.t.mm ∧ res.t.ss = x.t.ss ∧ res.t.us = x.t.us := by
  simpa only [RDG.initKw_eq, RDG.addDt_eq] using yearday366_nonleap_clips x hx hl

/-- **nlyearday_spec_gen.** -/
theorem nlyearday_spec_gen (n : Int) (x : Temporal) (hx : x.Valid) (h1 : 1 ≤ n) (h2 : n ≤ 365) :
    ∃ d res m dd, Gen.initKw { nlyearday := some n } = .ok d ∧ Gen.addDt d x = .ok res ∧
      res.kind = x.kind ∧ res.t.Valid ∧
      Cal.dbmTable m + dd = n ∧ 1 ≤ m ∧ m ≤ 12 ∧ 1 ≤ dd ∧ dd ≤ nlDim m ∧
      res.t.y = x.t.y ∧ res.t.m = m ∧ res.t.d = dd ∧
      res.t.ordinal = Cal.toOrdinal x.t.y 1 1 + (n - 1) + (if n ≥ 60 ∧ Cal.isLeap x.t.y = true then 1 else 0) ∧
      res.t.hh = x.t.hh ∧ res.t.mm = x.t.mm ∧ res.t.ss = x.t.ss ∧ res.t.us = x.t.us := by
  simpa only [RDG.initKw_eq, RDG.addDt_eq] using nlyearday_spec n x hx h1 h2

-- non-vacuity / sanity
example : applyTo { months := 1 } ⟨.date, { y := 2000, m := 1, d := 31 }⟩
    = .ok ⟨.date, { y := 2000, m := 2, d := 29 }⟩ := by decide +kernel
example : applyTo { months := -11, years := -1, hasTime := 0 } ⟨.naive, { y := 2001, m := 1, d := 31, hh := 5 }⟩
    = .ok ⟨.naive, { y := 1999, m := 2, d := 28, hh := 5 }⟩ := by decide +kernel
example : RDSpec.apply { hours := 25, day := some 1, weekday := some (0, some 1), hasTime := 1 }
    ⟨.naive, { y := 2018, m := 4, d := 9, hh := 13, mm := 37 }⟩
    = .ok ⟨.naive, { y := 2018, m := 4, d := 2, hh := 14, mm := 37 }⟩ := by decide +kernel
example : (mk { yearday := some 60 }).bind (fun d => applyTo d ⟨.date, { y := 2001, m := 7, d := 4 }⟩)
    = .ok ⟨.date, { y := 2001, m := 3, d := 1 }⟩ := by decide +kernel
example : (mk { nlyearday := some 60 }).bind (fun d => applyTo d ⟨.naive, { y := 2000, m := 7, d := 4, hh := 9 }⟩)
    = .ok ⟨.naive, { y := 2000, m := 3, d := 1, hh := 9 }⟩ := by decide +kernel
example : TzStr.applyDelta 2024 { month := some 3, day := some 1, weekday := some (6, 2), seconds := 7200 }
    = (applyTo (rdOfDelta { month := some 3, day := some 1, weekday := some (6, 2), seconds := 7200 }) (jan1 2024)).map secondsOf :=
  C08bridge_applyDelta 2024 _ (by decide) (by intro v hv; simp only [Option.some.injEq] at hv; omega)
/-- the repaired constructor: yearday=366 in leap year 2000 is Dec 31 (was Dec 30), in 2001 it clips to Dec 31 -/
theorem yearday366_witness :
    (mk { yearday := some 366 }).bind (fun d => applyTo d ⟨.date, { y := 2000, m := 1, d := 1 }⟩)
      = .ok ⟨.date, { y := 2000, m := 12, d := 31 }⟩ ∧
    (mk { yearday := some 366 }).bind (fun d => applyTo d ⟨.naive, { y := 2001, m := 5, d := 9, hh := 7 }⟩)
      = .ok ⟨.naive, { y := 2001, m := 12, d := 31, hh := 7 }⟩ ∧
    (mk { yearday := some 365 }).bind (fun d => applyTo d ⟨.date, { y := 2000, m := 1, d := 1 }⟩)
      = .ok ⟨.date, { y := 2000, m := 12, d := 30 }⟩ := by decide +kernel
example : (1:Int) ≤ 366 ∧ (366:Int) ≤ Cal.daysInYear 2000 := by decide

end C03
