/-
  Properties/C03.lean — date + relativedelta follows the documented replace / shift / clip /
  weekday order.

  `RDM.applyTo` is the line-by-line model of `relativedelta.__add__` (tied to /repo by the
  correspondence run), `RDSpec.apply` the semantics written from the documentation.  The domain of
  the theorems is `RDP.InDomain d`: `d` is what the constructor produces (`Normalised`, i.e. the
  post-condition of the generated `_fix`, theorem C16.fix_bounds), absolute year/month/day are not 0
  (falsy ⇒ ignored by the code; outside the property), an absolute month is a month, the weekday is
  0..6 — and `x.Valid`: any date / naive / aware datetime of years 1..9999.

  Known finding D-C03-yearday366 (not about `__add__` but about the constructor's yearday table):
  the full statement would be
      ∀ y ∈ 1..9999, n ∈ 1..(365|366): date(y,·,·) + relativedelta(yearday=n) = day n of year y
  which fails exactly for n = 366 in leap years (model witness below, `yearday366_witness`).
-/
import DateutilVerif.Proofs.RDApply

namespace C03
open RDM RDP

/-- **applyTo_eq_spec.** For every delta of the domain and every valid operand, `x + d` is exactly
    the documented result — same value, or the same exception. -/
theorem applyTo_eq_spec (d : RD) (x : Temporal) (hd : InDomain d) (hx : x.Valid) :
    applyTo d x = RDSpec.apply d x := RDP.applyTo_eq_spec d x hd hx

/-- **month_shift_never_spills (the formula).** The documented month shift lands in a real month, keeps
    the month count, never exceeds the month's length and keeps the day when it fits. -/
theorem monthShift_facts (y m d k : Int) (hm : 1 ≤ m ∧ m ≤ 12) :
    1 ≤ (RDSpec.monthShift y m d k).2.1 ∧ (RDSpec.monthShift y m d k).2.1 ≤ 12 ∧
    12 * (RDSpec.monthShift y m d k).1 + ((RDSpec.monthShift y m d k).2.1 - 1) = 12 * y + (m - 1) + k ∧
    (RDSpec.monthShift y m d k).2.2 ≤ Cal.daysInMonth (RDSpec.monthShift y m d k).1 (RDSpec.monthShift y m d k).2.1 ∧
    (RDSpec.monthShift y m d k).2.2 ≤ d ∧
    (d ≤ Cal.daysInMonth (RDSpec.monthShift y m d k).1 (RDSpec.monthShift y m d k).2.1 →
      (RDSpec.monthShift y m d k).2.2 = d) := by
  unfold RDSpec.monthShift
  simp only []
  omega

/-- **month_shift_never_spills.** A delta of years/months only, applied to any operand, gives the operand
    with year/month set by the total-month formula, the day clipped to that month's length, and the
    time of day (and kind / zone) untouched — whenever the target year is in 1..9999. -/
theorem month_shift_never_spills (r : RD) (x : Temporal) (hr : MonthsOnly r) (hx : x.Valid)
    (hy : 1 ≤ (12 * x.t.y + (x.t.m - 1) + (12 * r.years + r.months)) / 12 ∧
          (12 * x.t.y + (x.t.m - 1) + (12 * r.years + r.months)) / 12 ≤ 9999) :
    applyTo r x = .ok { kind := x.kind, t := shiftDT x.t (12 * r.years + r.months) } ∧
    (shiftDT x.t (12 * r.years + r.months)).hh = x.t.hh ∧ (shiftDT x.t (12 * r.years + r.months)).mm = x.t.mm ∧
    (shiftDT x.t (12 * r.years + r.months)).ss = x.t.ss ∧ (shiftDT x.t (12 * r.years + r.months)).us = x.t.us ∧
    (shiftDT x.t (12 * r.years + r.months)).Valid :=
  ⟨applyTo_months_only r x hr hx hy, rfl, rfl, rfl, rfl, shiftDT_valid _ _ hx.1 hy⟩

/-- **weekday_fixed_point.** `weekday(±1)` (or a bare weekday, or n = 0) leaves a date that already
    falls on that weekday unchanged. -/
theorem weekday_fixed_point (w : Int) (n : Option Int) (ret : DT) (hv : ret.Valid)
    (hn : orInt n 1 = 1 ∨ orInt n 1 = -1) (hw : ret.weekday = w) :
    applyWeekday (some (w, n)) ret = .ok ret := by
  have hj : jumpDays w n ret.weekday = 0 := by
    unfold jumpDays Py.iabs; rw [hw]
    rcases hn with h | h <;> rw [h] <;> simp
  unfold applyWeekday
  simp only [hj]
  unfold DT.addDays DT.addMicros
  have hr := toMicros_range ret hv
  simp only [Int.zero_mul, Int.add_zero]
  rw [if_neg (by omega), DT.ofMicros_toMicros ret hv]

/-- **weekday_minimal.** When the weekday step succeeds the result has that weekday and the same time of
    day; for nth > 0 it is `j0 + 7·(nth−1)` days later where `j0 ∈ 0..6` is the *first* offset with that
    weekday (no day with that weekday in `[ret, ret + j0)`, hence exactly nth−1 of them strictly
    between `ret + j0` and the result… i.e. the nth on or after); mirrored for nth < 0. -/
theorem weekday_minimal (w : Int) (n : Option Int) (ret r : DT) (hv : ret.Valid) (hw : 0 ≤ w ∧ w ≤ 6)
    (h : applyWeekday (some (w, n)) ret = .ok r) :
    r.Valid ∧ r.weekday = w ∧ r.hh = ret.hh ∧ r.mm = ret.mm ∧ r.ss = ret.ss ∧ r.us = ret.us ∧
    (orInt n 1 > 0 → ∃ j0, 0 ≤ j0 ∧ j0 < 7 ∧ Cal.weekdayOfOrd (ret.ordinal + j0) = w ∧
        (∀ i, 0 ≤ i → i < j0 → Cal.weekdayOfOrd (ret.ordinal + i) ≠ w) ∧
        r.ordinal = ret.ordinal + j0 + 7 * (orInt n 1 - 1)) ∧
    (orInt n 1 < 0 → ∃ j0, 0 ≤ j0 ∧ j0 < 7 ∧ Cal.weekdayOfOrd (ret.ordinal - j0) = w ∧
        (∀ i, 0 ≤ i → i < j0 → Cal.weekdayOfOrd (ret.ordinal - i) ≠ w) ∧
        r.ordinal = ret.ordinal - j0 - 7 * (-(orInt n 1) - 1)) := by
  unfold applyWeekday at h
  simp only [] at h
  obtain ⟨hrv, hord, _, h1, h2, h3, h4⟩ := addDays_ok ret r _ hv h
  have hwr := Cal.weekdayOfOrd_range ret.ordinal
  refine ⟨hrv, ?_, h1, h2, h3, h4, ?_, ?_⟩
  · unfold DT.weekday at *
    rw [hord]
    unfold jumpDays Py.iabs Cal.weekdayOfOrd at *
    generalize orInt n 1 = k at *
    split <;> split <;> omega
  · intro hk
    refine ⟨(7 - ret.weekday + w) % 7, by omega, by omega, ?_, ?_, ?_⟩
    · unfold DT.weekday Cal.weekdayOfOrd at *; omega
    · intro i hi0 hi; unfold DT.weekday Cal.weekdayOfOrd at *; omega
    · rw [hord]; unfold jumpDays Py.iabs
      generalize orInt n 1 = k at *
      rw [if_pos hk]; split <;> omega
  · intro hk
    refine ⟨(ret.weekday - w) % 7, by omega, by omega, ?_, ?_, ?_⟩
    · unfold DT.weekday Cal.weekdayOfOrd at *; omega
    · intro i hi0 hi; unfold DT.weekday Cal.weekdayOfOrd at *; omega
    · rw [hord]; unfold jumpDays Py.iabs
      generalize orInt n 1 = k at *
      rw [if_neg (by omega)]; split <;> omega

/-- **sub_eq_add_neg.** `x - d` is `x + (-d)` (this is how `__rsub__` is written), and on a normalised
    delta `-d` negates exactly the relative fields. -/
theorem sub_eq_add_neg (d : RD) (x : Temporal) (hd : Normalised d) :
    rsub d x = applyTo (neg d) x ∧
    neg d = { d with years := -d.years, months := -d.months, days := -d.days, hours := -d.hours,
                     minutes := -d.minutes, seconds := -d.seconds, microseconds := -d.microseconds } :=
  ⟨rfl, neg_of_normalised d hd⟩

/-- **radd_eq_add.** `d + x` and `x + d` are the same computation. -/
theorem radd_eq_add (d : RD) (x : Temporal) : radd d x = applyTo d x := rfl

/-- **promotion_iff_hasTime.** Whenever `x + d` returns, the result is a date iff the operand is a date
    and the delta carries no time information; a datetime operand keeps its kind and zone. -/
theorem promotion_iff_hasTime (d : RD) (x r : Temporal) (hd : Normalised d) (h : applyTo d x = .ok r) :
    r.kind = (if x.kind = .date ∧ RDSpec.hasTimeInfo d = true then .naive else x.kind) ∧
    (x.kind = .date → (r.kind = .naive ↔ RDSpec.hasTimeInfo d = true)) ∧
    (x.kind ≠ .date → r.kind = x.kind) := by
  have hk : r.kind = (promote d x).kind := by
    unfold applyTo applyTail at h
    simp only [bind, Except.bind, pure, Except.pure] at h
    repeat' split at h
    all_goals first | contradiction | (injection h with h; rw [← h])
  rw [promote_kind d x hd] at hk
  refine ⟨hk, ?_, ?_⟩
  · intro hx
    rw [hk]
    by_cases ht : RDSpec.hasTimeInfo d = true <;> simp [hx, ht]
  · intro hx; rw [hk]; simp [hx]

/-- **errors_only_out_of_range.** On the domain the only failures are: a replaced / shifted field out
    of its range (ValueError; OverflowError if it does not even fit a C int), or the duration / weekday
    step leaving years 1..9999 (OverflowError). No AssertionError, TypeError or any other kind. -/
theorem errors_only_out_of_range (d : RD) (x : Temporal) (hd : InDomain d) (hx : x.Valid)
    (e : Py.PyErr) (h : applyTo d x = .error e) :
    let s := RDSpec.monthShift (d.year.getD x.t.y) (d.month.getD x.t.m) (d.day.getD x.t.d) (12 * d.years + d.months)
    let t1 := RDSpec.shiftedDT d x.t s.1 s.2.1 s.2.2
    let x2 := RDSpec.afterDuration d x.t s.1 s.2.1 s.2.2
    (e = .ValueError ∧ ¬ t1.Valid) ∨
    (e = .OverflowError ∧ (fitsCInt t1 = false ∨ x2 < DT.minMicros ∨ x2 > DT.maxMicros ∨
       ∃ w n, d.weekday = some (w, n) ∧
         (RDSpec.afterWeekday x2 w n < DT.minMicros ∨ RDSpec.afterWeekday x2 w n > DT.maxMicros))) := by
  rw [RDP.applyTo_eq_spec d x hd hx] at h
  unfold RDSpec.apply RDSpec.applyShifted at h
  simp only [] at h ⊢
  split at h
  · injection h with h; right; refine ⟨h.symm, Or.inl ?_⟩; simp_all
  · split at h
    · rename_i hv; injection h with h; left; exact ⟨h.symm, hv⟩
    · split at h
      · rename_i hr; injection h with h; right; refine ⟨h.symm, Or.inr ?_⟩
        rcases hr with hr | hr
        · exact Or.inl hr
        · exact Or.inr (Or.inl hr)
      · unfold RDSpec.weekdayStep at h
        split at h
        · contradiction
        · rename_i w n hwd
          split at h
          · rename_i hr; injection h with h; right
            exact ⟨h.symm, Or.inr (Or.inr (Or.inr ⟨w, n, hwd, hr⟩))⟩
          · contradiction

-- non-vacuity / sanity
example : applyTo { months := 1 } ⟨.date, { y := 2000, m := 1, d := 31 }⟩
    = .ok ⟨.date, { y := 2000, m := 2, d := 29 }⟩ := by decide +kernel
example : applyTo { months := -11, years := -1, hasTime := 0 } ⟨.naive, { y := 2001, m := 1, d := 31, hh := 5 }⟩
    = .ok ⟨.naive, { y := 1999, m := 2, d := 28, hh := 5 }⟩ := by decide +kernel
example : RDSpec.apply { hours := 25, day := some 1, weekday := some (0, some 1), hasTime := 1 }
    ⟨.naive, { y := 2018, m := 4, d := 9, hh := 13, mm := 37 }⟩
    = .ok ⟨.naive, { y := 2018, m := 4, d := 2, hh := 14, mm := 37 }⟩ := by decide +kernel
/-- the model reproduces the known finding: yearday=366 in leap year 2000 gives Dec 30 -/
theorem yearday366_witness :
    (mk { yearday := some 366 }).bind (fun d => applyTo d ⟨.date, { y := 2000, m := 1, d := 1 }⟩)
      = .ok ⟨.date, { y := 2000, m := 12, d := 30 }⟩ := by decide +kernel

end C03
