import DateutilVerif.Proofs.RDAlgebra
namespace C03
theorem stub : True := trivial
end C03
